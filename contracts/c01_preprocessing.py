"""C01 - composition of the evaluation sequences (EvaluationProblem._preprocess_function / preprocess_functions) and
normalisation of linear functions (MDOLinearFunction.normalize).

Part B (MDOLinearFunction.normalize, precise numpy model + abstract CSR matrices of pyvc/plug_c01.py):
  * dense coefficients: result.A[i, j] = A[i, j] * s[j], result.b[i] = sum_k A[i, k] * shift[k] + b[i] computed from the ORIGINAL coefficients,
    with s = ub - lb on normalised components / 1 elsewhere and shift = lb on normalised components / 0 elsewhere; hence (lemma, by induction
    on the prefix sums) result.func(xn) = self.func(U(xn)) for every xn and result.jac = self.jac * diag(s);
  * sparse (CSR) coefficients: result.data[p] = data[p] * s[indices[p]] in FRESH arrays, same indices / indptr / shape, offset computed by the
    matrix-vector product of the ORIGINAL arrays;
  * frame: the coefficients of ``self`` (dense array, or the three CSR arrays), its offset and every other attribute but ``last_eval`` / ``dim``
    (written by ``evaluate``) are unchanged, the design space is unchanged.
Part A: see the second half of this file.
"""
from __future__ import annotations

import z3

from pyvc import gmodels as G
from pyvc.contract import Contract, LoopSpec, register, schema
from pyvc.npmodel import TArr
from pyvc.plug_c01 import CsrObj, SelfMethod, SelfRef, TCsr, csr_matvec
from pyvc.plug_np_c10 import psum_fn
from pyvc.values import forall_pat as fa
from pyvc.values import (BoundMethod, PyObj, Ref, SV, TBool, TCallable, TDict, TInt, TList, TNd, TObj, TOpt, TReal, TRec, TStr, TVal, ValS,
                         str_lit, val_none)

A = "gemseo.algos."
DS = A + "design_space.DesignSpace"
MDOF = "gemseo.core.mdo_functions.mdo_function.MDOFunction"
LIN = "gemseo.core.mdo_functions.mdo_linear_function.MDOLinearFunction"
F1, F2, I1, B1 = TArr("f", 1), TArr("f", 2), TArr("i", 1), TArr("b", 1)
psum = psum_fn("f")

# ---------------------------------------------------------------------------- abstract view of the design space
# lower / upper bound vectors and the normalisation policy of every component (= convert_dict_to_array(normalize))
schema(DS + "#c01", {
    "dimension": TInt,
    "_DesignSpace__lower_bounds_array": F1,
    "_DesignSpace__upper_bounds_array": F1,
    "ghost_norm_policies": B1,
    "normalize": TVal,
})


def el(a, *i):
    return a.obj.at(*i)


def ln(a, ax=0):
    return a.obj.shape[ax]


def ds_view(s):
    class _:  # noqa: N801
        dim = s.dimension
        lb, ub, pol = s._DesignSpace__lower_bounds_array, s._DesignSpace__upper_bounds_array, s.ghost_norm_policies
    return _


def ds_wf(s):
    d = ds_view(s)
    return [("space-lengths", z3.And(d.dim >= 0, ln(d.lb) == d.dim, ln(d.ub) == d.dim, ln(d.pol) == d.dim))]


def scale_at(d, j):
    """s[j] = ub[j] - lb[j] on normalised components, 1 elsewhere."""
    return z3.If(el(d.pol, j), el(d.ub, j) - el(d.lb, j), z3.RealVal(1))


def shift_at(d, j):
    """shift[j] = lb[j] on normalised components, 0 elsewhere."""
    return z3.If(el(d.pol, j), el(d.lb, j), z3.RealVal(0))


class _SpaceGetter(Contract):
    prop = ("C01", "C10")
    self_schema = DS + "#c01"
    numpy = "precise"
    returns = F1
    trusted = True
    field = ""

    def requires(self, c):
        return ds_wf(c.old.self) + [("all-the-variables", z3.BoolVal(c.arg("variable_names") == () and c.arg("as_dict") is False))]

    def ensures(self, c):
        a = getattr(c.old.self, self.field)
        j = z3.Int("j!sg")
        return [("length", ln(c.result) == ln(a)),
                ("values", fa([j], z3.Implies(z3.And(0 <= j, j < ln(a)), el(c.result, j) == el(a, j)), el(c.result, j)))]


@register
class GetLowerBounds(_SpaceGetter):
    targets = (DS + ".get_lower_bounds",)
    field = "_DesignSpace__lower_bounds_array"
    description = "assumed (design-space bookkeeping, C02 domain): get_lower_bounds() is the vector of the lower bounds of all the components"


@register
class GetUpperBounds(_SpaceGetter):
    targets = (DS + ".get_upper_bounds",)
    field = "_DesignSpace__upper_bounds_array"
    description = "assumed (design-space bookkeeping, C02 domain): get_upper_bounds() is the vector of the upper bounds of all the components"


@register
class ConvertNormalizeToArray(Contract):
    targets = (DS + ".convert_dict_to_array",)
    prop = ("C01", "C10")
    self_schema = DS + "#c01"
    numpy = "precise"
    params = {"design_values": TVal}
    returns = B1
    trusted = True
    description = ("assumed (design-space bookkeeping, C02 domain): convert_dict_to_array(self.normalize) is the boolean vector telling, component by "
                   "component, whether the variable is normalised (the abstract view `ghost_norm_policies` of the design space)")

    def requires(self, c):
        return ds_wf(c.old.self) + [("argument-is-the-normalisation-policies", c.old.design_values == c.old.self.normalize),
                                    ("all-the-variables", z3.BoolVal(c.arg("variable_names") == ()))]

    def ensures(self, c):
        a = c.old.self.ghost_norm_policies
        j = z3.Int("j!cn")
        return [("length", ln(c.result) == ln(a)),
                ("values", fa([j], z3.Implies(z3.And(0 <= j, j < ln(a)), el(c.result, j) == el(a, j)), el(c.result, j)))]


# ---------------------------------------------------------------------------- linear functions
def _lin_fields(coeff_type):
    return {
        "_coefficients": coeff_type,
        "_value_at_zero": F1,
        "name": TStr,
        "f_type": TStr,
        "expr": TStr,
        "_input_names": TList(TStr),
        "_output_names": TList(TStr),
        "_func": SelfMethod(LIN, "_func_to_wrap"),
        "_jac": SelfMethod(LIN, "_jac_to_wrap"),
        "dim": TInt,
        "last_eval": TVal,
        "force_real": TBool,
        "special_repr": TStr,
        "has_default_name": TBool,
        "_MDOFunction__original_name": TStr,
        "_MDOFunction__expects_normalized_inputs": TBool,
        "_MDOLinearFunction__initial_expression": TOpt(TStr),
        "original": SelfRef(LIN),
    }


schema(LIN + "#dense", _lin_fields(F2))
schema(LIN + "#sparse", _lin_fields(TCsr))
# fields of ``self`` that normalize must leave alone (``last_eval`` and ``dim`` are written by ``evaluate``)
KEPT_SCALARS = ("name", "f_type", "expr", "force_real", "special_repr", "has_default_name", "_MDOFunction__original_name",
                "_MDOFunction__expects_normalized_inputs", "_MDOLinearFunction__initial_expression")


class _StringGlue(Contract):
    prop = ("C01", "C10")
    trusted = True
    description = "assumed: builds the textual expression / input names of a linear function (strings only, no effect on the state)"


@register
class Generate1dExpr(_StringGlue):
    targets = (LIN + "._generate_1d_expr",)
    params = {"input_names": TList(TStr)}
    returns = TStr


@register
class GenerateNdExpr(_StringGlue):
    targets = (LIN + "._generate_nd_expr",)
    params = {"input_names": TList(TStr)}
    returns = TStr


@register
class GenerateInputNames(_StringGlue):
    targets = (MDOF + ".generate_input_names",)
    params = {"input_dim": TInt, "input_names": TList(TStr)}
    returns = TList(TStr)


def same_list(a, b):
    j = z3.Int("j!sl")
    return z3.And(a.n == b.n, z3.ForAll([j], z3.Implies(z3.And(0 <= j, j < a.n), a.elems[j] == b.elems[j])))


def is_own_method(v, owner_ref, method):
    return isinstance(v, BoundMethod) and isinstance(v.recv, Ref) and v.recv.id == owner_ref.id and v.finfo is not None and \
        v.finfo.qualname == f"{LIN}.{method}"


def shift_witness(c):
    """The vector `shift` of the code: the local of the verified function, a fresh witness at call sites."""
    loc = getattr(c, "locals", None)
    if loc is not None and "shift" in loc:
        return loc["shift"].obj.elems
    # one witness per returned function (the caller's own postconditions may restate the clause about the same result)
    return c.st.ghost.setdefault(("c01_shift", c.result_value.id), z3.FreshConst(z3.ArraySort(z3.IntSort(), z3.RealSort()), "shift"))


class _Normalize(Contract):
    targets = (LIN + ".normalize",)
    prop = ("C01", "C10")  # C10: normalization of a linear function evaluates / differentiates exactly, operand untouched
    numpy = "precise"
    c01 = True
    frame_arrays = True
    modifies = ("self",)
    returns = None

    def _common_requires(self, c):
        s = c.old.self
        return ds_wf(c.old.input_space) + [
            ("offset-length", ln(s._value_at_zero) == self.rows(c)),  # class invariant (value_at_zero setter)
            ("defined-over-the-space", self.cols(c) == c.old.input_space.dimension),
        ]

    def _kept(self, c):
        """Frame of ``self``: everything but last_eval / dim (and the coefficients, stated by the subclasses)."""
        s0, s1 = c.old.self, c.new.self
        j = z3.Int("j!kp")
        out = [(f"self-kept:{f}", getattr(s1, f) == getattr(s0, f) if not isinstance(getattr(s0, f), View_) else getattr(s1, f).term == getattr(s0, f).term)
               for f in KEPT_SCALARS]
        out += [
            ("self-kept:offset-array", z3.BoolVal(s1._value_at_zero.ref.id == s0._value_at_zero.ref.id)),
            ("self-kept:offset", z3.And(ln(s1._value_at_zero) == ln(s0._value_at_zero),
                                        z3.ForAll([j], z3.Implies(z3.And(0 <= j, j < ln(s0._value_at_zero)), el(s1._value_at_zero, j) == el(s0._value_at_zero, j))))),
            ("self-kept:coefficients-object", z3.BoolVal(s1._coefficients.ref.id == s0._coefficients.ref.id)),
            ("self-kept:input-names", same_list(s1._input_names, s0._input_names)),
            ("self-kept:output-names", same_list(s1._output_names, s0._output_names)),
            ("self-kept:func", z3.BoolVal(is_own_method(c.new.self.obj.fields["_func"], c.arg("self"), "_func_to_wrap"))),
            ("self-kept:jac", z3.BoolVal(is_own_method(c.new.self.obj.fields["_jac"], c.arg("self"), "_jac_to_wrap"))),
            ("self-kept:original", z3.BoolVal(c.new.self.obj.fields["original"] == c.arg("self"))),
            ("self-kept:dim", z3.Implies(s0.dim != 0, s1.dim == s0.dim)),
        ]
        return out

    def _result_common(self, c):
        s0, r = c.old.self, c.result
        rref = c.result_value
        return [
            ("result:is-a-new-linear-function", z3.BoolVal(isinstance(rref, Ref) and rref.id != c.arg("self").id and c.result.obj.cls == LIN)),
            ("result:expects-normalized-inputs", r._MDOFunction__expects_normalized_inputs),
            ("result:name", r.name == s0.name),
            ("result:f_type", r.f_type == s0.f_type),
            ("result:func-is-its-own-linear-map", z3.BoolVal(is_own_method(c.result.obj.fields["_func"], rref, "_func_to_wrap"))),
            ("result:jac-is-its-own-coefficients", z3.BoolVal(is_own_method(c.result.obj.fields["_jac"], rref, "_jac_to_wrap"))),
            ("result:original-is-itself", z3.BoolVal(c.result.obj.fields["original"] == rref)),
            ("result:output-dimension", r.dim == self.rows(c)),
        ]


from pyvc.contract import View as View_  # noqa: E402


@register
class NormalizeDense(_Normalize):
    """Dense coefficients (rank-2 array)."""

    self_schema = LIN + "#dense"
    params = {"input_space": TObj(DS, schema_key=DS + "#c01")}
    returns = TObj(LIN, schema_key=LIN + "#dense")
    c01_construct = {LIN: LIN + "#dense"}

    def rows(self, c):
        return ln(c.old.self._coefficients, 0)

    def cols(self, c):
        return ln(c.old.self._coefficients, 1)

    def requires(self, c):
        return self._common_requires(c)

    def ensures(self, c):
        s0, s1, r = c.old.self, c.new.self, c.result
        d = ds_view(c.old.input_space)
        A0, A1, RA = s0._coefficients, s1._coefficients, r._coefficients
        b0, Rb = s0._value_at_zero, r._value_at_zero
        m, n = self.rows(c), self.cols(c)
        i, j, k = z3.Int("i!nd"), z3.Int("j!nd"), z3.Int("k!nd")
        inr = z3.And(0 <= i, i < m, 0 <= j, j < n)
        sh = shift_witness(c)
        return self._result_common(c) + [
            ("result:coefficients-shape", z3.And(ln(RA, 0) == m, ln(RA, 1) == n)),
            ("result:coefficients-scaled", fa([i, j], z3.Implies(inr, el(RA, i, j) == el(A0, i, j) * scale_at(d, j)), el(RA, i, j))),
            ("result:offset-length", ln(Rb) == m),
            # the offset is A0 @ shift + b0 for the vector `shift` of the code (a witness at call sites), which is the spec vector point-wise
            ("shift-vector", fa([k], z3.Implies(z3.And(0 <= k, k < n), sh[k] == shift_at(d, k)), sh[k])),
            ("result:offset-from-the-original-coefficients",
             fa([i], z3.Implies(z3.And(0 <= i, i < m), el(Rb, i) == psum(z3.Lambda([k], el(A0, i, k) * sh[k]), n) + el(b0, i)), el(Rb, i))),
            ("self-kept:coefficients", z3.And(ln(A1, 0) == m, ln(A1, 1) == n, fa([i, j], z3.Implies(inr, el(A1, i, j) == el(A0, i, j)), el(A1, i, j)))),
        ] + self._kept(c)


def csr_parts(v):
    """(CsrObj, data ArrObj, indices ArrObj, indptr ArrObj) of a view on a CSR matrix, in the heap of the view."""
    o = v.obj
    h = v._heap
    return o, h[o.data.id], h[o.indices.id], h[o.indptr.id]


def same_vec(a, b, n=None):
    """Two ArrObj vectors have the same length and elements."""
    j = z3.Int("j!sv")
    return z3.And(a.shape[0] == b.shape[0], fa([j], z3.Implies(z3.And(0 <= j, j < a.shape[0]), a.elems[j] == b.elems[j]), a.elems[j]))


@register
class NormalizeSparse(_Normalize):
    """Sparse coefficients (scipy CSR matrix, abstract model of pyvc/plug_c01.py)."""

    variant = "sparse"
    self_schema = LIN + "#sparse"
    params = {"input_space": TObj(DS, schema_key=DS + "#c01")}
    returns = TObj(LIN, schema_key=LIN + "#sparse")
    c01_construct = {LIN: LIN + "#sparse"}

    def rows(self, c):
        return c.old.self._coefficients.obj.shape[0]

    def cols(self, c):
        return c.old.self._coefficients.obj.shape[1]

    def requires(self, c):
        M, data, ind, ptr = csr_parts(c.old.self._coefficients)
        p = z3.Int("p!cw")
        return self._common_requires(c) + [
            # class invariant of a CSR matrix: one column index per stored value, within the number of columns
            ("csr-lengths", z3.And(data.shape[0] == ind.shape[0])),
            ("csr-column-indices", fa([p], z3.Implies(z3.And(0 <= p, p < ind.shape[0]), z3.And(0 <= ind.elems[p], ind.elems[p] < M.shape[1])), ind.elems[p])),
        ]

    def ensures(self, c):
        s0, s1, r = c.old.self, c.new.self, c.result
        d = ds_view(c.old.input_space)
        M0, data0, ind0, ptr0 = csr_parts(s0._coefficients)
        M1, data1, ind1, ptr1 = csr_parts(s1._coefficients)
        b0, Rb = s0._value_at_zero, r._value_at_zero
        m, n = self.rows(c), self.cols(c)
        i, k, p = z3.Int("i!ns"), z3.Int("k!ns"), z3.Int("p!ns")
        sh = shift_witness(c)
        out = self._result_common(c)
        rc = r._coefficients
        is_csr = isinstance(rc.obj, CsrObj)
        out.append(("result:coefficients-are-a-csr-matrix", z3.BoolVal(is_csr)))
        if is_csr:
            MR, dataR, indR, ptrR = csr_parts(rc)
            out += [
                ("result:coefficients-shape", z3.And(MR.shape[0] == m, MR.shape[1] == n)),
                ("result:same-sparsity-pattern", z3.And(same_vec(indR, ind0), same_vec(ptrR, ptr0))),
                ("result:stored-values-scaled", z3.And(dataR.shape[0] == data0.shape[0],
                                                       fa([p], z3.Implies(z3.And(0 <= p, p < data0.shape[0]), dataR.elems[p] == data0.elems[p] * scale_at(d, ind0.elems[p])), dataR.elems[p]))),
            ]
        out += [
            ("result:offset-length", ln(Rb) == m),
            ("shift-vector", fa([k], z3.Implies(z3.And(0 <= k, k < n), sh[k] == shift_at(d, k)), sh[k])),
            ("result:offset-from-the-original-coefficients",
             fa([i], z3.Implies(z3.And(0 <= i, i < m), el(Rb, i) == csr_matvec(ptr0.elems, ind0.elems, data0.elems, sh)[i] + el(b0, i)), el(Rb, i))),
            ("self-kept:coefficients-arrays", z3.BoolVal((M1.data.id, M1.indices.id, M1.indptr.id) == (M0.data.id, M0.indices.id, M0.indptr.id))),
            ("self-kept:coefficients-shape", z3.And(M1.shape[0] == m, M1.shape[1] == n)),
            ("self-kept:stored-values", same_vec(data1, data0)),
            ("self-kept:sparsity-pattern", z3.And(same_vec(ind1, ind0), same_vec(ptr1, ptr0))),
        ]
        return out + self._kept(c)


# ============================================================================ Part A: composition of the evaluation sequences
# EvaluationProblem._preprocess_function builds a ProblemFunction from a function and four flags.  The ProblemFunction constructor is a
# RECORD MODEL (pyvc/plug_c01.py): the postconditions talk about the arguments it receives.  A callable is identified by what it is:
# the bound method <name> of <object>, or the (opaque) callable held by the `_func` / `_jac` attribute of the function at entry.
# Specification from the property statement:
#     F-seq = F o R? o U?                                  (U iff the caller's coordinates are normalised, R iff integer rounding)
#     J-seq = normalize_grad? o dense? o J o R? o U?       (normalize_grad iff normalised coordinates, dense iff no sparse support)
# A linear function in normalised coordinates without rounding may instead be replaced by g = function.normalize(design_space), for which
# g.func = F o U and g.jac = normalize_grad o J (contract of MDOLinearFunction.normalize above): F-seq = [g.func], J-seq = dense? o g.jac.
from pyvc import contract as C  # noqa: E402

EP = A + "evaluation_problem.EvaluationProblem"
PF = A + "problem_function.ProblemFunction"
CNT = A + "evaluation_counter.EvaluationCounter"
DB = A + "database.Database"
OPTS = TDict(TStr, TVal)

schema(MDOF + "#c01", {
    "name": TStr,
    "_func": TCallable,
    "_jac": TCallable,
    "_MDOFunction__expects_normalized_inputs": TBool,
})
schema(EP + "#pp", {
    "design_space": TObj(DS, schema_key=DS + "#c01"),
    "database": TObj(DB),
    "evaluation_counter": TObj(CNT),
    "_stop_if_nan": TBool,
    "differentiation_method": TStr,
    "differentiation_step": TReal,
    "_EvaluationProblem__parallel_differentiation": TBool,
    "_EvaluationProblem__parallel_differentiation_options": OPTS,
    "_functions_are_preprocessed": TBool,
})
# the arguments of ProblemFunction.__init__ (+ the attribute `original` set afterwards)
schema(PF + "#record", {k: TVal for k in (
    "function", "output_evaluation_sequence", "jacobian_evaluation_sequence", "with_normalized_inputs", "database", "counter", "stop_if_nan",
    "design_space", "store_jacobian", "differentiation_method", "differentiation_method_options.step", "differentiation_method_options.normalize",
    "differentiation_method_options.parallel", "differentiation_method_options.**", "original")})

APPROXIMATION_MODES = ("complex_step", "finite_differences", "centered_differences")


def same_callable(a, b):
    if isinstance(a, BoundMethod) and isinstance(b, BoundMethod):
        ra = a.recv.id if isinstance(a.recv, Ref) else a.recv
        rb = b.recv.id if isinstance(b.recv, Ref) else b.recv
        return ra == rb and a.finfo is not None and b.finfo is not None and a.finfo.qualname == b.finfo.qualname
    if isinstance(a, SV) and isinstance(b, SV):
        return a.ty == b.ty and a.term.eq(b.term)
    return False


def is_method(v, recv_ref, qualname):
    if not (isinstance(v, BoundMethod) and v.finfo is not None and v.finfo.qualname == qualname):
        return False
    return v.recv is None if recv_ref is None else (isinstance(v.recv, Ref) and v.recv.id == recv_ref.id)


def raw(view, field):
    """The raw (engine-level) value of a field of the object behind a view."""
    return view.obj.fields[field]


def zb(x):
    return z3.BoolVal(x) if isinstance(x, bool) else x


class _Preprocess(Contract):
    targets = (EP + "._preprocess_function",)
    prop = ("C01",)
    self_schema = EP + "#pp"
    c01 = True
    c01_records = {PF: PF + "#record"}
    linear = False

    def flags(self, c):
        o = c.old
        return zb(o.is_function_input_normalized), zb(o.use_database), zb(o.round_ints), zb(o.support_sparse_jacobian), zb(o.store_jacobian)

    # -- what the sequences must be, for concrete values of the flags
    def expected(self, c, norm, rnd, sparse, normalized_function=None):
        """List of alternatives (F-seq, J-seq); a sequence is a list of matchers (raw value -> bool)."""
        ds = c.arg("self") and raw(c.old.self, "design_space")
        fn = c.old.function
        U = lambda v: is_method(v, ds, DS + ".unnormalize_vect")  # noqa: E731,N806
        R = lambda v: is_method(v, ds, DS + ".round_vect")  # noqa: E731,N806
        NG = lambda v: is_method(v, ds, DS + ".normalize_grad")  # noqa: E731,N806
        dense = lambda v: is_method(v, None, EP + "._convert_array_to_dense")  # noqa: E731
        F = lambda v: same_callable(v, raw(fn, "_func"))  # noqa: E731,N806
        J = lambda v: same_callable(v, raw(fn, "_jac"))  # noqa: E731,N806
        fseq = ([U] if norm else []) + ([R] if rnd else []) + [F]
        jseq = ([U] if norm else []) + ([R] if rnd else []) + [J] + ([] if sparse else [dense]) + ([NG] if norm else [])
        alts = [(fseq, jseq, fn.ref)]
        if self.linear and norm and not rnd and normalized_function is not None:
            g = normalized_function
            alts.append(([lambda v: is_method(v, g, LIN + "._func_to_wrap")], [lambda v: is_method(v, g, LIN + "._jac_to_wrap")] + ([] if sparse else [dense]), g))
        return alts

    @staticmethod
    def matches(seq, matchers):
        return isinstance(seq, tuple) and len(seq) == len(matchers) and all(m(v) for m, v in zip(matchers, seq))

    def normalized_function(self, c):
        """In the linear variant: the record's function when it is a NEW linear function (candidate for g = function.normalize(space))."""
        return None

    def ensures(self, c):
        norm, use_db, rnd, sparse, store = self.flags(c)
        s0 = c.old.self
        r = c.result
        rref = c.result_value
        is_rec = isinstance(rref, Ref) and isinstance(c._new_heap.get(rref.id), PyObj) and c._new_heap[rref.id].cls == PF and rref.id not in c._old_heap
        out = [("result:is-a-new-problem-function", z3.BoolVal(is_rec))]
        if not is_rec:
            return out
        fseq, jseq, fun = raw(r, "output_evaluation_sequence"), raw(r, "jacobian_evaluation_sequence"), raw(r, "function")
        g = self.normalized_function(c)
        for bn in (True, False):
            for br in (True, False):
                for bs in (True, False):
                    cond = z3.And(norm == bn, rnd == br, sparse == bs)
                    alts = self.expected(c, bn, br, bs, g)
                    tag = f"{'normalized' if bn else 'physical'},{'rounding' if br else 'no-rounding'},{'sparse' if bs else 'dense'}"
                    ok_f = any(self.matches(fseq, a[0]) and self.matches(jseq, a[1]) and isinstance(fun, Ref) and fun.id == a[2].id for a in alts)
                    out.append((f"sequences[{tag}]", z3.Implies(cond, z3.BoolVal(ok_f))))
        fn0 = c.old.function
        dm = s0.differentiation_method
        is_mode = z3.Or(*[dm == str_lit(m) for m in APPROXIMATION_MODES])
        rdm = raw(r, "differentiation_method")
        rdb = raw(r, "database")
        out += [
            ("with-normalized-inputs", zb(C.View(c._new_heap, raw(r, "with_normalized_inputs"), c.st)._wrap(raw(r, "with_normalized_inputs")))
             == z3.If(norm, z3.BoolVal(True), fn0._MDOFunction__expects_normalized_inputs)),
            ("database-iff-used", z3.And(z3.Implies(use_db, z3.BoolVal(isinstance(rdb, Ref) and rdb.id == raw(s0, "database").id)),
                                         z3.Implies(z3.Not(use_db), z3.BoolVal(rdb is None)))),
            ("counter", z3.BoolVal(raw(r, "counter") == raw(s0, "evaluation_counter"))),
            ("design-space", z3.BoolVal(raw(r, "design_space") == raw(s0, "design_space"))),
            ("stop-if-nan", zb(_term(raw(r, "stop_if_nan"))) == s0._stop_if_nan),
            ("store-jacobian", zb(_term(raw(r, "store_jacobian"))) == store),
            ("differentiation-method", z3.And(z3.Implies(is_mode, z3.BoolVal(isinstance(rdm, SV)) if not isinstance(rdm, SV) else rdm.term == dm),
                                              z3.Implies(z3.Not(is_mode), z3.BoolVal(rdm is None)))),
            ("differentiation-step", _term(raw(r, "differentiation_method_options.step")) == s0.differentiation_step),
            ("differentiation-normalize", zb(_term(raw(r, "differentiation_method_options.normalize"))) == norm),
            ("differentiation-parallel", zb(_term(raw(r, "differentiation_method_options.parallel"))) == s0._EvaluationProblem__parallel_differentiation),
            ("original-is-the-given-function", z3.BoolVal(raw(r, "original") == c.arg("function"))),
        ]
        return out


def _term(v):
    return v.term if isinstance(v, SV) else v


PP_PARAMS = {"is_function_input_normalized": TBool, "use_database": TBool, "round_ints": TBool, "support_sparse_jacobian": TBool, "store_jacobian": TBool}


@register
class PreprocessNonLinear(_Preprocess):
    """Any function that is not an MDOLinearFunction (its `_func` / `_jac` are opaque callables)."""

    variant = "nonlinear"
    params = dict(PP_PARAMS, function=TObj(MDOF, schema_key=MDOF + "#c01"))


@register
class PreprocessLinear(_Preprocess):
    """An MDOLinearFunction with dense coefficients: in normalised coordinates without rounding it is replaced by
    g = function.normalize(design_space) (contract NormalizeDense, restated here about g); otherwise it is left untouched."""

    variant = "linear"
    linear = True
    numpy = "precise"
    frame_arrays = True
    params = dict(PP_PARAMS, function=TObj(LIN, schema_key=LIN + "#dense"))
    modifies = ("function",)  # `last_eval` / `dim` are written by function.evaluate(shift) inside normalize

    def requires(self, c):
        f = c.old.function
        ds = c.old.self.design_space
        return ds_wf(ds) + [("offset-length", ln(f._value_at_zero) == ln(f._coefficients, 0)),
                            ("defined-over-the-space", ln(f._coefficients, 1) == ds.dimension)]

    def normalized_function(self, c):
        fun = raw(c.result, "function")
        if isinstance(fun, Ref) and fun.id not in c._old_heap and isinstance(c._new_heap.get(fun.id), PyObj) and c._new_heap[fun.id].cls == LIN:
            return fun
        return None

    def ensures(self, c):
        out = super().ensures(c)
        if len(out) == 1:
            return out
        g = self.normalized_function(c)
        if g is not None:
            inner = C.Ctx(c.st, c._old_heap, c._new_heap, {"self": c.arg("function"), "input_space": raw(c.old.self, "design_space")}, result=g)
            out += [(f"normalized-function:{label}", f) for label, f in NormalizeDense().ensures(inner)]
        else:
            f0, f1 = c.old.function, c.new.function
            i, j = z3.Int("i!pl"), z3.Int("j!pl")
            A0, A1 = f0._coefficients, f1._coefficients
            m, n = ln(A0, 0), ln(A0, 1)
            inner = C.Ctx(c.st, c._old_heap, c._new_heap, {"self": c.arg("function")}, result=None)
            out += [(f"function-untouched:{label}", f) for label, f in NormalizeDense()._kept(inner)]
            out += [
                ("function-untouched:coefficients", z3.And(ln(A1, 0) == m, ln(A1, 1) == n, fa([i, j], z3.Implies(z3.And(0 <= i, i < m, 0 <= j, j < n), el(A1, i, j) == el(A0, i, j)), el(A1, i, j)))),
                ("function-untouched:dim", f1.dim == f0.dim),
                ("function-untouched:last-eval", f1.last_eval == f0.last_eval),
            ]
        return out


# ============================================================================ EvaluationProblem.preprocess_functions
# Functions are opaque identities here (Val); `pp(f, normalized, use_database, round_ints, sparse, store_jacobian)` NAMES the function that
# `_preprocess_function` returns for f and these flags (its meaning is what the two verified variants above establish).
FUNCS = "gemseo.core.mdo_functions.collections.functions.Functions"
VAR = TRec("C01Variable", {"type": TNd})
BOOL = z3.BoolSort()
pp = z3.Function("c01_preprocessed", ValS, BOOL, BOOL, BOOL, BOOL, BOOL, ValS)
ftype_of = z3.Function("c01_f_type", ValS, ValS)
authorized = z3.Function("c01_authorized_type", ValS, ValS, BOOL)
# the terms the opaque numpy layer (pyvc/gmodels.py) builds for `np_any(variable_type == DesignVariableType.INTEGER)` and its truth value
_np_eq = z3.Function("np_cmp_Eq_2", ValS, ValS, ValS)
_np_any = z3.Function("np_numpy_any_1", ValS, ValS)
from pyvc.values import val_of_str  # noqa: E402


def has_integer_component(type_array):
    """Some component of the variable is of integer type: bool(numpy.any(variable.type == "integer"))."""
    return G.np_truth(_np_any(_np_eq(type_array, val_of_str(str_lit("integer")))))


class OwnerTuple(TObj):
    """Schema field holding the tuple of the objects held by other (already created) fields of the same object."""

    def __init__(self, *fields):
        self.fields_, self.cls, self.schema_key = fields, None, None
        self.name = f"OwnerTuple[{','.join(fields)}]"

    def fresh_in(self, st, hint, owner):
        return tuple(st.heap[owner.id].fields[f] for f in self.fields_)


class ConstTuple(TObj):
    """Schema field holding a concrete tuple of Python values."""

    def __init__(self, *values):
        self.values, self.cls, self.schema_key = values, None, None
        self.name = f"ConstTuple[{values!r}]"

    def fresh_in(self, st, hint, owner):
        return tuple(self.values)


schema(FUNCS + "#c01", {"_functions": TList(TVal), "evaluate_jacobian": TBool, "ghost_authorized_types": TVal})
schema(DS + "#c01vt", {"_variables": TDict(TStr, VAR, ordered=True)})
COLL = TObj(FUNCS, schema_key=FUNCS + "#c01")
_PPF_COMMON = {
    "_functions_are_preprocessed": TBool,
    "design_space": TObj(DS, schema_key=DS + "#c01vt"),
    "differentiation_step": TReal,
    "_EvaluationProblem__observables": COLL,
    "_EvaluationProblem__new_iter_observables": COLL,
}
# EvaluationProblem: [observables, new_iter_observables], no named function
schema(EP + "#ppf2", dict(_PPF_COMMON, _sequence_of_functions=OwnerTuple("_EvaluationProblem__observables", "_EvaluationProblem__new_iter_observables"),
                          _function_names=ConstTuple()))
# OptimizationProblem: [constraints, observables, new_iter_observables], named function `_objective`
schema(EP + "#ppf3", dict(_PPF_COMMON, ghost_constraints=COLL, _objective=TVal,
                          _sequence_of_functions=OwnerTuple("ghost_constraints", "_EvaluationProblem__observables", "_EvaluationProblem__new_iter_observables"),
                          _function_names=ConstTuple("_objective")))


@register
class PreprocessSummary(Contract):
    targets = (EP + "._preprocess_function",)
    prop = ("C01",)
    params = dict(PP_PARAMS, function=TVal)
    returns = TVal
    trusted = True
    description = ("abstract summary used at the call sites in preprocess_functions (functions are opaque identities there): NAMES the result "
                   "pp(function, flags) and keeps the function type (ProblemFunction.__init__ passes f_type=function.f_type); the concrete content "
                   "of the result is what the verified variants @nonlinear / @linear of this same function establish")

    def ensures(self, c):
        o = c.old
        return [("named", c.result == pp(o.function, zb(o.is_function_input_normalized), zb(o.use_database), zb(o.round_ints), zb(o.support_sparse_jacobian),
                                       zb(o.store_jacobian))),
                ("function-type-kept", ftype_of(c.result) == ftype_of(o.function))]


@register
class CheckFunctionType(Contract):
    targets = (FUNCS + ".__check_function_type",)
    prop = ("C01",)
    self_schema = FUNCS + "#c01"
    params = {"function": TVal}
    trusted = True
    description = "assumed: raises ValueError iff the type of the function is not one of those the collection authorizes (no effect on the state)"
    raises = {"ValueError": lambda c: z3.Not(authorized(c.old.self.ghost_authorized_types, ftype_of(c.old.function)))}


@register
class ProblemCheck(Contract):
    targets = (EP + ".check",)
    prop = ("C01",)
    modifies = ("self",)
    trusted = True
    description = ("assumed: validation of the design space and of the differentiation method (may raise ValueError; may only rewrite "
                   "differentiation_step)")
    raises = {"ValueError": None}
    raises_exact = False

    def ensures(self, c):
        s0, s1 = c.old.self, c.new.self
        out = [("preprocessed-flag-kept", s1._functions_are_preprocessed == s0._functions_are_preprocessed)]
        if "_objective" in s0.obj.fields:
            out.append(("objective-kept", s1._objective == s0._objective))
        return out

    def raise_ensures(self, c, exc):
        return self.ensures(c)


def round_eff_spec(c):
    """The rounding option is kept iff SOME design variable is of integer type."""
    V = c.old.self.design_space._variables
    i = z3.Int("i!iv")
    some_integer = z3.Exists([i], z3.And(0 <= i, i < V.n, has_integer_component(VAR.accessor("type")(V.vals[V.keys[i]]))))
    return z3.And(zb(c.old.round_ints), some_integer)


def collections_of(c):
    """[(entry view, exit view, normalized?)] for the collections of `_sequence_of_functions`, in order."""
    seq = raw(c.old.self, "_sequence_of_functions")
    new_iter = raw(c.old.self, "_EvaluationProblem__new_iter_observables")
    norm = zb(c.old.is_function_input_normalized)
    return [(C.View(c._old_heap, r, c.st), C.View(c._new_heap, r, c.st), z3.BoolVal(False) if r.id == new_iter.id else norm) for r in seq]


def pp_flags(c, norm):
    o = c.old
    return (norm, zb(o.use_database), round_eff_spec(c), zb(o.support_sparse_jacobian), zb(o.store_jacobian))


def _inner_inv(c, k):
    cur = c.locals["functions"]
    old = C.View(c._old_heap, cur.ref, c.st)
    L, L0 = cur._functions, old._functions
    j = z3.Int("j!li")
    normk = zb(c.locals["is_function_input_normalized_"])
    return [
        ("length-kept", L.n == L0.n),
        ("replaced", fa([j], z3.Implies(z3.And(0 <= j, j < k), L.elems[j] == pp(L0.elems[j], *pp_flags(c, normk))), L.elems[j])),
        ("remaining", fa([j], z3.Implies(z3.And(k <= j, j < L0.n), L.elems[j] == L0.elems[j]), L.elems[j])),
    ]


class _PreprocessFunctions(Contract):
    targets = (EP + ".preprocess_functions",)
    prop = ("C01",)
    c01 = True
    params = {"is_function_input_normalized": TBool, "use_database": TBool, "round_ints": TBool, "eval_obs_jac": TBool,
              "support_sparse_jacobian": TBool, "store_jacobian": TBool}
    raises = {"ValueError": None}  # from self.check() (design space / differentiation method validation)
    loops = {1: LoopSpec(anchor="enumerate(functions)", inv=_inner_inv, modifies=("functions._functions",))}

    def requires(self, c):
        j = z3.Int("j!au")
        out = []
        for n, (C0, _, _) in enumerate(collections_of(c)):
            L = C0._functions
            # class invariant of the collections: every function is of an authorized type (checked by insert / __setitem__)
            out.append((f"collection{n}:authorized-types", fa([j], z3.Implies(z3.And(0 <= j, j < L.n), authorized(C0.ghost_authorized_types, ftype_of(L.elems[j]))), L.elems[j])))
        return out

    def _replaced(self, c):
        j = z3.Int("j!pf")
        out = []
        for n, (C0, C1, norm) in enumerate(collections_of(c)):
            L0, L1 = C0._functions, C1._functions
            out += [(f"collection{n}:same-length", L1.n == L0.n),
                    (f"collection{n}:every-function-preprocessed", fa([j], z3.Implies(z3.And(0 <= j, j < L0.n), L1.elems[j] == pp(L0.elems[j], *pp_flags(c, norm))), L1.elems[j]))]
        if "_objective" in c.old.self.obj.fields:
            out.append(("named-function-preprocessed", c.new.self._objective == pp(c.old.self._objective, *pp_flags(c, zb(c.old.is_function_input_normalized)))))
        return out

    def _untouched(self, c):
        j = z3.Int("j!pu")
        out = []
        for n, (C0, C1, _) in enumerate(collections_of(c)):
            L0, L1 = C0._functions, C1._functions
            out.append((f"collection{n}:untouched", z3.And(L1.n == L0.n, fa([j], z3.Implies(z3.And(0 <= j, j < L0.n), L1.elems[j] == L0.elems[j]), L1.elems[j]),
                                                            C1.evaluate_jacobian == C0.evaluate_jacobian)))
        if "_objective" in c.old.self.obj.fields:
            out.append(("named-function-untouched", c.new.self._objective == c.old.self._objective))
        return out

    def ensures(self, c):
        done = c.old.self._functions_are_preprocessed
        out = [(f"first-time:{l}", z3.Implies(z3.Not(done), f)) for l, f in self._replaced(c)]
        out += [(f"already-preprocessed:{l}", z3.Implies(done, f)) for l, f in self._untouched(c)]
        out += [
            ("preprocessed-flag-set", c.new.self._functions_are_preprocessed),
            ("first-time:jacobian-of-new-iteration-observables",
             z3.Implies(z3.Not(done), c.new.self._EvaluationProblem__new_iter_observables.evaluate_jacobian == zb(c.old.eval_obs_jac))),
        ]
        return out

    def raise_ensures(self, c, exc):
        # the only source is the final validation: every function has been replaced by then
        return [("validation-error-after-the-replacement", z3.And(z3.Not(c.old.self._functions_are_preprocessed), c.new.self._functions_are_preprocessed))] + \
               [(f"first-time:{l}", f) for l, f in self._replaced(c)]


@register
class PreprocessFunctionsEvaluationProblem(_PreprocessFunctions):
    """EvaluationProblem: the collections are [observables, new_iter_observables], no named function."""

    variant = "evaluation-problem"
    self_schema = EP + "#ppf2"
    modifies = ("self", "self._EvaluationProblem__observables", "self._EvaluationProblem__new_iter_observables")


@register
class PreprocessFunctionsOptimizationProblem(_PreprocessFunctions):
    """Shape of an OptimizationProblem: [constraints, observables, new_iter_observables] and the named function `_objective`."""

    variant = "optimization-problem"
    self_schema = EP + "#ppf3"
    modifies = ("self", "self.ghost_constraints", "self._EvaluationProblem__observables", "self._EvaluationProblem__new_iter_observables")


# ============================================================================ lemmas linking the contracts to the property statement
@register
class NormalizeLemmas(Contract):
    """From the postconditions of MDOLinearFunction.normalize (dense) to the property: for every normalised point xn and every output row,
        result.func(xn) = sum_k RA[k] xn[k] + Rb = sum_k A[k] (s[k] xn[k] + shift[k]) + b = self.func(U(xn))
    with RA[k] = A[k] s[k] ('result:coefficients-scaled') and Rb = sum_k A[k] shift[k] + b ('result:offset-from-the-original-coefficients').
    Induction on the prefix sums (base + step), then the combination; U(xn)[k] = s[k] xn[k] + shift[k] is C02's unnormalize_vect and
    RA = A diag(s) is C02's normalize_grad applied to the rows of A (per component, real arithmetic)."""

    targets = ()
    prop = ("C01", "C10")
    lemma = True

    def lemmas(self):
        RS = z3.ArraySort(z3.IntSort(), z3.RealSort())
        a, s, h, x, R, S_, U = (z3.Const(n, RS) for n in ("a", "s", "h", "x", "R", "S", "U"))
        k, n = z3.Ints("k n")
        b = z3.Real("b")
        t = z3.Int("t!nl")
        ps0 = z3.Const("a!ps", RS)
        kk = z3.Int("k!ps")
        ax = [z3.ForAll([ps0], psum(ps0, 0) == 0), z3.ForAll([ps0, kk], z3.Implies(kk >= 0, psum(ps0, kk + 1) == psum(ps0, kk) + ps0[kk]), patterns=[psum(ps0, kk + 1)])]
        defs = [z3.ForAll([t], R[t] == a[t] * s[t] * x[t], patterns=[R[t]]), z3.ForAll([t], S_[t] == a[t] * h[t], patterns=[S_[t]]),
                z3.ForAll([t], U[t] == a[t] * (s[t] * x[t] + h[t]), patterns=[U[t]])]
        P = lambda j: psum(R, j) + psum(S_, j) == psum(U, j)  # noqa: E731,N806
        lb, ub, xv, g = z3.Reals("lb ub xv g")
        pol = z3.Bool("pol")
        sc, sf = z3.If(pol, ub - lb, z3.RealVal(1)), z3.If(pol, lb, z3.RealVal(0))
        return [
            ("func-equivalence-base", z3.Implies(z3.And(*ax), P(z3.IntVal(0)))),
            ("func-equivalence-step", z3.Implies(z3.And(*ax, *defs, k >= 0, P(k)), P(k + 1))),
            ("func-equivalence", z3.Implies(z3.And(n >= 0, z3.ForAll([k], z3.Implies(k >= 0, P(k)), patterns=[psum(U, k)])),
                                            psum(R, n) + (psum(S_, n) + b) == psum(U, n) + b)),
            ("unnormalize-is-scale-and-shift", z3.If(pol, xv * (ub - lb) + lb, xv) == sc * xv + sf),
            ("scaled-coefficient-is-the-normalized-gradient", g * sc == z3.If(pol, g * (ub - lb), g)),
        ]


@register
class CompositionLemmas(Contract):
    """What an evaluation sequence computes (ProblemFunction._compute_output / _compute_jacobian: left fold, contracts in c01_c03_evaluation):
    the sequences composed by _preprocess_function are F o R o U, NG o dense o J o R o U, ... (ground instances of the fold definition)."""

    targets = ()
    prop = ("C01",)
    lemma = True

    def lemmas(self):
        from contracts.c01_c03_evaluation import fold

        s = z3.Const("s", z3.ArraySort(z3.IntSort(), ValS))
        x = z3.Const("x", ValS)
        out = []
        unfold = [fold(s, 0, x) == x]
        comp = x
        for n in range(1, 6):
            unfold.append(fold(s, n, x) == G.apply1(s[n - 1], fold(s, n - 1, x)))
            comp = G.apply1(s[n - 1], comp)
            out.append((f"sequence-of-{n}-is-the-composition", z3.Implies(z3.And(*unfold), fold(s, n, x) == comp)))
        return out


# ============================================================================ what a linear function computes (the F and J of a linear function)
from pyvc.npmodel import ArrObj  # noqa: E402


class _LinearMap(Contract):
    prop = ("C01",)
    numpy = "precise"
    c01 = True
    frame_arrays = True
    self_schema = LIN + "#dense"


@register
class LinearFuncToWrap(_LinearMap):
    """func(x) = A x + b (a scalar when there is one output): row-wise prefix sums."""

    targets = (LIN + "._func_to_wrap",)
    variant = "dense"
    params = {"x_vect": F1}
    raises = {"ValueError": lambda c: ln(c.old.x_vect) != ln(c.old.self._coefficients, 1)}

    def requires(self, c):
        return [("offset-length", ln(c.old.self._value_at_zero) == ln(c.old.self._coefficients, 0))]

    def ensures(self, c):
        s, x = c.old.self, c.old.x_vect
        A0, b0 = s._coefficients, s._value_at_zero
        m, n = ln(A0, 0), ln(A0, 1)
        i, k = z3.Int("i!fw"), z3.Int("k!fw")
        row = lambda r: psum(z3.Lambda([k], el(A0, r, k) * el(x, k)), n) + el(b0, r)  # noqa: E731
        v = c.result_value
        if isinstance(v, SV):
            return [("scalar-iff-one-output", m == 1), ("value", v.term == row(z3.IntVal(0)))]
        if isinstance(v, Ref) and isinstance(c._new_heap.get(v.id), ArrObj) and c._new_heap[v.id].rank == 1:
            R = c.result
            return [("vector-unless-one-output", z3.And(m != 1, ln(R) == m)),
                    ("value", fa([i], z3.Implies(z3.And(0 <= i, i < m), el(R, i) == row(i)), el(R, i)))]
        return [("result-is-a-scalar-or-a-vector", z3.BoolVal(False))]


@register
class LinearJacToWrap(_LinearMap):
    """jac(x) = the coefficient matrix A itself (its only row when there is one output), whatever x."""

    targets = (LIN + "._jac_to_wrap",)
    variant = "dense"
    params = {"_": TNd}

    def ensures(self, c):
        A0 = c.old.self._coefficients
        m, n = ln(A0, 0), ln(A0, 1)
        j = z3.Int("j!jw")
        v = c.result_value
        if isinstance(v, Ref) and v.id == A0.ref.id:
            return [("matrix-unless-one-output", m != 1)]
        if isinstance(v, Ref) and isinstance(c._new_heap.get(v.id), ArrObj) and c._new_heap[v.id].rank == 1:
            R = c.result
            return [("row-iff-one-output", z3.And(m == 1, ln(R) == n)),
                    ("value", fa([j], z3.Implies(z3.And(0 <= j, j < n), el(R, j) == el(A0, 0, j)), el(R, j)))]
        return [("result-is-the-coefficients", z3.BoolVal(False))]
