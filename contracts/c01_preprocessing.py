"""C01 - composition of the evaluation sequences (EvaluationProblem._preprocess_function / preprocess_functions) and
normalisation of linear functions (MDOLinearFunction.normalize).

Part B (MDOLinearFunction.normalize, precise numpy model + abstract CSR matrices of pyvc/plug_c01.py):
  * dense coefficients: result.A[i, j] = A[i, j] * s[j], result.b[i] = sum_k A[i, k] * shift[k] + b[i] computed from the ORIGINAL coefficients,
    with s = ub - lb on normalised components / 1 elsewhere and shift = lb on normalised components / 0 elsewhere; hence (lemma, by induction
    on the prefix sums) result.func(xn) = self.func(U(xn)) for every xn and result.jac = self.jac * diag(s);
  * sparse (CSR) coefficients: result.data[p] = data[p] * s[indices[p]] in FRESH arrays, same indices / indptr / shape, offset computed by the
    matrix-vector product of the ORIGINAL arrays;
  * frame: the coefficients of ``self`` (dense array, or the three CSR arrays), its offset and every other attribute but ``last_eval`` / ``dim``
    (written by ``evaluate``) are unchanged, the design space is unchanged.
Part A: see the second half of this file.
"""
from __future__ import annotations

import z3

from pyvc import gmodels as G
from pyvc.contract import Contract, LoopSpec, register, schema
from pyvc.npmodel import TArr
from pyvc.plug_c01 import CsrObj, SelfMethod, SelfRef, TCsr, csr_matvec
from pyvc.plug_np_c10 import psum_fn
from pyvc.values import forall_pat as fa
from pyvc.values import (BoundMethod, PyObj, Ref, SV, TBool, TCallable, TDict, TInt, TList, TNd, TObj, TOpt, TReal, TRec, TStr, TVal, ValS,
                         str_lit, val_none)

A = "gemseo.algos."
DS = A + "design_space.DesignSpace"
MDOF = "gemseo.core.mdo_functions.mdo_function.MDOFunction"
LIN = "gemseo.core.mdo_functions.mdo_linear_function.MDOLinearFunction"
F1, F2, I1, B1 = TArr("f", 1), TArr("f", 2), TArr("i", 1), TArr("b", 1)
psum = psum_fn("f")

# ---------------------------------------------------------------------------- abstract view of the design space
# lower / upper bound vectors and the normalisation policy of every component (= convert_dict_to_array(normalize))
schema(DS + "#c01", {
    "dimension": TInt,
    "_DesignSpace__lower_bounds_array": F1,
    "_DesignSpace__upper_bounds_array": F1,
    "ghost_norm_policies": B1,
    "normalize": TVal,
})


def el(a, *i):
    return a.obj.at(*i)


def ln(a, ax=0):
    return a.obj.shape[ax]


def ds_view(s):
    class _:  # noqa: N801
        dim = s.dimension
        lb, ub, pol = s._DesignSpace__lower_bounds_array, s._DesignSpace__upper_bounds_array, s.ghost_norm_policies
    return _


def ds_wf(s):
    d = ds_view(s)
    return [("space-lengths", z3.And(d.dim >= 0, ln(d.lb) == d.dim, ln(d.ub) == d.dim, ln(d.pol) == d.dim))]


def scale_at(d, j):
    """s[j] = ub[j] - lb[j] on normalised components, 1 elsewhere."""
    return z3.If(el(d.pol, j), el(d.ub, j) - el(d.lb, j), z3.RealVal(1))


def shift_at(d, j):
    """shift[j] = lb[j] on normalised components, 0 elsewhere."""
    return z3.If(el(d.pol, j), el(d.lb, j), z3.RealVal(0))


class _SpaceGetter(Contract):
    prop = ("C01",)
    self_schema = DS + "#c01"
    numpy = "precise"
    returns = F1
    trusted = True
    field = ""

    def requires(self, c):
        return ds_wf(c.old.self) + [("all-the-variables", z3.BoolVal(c.arg("variable_names") == () and c.arg("as_dict") is False))]

    def ensures(self, c):
        a = getattr(c.old.self, self.field)
        j = z3.Int("j!sg")
        return [("length", ln(c.result) == ln(a)),
                ("values", fa([j], z3.Implies(z3.And(0 <= j, j < ln(a)), el(c.result, j) == el(a, j)), el(c.result, j)))]


@register
class GetLowerBounds(_SpaceGetter):
    targets = (DS + ".get_lower_bounds",)
    field = "_DesignSpace__lower_bounds_array"
    description = "assumed (design-space bookkeeping, C02 domain): get_lower_bounds() is the vector of the lower bounds of all the components"


@register
class GetUpperBounds(_SpaceGetter):
    targets = (DS + ".get_upper_bounds",)
    field = "_DesignSpace__upper_bounds_array"
    description = "assumed (design-space bookkeeping, C02 domain): get_upper_bounds() is the vector of the upper bounds of all the components"


@register
class ConvertNormalizeToArray(Contract):
    targets = (DS + ".convert_dict_to_array",)
    prop = ("C01",)
    self_schema = DS + "#c01"
    numpy = "precise"
    params = {"design_values": TVal}
    returns = B1
    trusted = True
    description = ("assumed (design-space bookkeeping, C02 domain): convert_dict_to_array(self.normalize) is the boolean vector telling, component by "
                   "component, whether the variable is normalised (the abstract view `ghost_norm_policies` of the design space)")

    def requires(self, c):
        return ds_wf(c.old.self) + [("argument-is-the-normalisation-policies", c.old.design_values == c.old.self.normalize),
                                    ("all-the-variables", z3.BoolVal(c.arg("variable_names") == ()))]

    def ensures(self, c):
        a = c.old.self.ghost_norm_policies
        j = z3.Int("j!cn")
        return [("length", ln(c.result) == ln(a)),
                ("values", fa([j], z3.Implies(z3.And(0 <= j, j < ln(a)), el(c.result, j) == el(a, j)), el(c.result, j)))]


# ---------------------------------------------------------------------------- linear functions
def _lin_fields(coeff_type):
    return {
        "_coefficients": coeff_type,
        "_value_at_zero": F1,
        "name": TStr,
        "f_type": TStr,
        "expr": TStr,
        "_input_names": TList(TStr),
        "_output_names": TList(TStr),
        "_func": SelfMethod(LIN, "_func_to_wrap"),
        "_jac": SelfMethod(LIN, "_jac_to_wrap"),
        "dim": TInt,
        "last_eval": TVal,
        "force_real": TBool,
        "special_repr": TStr,
        "has_default_name": TBool,
        "_MDOFunction__original_name": TStr,
        "_MDOFunction__expects_normalized_inputs": TBool,
        "_MDOLinearFunction__initial_expression": TOpt(TStr),
        "original": SelfRef(LIN),
    }


schema(LIN + "#dense", _lin_fields(F2))
schema(LIN + "#sparse", _lin_fields(TCsr))
# fields of ``self`` that normalize must leave alone (``last_eval`` and ``dim`` are written by ``evaluate``)
KEPT_SCALARS = ("name", "f_type", "expr", "force_real", "special_repr", "has_default_name", "_MDOFunction__original_name",
                "_MDOFunction__expects_normalized_inputs", "_MDOLinearFunction__initial_expression")


class _StringGlue(Contract):
    prop = ("C01",)
    trusted = True
    description = "assumed: builds the textual expression / input names of a linear function (strings only, no effect on the state)"


@register
class Generate1dExpr(_StringGlue):
    targets = (LIN + "._generate_1d_expr",)
    params = {"input_names": TList(TStr)}
    returns = TStr


@register
class GenerateNdExpr(_StringGlue):
    targets = (LIN + "._generate_nd_expr",)
    params = {"input_names": TList(TStr)}
    returns = TStr


@register
class GenerateInputNames(_StringGlue):
    targets = (MDOF + ".generate_input_names",)
    params = {"input_dim": TInt, "input_names": TList(TStr)}
    returns = TList(TStr)


def same_list(a, b):
    j = z3.Int("j!sl")
    return z3.And(a.n == b.n, z3.ForAll([j], z3.Implies(z3.And(0 <= j, j < a.n), a.elems[j] == b.elems[j])))


def is_own_method(v, owner_ref, method):
    return isinstance(v, BoundMethod) and isinstance(v.recv, Ref) and v.recv.id == owner_ref.id and v.finfo is not None and \
        v.finfo.qualname == f"{LIN}.{method}"


def shift_witness(c):
    """The vector `shift` of the code: the local of the verified function, a fresh witness at call sites."""
    loc = getattr(c, "locals", None)
    if loc is not None and "shift" in loc:
        return loc["shift"].obj.elems
    return z3.FreshConst(z3.ArraySort(z3.IntSort(), z3.RealSort()), "shift")


class _Normalize(Contract):
    targets = (LIN + ".normalize",)
    prop = ("C01",)
    numpy = "precise"
    c01 = True
    frame_arrays = True
    modifies = ("self",)
    returns = None

    def _common_requires(self, c):
        s = c.old.self
        return ds_wf(c.old.input_space) + [
            ("offset-length", ln(s._value_at_zero) == self.rows(c)),  # class invariant (value_at_zero setter)
            ("defined-over-the-space", self.cols(c) == c.old.input_space.dimension),
        ]

    def _kept(self, c):
        """Frame of ``self``: everything but last_eval / dim (and the coefficients, stated by the subclasses)."""
        s0, s1 = c.old.self, c.new.self
        j = z3.Int("j!kp")
        out = [(f"self-kept:{f}", getattr(s1, f) == getattr(s0, f) if not isinstance(getattr(s0, f), View_) else getattr(s1, f).term == getattr(s0, f).term)
               for f in KEPT_SCALARS]
        out += [
            ("self-kept:offset-array", z3.BoolVal(s1._value_at_zero.ref.id == s0._value_at_zero.ref.id)),
            ("self-kept:offset", z3.And(ln(s1._value_at_zero) == ln(s0._value_at_zero),
                                        z3.ForAll([j], z3.Implies(z3.And(0 <= j, j < ln(s0._value_at_zero)), el(s1._value_at_zero, j) == el(s0._value_at_zero, j))))),
            ("self-kept:coefficients-object", z3.BoolVal(s1._coefficients.ref.id == s0._coefficients.ref.id)),
            ("self-kept:input-names", same_list(s1._input_names, s0._input_names)),
            ("self-kept:output-names", same_list(s1._output_names, s0._output_names)),
            ("self-kept:func", z3.BoolVal(is_own_method(c.new.self.obj.fields["_func"], c.arg("self"), "_func_to_wrap"))),
            ("self-kept:jac", z3.BoolVal(is_own_method(c.new.self.obj.fields["_jac"], c.arg("self"), "_jac_to_wrap"))),
            ("self-kept:original", z3.BoolVal(c.new.self.obj.fields["original"] == c.arg("self"))),
            ("self-kept:dim", z3.Implies(s0.dim != 0, s1.dim == s0.dim)),
        ]
        return out

    def _result_common(self, c):
        s0, r = c.old.self, c.result
        rref = c.result_value
        return [
            ("result:is-a-new-linear-function", z3.BoolVal(isinstance(rref, Ref) and rref.id != c.arg("self").id and c.result.obj.cls == LIN)),
            ("result:expects-normalized-inputs", r._MDOFunction__expects_normalized_inputs),
            ("result:name", r.name == s0.name),
            ("result:f_type", r.f_type == s0.f_type),
            ("result:func-is-its-own-linear-map", z3.BoolVal(is_own_method(c.result.obj.fields["_func"], rref, "_func_to_wrap"))),
            ("result:jac-is-its-own-coefficients", z3.BoolVal(is_own_method(c.result.obj.fields["_jac"], rref, "_jac_to_wrap"))),
            ("result:original-is-itself", z3.BoolVal(c.result.obj.fields["original"] == rref)),
            ("result:output-dimension", r.dim == self.rows(c)),
        ]


from pyvc.contract import View as View_  # noqa: E402


@register
class NormalizeDense(_Normalize):
    """Dense coefficients (rank-2 array)."""

    self_schema = LIN + "#dense"
    params = {"input_space": TObj(DS, schema_key=DS + "#c01")}
    returns = TObj(LIN, schema_key=LIN + "#dense")
    c01_construct = {LIN: LIN + "#dense"}

    def rows(self, c):
        return ln(c.old.self._coefficients, 0)

    def cols(self, c):
        return ln(c.old.self._coefficients, 1)

    def requires(self, c):
        return self._common_requires(c)

    def ensures(self, c):
        s0, s1, r = c.old.self, c.new.self, c.result
        d = ds_view(c.old.input_space)
        A0, A1, RA = s0._coefficients, s1._coefficients, r._coefficients
        b0, Rb = s0._value_at_zero, r._value_at_zero
        m, n = self.rows(c), self.cols(c)
        i, j, k = z3.Int("i!nd"), z3.Int("j!nd"), z3.Int("k!nd")
        inr = z3.And(0 <= i, i < m, 0 <= j, j < n)
        sh = shift_witness(c)
        return self._result_common(c) + [
            ("result:coefficients-shape", z3.And(ln(RA, 0) == m, ln(RA, 1) == n)),
            ("result:coefficients-scaled", fa([i, j], z3.Implies(inr, el(RA, i, j) == el(A0, i, j) * scale_at(d, j)), el(RA, i, j))),
            ("result:offset-length", ln(Rb) == m),
            # the offset is A0 @ shift + b0 for the vector `shift` of the code (a witness at call sites), which is the spec vector point-wise
            ("shift-vector", fa([k], z3.Implies(z3.And(0 <= k, k < n), sh[k] == shift_at(d, k)), sh[k])),
            ("result:offset-from-the-original-coefficients",
             fa([i], z3.Implies(z3.And(0 <= i, i < m), el(Rb, i) == psum(z3.Lambda([k], el(A0, i, k) * sh[k]), n) + el(b0, i)), el(Rb, i))),
            ("self-kept:coefficients", z3.And(ln(A1, 0) == m, ln(A1, 1) == n, fa([i, j], z3.Implies(inr, el(A1, i, j) == el(A0, i, j)), el(A1, i, j)))),
        ] + self._kept(c)


def csr_parts(v):
    """(CsrObj, data ArrObj, indices ArrObj, indptr ArrObj) of a view on a CSR matrix, in the heap of the view."""
    o = v.obj
    h = v._heap
    return o, h[o.data.id], h[o.indices.id], h[o.indptr.id]


def same_vec(a, b, n=None):
    """Two ArrObj vectors have the same length and elements."""
    j = z3.Int("j!sv")
    return z3.And(a.shape[0] == b.shape[0], fa([j], z3.Implies(z3.And(0 <= j, j < a.shape[0]), a.elems[j] == b.elems[j]), a.elems[j]))


@register
class NormalizeSparse(_Normalize):
    """Sparse coefficients (scipy CSR matrix, abstract model of pyvc/plug_c01.py)."""

    variant = "sparse"
    self_schema = LIN + "#sparse"
    params = {"input_space": TObj(DS, schema_key=DS + "#c01")}
    returns = TObj(LIN, schema_key=LIN + "#sparse")
    c01_construct = {LIN: LIN + "#sparse"}

    def rows(self, c):
        return c.old.self._coefficients.obj.shape[0]

    def cols(self, c):
        return c.old.self._coefficients.obj.shape[1]

    def requires(self, c):
        M, data, ind, ptr = csr_parts(c.old.self._coefficients)
        p = z3.Int("p!cw")
        return self._common_requires(c) + [
            # class invariant of a CSR matrix: one column index per stored value, within the number of columns
            ("csr-lengths", z3.And(data.shape[0] == ind.shape[0])),
            ("csr-column-indices", fa([p], z3.Implies(z3.And(0 <= p, p < ind.shape[0]), z3.And(0 <= ind.elems[p], ind.elems[p] < M.shape[1])), ind.elems[p])),
        ]

    def ensures(self, c):
        s0, s1, r = c.old.self, c.new.self, c.result
        d = ds_view(c.old.input_space)
        M0, data0, ind0, ptr0 = csr_parts(s0._coefficients)
        M1, data1, ind1, ptr1 = csr_parts(s1._coefficients)
        b0, Rb = s0._value_at_zero, r._value_at_zero
        m, n = self.rows(c), self.cols(c)
        i, k, p = z3.Int("i!ns"), z3.Int("k!ns"), z3.Int("p!ns")
        sh = shift_witness(c)
        out = self._result_common(c)
        rc = r._coefficients
        is_csr = isinstance(rc.obj, CsrObj)
        out.append(("result:coefficients-are-a-csr-matrix", z3.BoolVal(is_csr)))
        if is_csr:
            MR, dataR, indR, ptrR = csr_parts(rc)
            out += [
                ("result:coefficients-shape", z3.And(MR.shape[0] == m, MR.shape[1] == n)),
                ("result:same-sparsity-pattern", z3.And(same_vec(indR, ind0), same_vec(ptrR, ptr0))),
                ("result:stored-values-scaled", z3.And(dataR.shape[0] == data0.shape[0],
                                                       fa([p], z3.Implies(z3.And(0 <= p, p < data0.shape[0]), dataR.elems[p] == data0.elems[p] * scale_at(d, ind0.elems[p])), dataR.elems[p]))),
            ]
        out += [
            ("result:offset-length", ln(Rb) == m),
            ("shift-vector", fa([k], z3.Implies(z3.And(0 <= k, k < n), sh[k] == shift_at(d, k)), sh[k])),
            ("result:offset-from-the-original-coefficients",
             fa([i], z3.Implies(z3.And(0 <= i, i < m), el(Rb, i) == csr_matvec(ptr0.elems, ind0.elems, data0.elems, sh)[i] + el(b0, i)), el(Rb, i))),
            ("self-kept:coefficients-arrays", z3.BoolVal((M1.data.id, M1.indices.id, M1.indptr.id) == (M0.data.id, M0.indices.id, M0.indptr.id))),
            ("self-kept:coefficients-shape", z3.And(M1.shape[0] == m, M1.shape[1] == n)),
            ("self-kept:stored-values", same_vec(data1, data0)),
            ("self-kept:sparsity-pattern", z3.And(same_vec(ind1, ind0), same_vec(ptr1, ptr0))),
        ]
        return out + self._kept(c)


# ============================================================================ Part A: composition of the evaluation sequences
# EvaluationProblem._preprocess_function builds a ProblemFunction from a function and four flags.  The ProblemFunction constructor is a
# RECORD MODEL (pyvc/plug_c01.py): the postconditions talk about the arguments it receives.  A callable is identified by what it is:
# the bound method <name> of <object>, or the (opaque) callable held by the `_func` / `_jac` attribute of the function at entry.
# Specification from the property statement:
#     F-seq = F o R? o U?                                  (U iff the caller's coordinates are normalised, R iff integer rounding)
#     J-seq = normalize_grad? o dense? o J o R? o U?       (normalize_grad iff normalised coordinates, dense iff no sparse support)
# A linear function in normalised coordinates without rounding may instead be replaced by g = function.normalize(design_space), for which
# g.func = F o U and g.jac = normalize_grad o J (contract of MDOLinearFunction.normalize above): F-seq = [g.func], J-seq = dense? o g.jac.
from pyvc import contract as C  # noqa: E402

EP = A + "evaluation_problem.EvaluationProblem"
PF = A + "problem_function.ProblemFunction"
CNT = A + "evaluation_counter.EvaluationCounter"
DB = A + "database.Database"
OPTS = TDict(TStr, TVal)

schema(MDOF + "#c01", {
    "name": TStr,
    "_func": TCallable,
    "_jac": TCallable,
    "_MDOFunction__expects_normalized_inputs": TBool,
})
schema(EP + "#pp", {
    "design_space": TObj(DS, schema_key=DS + "#c01"),
    "database": TObj(DB),
    "evaluation_counter": TObj(CNT),
    "_stop_if_nan": TBool,
    "differentiation_method": TStr,
    "differentiation_step": TReal,
    "_EvaluationProblem__parallel_differentiation": TBool,
    "_EvaluationProblem__parallel_differentiation_options": OPTS,
    "_functions_are_preprocessed": TBool,
})
# the arguments of ProblemFunction.__init__ (+ the attribute `original` set afterwards)
schema(PF + "#record", {k: TVal for k in (
    "function", "output_evaluation_sequence", "jacobian_evaluation_sequence", "with_normalized_inputs", "database", "counter", "stop_if_nan",
    "design_space", "store_jacobian", "differentiation_method", "differentiation_method_options.step", "differentiation_method_options.normalize",
    "differentiation_method_options.parallel", "differentiation_method_options.**", "original")})

APPROXIMATION_MODES = ("complex_step", "finite_differences", "centered_differences")


def same_callable(a, b):
    if isinstance(a, BoundMethod) and isinstance(b, BoundMethod):
        ra = a.recv.id if isinstance(a.recv, Ref) else a.recv
        rb = b.recv.id if isinstance(b.recv, Ref) else b.recv
        return ra == rb and a.finfo is not None and b.finfo is not None and a.finfo.qualname == b.finfo.qualname
    if isinstance(a, SV) and isinstance(b, SV):
        return a.ty == b.ty and a.term.eq(b.term)
    return False


def is_method(v, recv_ref, qualname):
    if not (isinstance(v, BoundMethod) and v.finfo is not None and v.finfo.qualname == qualname):
        return False
    return v.recv is None if recv_ref is None else (isinstance(v.recv, Ref) and v.recv.id == recv_ref.id)


def raw(view, field):
    """The raw (engine-level) value of a field of the object behind a view."""
    return view.obj.fields[field]


def zb(x):
    return z3.BoolVal(x) if isinstance(x, bool) else x


class _Preprocess(Contract):
    targets = (EP + "._preprocess_function",)
    prop = ("C01",)
    self_schema = EP + "#pp"
    c01 = True
    c01_records = {PF: PF + "#record"}
    linear = False

    def flags(self, c):
        o = c.old
        return zb(o.is_function_input_normalized), zb(o.use_database), zb(o.round_ints), zb(o.support_sparse_jacobian), zb(o.store_jacobian)

    # -- what the sequences must be, for concrete values of the flags
    def expected(self, c, norm, rnd, sparse, normalized_function=None):
        """List of alternatives (F-seq, J-seq); a sequence is a list of matchers (raw value -> bool)."""
        ds = c.arg("self") and raw(c.old.self, "design_space")
        fn = c.old.function
        U = lambda v: is_method(v, ds, DS + ".unnormalize_vect")  # noqa: E731,N806
        R = lambda v: is_method(v, ds, DS + ".round_vect")  # noqa: E731,N806
        NG = lambda v: is_method(v, ds, DS + ".normalize_grad")  # noqa: E731,N806
        dense = lambda v: is_method(v, None, EP + "._convert_array_to_dense")  # noqa: E731
        F = lambda v: same_callable(v, raw(fn, "_func"))  # noqa: E731,N806
        J = lambda v: same_callable(v, raw(fn, "_jac"))  # noqa: E731,N806
        fseq = ([U] if norm else []) + ([R] if rnd else []) + [F]
        jseq = ([U] if norm else []) + ([R] if rnd else []) + [J] + ([] if sparse else [dense]) + ([NG] if norm else [])
        alts = [(fseq, jseq, fn.ref)]
        if self.linear and norm and not rnd and normalized_function is not None:
            g = normalized_function
            alts.append(([lambda v: is_method(v, g, LIN + "._func_to_wrap")], [lambda v: is_method(v, g, LIN + "._jac_to_wrap")] + ([] if sparse else [dense]), g))
        return alts

    @staticmethod
    def matches(seq, matchers):
        return isinstance(seq, tuple) and len(seq) == len(matchers) and all(m(v) for m, v in zip(matchers, seq))

    def normalized_function(self, c):
        """In the linear variant: the record's function when it is a NEW linear function (candidate for g = function.normalize(space))."""
        return None

    def ensures(self, c):
        norm, use_db, rnd, sparse, store = self.flags(c)
        s0 = c.old.self
        r = c.result
        rref = c.result_value
        is_rec = isinstance(rref, Ref) and isinstance(c._new_heap.get(rref.id), PyObj) and c._new_heap[rref.id].cls == PF and rref.id not in c._old_heap
        out = [("result:is-a-new-problem-function", z3.BoolVal(is_rec))]
        if not is_rec:
            return out
        fseq, jseq, fun = raw(r, "output_evaluation_sequence"), raw(r, "jacobian_evaluation_sequence"), raw(r, "function")
        g = self.normalized_function(c)
        for bn in (True, False):
            for br in (True, False):
                for bs in (True, False):
                    cond = z3.And(norm == bn, rnd == br, sparse == bs)
                    alts = self.expected(c, bn, br, bs, g)
                    tag = f"{'normalized' if bn else 'physical'},{'rounding' if br else 'no-rounding'},{'sparse' if bs else 'dense'}"
                    ok_f = any(self.matches(fseq, a[0]) and self.matches(jseq, a[1]) and isinstance(fun, Ref) and fun.id == a[2].id for a in alts)
                    out.append((f"sequences[{tag}]", z3.Implies(cond, z3.BoolVal(ok_f))))
        fn0 = c.old.function
        dm = s0.differentiation_method
        is_mode = z3.Or(*[dm == str_lit(m) for m in APPROXIMATION_MODES])
        rdm = raw(r, "differentiation_method")
        rdb = raw(r, "database")
        out += [
            ("with-normalized-inputs", zb(C.View(c._new_heap, raw(r, "with_normalized_inputs"), c.st)._wrap(raw(r, "with_normalized_inputs")))
             == z3.If(norm, z3.BoolVal(True), fn0._MDOFunction__expects_normalized_inputs)),
            ("database-iff-used", z3.And(z3.Implies(use_db, z3.BoolVal(isinstance(rdb, Ref) and rdb.id == raw(s0, "database").id)),
                                         z3.Implies(z3.Not(use_db), z3.BoolVal(rdb is None)))),
            ("counter", z3.BoolVal(raw(r, "counter") == raw(s0, "evaluation_counter"))),
            ("design-space", z3.BoolVal(raw(r, "design_space") == raw(s0, "design_space"))),
            ("stop-if-nan", zb(_term(raw(r, "stop_if_nan"))) == s0._stop_if_nan),
            ("store-jacobian", zb(_term(raw(r, "store_jacobian"))) == store),
            ("differentiation-method", z3.And(z3.Implies(is_mode, z3.BoolVal(isinstance(rdm, SV)) if not isinstance(rdm, SV) else rdm.term == dm),
                                              z3.Implies(z3.Not(is_mode), z3.BoolVal(rdm is None)))),
            ("differentiation-step", _term(raw(r, "differentiation_method_options.step")) == s0.differentiation_step),
            ("differentiation-normalize", zb(_term(raw(r, "differentiation_method_options.normalize"))) == norm),
            ("differentiation-parallel", zb(_term(raw(r, "differentiation_method_options.parallel"))) == s0._EvaluationProblem__parallel_differentiation),
            ("original-is-the-given-function", z3.BoolVal(raw(r, "original") == c.arg("function"))),
        ]
        return out


def _term(v):
    return v.term if isinstance(v, SV) else v


PP_PARAMS = {"is_function_input_normalized": TBool, "use_database": TBool, "round_ints": TBool, "support_sparse_jacobian": TBool, "store_jacobian": TBool}


@register
class PreprocessNonLinear(_Preprocess):
    """Any function that is not an MDOLinearFunction (its `_func` / `_jac` are opaque callables)."""

    variant = "nonlinear"
    params = dict(PP_PARAMS, function=TObj(MDOF, schema_key=MDOF + "#c01"))
