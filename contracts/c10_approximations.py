"""C10 (continued) - approximations and other derived functions of core/mdo_functions evaluate and differentiate exactly.

Same conventions as contracts/c10_function_algebra.py: precise numpy model, the wrapped function is an uninterpreted map f with an
uninterpreted Jacobian map Df; the specification names the point at which the code evaluates them (ghost log of the calls of the
uninterpreted callables, pyvc/plug_np_c10.py) and requires that point to be, component by component, the documented one.
"""
from __future__ import annotations

import z3

from contracts.c10_function_algebra import (F1, F2, MDOF, PSUM, TConst, el, fun, kind, ln, mentioning, sum_clauses, series, z3fun)  # noqa: F401
from pyvc.contract import Contract, register, schema
from pyvc.npmodel import TArr
from pyvc.values import TBool, TInt, TObj, TReal, TStr  # noqa: F401

B1, I1 = TArr("b", 1), TArr("i", 1)
CLA = "gemseo.core.mdo_functions.convex_linear_approx.ConvexLinearApprox"
P_ = "_ConvexLinearApprox__"

# the approximated function: value / Jacobian callables and its declared output dimension
for _vec in (True, False):
    _fn, _jac = fun("f", _vec)
    schema(f"{MDOF}#wrapped-{kind(_vec)}", {"_func": _fn, "_jac": _jac, "dim": TInt})
    schema(f"{CLA}#{kind(_vec)}", {
        P_ + "x_vect": F1, P_ + "mdo_function": TObj(MDOF, schema_key=f"{MDOF}#wrapped-{kind(_vec)}"), P_ + "approx_indexes": B1,
        P_ + "sign_threshold": TReal, P_ + "direct_coeffs": F2, P_ + "recipr_coeffs": F2,
    })


def calls(c, fname):
    return [(args, res) for n, args, res in c.st.ghost.get("funv_calls", []) if n == fname]


def absr(t):
    return z3.If(t < 0, -t, t)


class _Cla(Contract):
    """Convex linearisation of f at the reference point x0 w.r.t. the inputs selected by the mask a (p of them, I_k the k-th one):
        g(x) = f(merged) + sum_k D[:, k] (x[I_k] - x0[I_k]) + sum_k R[:, k] inv_k,   merged = x0 on the approximated inputs, x elsewhere,
        inv_k = 1 / (x[I_k] - x0[I_k]) when |x[I_k] - x0[I_k]| > threshold, 0 otherwise   (the reciprocal term as coded),
    D / R: the direct / reciprocal coefficient matrices (m, p) built by __init__."""

    prop = ("C10",)
    numpy = "precise"
    frame_arrays = True  # x_new, x0, the mask and the coefficient matrices are not modified
    track_funv_arrays = True  # nor the arrays returned by the approximated function
    np_views = True  # atleast_2d(gradient) is a view of the gradient
    nonzero_as_mask = True  # v[mask.nonzero()] is v[mask]
    psum_definition = False
    params = {"x_new": F1}
    modifies = ()
    vec = True

    def parts(self, c):
        s = c.old.self
        x0, a, thr = getattr(s, P_ + "x_vect"), getattr(s, P_ + "approx_indexes"), getattr(s, P_ + "sign_threshold")
        D, R = getattr(s, P_ + "direct_coeffs"), getattr(s, P_ + "recipr_coeffs")
        return s, c.old.x_new, x0, a, thr, D, R, getattr(s, P_ + "mdo_function")

    def out_dim(self, c):
        """m: the number of rows of the coefficient matrices (= output dimension of f)."""
        return ln(self.parts(c)[5], 0)

    def requires(self, c):
        s, x, x0, a, thr, D, R, w = self.parts(c)
        n = ln(x0)
        m = ln(D, 0)
        out = [("same-input-dimension", z3.And(ln(x) == n, ln(a) == n)),  # __init__ checks approx_indexes.shape == x_vect.shape
               ("coefficient-matrices-have-the-same-shape", z3.And(ln(R, 0) == m, ln(R, 1) == ln(D, 1), m >= 1)),
               ("declared-dimension-unknown-or-the-output-dimension", z3.Or(w.dim == 0, w.dim == m)),
               ("one-coefficient-column-per-approximated-input", ln(D, 1) == self.enum(c)[0])]  # __init__: coeffs = jac[:, approx_indexes]
        # conventions of MDOFunction on f, at every point of R^n (f is only evaluated at the merged point)
        p = z3.Const("p!cla", F1.sort())
        f, df = z3fun("f", self.vec)
        if self.vec:
            out.append(("f-conventions", z3.ForAll([p], z3.Implies(F1.dim(p) == n, z3.And(F1.dim(f(p)) == m, F2.dim(df(p), 0) == m, F2.dim(df(p), 1) == n)),
                                                   patterns=[f(p), df(p)])))
        else:
            out += [("f-conventions", z3.ForAll([p], z3.Implies(F1.dim(p) == n, F1.dim(df(p)) == n), patterns=[df(p)])), ("number-valued-f", m == 1)]
        return out

    # ---- the enumeration I_0 < I_1 < ... of the approximated inputs (the model's enumeration of the true positions of the mask)
    def enum(self, c):
        a = self.parts(c)[3]
        from pyvc.plug_np_c10 import _NP

        p, idx = _NP._nonzero(c.st.ex, a.obj)  # (cached per mask content: the code's `[mask]` selections use the same enumeration)
        return p, (lambda k: idx[k]), c.st.ghost["nonzero_rank"][idx.get_id()]

    def other_ranks(self, c, k):
        """rank(k) in the other enumerations built by the code (the positions where |step| exceeds the threshold): terms that trigger
        the model's axiom `a true position is enumerated`."""
        mine = self.enum(c)[2]
        return [r[k] for r in c.st.ghost.get("nonzero_rank", {}).values() if not r.eq(mine)]

    def step(self, c, k):
        s, x, x0, a, thr, D, R, w = self.parts(c)
        p, I, rank = self.enum(c)
        return el(x, I(k)) - el(x0, I(k))

    def inv(self, c, k):
        thr = self.parts(c)[4]
        st = self.step(c, k)
        return z3.If(absr(st) > thr, 1 / st, z3.RealVal(0))

    def evaluated_at_merged(self, c, fname):
        """The (single) call of the callable: its argument is the merged point, component by component."""
        s, x, x0, a, thr, D, R, w = self.parts(c)
        cs = calls(c, fname)
        if len(cs) != 1:
            return None, [(f"{fname[4:]}-is-evaluated-exactly-once", z3.BoolVal(False))]
        (arg,), res = cs[0]
        i = z3.Int("i!mg")
        return res, [(f"{fname[4:]}-is-evaluated-at-the-merged-point",
                      z3.And(F1.dim(arg) == ln(x0), z3.ForAll([i], z3.Implies(z3.And(0 <= i, i < ln(x0)), F1.els(arg)[i] == z3.If(el(a, i), el(x0, i), el(x, i))))))]


def _unchanged(c):
    from contracts.c10_function_algebra import funv_arrays_unchanged

    return funv_arrays_unchanged(c)


for _vec in (True, False):
    class ClaValue(_Cla):
        __doc__ = _Cla.__doc__
        targets = (CLA + "._func_to_wrap",)
        variant = f"{'vector' if _vec else 'number'}-valued-f"
        vec = _vec
        self_schema = f"{CLA}#{kind(_vec)}"

        def ensures(self, c):
            from pyvc.values import SV

            s, x, x0, a, thr, D, R, w = self.parts(c)
            m = self.out_dim(c)
            fx, out = self.evaluated_at_merged(c, "c10_f")
            if fx is None:
                return out
            p, I, rank = self.enum(c)
            fval = (lambda i: F1.els(fx)[i]) if self.vec else (lambda i: fx)
            g = lambda i: (lambda: fval(i) + series(lambda k: el(D, i, k) * self.step(c, k), p) + series(lambda k: el(R, i, k) * self.inv(c, k), p))  # noqa: E731
            rv = c.result_value
            i = z3.Int("i!cv")
            if isinstance(rv, SV):
                out += [("number-only-for-one-output", m == 1)] + sum_clauses(c, "value", c.result, g(z3.IntVal(0)), mention=lambda k: self.other_ranks(c, k))
            else:
                r = c.result
                out += [("size", ln(r) == m)] + sum_clauses(c, "components", el(r, i), g(i), [i], z3.And(0 <= i, i < m), mention=lambda k: self.other_ranks(c, k))
            return out + _unchanged(c)

    register(ClaValue)

    class ClaJacobian(_Cla):
        """Jacobian of g: column j of Df(merged) for an input j that is not approximated; for the k-th approximated input I_k the derivative of
        its two terms, D[:, k] - R[:, k] inv_k^2."""

        targets = (CLA + "._jac_to_wrap",)
        variant = f"{'vector' if _vec else 'number'}-valued-f"
        vec = _vec
        self_schema = f"{CLA}#{kind(_vec)}"

        def ensures(self, c):
            s, x, x0, a, thr, D, R, w = self.parts(c)
            m, n = self.out_dim(c), ln(x0)
            dfx, out = self.evaluated_at_merged(c, "c10_Df")
            if dfx is None:
                return out
            p, I, rank = self.enum(c)
            dval = (lambda i, j: z3.Select(F2.els(dfx), i, j)) if self.vec else (lambda i, j: F1.els(dfx)[j])
            r = c.result
            i, j, k = z3.Int("i!cj"), z3.Int("j!cj"), z3.Int("k!cj")
            if r.obj.rank == 1:
                out.append(("gradient-only-for-one-output", z3.And(m == 1, ln(r) == n)))
                at = lambda i, j: el(r, j)  # noqa: E731
                rows = z3.And(i == 0)
            else:
                out.append(("shape-(m,n)", z3.And(ln(r, 0) == m, ln(r, 1) == n)))
                at = lambda i, j: el(r, i, j)  # noqa: E731
                rows = z3.And(0 <= i, i < m)
            out += [
                ("exact-input-columns", z3.ForAll([i, j], z3.Implies(z3.And(rows, 0 <= j, j < n, z3.Not(el(a, j))), at(i, j) == dval(i, j)))),
                ("approximated-input-columns", z3.ForAll([i, k], z3.Implies(
                    z3.And(rows, 0 <= k, k < p), at(i, I(k)) == el(D, i, k) + el(R, i, k) * -(self.inv(c, k) * self.inv(c, k))))),
            ]
            return out + _unchanged(c)

    register(ClaJacobian)


# ---------------------------------------------------------------------------- construction: coefficient / sign bookkeeping
from pyvc.plug_c01 import SelfMethod, SelfRef  # noqa: E402  (fields holding a bound method of the object itself / the object itself)
from pyvc.values import TList, TVal  # noqa: E402

for _vec in (True, False):
    _fn, _jac = fun("f", _vec)
    schema(f"{MDOF}#wrapped-full-{kind(_vec)}", {"_func": _fn, "_jac": _jac, "dim": TInt, "name": TStr, "f_type": TStr, "_output_names": TList(TStr),
                                                 "force_real": TBool, "_MDOFunction__original_name": TStr})
    schema(f"{CLA}#init-{kind(_vec)}", {
        P_ + "x_vect": F1, P_ + "mdo_function": TObj(MDOF, schema_key=f"{MDOF}#wrapped-full-{kind(_vec)}"), P_ + "approx_indexes": B1,
        P_ + "sign_threshold": TReal, P_ + "direct_coeffs": F2, P_ + "recipr_coeffs": F2,
        "_func": SelfMethod(CLA, "_func_to_wrap"), "_jac": SelfMethod(CLA, "_jac_to_wrap"), "name": TStr, "f_type": TStr, "expr": TStr,
        "_input_names": TList(TStr), "_output_names": TList(TStr), "dim": TInt, "last_eval": TVal, "force_real": TBool, "special_repr": TStr,
        "has_default_name": TBool, "_MDOFunction__original_name": TStr, "_MDOFunction__expects_normalized_inputs": TBool, "original": SelfRef(CLA),
    })


def own_method(v, owner_ref, method):
    from pyvc.values import BoundMethod, Ref

    return isinstance(v, BoundMethod) and isinstance(v.recv, Ref) and v.recv.id == owner_ref.id and v.finfo is not None and v.finfo.qualname == f"{CLA}.{method}"


for _vec in (True, False):
    class ClaInit(Contract):
        """The construction stores the reference point, the function, the mask and the threshold, evaluates Df once, at the reference point x0,
        and splits the columns of the approximated inputs by sign: with c = Df(x0)[i, I_k],
            D[i, k] = c if c > threshold else 0,     R[i, k] = -c x0[I_k]^2 if -c > threshold else 0   (so that D >= 0 and R >= 0 for a threshold >= 0);
        the new function evaluates / differentiates with its own _func_to_wrap / _jac_to_wrap and declares the output dimension of f."""

        targets = (CLA + ".__init__",)
        variant = f"{'vector' if _vec else 'number'}-valued-f"
        prop = ("C10",)
        numpy = "precise"
        frame_arrays = True
        track_funv_arrays = True
        np_views = True
        vec = _vec
        self_schema = f"{CLA}#init-{kind(_vec)}"
        params = {"x_vect": F1, "mdo_function": TObj(MDOF, schema_key=f"{MDOF}#wrapped-full-{kind(_vec)}"), "approx_indexes": B1, "sign_threshold": TReal}
        modifies = ("self",)
        raises = {"ValueError": lambda c: ln(c.old.approx_indexes) != ln(c.old.x_vect)}

        def requires(self, c):
            n = ln(c.old.x_vect)
            p = z3.Const("p!cla", F1.sort())
            f, df = z3fun("f", self.vec)
            if self.vec:
                return [("f-conventions", z3.ForAll([p], z3.Implies(F1.dim(p) == n, z3.And(F2.dim(df(p), 0) >= 1, F2.dim(df(p), 1) == n)), patterns=[df(p)]))]
            return [("f-conventions", z3.ForAll([p], z3.Implies(F1.dim(p) == n, F1.dim(df(p)) == n), patterns=[df(p)]))]

        def ensures(self, c):
            from pyvc.plug_np_c10 import _NP

            x0, a, thr, w = c.old.x_vect, c.old.approx_indexes, c.old.sign_threshold, c.old.mdo_function
            s = c.new.self
            g = lambda name: getattr(s, P_ + name)  # noqa: E731
            D, R = g("direct_coeffs"), g("recipr_coeffs")
            cs = calls(c, "c10_Df")
            if len(cs) != 1:
                return [("Df-is-evaluated-exactly-once", z3.BoolVal(False))]
            (arg,), dfx = cs[0]
            i, k, j = z3.Int("i!ci"), z3.Int("k!ci2"), z3.Int("j!ci")
            p, idx = _NP._nonzero(c.st.ex, a.obj)
            m = F2.dim(dfx, 0) if self.vec else z3.IntVal(1)
            cf = (lambda i, k: z3.Select(F2.els(dfx), i, idx[k])) if self.vec else (lambda i, k: F1.els(dfx)[idx[k]])
            inr = z3.And(0 <= i, i < m, 0 <= k, k < p)
            fields = s.obj.fields if hasattr(s, "obj") else {}
            return [
                ("Df-is-evaluated-at-the-reference-point", z3.And(F1.dim(arg) == ln(x0), z3.ForAll([j], z3.Implies(z3.And(0 <= j, j < ln(x0)), F1.els(arg)[j] == el(x0, j))))),
                ("stores-the-reference-point", z3.BoolVal(g("x_vect").ref.id == c.arg("x_vect").id)),
                ("stores-the-function", z3.BoolVal(g("mdo_function").ref.id == c.arg("mdo_function").id)),
                ("stores-the-mask", z3.BoolVal(g("approx_indexes").ref.id == c.arg("approx_indexes").id)),
                ("stores-the-threshold", g("sign_threshold") == thr),
                ("coefficient-shapes", z3.And(ln(D, 0) == m, ln(D, 1) == p, ln(R, 0) == m, ln(R, 1) == p)),
                ("direct-coefficients", z3.ForAll([i, k], z3.Implies(inr, el(D, i, k) == z3.If(cf(i, k) > thr, cf(i, k), z3.RealVal(0))))),
                ("reciprocal-coefficients", z3.ForAll([i, k], z3.Implies(inr, el(R, i, k) == -z3.If(-cf(i, k) > thr, cf(i, k), z3.RealVal(0)) * (el(x0, idx[k]) * el(x0, idx[k]))))),
                ("coefficients-are-non-negative", z3.Implies(thr >= 0, z3.ForAll([i, k], z3.Implies(inr, z3.And(el(D, i, k) >= 0, el(R, i, k) >= 0))))),
                ("value-is-its-own-convex-linearisation", z3.BoolVal(own_method(fields.get("_func"), c.arg("self"), "_func_to_wrap"))),
                ("jacobian-is-its-own-convex-linearisation", z3.BoolVal(own_method(fields.get("_jac"), c.arg("self"), "_jac_to_wrap"))),
                ("declares-the-output-dimension-of-f", s.dim == w.dim),
                ("keeps-the-function-type", s.f_type == w.f_type),
                ("keeps-force_real", s.force_real == w.force_real),
                ("is-its-own-original", z3.BoolVal(fields.get("original") == c.arg("self"))),
            ] + _unchanged(c)

    register(ClaInit)


# ============================================================================ first-order Taylor polynomial, negation / offset of a linear function
# The result is a new MDOLinearFunction built by the REAL constructor (pyvc/plug_c01.py: `c01_construct`; the expression strings are
# assumed glue, see contracts/c01_preprocessing.py); its value / Jacobian are A x + b / A by the contracts on _func_to_wrap / _jac_to_wrap.
from contracts import c01_preprocessing as P1  # noqa: E402

LIN = P1.LIN
TAYLOR = "gemseo.core.mdo_functions.taylor_polynomials."
schema(f"{MDOF}#taylor", {"_func": fun("f", True)[0], "_jac": fun("f", True)[1], "name": TStr, "_input_names": TList(TStr)})


class _NewLinear(Contract):
    prop = ("C10",)
    numpy = "precise"
    c01 = True
    c01_construct = {LIN: LIN + "#dense"}
    frame_arrays = True
    track_funv_arrays = True
    psum_definition = False
    returns = TObj(LIN, schema_key=LIN + "#dense")

    def is_new_linear_function(self, c):
        from pyvc.values import Ref

        rref = c.result_value
        ok = isinstance(rref, Ref) and c.result.obj.cls == LIN
        return [("result:is-a-new-linear-function", z3.BoolVal(ok and all(rref.id != getattr(v, "id", None) for v in c._args.values()))),
                ("result:func-is-its-own-linear-map", z3.BoolVal(ok and P1.is_own_method(c.result.obj.fields["_func"], rref, "_func_to_wrap"))),
                ("result:jac-is-its-own-coefficients", z3.BoolVal(ok and P1.is_own_method(c.result.obj.fields["_jac"], rref, "_jac_to_wrap")))]


@register
class LinearApproximation(_NewLinear):
    """First-order Taylor polynomial of a vector-valued f at x0: the linear function with coefficients A = Df(x0) and offset
    b_i = f(x0)_i - sum_k A_ik x0_k, i.e. (TaylorLemmas) A x + b = f(x0) + Df(x0) (x - x0)."""

    targets = (TAYLOR + "compute_linear_approximation",)
    params = {"function": TObj(MDOF, schema_key=f"{MDOF}#taylor"), "x_vect": F1, "name": TStr, "f_type": TStr, "input_names": TList(TStr)}
    modifies = ()

    def requires(self, c):
        n = ln(c.old.x_vect)
        p = z3.Const("p!ta", F1.sort())
        f, df = z3fun("f", True)
        return [("f-conventions", z3.ForAll([p], z3.Implies(F1.dim(p) == n, z3.And(F1.dim(f(p)) >= 1, F2.dim(df(p), 0) == F1.dim(f(p)), F2.dim(df(p), 1) == n)),
                                            patterns=[f(p), df(p)]))]

    def ensures(self, c):
        x0 = c.old.x_vect
        out = self.is_new_linear_function(c)
        r = c.result
        A, b = r._coefficients, r._value_at_zero
        i, j = z3.Int("i!la"), z3.Int("j!la")
        pts = []
        for fname in ("c10_f", "c10_Df"):
            cs = calls(c, fname)
            if len(cs) != 1:
                return out + [(f"{fname[4:]}-is-evaluated-exactly-once", z3.BoolVal(False))]
            (arg,), res = cs[0]
            pts.append(res)
            out.append((f"{fname[4:]}-is-evaluated-at-the-reference-point",
                        z3.And(F1.dim(arg) == ln(x0), z3.ForAll([j], z3.Implies(z3.And(0 <= j, j < ln(x0)), F1.els(arg)[j] == el(x0, j))))))
        fx, dfx = pts
        m, n = F1.dim(fx), ln(x0)
        out += [("coefficients-shape", z3.And(ln(A, 0) == m, ln(A, 1) == n)),
                ("coefficients-are-the-jacobian-at-the-reference-point",
                 z3.ForAll([i, j], z3.Implies(z3.And(0 <= i, i < m, 0 <= j, j < n), el(A, i, j) == z3.Select(F2.els(dfx), i, j)))),
                ("offset-size", ln(b) == m)]
        out += sum_clauses(c, "offset", el(b, i), lambda: F1.els(fx)[i] - series(lambda k: z3.Select(F2.els(dfx), i, k) * el(x0, k), n), [i], z3.And(0 <= i, i < m))
        return out + _unchanged(c)


class _LinOp(_NewLinear):
    self_schema = LIN + "#dense"
    modifies = ()

    def requires(self, c):
        s = c.old.self
        return [("offset-length", ln(s._value_at_zero) == ln(s._coefficients, 0))]  # class invariant (value_at_zero setter)

    def linear_clauses(self, c, coeff, offset):
        s, r = c.old.self, c.result
        A0, A, b = s._coefficients, r._coefficients, r._value_at_zero
        m, n = ln(A0, 0), ln(A0, 1)
        i, j = z3.Int("i!lo"), z3.Int("j!lo")
        return self.is_new_linear_function(c) + [
            ("coefficients-shape", z3.And(ln(A, 0) == m, ln(A, 1) == n)),
            ("coefficients", z3.ForAll([i, j], z3.Implies(z3.And(0 <= i, i < m, 0 <= j, j < n), el(A, i, j) == coeff(el(A0, i, j))))),
            ("offset-size", ln(b) == m),
            ("offset", z3.ForAll([i], z3.Implies(z3.And(0 <= i, i < m), el(b, i) == offset(i, el(s._value_at_zero, i))))),
            ("same-function-type", r.f_type == s.f_type),
        ]


@register
class LinearNeg(_LinOp):
    """-(A x + b) = (-A) x + (-b)."""

    targets = (LIN + ".__neg__",)

    def ensures(self, c):
        return self.linear_clauses(c, lambda a: -a, lambda i, b: -b)


@register
class LinearOffsetNumber(_LinOp):
    """(A x + b) + c = A x + (b + c) for a number c."""

    targets = (LIN + ".offset",)
    variant = "number"
    params = {"value": TReal}

    def ensures(self, c):
        return self.linear_clauses(c, lambda a: a, lambda i, b: b + c.old.value)


@register
class LinearOffsetVector(_LinOp):
    """(A x + b) + c = A x + (b + c) for a vector c of the output dimension."""

    targets = (LIN + ".offset",)
    variant = "vector"
    params = {"value": F1}

    def requires(self, c):
        return super().requires(c) + [("offset-vector-has-the-output-dimension", ln(c.old.value) == ln(c.old.self._coefficients, 0))]

    def ensures(self, c):
        return self.linear_clauses(c, lambda a: a, lambda i, b: b + el(c.old.value, i))


@register
class TaylorLemmas(Contract):
    """A x + b with b = f0 - A x0 is the Taylor form f0 + A (x - x0), row by row: induction on the prefix sums (base + step) and conclusion."""

    targets = ()
    prop = ("C10",)
    lemma = True

    def lemmas(self):
        from pyvc.plug_np_c10 import psum_axioms

        RS = z3.ArraySort(z3.IntSort(), z3.RealSort())
        a, x, x0, U, V, W = (z3.Const(nm, RS) for nm in ("a!tl", "x!tl", "x0!tl", "U!tl", "V!tl", "W!tl"))
        k, n, t = z3.Int("k!tl"), z3.Int("n!tl"), z3.Int("t!tl")
        f0 = z3.Real("f0!tl")
        defs = [z3.ForAll([t], U[t] == a[t] * x[t], patterns=[U[t]]), z3.ForAll([t], V[t] == a[t] * x0[t], patterns=[V[t]]),
                z3.ForAll([t], W[t] == a[t] * (x[t] - x0[t]), patterns=[W[t]])]
        ax = psum_axioms("f")
        P = lambda j: PSUM(U, j) - PSUM(V, j) == PSUM(W, j)  # noqa: E731,N806
        return [("taylor-form-base", z3.Implies(z3.And(*ax), P(z3.IntVal(0)))),
                ("taylor-form-step", z3.Implies(z3.And(*ax, *defs, k >= 0, P(k)), P(k + 1))),
                ("taylor-form", z3.Implies(z3.And(n >= 0, P(n)), PSUM(U, n) + (f0 - PSUM(V, n)) == f0 + PSUM(W, n)))]


schema(f"{MDOF}#taylor-s", {"_func": fun("f", False)[0], "_jac": fun("f", False)[1], "name": TStr, "_input_names": TList(TStr)})


@register
class LinearApproximationNumberValued(_NewLinear):
    """First-order Taylor polynomial of a number-valued f at x0: one row of coefficients, the gradient Df(x0), and the offset
    f(x0) - sum_k Df(x0)_k x0_k."""

    targets = (TAYLOR + "compute_linear_approximation",)
    variant = "number-valued-f"
    params = {"function": TObj(MDOF, schema_key=f"{MDOF}#taylor-s"), "x_vect": F1, "name": TStr, "f_type": TStr, "input_names": TList(TStr)}
    modifies = ()

    def requires(self, c):
        n = ln(c.old.x_vect)
        p = z3.Const("p!ta", F1.sort())
        f, df = z3fun("f", False)
        return [("f-conventions", z3.ForAll([p], z3.Implies(F1.dim(p) == n, F1.dim(df(p)) == n), patterns=[df(p)]))]

    def ensures(self, c):
        x0 = c.old.x_vect
        out = self.is_new_linear_function(c)
        r = c.result
        A, b = r._coefficients, r._value_at_zero
        j = z3.Int("j!ls")
        pts = []
        for fname in ("c10_f", "c10_Df"):
            cs = calls(c, fname)
            if len(cs) != 1:
                return out + [(f"{fname[4:]}-is-evaluated-exactly-once", z3.BoolVal(False))]
            (arg,), res = cs[0]
            pts.append(res)
            out.append((f"{fname[4:]}-is-evaluated-at-the-reference-point",
                        z3.And(F1.dim(arg) == ln(x0), z3.ForAll([j], z3.Implies(z3.And(0 <= j, j < ln(x0)), F1.els(arg)[j] == el(x0, j))))))
        fx, dfx = pts
        n = ln(x0)
        out += [("coefficients-shape-(1,n)", z3.And(ln(A, 0) == 1, ln(A, 1) == n)),
                ("coefficients-are-the-gradient-at-the-reference-point", z3.ForAll([j], z3.Implies(z3.And(0 <= j, j < n), el(A, 0, j) == F1.els(dfx)[j]))),
                ("offset-size", ln(b) == 1)]
        out += sum_clauses(c, "offset", el(b, 0), lambda: fx - series(lambda k: F1.els(dfx)[k] * el(x0, k), n))
        return out + _unchanged(c)


@register
class LinearRestrict(_NewLinear):
    """Restriction of A x + b to the inputs that are not frozen: with the frozen inputs F_0.. (distinct, in range) at the values v and the
    active inputs a_0 < a_1 < ... (all the others), the new function is y -> sum_k A[:, a_k] y_k + (b + sum_k A[:, F_k] v_k)."""

    targets = (LIN + ".restrict",)
    self_schema = LIN + "#dense"
    function_type_enum = True  # the default f_type of the constructor: MDOFunction.FunctionType.NONE == ""
    comprehension_list_index = True  # input_names[i] inside a comprehension: the index is proved in range for every position
    params = {"frozen_indexes": I1, "frozen_values": F1}
    modifies = ()
    raises = {"ValueError": lambda c: ln(c.old.frozen_indexes) != ln(c.old.frozen_values)}

    def requires(self, c):
        s, fr = c.old.self, c.old.frozen_indexes
        n = ln(s._coefficients, 1)
        a, b = z3.Int("a!lr"), z3.Int("b!lr")
        return [("offset-length", ln(s._value_at_zero) == ln(s._coefficients, 0)),
                ("one-name-per-input", s._input_names.n == n),
                ("frozen-indexes-in-range", z3.ForAll([a], z3.Implies(z3.And(0 <= a, a < ln(fr)), z3.And(0 <= el(fr, a), el(fr, a) < n)))),
                ("frozen-indexes-distinct", z3.ForAll([a, b], z3.Implies(z3.And(0 <= a, a < b, b < ln(fr)), el(fr, a) != el(fr, b))))]

    def enumerated(self, c, act, q, j):
        """j = act[k] for some k < q; the position map of the filtered comprehension that built the enumeration, if any, is the witness."""
        from pyvc.values import ListObj

        k = z3.Int("k!en")
        maps = [o.fdst for o in c.st.heap.values() if isinstance(o, ListObj) and getattr(o, "fdst", None) is not None]
        if len(maps) == 1:
            return z3.And(0 <= maps[0][j], maps[0][j] < q, el(act, maps[0][j]) == j)
        return z3.Exists([k], z3.And(0 <= k, k < q, el(act, k) == j))

    def ensures(self, c):
        from pyvc.state import Undecided

        s, fr, v = c.old.self, c.old.frozen_indexes, c.old.frozen_values
        A0, b0 = s._coefficients, s._value_at_zero
        m, n = ln(A0, 0), ln(A0, 1)
        out = self.is_new_linear_function(c)
        r = c.result
        A, b = r._coefficients, r._value_at_zero
        if "active_indexes" not in c.locals:
            raise Undecided("the local 'active_indexes' (enumeration of the inputs that are not frozen) no longer exists")
        act = c.locals["active_indexes"]
        q = ln(act)
        i, k, k2, j, t = z3.Int("i!lr"), z3.Int("k!lr"), z3.Int("k2!lr"), z3.Int("j!lr"), z3.Int("t!lr")
        frozen = lambda x: z3.Exists([t], z3.And(0 <= t, t < ln(fr), el(fr, t) == x))  # noqa: E731
        out += [
            ("active:in-range-and-not-frozen", z3.ForAll([k], z3.Implies(z3.And(0 <= k, k < q), z3.And(0 <= el(act, k), el(act, k) < n, z3.Not(frozen(el(act, k))))))),
            ("active:increasing", z3.ForAll([k, k2], z3.Implies(z3.And(0 <= k, k < k2, k2 < q), el(act, k) < el(act, k2)))),
            ("active:every-input-that-is-not-frozen", z3.ForAll([j], z3.Implies(z3.And(0 <= j, j < n, z3.Not(frozen(j))), self.enumerated(c, act, q, j)))),
            ("coefficients-shape", z3.And(ln(A, 0) == m, ln(A, 1) == q)),
            ("coefficients-are-the-active-columns", z3.ForAll([i, k], z3.Implies(z3.And(0 <= i, i < m, 0 <= k, k < q), el(A, i, k) == el(A0, i, el(act, k))))),
            ("offset-size", ln(b) == m),
        ]
        out += sum_clauses(c, "offset", el(b, i), lambda: series(lambda k: el(A0, i, el(fr, k)) * el(v, k), ln(fr)) + el(b0, i), [i], z3.And(0 <= i, i < m))
        return out


# ============================================================================ negation of a function: wiring of the new MDOFunction
from pyvc.contract import Contract as _C  # noqa: E402,F401


@register
class PrettyStr(Contract):
    targets = ("gemseo.utils.string_tools.pretty_str",)
    prop = ("C10",)
    params = {"obj": TList(TStr)}
    returns = TStr
    trusted = True
    description = "assumed: pretty_str builds a display string from a list of names (strings only, no effect on the state)"


for _vec in (True, False):
    _fn, _jac = fun("f", _vec)
    _common = {"name": TStr, "f_type": TStr, "expr": TStr, "_input_names": TList(TStr), "_output_names": TList(TStr), "dim": TInt, "last_eval": TVal,
               "force_real": TBool, "special_repr": TStr, "has_default_name": TBool, "_MDOFunction__original_name": TStr,
               "_MDOFunction__expects_normalized_inputs": TBool}
    schema(f"{MDOF}#neg-operand-{kind(_vec)}", dict(_common, _func=_fn, _jac=_jac, original=SelfRef(MDOF)))
    # the function built by __neg__: its callables are bound methods of the operand
    schema(f"{MDOF}#neg-result-{kind(_vec)}", dict(_common, _func=TVal, _jac=TVal, original=SelfRef(MDOF)))


def bound_to(v, owner_ref, method):
    from pyvc.values import BoundMethod, Ref

    return isinstance(v, BoundMethod) and isinstance(v.recv, Ref) and v.recv.id == owner_ref.id and v.finfo is not None and v.finfo.qualname == f"{MDOF}.{method}"


for _vec in (True, False):
    class FunctionNeg(Contract):
        """-f is a new MDOFunction whose value is the operand's _min_pt (x -> -f(x), contract above in c10_function_algebra) and whose Jacobian is the
        operand's _min_jac (x -> -Df(x)), with the operand's type, declared output dimension and output names; the operand is unchanged."""

        targets = (MDOF + ".__neg__",)
        variant = f"{'vector' if _vec else 'number'}-valued-f"
        prop = ("C10",)
        numpy = "precise"
        c01 = True
        c01_construct = {MDOF: f"{MDOF}#neg-result-{kind(_vec)}"}
        frame_arrays = True
        self_schema = f"{MDOF}#neg-operand-{kind(_vec)}"
        returns = TObj(MDOF, schema_key=f"{MDOF}#neg-result-{kind(_vec)}")
        modifies = ()

        def ensures(self, c):
            from pyvc.values import Ref

            s, rref = c.old.self, c.result_value
            ok = isinstance(rref, Ref) and rref.id != c.arg("self").id
            if not ok:
                return [("result-is-a-new-function", z3.BoolVal(False))]
            r = c.result
            f = r.obj.fields
            return [("result-is-a-new-function", z3.BoolVal(True)),
                    ("value-is-the-opposite-of-the-operand", z3.BoolVal(bound_to(f.get("_func"), c.arg("self"), "_min_pt"))),
                    ("jacobian-is-the-opposite-of-the-operand-jacobian", z3.BoolVal(bound_to(f.get("_jac"), c.arg("self"), "_min_jac"))),
                    ("same-type-and-declared-dimension", z3.And(r.f_type == s.f_type, r.dim == s.dim)),
                    ("same-output-names", z3.And(r._output_names.n == s._output_names.n, r._output_names.elems == s._output_names.elems)),
                    ("is-its-own-original", z3.BoolVal(f.get("original") == rref))]

    register(FunctionNeg)


# ============================================================================ restriction of a function to some inputs
FR = "gemseo.core.mdo_functions.function_restriction.FunctionRestriction"
Q_ = "_FunctionRestriction__"
for _vec in (True, False):
    schema(f"{FR}#{kind(_vec)}", {Q_ + "frozen_indexes": I1, Q_ + "frozen_values": F1, Q_ + "input_dim": TInt, "_active_indexes": I1,
                                  Q_ + "mdo_function": TObj(MDOF, schema_key=f"{MDOF}#wrapped-{kind(_vec)}")})


class _Restriction(Contract):
    """r(y) = f(P(y)), P(y)[a_k] = y_k on the active inputs and P(y)[F_k] = v_k on the frozen ones; Dr(y) = the active columns of Df(P(y))."""

    prop = ("C10",)
    numpy = "precise"
    frame_arrays = True
    track_funv_arrays = True
    params = {"x_subvect": F1}
    modifies = ()
    vec = True

    def parts(self, c):
        s = c.old.self
        return c.old.x_subvect, getattr(s, Q_ + "frozen_indexes"), getattr(s, Q_ + "frozen_values"), s._active_indexes, getattr(s, Q_ + "input_dim")

    def requires(self, c):
        y, fr, v, act, n = self.parts(c)
        a, b, j = z3.Int("a!rs"), z3.Int("b!rs"), z3.Int("j!rs")
        p = z3.Const("p!rs", F1.sort())
        f, df = z3fun("f", self.vec)
        inr = lambda idx: z3.ForAll([a], z3.Implies(z3.And(0 <= a, a < ln(idx)), z3.And(0 <= el(idx, a), el(idx, a) < n)))  # noqa: E731
        dis = lambda idx: z3.ForAll([a, b], z3.Implies(z3.And(0 <= a, a < b, b < ln(idx)), el(idx, a) != el(idx, b)))  # noqa: E731
        conv = z3.And(F2.dim(df(p), 0) >= 1, F2.dim(df(p), 1) == n) if self.vec else F1.dim(df(p)) == n
        # __init__: same shape for the frozen indexes and values; _active_indexes = the indexes of range(input_dim) that are not frozen
        return [("one-value-per-frozen-input", ln(v) == ln(fr)), ("one-value-per-active-input", ln(y) == ln(act)), ("input-dimension", n >= 0),
                ("frozen-indexes-in-range", inr(fr)), ("frozen-indexes-distinct", dis(fr)), ("active-indexes-in-range", inr(act)), ("active-indexes-distinct", dis(act)),
                ("active-and-frozen-inputs-are-disjoint", z3.ForAll([a, b], z3.Implies(z3.And(0 <= a, a < ln(act), 0 <= b, b < ln(fr)), el(act, a) != el(fr, b)))),
                ("f-conventions", z3.ForAll([p], z3.Implies(F1.dim(p) == n, conv), patterns=[df(p)]))]

    def extended_point(self, c, fname):
        y, fr, v, act, n = self.parts(c)
        cs = calls(c, fname)
        if len(cs) != 1:
            return None, [(f"{fname[4:]}-is-evaluated-exactly-once", z3.BoolVal(False))]
        (arg,), res = cs[0]
        k = z3.Int("k!ep")
        P = F1.els(arg)
        return res, [(f"{fname[4:]}-point:dimension", F1.dim(arg) == n),
                     (f"{fname[4:]}-point:active-inputs", z3.ForAll([k], z3.Implies(z3.And(0 <= k, k < ln(act)), P[el(act, k)] == el(y, k)))),
                     (f"{fname[4:]}-point:frozen-inputs", z3.ForAll([k], z3.Implies(z3.And(0 <= k, k < ln(fr)), P[el(fr, k)] == el(v, k))))]


for _vec in (True, False):
    class RestrictionValue(_Restriction):
        __doc__ = _Restriction.__doc__
        targets = (FR + "._func_to_wrap",)
        variant = f"{'vector' if _vec else 'number'}-valued-f"
        vec = _vec
        self_schema = f"{FR}#{kind(_vec)}"
        returns = F1 if _vec else TReal

        def ensures(self, c):
            fx, out = self.extended_point(c, "c10_f")
            if fx is None:
                return out
            i = z3.Int("i!rv")
            if self.vec:
                r = c.result
                out += [("value", z3.And(ln(r) == F1.dim(fx), z3.ForAll([i], z3.Implies(z3.And(0 <= i, i < ln(r)), el(r, i) == F1.els(fx)[i]))))]
            else:
                out += [("value", c.result == fx)]
            return out + _unchanged(c)

    register(RestrictionValue)

    class RestrictionJacobian(_Restriction):
        __doc__ = _Restriction.__doc__
        targets = (FR + "._jac_to_wrap",)
        variant = f"{'vector' if _vec else 'number'}-valued-f"
        vec = _vec
        self_schema = f"{FR}#{kind(_vec)}"
        returns = F2 if _vec else F1

        def ensures(self, c):
            y, fr, v, act, n = self.parts(c)
            dfx, out = self.extended_point(c, "c10_Df")
            if dfx is None:
                return out
            r = c.result
            i, k = z3.Int("i!rj"), z3.Int("k!rj")
            if self.vec:
                m = F2.dim(dfx, 0)
                out += [("shape", z3.And(ln(r, 0) == m, ln(r, 1) == ln(act))),
                        ("active-columns", z3.ForAll([i, k], z3.Implies(z3.And(0 <= i, i < m, 0 <= k, k < ln(act)), el(r, i, k) == z3.Select(F2.els(dfx), i, el(act, k)))))]
            else:
                out += [("size", ln(r) == ln(act)), ("active-components", z3.ForAll([k], z3.Implies(z3.And(0 <= k, k < ln(act)), el(r, k) == F1.els(dfx)[el(act, k)])))]
            return out + _unchanged(c)

    register(RestrictionJacobian)
