"""C02 (values) - convert_array_to_dict: the inverse of convert_dict_to_array (contracts/c02_more.py); lossless conversions.

`DesignSpace.convert_array_to_dict(x)` = `split_array_to_dict_of_arrays(x, self.variable_sizes, self)`: the real loop of
`gemseo.utils.data_conversion.split_array_to_dict_of_arrays` is executed (inlined into convert_array_to_dict) under the invariant below.
"""
from __future__ import annotations

import z3

from contracts import c02_design_space as D
from contracts import c02_more as M
from contracts import c02_normalization as N2
from pyvc.contract import Contract, LoopSpec, register
from pyvc.values import TDict, TStr

DS = D.DS
F1 = N2.F1
FDICT = TDict(TStr, F1, ordered=True)
SPLIT = "gemseo.utils.data_conversion.split_array_to_dict_of_arrays"
CAD = DS + ".convert_array_to_dict"


def _blocks(s, r, x, upto):
    """The first `upto` variables (in the variable order) have their block of x: `size` components starting at start(name)."""
    v = D.V(s)
    p, j = z3.Int("p!ad"), z3.Int("j!ad")
    val = r.vals[v.keys[p]]
    e = F1.els(val)[j]
    return [("block-lengths", M.forall_pat([p], z3.Implies(z3.And(0 <= p, p < upto), F1.dim(val) == M.vsize(v.vals[v.keys[p]])), v.keys[p])),
            ("block-elements", z3.ForAll([p, j], z3.Implies(z3.And(0 <= p, p < upto, 0 <= j, j < M.vsize(v.vals[v.keys[p]])), e == N2.el(x, D.start(M.rngk(s, p)) + j)), patterns=[e]))]


def _split_inv(c, k):
    s, x = c.old.self, c.old.x_array
    v = D.V(s)
    r = c.locals["result"]
    fi = c.locals["first_index"]
    a = z3.Const("a!si", TStr.sort())
    p = z3.Int("p!si")
    full = N2.ln(x) == s.dimension
    return [("first-index-is-the-start-of-the-next-range", fi == z3.If(k < v.n, D.start(M.rngk(s, k)), s.dimension)),
            ("members", z3.ForAll([a], r.has(a) == z3.And(v.has(a), v.pos[a] < k), patterns=[r.has(a)])),
            ("size", r.n == k),
            ("order", M.forall_pat([p], z3.Implies(z3.And(0 <= p, p < k), r.keys[p] == v.keys[p]), v.keys[p]))] + \
        [(l, z3.Implies(full, f)) for l, f in _blocks(s, r, x, k)]


@register
class SplitArrayToDictOfArrays(Contract):
    """Carrier of the loop invariant of split_array_to_dict_of_arrays for its use in DesignSpace.convert_array_to_dict (the function is inlined there,
    `names` = (the design space,), rank-1 array); it is not verified on its own here (C16 / C18 have contracts for other uses)."""

    targets = (SPLIT,)
    prop = ()
    inline_ok = True
    loops = {0: LoopSpec(anchor="names[0]", inv=_split_inv, modifies=("result",), local_types={"result": FDICT, "name": TStr})}


@register
class ConvertArrayToDict(Contract):
    """convert_array_to_dict(x): one entry per variable, in the variable order; for an array of `dimension` components the value of `name` is the block
    x[start(name) : start(name) + size(name)] - the inverse of convert_dict_to_array; nothing is modified."""

    targets = (CAD,)
    variant = "lnk"
    prop = ("C02",)
    self_schema = DS + "#lnk"
    numpy = "precise"
    c02_lnk = True
    params = {"x_array": F1}
    returns = FDICT

    def requires(self, c):
        s = c.old.self
        return M.wf_structure(s) + M.wf_variables(s)

    def axioms(self, c):
        return M.derived_all(c.old.self)

    def ensures(self, c):
        s, x, r = c.old.self, c.old.x_array, c.result
        full = N2.ln(x) == s.dimension
        return [("one-entry-per-variable-in-the-variable-order", D.same_key_order(r, D.V(s)))] + [(l, z3.Implies(full, f)) for l, f in _blocks(s, r, x, D.V(s).n)]


@register
class LosslessConversionLemmas(Contract):
    """Over the postconditions of convert_array_to_dict (A -> D) and convert_dict_to_array (D -> A) and the owner of a component (OwnerLemmas):
    array -> dict -> array and dict -> array -> dict give back every component.  S, E: index-range starts / stops; D(k): value of variable k."""

    targets = ()
    prop = ("C02",)
    lemma = True

    def lemmas(self):
        R = z3.ArraySort(z3.IntSort(), z3.RealSort())
        A, A2 = z3.Const("A", R), z3.Const("A2", R)
        Dk, D2 = z3.Function("D", z3.IntSort(), R), z3.Function("D2", z3.IntSort(), R)
        S, E, own = (z3.Function(nm, z3.IntSort(), z3.IntSort()) for nm in ("S", "E", "own"))
        n, dim, k, j, i = z3.Ints("n dim k j i")
        blk = z3.And(0 <= k, k < n, 0 <= j, j < E(k) - S(k))
        a2d = lambda arr, d: z3.ForAll([k, j], z3.Implies(blk, d(k)[j] == arr[S(k) + j]), patterns=[d(k)[j]])  # noqa: E731
        d2a = lambda d, arr: z3.ForAll([k, j], z3.Implies(blk, arr[S(k) + j] == d(k)[j]), patterns=[d(k)[j]])  # noqa: E731
        owner = z3.ForAll([i], z3.Implies(z3.And(0 <= i, i < dim), z3.And(0 <= own(i), own(i) < n, S(own(i)) <= i, i < E(own(i)))), patterns=[own(i)])
        o = own(i)
        return [("array-to-dict-to-array", z3.Implies(z3.And(a2d(A, Dk), d2a(Dk, A2), owner, 0 <= i, i < dim, Dk(o)[i - S(o)] == Dk(o)[i - S(o)]), A2[i] == A[i])),
                ("dict-to-array-to-dict", z3.Implies(z3.And(d2a(Dk, A), a2d(A, D2), blk), D2(k)[j] == Dk(k)[j]))]
