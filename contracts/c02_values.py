"""C02 (values) - convert_array_to_dict: the inverse of convert_dict_to_array (contracts/c02_more.py); lossless conversions.

`DesignSpace.convert_array_to_dict(x)` = `split_array_to_dict_of_arrays(x, self.variable_sizes, self)`: the real loop of
`gemseo.utils.data_conversion.split_array_to_dict_of_arrays` is executed (inlined into convert_array_to_dict) under the invariant below.
"""
from __future__ import annotations

import z3

from contracts import c02_design_space as D
from contracts import c02_more as M
from contracts import c02_normalization as N2
from pyvc.contract import Contract, LoopSpec, register
from pyvc.values import TDict, TStr

DS = D.DS
F1 = N2.F1
FDICT = TDict(TStr, F1, ordered=True)
SPLIT = "gemseo.utils.data_conversion.split_array_to_dict_of_arrays"
CAD = DS + ".convert_array_to_dict"


def _blocks(s, r, x, upto):
    """The first `upto` variables (in the variable order) have their block of x: `size` components starting at start(name)."""
    v = D.V(s)
    p, j = z3.Int("p!ad"), z3.Int("j!ad")
    val = r.vals[v.keys[p]]
    e = F1.els(val)[j]
    return [("block-lengths", M.forall_pat([p], z3.Implies(z3.And(0 <= p, p < upto), F1.dim(val) == M.vsize(v.vals[v.keys[p]])), v.keys[p])),
            ("block-elements", _fa_first([p, j], z3.Implies(z3.And(0 <= p, p < upto, 0 <= j, j < M.vsize(v.vals[v.keys[p]])), e == N2.el(x, D.start(M.rngk(s, p)) + j)),
                                    e, N2.el(x, D.start(M.rngk(s, p)) + j)))]


def _fa_first(vs, body, *pats):
    """ForAll with the first of `pats` that z3 accepts as its only trigger."""
    for pt in pats:
        try:
            return z3.ForAll(vs, body, patterns=[pt])
        except z3.Z3Exception:
            continue
    return z3.ForAll(vs, body)


def _fa2(vs, body, *pats):
    """ForAll with, as alternative triggers, those of `pats` that z3 accepts (an element of a dict being built is a select on a store: no valid trigger)."""
    ok = []
    for pt in pats:
        try:
            z3.ForAll(vs, body, patterns=[pt])
            ok.append(pt)
        except z3.Z3Exception:
            continue
    return z3.ForAll(vs, body, patterns=ok) if ok else z3.ForAll(vs, body)


def _split_inv(c, k):
    s, x = c.old.self, c.old.x_array
    v = D.V(s)
    r = c.locals["result"]
    fi = c.locals["first_index"]
    a = z3.Const("a!si", TStr.sort())
    p = z3.Int("p!si")
    full = N2.ln(x) == s.dimension
    return [("first-index-is-the-start-of-the-next-range", fi == z3.If(k < v.n, D.start(M.rngk(s, k)), s.dimension)),
            ("first-index-within-the-array", z3.And(0 <= fi, fi <= s.dimension)),  # (so that the slice bounds are not clamped: index ranges lie within [0, dimension])
            ("members", z3.ForAll([a], r.has(a) == z3.And(v.has(a), v.pos[a] < k), patterns=[r.has(a)])),
            ("size", r.n == k),
            ("order", M.forall_pat([p], z3.Implies(z3.And(0 <= p, p < k), r.keys[p] == v.keys[p]), v.keys[p]))] + \
        [(l, z3.Implies(full, f)) for l, f in _blocks(s, r, x, k)]


@register
class SplitArrayToDictOfArrays(Contract):
    """Carrier of the loop invariant of split_array_to_dict_of_arrays for its use in DesignSpace.convert_array_to_dict (the function is inlined there,
    `names` = (the design space,), rank-1 array); it is not verified on its own here (C16 / C18 have contracts for other uses)."""

    targets = (SPLIT,)
    prop = ()
    inline_ok = True
    loops = {0: LoopSpec(anchor="names[0]", inv=_split_inv, modifies=("result",), local_types={"result": FDICT, "name": TStr})}


@register
class ConvertArrayToDict(Contract):
    """convert_array_to_dict(x): one entry per variable, in the variable order; for an array of `dimension` components the value of `name` is the block
    x[start(name) : start(name) + size(name)] - the inverse of convert_dict_to_array; nothing is modified."""

    targets = (CAD,)
    variant = "lnk"
    prop = ("C02",)
    self_schema = DS + "#lnk"
    numpy = "precise"
    c02_lnk = True
    params = {"x_array": F1}
    returns = FDICT

    def requires(self, c):
        s = c.old.self
        return M.wf_structure(s)[:-1] + M.wf_variables(s)  # (nothing is required of the current value)

    def axioms(self, c):
        return D.derived_wf(c.old.self) + M.derived_ranges(c.old.self)

    def ensures(self, c):
        s, x, r = c.old.self, c.old.x_array, c.result
        full = N2.ln(x) == s.dimension
        a = z3.Const("a!cad", TStr.sort())
        return [("one-entry-per-variable-in-the-variable-order", D.same_key_order(r, D.V(s))),
                ("exactly-the-variables", z3.ForAll([a], r.has(a) == D.V(s).has(a), patterns=[r.has(a)]))] + [(l, z3.Implies(full, f)) for l, f in _blocks(s, r, x, D.V(s).n)]


@register
class LosslessConversionLemmas(Contract):
    """Over the postconditions of convert_array_to_dict (A -> D) and convert_dict_to_array (D -> A) and the owner of a component (OwnerLemmas):
    array -> dict -> array and dict -> array -> dict give back every component.  S, E: index-range starts / stops; D(k): value of variable k."""

    targets = ()
    prop = ("C02",)
    lemma = True

    def lemmas(self):
        R = z3.ArraySort(z3.IntSort(), z3.RealSort())
        A, A2 = z3.Const("A", R), z3.Const("A2", R)
        Dk, D2 = z3.Function("D", z3.IntSort(), R), z3.Function("D2", z3.IntSort(), R)
        S, E, own = (z3.Function(nm, z3.IntSort(), z3.IntSort()) for nm in ("S", "E", "own"))
        n, dim, k, j, i = z3.Ints("n dim k j i")
        inside = z3.And(0 <= k, k < n, S(k) <= i, i < E(k))
        # (blocks written with the absolute position i = S(k) + j)
        a2d = lambda arr, d: z3.ForAll([k, i], z3.Implies(inside, d(k)[i - S(k)] == arr[i]), patterns=[z3.MultiPattern(S(k), arr[i])])  # noqa: E731
        d2a = lambda d, arr: z3.ForAll([k, i], z3.Implies(inside, arr[i] == d(k)[i - S(k)]), patterns=[z3.MultiPattern(S(k), arr[i])])  # noqa: E731
        o = own(i)
        has_owner = z3.And(0 <= o, o < n, S(o) <= i, i < E(o))  # (OwnerLemmas: every component of [0, dimension) has one)
        return [("array-to-dict-to-array", z3.Implies(z3.And(a2d(A, Dk), d2a(Dk, A2), has_owner), A2[i] == A[i])),
                ("dict-to-array-to-dict", z3.Implies(z3.And(d2a(Dk, A), a2d(A, D2), 0 <= k, k < n, S(k) <= i, i < E(k)), D2(k)[i - S(k)] == Dk(k)[i - S(k)]))]


# ---------------------------------------------------------------------------- get_current_value (array form, every variable)
from pyvc import contract as C  # noqa: E402
from pyvc.contract import schema  # noqa: E402
from pyvc.values import TBool  # noqa: E402

CDA, GCV = M.CDA, DS + ".get_current_value"
# schema variant "val": the link-level schema with precise current values (every stored value is an array: no None entry) and the cached flat copy
schema(DS + "#val", {**C.class_schema(DS + "#lnk"),
                     "_DesignSpace__current_value": FDICT,
                     "_DesignSpace__current_value_array": F1,
                     "_DesignSpace__norm_current_value": FDICT,
                     "_DesignSpace__norm_current_value_array": F1})


def CVV(s):  # noqa: N802
    return s._DesignSpace__current_value


def values_blocks(s, arr):
    """Component start(name) + j of `arr` is component j of the current value of `name`."""
    return M.blocks_at_index_ranges(s, CVV(s), F1, arr)


def wf_values(s):
    """Status flag and cached flat copy of the current value: the flag tells that every variable has a value (what __update_current_status computes,
    c02_design_space.UpdateCurrentStatus, no None entry here); a non-empty cached copy is the concatenation of the values (it is emptied by
    __clear_dependent_data whenever the values change: c02_design_space.ClearDependentData / UpdateCurrentMetadata)."""
    v, cv = D.V(s), CVV(s)
    a = z3.Const("a!wv", TStr.sort())
    i = z3.Int("i!wv2")
    cva = s._DesignSpace__current_value_array
    m = M.sizes_match(s, cv, F1)
    return [("flag-means-every-variable-has-a-value", z3.Implies(s._DesignSpace__has_current_value, z3.ForAll([a], cv.has(a) == v.has(a), patterns=[cv.has(a)]))),
            ("values-of-known-variables", z3.ForAll([a], z3.Implies(cv.has(a), v.has(a)), patterns=[cv.has(a)])),
            ("cached-copy-length", z3.Implies(z3.And(s._DesignSpace__has_current_value, N2.ln(cva) != 0, m), N2.ln(cva) == s.dimension)),
            ("cached-copy-is-the-concatenation", z3.Implies(z3.And(s._DesignSpace__has_current_value, N2.ln(cva) != 0, m), values_blocks(s, cva)))]


@register
class GetCurrentValueAsAnArray(Contract):
    """get_current_value() (every variable, as an array, not normalised): KeyError iff some variable has no current value (status flag); otherwise the
    concatenation of the per-variable values in the variable order - with values of the sizes of their variables: a vector of `dimension` components
    whose component start(name) + j is component j of the value of `name` - whether served from the cached copy or concatenated on the spot; only the
    cached copy may change."""

    targets = (GCV,)
    variant = "val"
    prop = ("C02",)
    self_schema = DS + "#val"
    numpy = "precise"
    c02_lnk = True
    returns = F1
    modifies = ("self",)
    callee_variants = {CDA: "f"}

    @property
    def raises(self):
        return {"KeyError": lambda c: z3.Not(c.old.self._DesignSpace__has_current_value)}

    def requires(self, c):
        s = c.old.self
        return M.wf_structure(s)[:-1] + M.wf_variables(s) + wf_values(s) + \
            [("every-variable-as-a-plain-array", z3.BoolVal(c.arg("variable_names") is None and c.arg("complex_to_real") is False and c.arg("as_dict") is False
                                                            and c.arg("normalize") is False))]

    def axioms(self, c):
        return D.derived_wf(c.old.self)

    def ensures(self, c):
        s0, s1 = c.old.self, c.new.self
        m = M.sizes_match(s0, CVV(s0), F1)
        fields = [f for f in C.class_schema(DS + "#val") if f != "_DesignSpace__current_value_array"]
        return [("length-is-the-dimension", z3.Implies(m, N2.ln(c.result) == s0.dimension)),
                ("blocks-at-index-ranges", z3.Implies(m, values_blocks(s0, c.result)))] + M.kept(s0, s1, fields) + [(f"values-invariant:{l}", f) for l, f in wf_values(s1)]


# ---------------------------------------------------------------------------- set_current_value (array form, dictionary form)
import sys as _sys  # noqa: E402

V = _sys.modules[__name__]
SCV, UCM, CCN = DS + ".set_current_value", DS + ".__update_current_metadata", DS + "._check_current_names"
VAL_FIELDS = tuple(C.class_schema(DS + "#val"))


def trunc(t):
    return z3.ToReal(z3.If(t >= 0, z3.ToInt(t), -z3.ToInt(-t)))


def stored(s, name, t):
    """What is stored for a component t of the given array: itself for a float variable, its integer part for an integer variable."""
    return z3.If(M.vtype(D.V(s).vals[name]) == M.INTEGER, trunc(t), t)


@register
class UpdateCurrentMetadataVal(Contract):
    targets = (UCM,)
    variant = "val"
    prop = ("C02",)
    self_schema = DS + "#val"
    modifies = ("self",)
    trusted = True
    description = ("assumed, restated for the value-level schema (no None entry): VERIFIED under the structural schema in contracts/c02_design_space.py "
                   "(UpdateCurrentMetadata / UpdateCurrentStatus / ClearDependentData): the status flag tells whether every variable has a value, and the "
                   "cached copies of the current value are emptied when it does")

    def ensures(self, c):
        s0, s1 = c.old.self, c.new.self
        v, cv = D.V(s0), V.CVV(s0)
        a = z3.Const("a!ucm", TStr.sort())
        full = z3.And(cv.n != 0, V._fa2([a], cv.has(a) == v.has(a), cv.has(a)))
        caches = ("_DesignSpace__has_current_value", "_DesignSpace__current_value_array", "_DesignSpace__norm_current_value", "_DesignSpace__norm_current_value_array")
        return [("flag", s1._DesignSpace__has_current_value == full),
                ("cached-copies-emptied-when-complete", z3.Implies(full, z3.And(N2.ln(s1._DesignSpace__current_value_array) == 0, N2.ln(s1._DesignSpace__norm_current_value_array) == 0,
                                                                               s1._DesignSpace__norm_current_value.n == 0))),
                ("cached-copies-kept-otherwise", z3.Implies(z3.Not(full), z3.And(*[f for _, f in M.kept(s0, s1, caches[1:])])))] + M.kept(s0, s1, [f for f in VAL_FIELDS if f not in caches])


@register
class CheckCurrentNamesVal(Contract):
    targets = (CCN,)
    variant = "val"
    prop = ("C02",)
    self_schema = DS + "#val"
    raises = {"ValueError": None}
    trusted = True
    description = ("assumed: _check_current_names raises ValueError (names of the current value differ from the variables, or the membership check of "
                   "__check_membership - verified at the link level - fails) or returns, and changes nothing")


def _cast_inv(c, k):
    s = c.old.self
    pre = c.pre_locals["self"]
    cv0, cv = V.CVV(pre), V.CVV(c.new.self)
    p, j = z3.Int("p!ci"), z3.Int("j!ci")
    val0, val = cv0.vals[cv0.keys[p]], cv.vals[cv0.keys[p]]
    e = F1.els(val)[j]
    e0 = F1.els(val0)[j]
    return [("lengths-kept", M.forall_pat([p], z3.Implies(z3.And(0 <= p, p < cv0.n), F1.dim(val) == F1.dim(val0)), cv0.keys[p])),
            ("visited-values-are-cast", V._fa2([p, j], z3.Implies(z3.And(0 <= p, p < k, 0 <= j, j < F1.dim(val0)), e == stored(s, cv0.keys[p], e0)), e, e0)),
            ("others-untouched", V._fa2([p, j], z3.Implies(z3.And(k <= p, p < cv0.n, 0 <= j, j < F1.dim(val0)), e == e0), e, e0))]


@register
class SetCurrentValueFromAnArray(Contract):
    """set_current_value(array): ValueError unless the array has `dimension` components (or the membership check fails); otherwise every variable, in the
    variable order, gets its block x[start(name) : start(name) + size(name)] (integer part for an integer variable: astype(int64)), the status flag
    is refreshed and the cached copies of the current value are dropped; nothing else changes."""

    targets = (SCV,)
    variant = "val"
    prop = ("C02",)
    self_schema = DS + "#val"
    numpy = "precise"
    c02_lnk = True
    c02_int_as_real = True
    params = {"value": F1}
    modifies = ("self",)
    raises = {"ValueError": None}
    raises_exact = False
    callee_variants = {CAD: "lnk", UCM: "val", CCN: "val"}
    loops = {0: LoopSpec(anchor="self.__current_value.items()", modifies=("self._DesignSpace__current_value#vals",), inv=_cast_inv,
                         local_types={"name": TStr, "value": F1, "variable_type": TStr})}

    def requires(self, c):
        s = c.old.self
        return M.wf_structure(s)[:-1] + M.wf_variables(s)

    def axioms(self, c):
        return M.derived_all(c.old.self)

    def ensures(self, c):
        s0, s1, x = c.old.self, c.new.self, c.old.value
        v, cv = D.V(s0), V.CVV(s1)
        p, j = z3.Int("p!scv"), z3.Int("j!scv")
        val = cv.vals[v.keys[p]]
        e = F1.els(val)[j]
        src = N2.el(x, D.start(M.rngk(s0, p)) + j)
        kept_fields = [f for f in VAL_FIELDS if f not in ("_DesignSpace__current_value", "_DesignSpace__has_current_value", "_DesignSpace__current_value_array",
                                                         "_DesignSpace__norm_current_value", "_DesignSpace__norm_current_value_array")]
        return [("array-of-dimension-components", N2.ln(x) == s0.dimension),
                ("one-value-per-variable-in-the-variable-order", D.same_key_order(cv, v)),
                ("value-lengths", M.forall_pat([p], z3.Implies(z3.And(0 <= p, p < v.n), F1.dim(val) == M.vsize(v.vals[v.keys[p]])), v.keys[p])),
                ("values-are-the-blocks-of-the-array", V._fa2([p, j], z3.Implies(z3.And(0 <= p, p < v.n, 0 <= j, j < M.vsize(v.vals[v.keys[p]])), e == stored(s0, v.keys[p], src)), e, src)),
                ("status-refreshed", s1._DesignSpace__has_current_value == (v.n != 0)),
                ("cached-copy-dropped", z3.Implies(v.n != 0, N2.ln(s1._DesignSpace__current_value_array) == 0))] + M.kept(s0, s1, kept_fields)


FVALS = TDict(TStr, F1, ordered=True)


@register
class SetCurrentValueFromADict(SetCurrentValueFromAnArray):
    """set_current_value(dict of arrays): the entries whose key is a variable are stored (integer part for an integer variable), the others are ignored;
    the status flag tells whether every variable has a value; the cached copies are dropped when it does; ValueError as coded by the membership check."""

    variant = "val-dict"
    params = {"value": FVALS}

    def ensures(self, c):
        s0, s1, d = c.old.self, c.new.self, c.old.value
        v, cv = D.V(s0), V.CVV(s1)
        a = z3.Const("a!scd", TStr.sort())
        j = z3.Int("j!scd")
        e = F1.els(cv.vals[a])[j]
        src = F1.els(d.vals[a])[j]
        complete = z3.And(cv.n != 0, V._fa2([a], cv.has(a) == v.has(a), cv.has(a)))
        kept_fields = [f for f in VAL_FIELDS if f not in ("_DesignSpace__current_value", "_DesignSpace__has_current_value", "_DesignSpace__current_value_array",
                                                         "_DesignSpace__norm_current_value", "_DesignSpace__norm_current_value_array")]
        return [("only-given-values-of-variables", V._fa2([a], z3.Implies(cv.has(a), z3.And(d.has(a), v.has(a))), cv.has(a))),
                # (d.pos[a] >= 0 holds for every key of d: it names the position at which the comprehension meets the key)
                ("every-given-value-of-a-variable", z3.ForAll([a], z3.Implies(z3.And(d.has(a), d.pos[a] >= 0, v.has(a)), cv.has(a)), patterns=[d.pos[a]])),
                ("value-lengths", V._fa2([a], z3.Implies(z3.And(cv.has(a), cv.pos[a] >= 0, d.has(a), d.pos[a] >= 0), F1.dim(cv.vals[a]) == F1.dim(d.vals[a])), cv.pos[a])),
                # (a stored key is a key of d - first clause -; the positions of a in both dictionaries are named so that no prover has to guess them)
                ("values-are-the-given-values", V._fa2([a, j], z3.Implies(z3.And(cv.has(a), cv.pos[a] >= 0, d.has(a), d.pos[a] >= 0, 0 <= j, j < F1.dim(d.vals[a])), e == stored(s0, a, src)),
                                                       z3.MultiPattern(cv.pos[a], src))),
                ("status-refreshed", s1._DesignSpace__has_current_value == complete),
                ("cached-copy-dropped-when-complete", z3.Implies(complete, N2.ln(s1._DesignSpace__current_value_array) == 0))] + M.kept(s0, s1, kept_fields)
