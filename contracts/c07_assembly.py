"""C07 - coupled total derivatives: block placement of the assembled Jacobian, inverse slicing, derivation mode.

Part 1 (placement, linear integer arithmetic, unbounded sizes): with off_r / off_c the prefix sums of ``sizes`` along
``functions`` / ``variables``, the assembled matrix M satisfies M[off_r(a)+i, off_c(b)+j] = jac[f_a][v_b][i, j] where that
partial exists (0 otherwise), -1 added on the diagonal when f_a = v_b for residual rows.
Matrices are precise real matrices with a dense/sparse format flag (pyvc/plug_np_c07.py); scipy's eye / csr_matrix / bmat
are ASSUMED block-placement contracts (listed in the evidence).

Part 2 (algebra, abstract matrix ring: uninterpreted sort with + * neg transpose inverse col row, textbook identities ASSUMED and
listed): CoupledSystem._direct_mode and _adjoint_mode both return dF/dx - dF/dy (dR/dy)^-1 dR/dx; the linear solver is an
assumed exact solve.

Part 3 (Jacobian operators, same ring + conjugate transpose): every wrapper class of jacobian_operator.py applies in _matvec the
matrix it denotes and in _rmatvec its conjugate transpose; real / T / + / - / @ / shift_identity build the right wrapper.
"""
from __future__ import annotations

import z3

from pyvc import contract as C
from pyvc import gmodels as G
from pyvc.contract import Contract, LoopSpec, register, schema
from pyvc.npmodel import TArr
from pyvc.plug_np_c07 import (GRID, INT_SEQ, OMat, ROW_OF_BLOCKS, SLICE, TMat, grid_cell, grid_heights, grid_row_len, grid_widths, off, psum_axioms, psum_i,
                              grid_axioms, sizes_axioms, sizes_of, trg_block, trg_entry, trigger_axioms)
from pyvc.values import forall_pat as FA
from pyvc.values import TBool, TDict, TInt, TList, TRec, TStr, TTuple, str_lit

MOD = "gemseo.core.derivatives.jacobian_assembly."
JA = MOD + "JacobianAssembly"
CS = MOD + "CoupledSystem"
DISC = "gemseo.core.discipline.discipline.Discipline"

NAMES = TList(TStr)
SIZES = TDict(TStr, TInt)
JROW = TDict(TStr, TMat)  # jac[f]: variable name -> partial Jacobian
JAC = TDict(TStr, JROW)  # discipline.jac
DISCS = TDict(TStr, JAC)  # a discipline is represented by the only thing the assembly reads of it: its Jacobian `discipline.jac`

schema(JA, {"sizes": SIZES, "disciplines": DISCS})


def S_(c):
    return c.old.self.sizes


def in_range(i, n):
    return z3.And(0 <= i, i < n)


def names_known(names, sizes, tag):
    i = z3.Int(f"i!nk{tag}")
    return z3.ForAll([i], z3.Implies(in_range(i, names.n), sizes.has(names.elems[i])), patterns=[names.elems[i]])


def sizes_nonneg(names, sizes, tag):
    i = z3.Int(f"i!nn{tag}")
    return z3.ForAll([i], z3.Implies(in_range(i, names.n), sizes.vals[names.elems[i]] >= 0), patterns=[names.elems[i]])


def offsets_defined(names, sizes, tag):
    """Definition of the offsets of `names` (sequence of sizes + recursive prefix sums)."""
    return [(f"offsets-{tag}:{i}", f) for i, f in enumerate(sizes_axioms(names.elems, sizes.vals))]


# ---------------------------------------------------------------------------- compute_dimension
@register
class ComputeDimension(Contract):
    """The dimension is the sum of the sizes of the names (prefix-sum ghost); KeyError iff a name has no size."""

    targets = (JA + ".compute_dimension",)
    prop = ("C07",)
    c07 = True
    params = {"names": NAMES}
    returns = TInt
    raises = {"KeyError": lambda c: z3.Not(names_known(c.old.names, S_(c), "cd"))}

    def axioms(self, c):
        return offsets_defined(c.old.names, S_(c), "names")

    def ensures(self, c):
        names, sizes = c.old.names, S_(c)
        return [("sum-of-sizes", c.result == off(names.elems, sizes.vals, names.n))]


# ---------------------------------------------------------------------------- _get_derivation_mode
AUTO, DIRECT, ADJOINT = str_lit("auto"), str_lit("direct"), str_lit("adjoint")


def n_linear_systems(mode, n_variables, n_functions):
    """Documented cost of a mode (derivation_modes.py): direct solves one system per input, adjoint one per output."""
    return z3.If(mode == DIRECT, n_variables, n_functions)


@register
class GetDerivationMode(Contract):
    """A requested mode is kept; AUTO picks the mode solving the fewest linear systems, DIRECT on a tie (n_variables <= n_functions)."""

    targets = (JA + "._get_derivation_mode",)
    prop = ("C07",)
    c07 = True
    params = {"mode": TStr, "n_variables": TInt, "n_functions": TInt}
    returns = TStr

    def ensures(self, c):
        mode, nv, nf, r = c.old.mode, c.old.n_variables, c.old.n_functions, c.result
        r = str_lit(r) if isinstance(r, str) else r
        auto = mode == AUTO
        return [
            ("explicit-mode-is-kept", z3.Implies(z3.Not(auto), r == mode)),
            ("auto-resolves-to-direct-or-adjoint", z3.Implies(auto, z3.Or(r == DIRECT, r == ADJOINT))),
            ("auto-solves-the-fewest-linear-systems", z3.Implies(auto, z3.And(n_linear_systems(r, nv, nf) <= nv, n_linear_systems(r, nv, nf) <= nf))),
            ("auto-is-direct-iff-no-more-variables-than-functions", z3.Implies(auto, (r == DIRECT) == (nv <= nf))),
        ]


# ---------------------------------------------------------------------------- _get_jacobian_generator
POS = TRec("JacobianPosition", {"row_slice": SLICE, "column_slice": SLICE, "row_index": TInt, "column_index": TInt}, cls=JA + ".JacobianPosition")
ITEM = TTuple(TMat, POS)
ITEMS = TList(ITEM)


def _position_ctor(ex, args, kwargs):
    vals = dict(zip(POS.fields, args))
    vals.update(kwargs)
    return POS.mk(ex.st, **vals)


G.RECORD_CLASSES[JA + ".JacobianPosition"] = (POS, _position_ctor)

_KEY = (NAMES.dt.accessor(0, 1).range(), NAMES.dt.accessor(0, 1).range(), z3.IntSort(), DISCS.acc(1).range(), z3.BoolSort())
_crow = z3.Function("c07_blocks_before_row", *_KEY, z3.IntSort(), z3.IntSort())
_ccol = z3.Function("c07_blocks_before_col", *_KEY, z3.IntSort(), z3.IntSort(), z3.IntSort())


def _b(v):
    return z3.BoolVal(v) if isinstance(v, bool) else v


class Asm:
    """Spec vocabulary of one assembly request (functions, variables, is_residual) on an assembly object."""

    def __init__(self, s, functions, variables, is_residual):
        self.F, self.V, self.S, self.D = functions, variables, s.sizes, s.disciplines
        self.res = _b(is_residual)
        self.nf, self.nv = functions.n, variables.n
        self.key = (self.F.elems, self.V.elems, self.nv, self.D.vals, self.res)

    def fa(self, a):
        return self.F.elems[a]

    def vb(self, b):
        return self.V.elems[b]

    def jac_of(self, a):
        """disciplines[f_a].jac (embedded dict term)."""
        return self.D.vals[self.fa(a)]

    def row(self, a):
        return JAC.acc(1)(self.jac_of(a))[self.fa(a)]

    def has(self, a, b):
        return JROW.acc(0)(self.row(a))[self.vb(b)]

    def J(self, a, b):  # noqa: N802
        return JROW.acc(1)(self.row(a))[self.vb(b)]

    def diag(self, a, b):
        return z3.And(self.res, self.fa(a) == self.vb(b))

    def exists(self, a, b):
        return z3.Or(self.has(a, b), self.diag(a, b))

    def h(self, a):
        return self.S.vals[self.fa(a)]

    def w(self, b):
        return self.S.vals[self.vb(b)]

    def off_r(self, a):
        return off(self.F.elems, self.S.vals, a)

    def off_c(self, b):
        return off(self.V.elems, self.S.vals, b)

    def entry(self, a, b, i, j):
        """Entry (i, j) of block (a, b) of the assembled matrix, as the property states it."""
        return z3.If(self.has(a, b), TMat.el(self.J(a, b), i, j), z3.RealVal(0)) + z3.If(z3.And(self.diag(a, b), i == j), z3.RealVal(-1), z3.RealVal(0))

    def block_sparse(self, a, b):
        return z3.If(self.has(a, b), TMat.sparse(self.J(a, b)), z3.BoolVal(True))

    # number of yielded blocks before (a, b) in row-major order
    def crow(self, a):
        return _crow(*self.key, a)

    def ccol(self, a, b):
        return _ccol(*self.key, a, b)

    def idx(self, a, b):
        return self.crow(a) + self.ccol(a, b)

    def count_axioms(self):
        a, b = z3.Int("a!ca"), z3.Int("b!ca")
        return [("blocks-before-row:zero", self.crow(0) == 0),
                ("blocks-before-row:step", z3.ForAll([a], z3.Implies(a >= 0, self.crow(a + 1) == self.crow(a) + self.ccol(a, self.nv)), patterns=[self.crow(a + 1)])),
                ("blocks-before-col:zero", z3.ForAll([a], self.ccol(a, 0) == 0, patterns=[self.ccol(a, 0)])),
                ("blocks-before-col:step", z3.ForAll([a, b], z3.Implies(b >= 0, self.ccol(a, b + 1) == self.ccol(a, b) + z3.If(self.exists(a, b), 1, 0)),
                                                     patterns=[self.ccol(a, b + 1)]))]

    def requires(self):
        a, b = z3.Int("a!rq"), z3.Int("b!rq")
        F, V, S, D = self.F, self.V, self.S, self.D
        fa, vb = self.fa(a), self.vb(b)
        return [
            ("functions-are-linearized-outputs-with-a-size", z3.ForAll([a], z3.Implies(in_range(a, self.nf), z3.And(D.has(fa), JAC.acc(0)(self.jac_of(a))[fa], S.has(fa), S.vals[fa] >= 0)),
                                                                      patterns=[F.elems[a]])),
            ("variables-have-a-size", z3.ForAll([b], z3.Implies(in_range(b, self.nv), z3.And(S.has(vb), S.vals[vb] >= 0)), patterns=[V.elems[b]])),
            ("partial-jacobian-shapes-agree-with-sizes", z3.ForAll([a, b], z3.Implies(z3.And(in_range(a, self.nf), in_range(b, self.nv), trg_block(a, b), self.has(a, b)),
                                                                                     z3.And(TMat.dim(self.J(a, b), 0) == self.h(a), TMat.dim(self.J(a, b), 1) == self.w(b))),
                                                                   patterns=[trg_block(a, b), z3.MultiPattern(F.elems[a], V.elems[b])])),
        ]

    def offsets_axioms(self):
        return offsets_defined(self.F, self.S, "functions") + offsets_defined(self.V, self.S, "variables")


def item_mat(t):
    return ITEM.dt.accessor(0, 0)(t)


def item_pos(t, f):
    return POS.accessor(f)(ITEM.dt.accessor(0, 1)(t))


def listing(A, Y, a_done, b_done, tag):
    """Y lists, in row-major order, exactly the existing blocks before (a_done, b_done), each with its position."""
    j, a, b, i1, i2 = z3.Int(f"j!{tag}"), z3.Int(f"a!{tag}"), z3.Int(f"b!{tag}"), z3.Int(f"p!{tag}"), z3.Int(f"q!{tag}")
    it = Y.elems[j]
    ja, jb = item_pos(it, "row_index"), item_pos(it, "column_index")
    m = item_mat(it)
    before = lambda x, y: z3.Or(x < a_done, z3.And(x == a_done, y < b_done))  # noqa: E731
    k = A.idx(a, b)
    return [
        ("count", Y.n == A.crow(a_done) + A.ccol(a_done, b_done)),
        ("items-are-existing-blocks-in-order", FA([j], z3.Implies(in_range(j, Y.n), z3.And(
            in_range(ja, A.nf), in_range(jb, A.nv), before(ja, jb), A.exists(ja, jb), j == A.idx(ja, jb))), Y.elems[j])),
        ("items-shape-and-format", FA([j], z3.Implies(in_range(j, Y.n), z3.And(
            TMat.sparse(m) == A.block_sparse(ja, jb), TMat.dim(m, 0) == A.h(ja), TMat.dim(m, 1) == A.w(jb))), Y.elems[j])),
        ("items-slices", FA([j], z3.Implies(in_range(j, Y.n), z3.And(
            item_pos(it, "row_slice") == SLICE.dt.mk(A.off_r(ja), A.off_r(ja) + A.h(ja)),
            item_pos(it, "column_slice") == SLICE.dt.mk(A.off_c(jb), A.off_c(jb) + A.w(jb)))), Y.elems[j])),
        ("items-entries", FA([j, i1, i2], z3.Implies(z3.And(in_range(j, Y.n), in_range(i1, A.h(ja)), in_range(i2, A.w(jb))),
                                                            TMat.el(m, i1, i2) == A.entry(ja, jb, i1, i2)), TMat.el(item_mat(Y.elems[j]), i1, i2))),
        # (triggered by the always-true trigger function only: a trigger on the position count would loop with the clauses above)
        ("every-existing-block-is-listed", z3.ForAll([a, b], z3.Implies(z3.And(in_range(a, A.nf), in_range(b, A.nv), trg_block(a, b), before(a, b), A.exists(a, b)), z3.And(
            0 <= k, k < Y.n, item_pos(Y.elems[k], "row_index") == a, item_pos(Y.elems[k], "column_index") == b)), patterns=[trg_block(a, b)])),
    ]


def trigger_named():
    return [(f"trigger-function:{i} (always true)", f) for i, f in enumerate(trigger_axioms())]


def _gen_asm(c):
    return Asm(c.old.self, c.old.functions, c.old.variables, c.old.is_residual)


def _gen_outer(c, k):
    A = _gen_asm(c)
    return [("row-offset", c.locals["row"] == A.off_r(k))] + listing(A, c.locals["__yield__"], k, z3.IntVal(0), "go")


def _gen_inner(c, m):
    A = _gen_asm(c)
    a = c.locals["row_index"]
    return [("column-offset", c.locals["column"] == A.off_c(m))] + listing(A, c.locals["__yield__"], a, m, "gi")


@register
class GetJacobianGenerator(Contract):
    """The generator yields, in row-major order, one (block, position) per pair (f_a, v_b) whose partial Jacobian exists or which is a
    residual diagonal pair (f_a = v_b, is_residual); the block is the partial Jacobian (zero if absent) minus the identity on residual
    diagonal pairs; the position holds the block indices and the prefix-sum offsets."""

    targets = (JA + "._get_jacobian_generator",)
    prop = ("C07",)
    c07 = True
    disciplines_are_jac_dicts = True  # self.disciplines[name] stands for self.disciplines[name].jac (see DISCS)
    params = {"functions": NAMES, "variables": NAMES, "is_residual": TBool}
    returns = ITEMS
    loops = {0: LoopSpec(anchor="enumerate(functions)", modifies=("__yield__",), inv=_gen_outer),
             1: LoopSpec(anchor="enumerate(variables)", modifies=("__yield__",), inv=_gen_inner)}

    def requires(self, c):
        return _gen_asm(c).requires()

    def axioms(self, c):
        A = _gen_asm(c)
        return A.offsets_axioms() + A.count_axioms() + trigger_named()

    def ensures(self, c):
        A = _gen_asm(c)
        d0, d1 = c.old.self.disciplines, c.new.self.disciplines
        x = z3.Const("x!gf", TStr.sort())
        # (also generated by the frame `modifies = ()`, for every path and loop iteration; stated explicitly: J - I is built on a copy)
        frame = [("the-disciplines-jacobians-are-not-modified", z3.ForAll([x], z3.And(d1.member[x] == d0.member[x], z3.Implies(d0.member[x], d1.vals[x] == d0.vals[x]))))]
        return [(l, f) for l, f in listing(A, c.result, A.nf, z3.IntVal(0), "gp")] + frame


# ---------------------------------------------------------------------------- prefix sums: congruence (induction lemma)
def seq_agree(f, g, n, tag):
    i = z3.Int(f"i!sa{tag}")
    return z3.ForAll([i], z3.Implies(in_range(i, n), f[i] == g[i]))


def psums_agree(f, g, upto, tag):
    k = z3.Int(f"k!pa{tag}")
    return z3.ForAll([k], z3.Implies(z3.And(0 <= k, k <= upto), psum_i(f, k) == psum_i(g, k)))


@register
class PrefixSumLemmas(Contract):
    """Two integer sequences that agree on [0, n) have the same prefix sums up to n (induction: base + step); used as the axiom
    `prefix_sum_congruence` to identify the offsets computed by bmat (block heights / widths) with the offsets of `sizes`."""

    targets = ()
    prop = ("C07",)
    lemma = True

    def lemmas(self):
        f, g = z3.Const("f", INT_SEQ), z3.Const("g", INT_SEQ)
        n, m = z3.Ints("n m")
        defn = z3.And(*psum_axioms(f, g))
        return [("congruence:base", z3.Implies(defn, psums_agree(f, g, z3.IntVal(0), "b"))),
                ("congruence:step", z3.Implies(z3.And(defn, seq_agree(f, g, n, "s"), 0 <= m, m < n, psums_agree(f, g, m, "h")), psums_agree(f, g, m + 1, "c")))]


def prefix_sum_congruence(seq_of_grid, g, n, tag):
    """Instances of PrefixSumLemmas for the fixed sequence g and the block heights (widths) f of any grid of blocks."""
    from pyvc.plug_np_c07 import _GE

    ge = z3.Const(f"ge!pc{tag}", _GE)
    f = seq_of_grid(ge)
    return (f"prefix-sum-congruence-{tag} (proved by induction: PrefixSumLemmas)",
            z3.ForAll([ge], z3.Implies(seq_agree(f, g, n, tag), psums_agree(f, g, n, tag)), patterns=[f]))


# ---------------------------------------------------------------------------- _assemble_jacobian_as_matrix
def grid_state(A, G, ka, kb, placed, tag):
    """State of the block grid: the first ka blocks of block-column 0 and the first kb blocks of block-row 0 are zero blocks, the
    blocks (a, b) with placed(a, b) hold the entries of the property, every other block is None; all blocks have the sizes' shape."""
    a, b, i, j = z3.Int(f"a!{tag}"), z3.Int(f"b!{tag}"), z3.Int(f"i!{tag}"), z3.Int(f"j!{tag}")
    ge = G.elems
    cell = grid_cell(ge, a, b)
    mat = OMat.dt.get(cell)
    # (trg_block / trg_entry: always-true trigger functions naming the instance, see plug_np_c07.trigger_axioms)
    rng = z3.And(in_range(a, A.nf), in_range(b, A.nv), trg_block(a, b))
    ent = z3.And(in_range(i, A.h(a)), in_range(j, A.w(b)), trg_entry(a, b, i, j))
    zero = z3.Or(z3.And(b == 0, a < ka), z3.And(a == 0, b < kb))
    pl = placed(a, b)
    blk, elt = [trg_block(a, b)], [trg_entry(a, b, i, j)]
    return [
        ("grid:block-rows", G.n == A.nf),
        ("grid:block-columns", FA([a], z3.Implies(z3.And(in_range(a, A.nf), trg_block(a, 0)), grid_row_len(ge, a) == A.nv), ge[a], trg_block(a, 0))),
        ("grid:none-elsewhere", z3.ForAll([a, b], z3.Implies(z3.And(rng, z3.Not(zero), z3.Not(pl)), OMat.is_none(cell)), patterns=blk)),
        ("grid:blocks-have-the-shape-of-sizes", z3.ForAll([a, b], z3.Implies(z3.And(rng, z3.Or(zero, pl)), z3.And(
            z3.Not(OMat.is_none(cell)), TMat.dim(mat, 0) == A.h(a), TMat.dim(mat, 1) == A.w(b))), patterns=blk)),
        ("grid:zero-blocks", z3.ForAll([a, b, i, j], z3.Implies(z3.And(rng, zero, z3.Not(pl), ent), TMat.el(mat, i, j) == 0), patterns=elt)),
        ("grid:placed-blocks", z3.ForAll([a, b, i, j], z3.Implies(z3.And(rng, pl, ent), TMat.el(mat, i, j) == A.entry(a, b, i, j)), patterns=elt)),
    ]


def _asm(c):
    return Asm(c.old.self, c.old.functions, c.old.variables, c.old.is_residual)


def _none_placed(a, b):
    return z3.BoolVal(False)


def _asm_inv0(c, k):
    A = _asm(c)
    return grid_state(A, c.locals["total_jacobian"], k, z3.IntVal(0), _none_placed, "g0")


def _asm_inv1(c, m):
    A = _asm(c)
    return grid_state(A, c.locals["total_jacobian"], A.nf, m, _none_placed, "g1")


def _asm_inv2(c, k):
    A = _asm(c)
    return grid_state(A, c.locals["total_jacobian"], A.nf, A.nv, lambda a, b: z3.And(A.exists(a, b), A.idx(a, b) < k), "g2")


@register
class AssembleJacobianAsMatrix(Contract):
    """M is a sparse matrix of shape (sum sizes(functions), sum sizes(variables)) with
    M[off_r(a)+i, off_c(b)+j] = jac[f_a][v_b][i, j] (0 if that partial does not exist) - 1 if is_residual, f_a = v_b and i = j."""

    targets = (JA + "._assemble_jacobian_as_matrix",)
    prop = ("C07",)
    c07 = True
    disciplines_are_jac_dicts = True  # self.disciplines[name] stands for self.disciplines[name].jac (see DISCS)
    none_elem_type = OMat
    params = {"functions": NAMES, "variables": NAMES, "is_residual": TBool}
    returns = TMat
    loops = {0: LoopSpec(anchor="enumerate(function_sizes)", modifies=("total_jacobian",), inv=_asm_inv0),
             1: LoopSpec(anchor="enumerate(variable_sizes)", modifies=("total_jacobian", "total_jacobian_0"), inv=_asm_inv1),
             2: LoopSpec(anchor="jacobian_generator", modifies=("total_jacobian",), inv=_asm_inv2)}

    def requires(self, c):
        return _asm(c).requires()

    def axioms(self, c):
        A = _asm(c)
        return A.offsets_axioms() + [prefix_sum_congruence(grid_heights, sizes_of(A.F.elems, A.S.vals), A.nf, "rows"), prefix_sum_congruence(grid_widths, sizes_of(A.V.elems, A.S.vals), A.nv, "columns")] + \
            trigger_named()

    def finding_regions(self, c):
        A = _asm(c)
        return {"no-function-or-no-variable": z3.Or(A.nf == 0, A.nv == 0)}

    def ensures(self, c):
        return placement(_asm(c), c.result.obj)

    def bmat_steps(self, ex, M):
        """Proof steps checked right after the (assumed) bmat contract: the block heights / widths bmat sees are the sizes, hence
        (PrefixSumLemmas) its offsets are the offsets of `sizes`."""
        A = Asm(C.View(ex.st.heap, ex.entry_args["self"], ex.st), C.View(ex.st.heap, ex.entry_args["functions"], ex.st), C.View(ex.st.heap, ex.entry_args["variables"], ex.st),
                ex.entry_args["is_residual"].term if hasattr(ex.entry_args["is_residual"], "term") else ex.entry_args["is_residual"])
        H, W, _, _ = M.bm
        a, b, k = z3.Int("a!bs"), z3.Int("b!bs"), z3.Int("k!bs")
        return [
            ("block-heights-are-the-function-sizes", z3.ForAll([a], z3.Implies(z3.And(in_range(a, A.nf), trg_block(a, 0)), H[a] == sizes_of(A.F.elems, A.S.vals)[a]), patterns=[H[a]])),
            ("block-widths-are-the-variable-sizes", z3.ForAll([b], z3.Implies(z3.And(in_range(b, A.nv), trg_block(0, b)), W[b] == sizes_of(A.V.elems, A.S.vals)[b]), patterns=[W[b]])),
            ("row-offsets", z3.ForAll([k], z3.Implies(z3.And(0 <= k, k <= A.nf), psum_i(H, k) == A.off_r(k)), patterns=[psum_i(H, k)])),
            ("column-offsets", z3.ForAll([k], z3.Implies(z3.And(0 <= k, k <= A.nv), psum_i(W, k) == A.off_c(k)), patterns=[psum_i(W, k)])),
        ]


def placement(A, M):
    a, b, i, j = z3.Int("a!pl"), z3.Int("b!pl"), z3.Int("i!pl"), z3.Int("j!pl")
    at = z3.Select(M.elems, A.off_r(a) + i, A.off_c(b) + j)
    return [
        ("shape", z3.And(M.shape[0] == A.off_r(A.nf), M.shape[1] == A.off_c(A.nv))),
        ("sparse-format", M.sparse),
        # (trg_block / trg_entry are the always-true trigger functions: they only name the instance (a, b, i, j) for the provers)
        ("block-placement", z3.ForAll([a, b, i, j], z3.Implies(z3.And(in_range(a, A.nf), in_range(b, A.nv), in_range(i, A.h(a)), in_range(j, A.w(b)), trg_block(a, b), trg_entry(a, b, i, j)),
                                                               at == A.entry(a, b, i, j)))),
    ]


# ---------------------------------------------------------------------------- assemble_jacobian (matrix representation)
MATRIX = str_lit("matrix")


@register
class AssembleJacobian(Contract):
    """Matrix representation (jacobian_type = MATRIX): the placement contract of _assemble_jacobian_as_matrix.
    (The LINEAR_OPERATOR representation is not covered.)"""

    targets = (JA + ".assemble_jacobian",)
    prop = ("C07",)
    c07 = True
    disciplines_are_jac_dicts = True  # self.disciplines[name] stands for self.disciplines[name].jac (see DISCS)
    params = {"functions": NAMES, "variables": NAMES, "is_residual": TBool, "jacobian_type": TStr}
    returns = TMat

    def requires(self, c):
        return _asm(c).requires() + [("matrix-representation", c.old.jacobian_type == MATRIX)]

    def axioms(self, c):
        return _asm(c).offsets_axioms() + trigger_named()

    def ensures(self, c):
        return placement(_asm(c), c.result.obj)


# ---------------------------------------------------------------------------- prefix sums of non-negative sizes are monotone (induction lemma)
def psum_monotone(f, n, upto=None, tag=""):
    p, q = z3.Int(f"p!pm{tag}"), z3.Int(f"q!pm{tag}")
    top = n if upto is None else upto
    return z3.ForAll([p, q], z3.Implies(z3.And(0 <= p, p <= q, q <= top), psum_i(f, p) <= psum_i(f, q)), patterns=[z3.MultiPattern(psum_i(f, p), psum_i(f, q))])


def seq_nonneg(f, n, tag=""):
    i = z3.Int(f"i!sn{tag}")
    return z3.ForAll([i], z3.Implies(in_range(i, n), f[i] >= 0), patterns=[f[i]])


@register
class PrefixSumMonotoneLemmas(Contract):
    """The prefix sums of a sequence that is non-negative on [0, n) are non-decreasing up to n (induction on the upper index)."""

    targets = ()
    prop = ("C07",)
    lemma = True

    def lemmas(self):
        f = z3.Const("f", INT_SEQ)
        n, m = z3.Ints("n m")
        defn = z3.And(*psum_axioms(f))
        return [("monotone:base", z3.Implies(defn, psum_monotone(f, n, z3.IntVal(0), "b"))),
                ("monotone:step", z3.Implies(z3.And(defn, seq_nonneg(f, n, "s"), 0 <= m, m < n, psum_monotone(f, n, m, "h")), psum_monotone(f, n, m + 1, "c")))]


def psum_monotone_axiom(f, n, tag):
    return (f"prefix-sums-monotone-{tag} (proved by induction: PrefixSumMonotoneLemmas)", z3.Implies(seq_nonneg(f, n, tag), psum_monotone(f, n, None, tag)))


# ---------------------------------------------------------------------------- split_jac (inverse column slicing)
F2 = TArr("f", 2)
TOTALS = TDict(TStr, F2, ordered=True)  # function -> total Jacobian wrt all the variables (columns concatenated in the order of `variables`)
SUB = TDict(TStr, F2)
SPLIT = TDict(TStr, SUB)
_last = z3.Function("c07_last_index", NAMES.dt.accessor(0, 1).range(), z3.IntSort(), TStr.sort(), z3.IntSort())


def QA(vs, body, patterns=()):  # noqa: N802
    """ForAll with explicit triggers when z3 accepts them (a goal over updated maps may contain terms that cannot be triggers)."""
    from pyvc.values import _pattern_ok

    try:
        if patterns and all(_pattern_ok(p) for p in patterns):
            return z3.ForAll(vs, body, patterns=list(patterns))
    except z3.Z3Exception:
        pass
    return z3.ForAll(vs, body)


class Split:
    """Spec vocabulary of split_jac: offsets of the variables, last occurrence of a name among the first m variables."""

    def __init__(self, c):
        self.V, self.S, self.T = c.old.variables, c.old.self.sizes, c.old.coupled_system
        self.nv = self.V.n

    def w(self, b):
        return self.S.vals[self.V.elems[b]]

    def off(self, b):
        return off(self.V.elems, self.S.vals, b)

    def last(self, m, x):
        """Index of the last occurrence of the name x among the first m variables, -1 if there is none."""
        return _last(self.V.elems, m, x)

    def axioms(self):
        m, x = z3.Int("m!la"), z3.Const("x!la", TStr.sort())
        sq = sizes_of(self.V.elems, self.S.vals)
        return offsets_defined(self.V, self.S, "variables") + [
            ("last-occurrence:zero", z3.ForAll([x], self.last(0, x) == -1, patterns=[self.last(0, x)])),
            ("last-occurrence:step", z3.ForAll([m, x], z3.Implies(m >= 0, self.last(m + 1, x) == z3.If(self.V.elems[m] == x, m, self.last(m, x))), patterns=[self.last(m + 1, x)])),
            psum_monotone_axiom(sq, self.nv, "variables"),
        ]

    def sub_clauses(self, mem, vals, tt, m, outer=(), guard=None, tag="sj", pat=None):
        """The dict (mem, vals) maps each name x occurring among the first m variables to the column slice of the matrix term tt
        at the offset of the last occurrence of x, and has no other key."""
        x, i, j = z3.Const(f"x!{tag}", TStr.sort()), z3.Int(f"r!{tag}"), z3.Int(f"c!{tag}")
        b = self.last(m, x)
        r = vals[x]
        g = [guard] if guard is not None else []
        pats = lambda *p: [z3.MultiPattern(*(p + ((pat,) if pat is not None else ())))] if pat is not None or len(p) > 1 else list(p)  # noqa: E731
        return [
            ("keys-are-the-variables", QA(list(outer) + [x], z3.Implies(z3.And(*g, True), mem[x] == (b >= 0)), patterns=pats(mem[x]))),
            ("slice-shapes", QA(list(outer) + [x], z3.Implies(z3.And(*g, mem[x]), z3.And(F2.dim(r, 0) == F2.dim(tt, 0), F2.dim(r, 1) == self.w(b))), patterns=pats(mem[x]))),
            ("slice-entries", QA(list(outer) + [x, i, j], z3.Implies(z3.And(*g, mem[x], in_range(i, F2.dim(tt, 0)), in_range(j, self.w(b))),
                                                                          z3.Select(F2.els(r), i, j) == z3.Select(F2.els(tt), i, self.off(b) + j)),
                                        patterns=pats(z3.Select(F2.els(vals[x]), i, j)))),
            ("last-occurrence-in-range", QA(list(outer) + [x], z3.Implies(z3.And(*g, b >= 0), z3.And(b < m, self.V.elems[b] == x)), patterns=pats(b))),
        ]


def arr_term(a):
    return F2.dt.mk(a.obj.shape[0], a.obj.shape[1], a.obj.elems)


def _split_inner(c, m):
    sp = Split(c)
    sub = c.locals["sub_jac"]
    b = z3.Int("b!si")
    return [("offset", c.locals["i_out"] == sp.off(m)),
            ("variables-so-far-have-a-size", z3.ForAll([b], z3.Implies(in_range(b, m), sp.S.has(sp.V.elems[b])), patterns=[sp.V.elems[b]]))] + sp.sub_clauses(sub.member, sub.vals, arr_term(c.locals["function_jac"]), m, tag="si")


def _split_outer(c, k):
    sp = Split(c)
    T, R = sp.T, c.locals["j_split"]
    f, i = z3.Const("f!so", TStr.sort()), z3.Int("i!so")
    key = T.keys[i]
    out = [("functions-so-far", z3.ForAll([f], R.member[f] == z3.And(T.member[f], T.pos[f] < k), patterns=[R.member[f]])),
           ("variables-have-a-size-once-a-function-is-split", z3.Implies(k >= 1, names_known(sp.V, sp.S, "so")))]
    out += [(f"split:{l}", cl) for l, cl in sp.sub_clauses(SUB.acc(0)(R.vals[key]), SUB.acc(1)(R.vals[key]), T.vals[key], sp.nv, outer=[i], guard=in_range(i, k), tag="so", pat=T.keys[i])]
    return out


@register
class SplitJac(Contract):
    """split_jac(T, variables)[f][x] = T[f][:, off(b) : off(b) + sizes[x]] with b the (last) position of x in `variables`; the keys of
    the result are the functions of T and, for each of them, the variables."""

    targets = (JA + ".split_jac",)
    prop = ("C07",)
    c07 = True
    numpy = "precise"
    params = {"coupled_system": TOTALS, "variables": NAMES}
    returns = SPLIT
    raises = {"KeyError": lambda c: z3.And(c.old.coupled_system.n > 0, z3.Not(names_known(c.old.variables, S_(c), "sj")))}
    loops = {0: LoopSpec(anchor="coupled_system.items()", modifies=("j_split",), inv=_split_outer, local_types={"j_split": SPLIT, "sub_jac": SUB, "function_jac": F2}),
             1: LoopSpec(anchor="variables", modifies=("sub_jac",), inv=_split_inner, local_types={"sub_jac": SUB})}

    def requires(self, c):
        sp = Split(c)
        f = z3.Const("f!sr", TStr.sort())
        return [("sizes-are-non-negative", sizes_nonneg(sp.V, sp.S, "sj")),
                ("columns-are-the-concatenated-variables", z3.ForAll([f], z3.Implies(sp.T.member[f], F2.dim(sp.T.vals[f], 1) == sp.off(sp.nv)), patterns=[sp.T.vals[f]]))]

    def axioms(self, c):
        return Split(c).axioms()

    def ensures(self, c):
        sp = Split(c)
        T, R = sp.T, c.result
        f = z3.Const("f!se", TStr.sort())
        out = [("functions", z3.ForAll([f], R.member[f] == T.member[f], patterns=[R.member[f]]))]
        out += [(f"split:{l}", cl) for l, cl in sp.sub_clauses(SUB.acc(0)(R.vals[f]), SUB.acc(1)(R.vals[f]), T.vals[f], sp.nv, outer=[f], guard=T.member[f], tag="se", pat=T.member[f])]
        return out


@register
class LastOccurrenceLemmas(Contract):
    """For pairwise distinct variables the last occurrence of variables[b] is b (induction on the prefix length), so the postcondition
    of split_jac reads split_jac(T, variables)[f][v_b] = T[f][:, off(b) : off(b) + size_b]."""

    targets = ()
    prop = ("C07",)
    lemma = True

    def lemmas(self):
        V = z3.Const("V", NAMES.dt.accessor(0, 1).range())
        n, m, b, b2, mm = z3.Ints("n m b b2 mm")
        x = z3.Const("x", TStr.sort())
        last = lambda k, y: _last(V, k, y)  # noqa: E731
        defn = z3.And(z3.ForAll([x], last(0, x) == -1), z3.ForAll([mm, x], z3.Implies(mm >= 0, last(mm + 1, x) == z3.If(V[mm] == x, mm, last(mm, x)))))
        distinct = z3.ForAll([b, b2], z3.Implies(z3.And(0 <= b, b < b2, b2 < n), V[b] != V[b2]))
        claim = lambda k: z3.ForAll([b], z3.Implies(z3.And(0 <= b, b < k), last(k, V[b]) == b))  # noqa: E731
        return [("last-is-own-index:base", z3.Implies(defn, claim(z3.IntVal(0)))),
                ("last-is-own-index:step", z3.Implies(z3.And(defn, distinct, 0 <= m, m < n, claim(m)), claim(m + 1)))]


# ============================================================================ Part 2: algebra over an abstract matrix ring
from pyvc.plug_np_c07 import (LSF, TRing, ext_q, madd, mcol, minv, mmul, mneg, mrow, msolve, mtr, ncols, nrows, ring_axioms)  # noqa: E402
from pyvc.values import TObj  # noqa: E402

LP = "gemseo.algos.linear_solvers.linear_problem.LinearProblem"
MATS = TDict(TStr, TRing)
JACS = TDict(TStr, TRing, ordered=True)
schema(LP, {"lhs": TRing, "rhs": TRing, "solution": TRing})
schema(CS, {"n_linear_resolutions": TInt, "n_direct_modes": TInt, "n_adjoint_modes": TInt, "lu_fact": TInt, "_CoupledSystem__linear_solver_factory": LSF,
            "linear_problem": TObj(LP)})


def closed_form(dfdx, dfdy, drdy, drdx):
    """dF/dx - dF/dy (dR/dy)^-1 dR/dx: the implicit-function expression of the total derivative."""
    return madd(dfdx, mmul(dfdy, mneg(mmul(minv(drdy), drdx))))


def mterm(v):
    return v.obj.term


def ring_named():
    return [(f"matrix ring (assumed textbook identity): {l}", f) for l, f in ring_axioms()]


def functions_known(c, *dicts):
    i = z3.Int("i!fk")
    F = c.old.functions
    return z3.ForAll([i], z3.Implies(in_range(i, F.n), z3.And(*[d.has(F.elems[i]) for d in dicts])), patterns=[F.elems[i]])


def _counters(c, lu, direct):
    """The bookkeeping counters of the coupled system: linear resolutions counted by the caller-specific clause, the others kept
    (one more LU factorization with the LU option)."""
    s0, s1 = c.old.self, c.new.self
    return [("mode-counters-kept", z3.And(s1.n_direct_modes == s0.n_direct_modes, s1.n_adjoint_modes == s0.n_adjoint_modes)),
            ("factorizations-counted", s1.lu_fact == s0.lu_fact + (1 if lu else 0))]


def _kept(inv, lu=0):
    """inv + the counters the loop does not touch (the loops modify `self`: the resolution counter)."""
    def f(c, k):
        s0, s1 = c.old.self, c.new.self
        return inv(c, k) + [("mode-counters-kept", z3.And(s1.n_direct_modes == s0.n_direct_modes, s1.n_adjoint_modes == s0.n_adjoint_modes)),
                            ("factorizations-counted", s1.lu_fact == s0.lu_fact + lu)]
    return f


def _direct_inv0(c, k):
    """Column j < k of dy_dx is the solution of (dR/dy) y_j = -(dR/dx)_j."""
    A, B = mterm(c.old.dres_dy), mterm(c.old.dres_dx)
    DY = mterm(c.locals["dy_dx"])
    j = z3.Int("j!d0")
    return [("shape", z3.And(nrows(DY) == c.old.n_couplings, ncols(DY) == c.old.n_variables)),
            ("columns-solved", z3.ForAll([j], z3.Implies(in_range(j, k), mcol(DY, j) == msolve(A, mneg(mcol(B, j)))), patterns=[mcol(DY, j)])),
            ("system-matrix-kept", mterm(c.new.self.linear_problem.lhs) == A),
            ("resolutions-counted", c.new.self.n_linear_resolutions == c.old.self.n_linear_resolutions + k)]


def _direct_inv1(c, k):
    F, jac = c.old.functions, c.locals["jac"]
    DY = mterm(c.locals["dy_dx"])
    i = z3.Int("i!d1")
    f = F.elems[i]
    return [("jacobians-so-far", z3.ForAll([i], z3.Implies(in_range(i, k), z3.And(jac.has(f), jac.vals[f] == madd(c.old.dfun_dx.vals[f], mmul(c.old.dfun_dy.vals[f], DY)))), patterns=[F.elems[i]]))]


@register
class DirectMode(Contract):
    """Direct mode: one linear system per variable; jac[f] = dF_f/dx - dF_f/dy (dR/dy)^-1 dR/dx for every requested function."""

    targets = (CS + "._direct_mode",)
    prop = ("C07",)
    c07 = "ring"
    lu = False
    params = {"functions": NAMES, "n_variables": TInt, "n_couplings": TInt, "dres_dx": TRing, "dres_dy": TRing, "dfun_dx": MATS, "dfun_dy": MATS, "linear_solver": TStr}
    returns = JACS
    modifies = ("self",)
    loops = {0: LoopSpec(anchor="range(n_variables)", modifies=("dy_dx", "self.linear_problem", "self"), inv=_kept(_direct_inv0)),
             1: LoopSpec(anchor="functions", modifies=("jac",), inv=_direct_inv1, local_types={"jac": JACS})}

    def requires(self, c):
        B = mterm(c.old.dres_dx)
        A = mterm(c.old.dres_dy)
        return [("one-column-per-variable", z3.And(ncols(B) == c.old.n_variables, c.old.n_variables >= 0)), ("residual-rows", z3.And(nrows(B) == c.old.n_couplings, c.old.n_couplings >= 0)),
                ("square-system", z3.And(nrows(A) == c.old.n_couplings, ncols(A) == c.old.n_couplings)),
                ("functions-have-partial-jacobians", functions_known(c, c.old.dfun_dx, c.old.dfun_dy))]

    def axioms(self, c):
        return ring_named()

    def ensures(self, c):
        A, B = mterm(c.old.dres_dy), mterm(c.old.dres_dx)
        F, jac = c.old.functions, c.result
        i = z3.Int("i!dm")
        f = F.elems[i]
        total = mneg(mmul(minv(A), B))
        if "dy_dx" not in getattr(c, "locals", {}):
            # the contract as a caller sees it (the local dy_dx is not visible)
            return [("closed-form", z3.ForAll([i], z3.Implies(in_range(i, F.n), z3.And(jac.has(f), jac.vals[f] == closed_form(c.old.dfun_dx.vals[f], c.old.dfun_dy.vals[f], A, B))),
                                              patterns=[F.elems[i]])),
                    ("one-resolution-per-variable", c.new.self.n_linear_resolutions == c.old.self.n_linear_resolutions + c.old.n_variables)] + _counters(c, self.lu, True)
        DY = mterm(c.locals["dy_dx"])
        return [
            ("dy_dx-is-minus-inverse-times-dres_dx", z3.Implies(ext_q(DY, total), DY == total)),
            ("closed-form", z3.ForAll([i], z3.Implies(z3.And(in_range(i, F.n), ext_q(DY, total)), z3.And(jac.has(f), jac.vals[f] == closed_form(c.old.dfun_dx.vals[f], c.old.dfun_dy.vals[f], A, B))))),
            ("one-resolution-per-variable", c.new.self.n_linear_resolutions == c.old.self.n_linear_resolutions + c.old.n_variables),
        ] + _counters(c, self.lu, True)


# ---------------------------------------------------------------------------- adjoint mode
def _adj(c):
    class _:  # noqa: N801
        At, B = mterm(c.old.dres_dy_t), mterm(c.old.dres_dx)
        A = mtr(At)  # dR/dy (the adjoint mode receives its transpose)
        F, DX, DY = c.old.functions, c.old.dfun_dx, c.old.dfun_dy
    return _


def adjoint_row(a, f, i):
    """Row i of the total derivative of f as the adjoint mode computes it: one solve with (dR/dy)^T per row."""
    return madd(mrow(a.DX.vals[f], i), mtr(mmul(mtr(a.B), msolve(a.At, mneg(mtr(mrow(a.DY.vals[f], i)))))))


def adjoint_total(a, f):
    return closed_form(a.DX.vals[f], a.DY.vals[f], a.A, a.B)


def _adjoint_outer(c, k):
    a = _adj(c)
    jac = c.locals["jac"]
    p = z3.Int("p!ao")
    f = a.F.elems[p]
    return [("jacobians-so-far", z3.ForAll([p], z3.Implies(z3.And(in_range(p, k), ext_q(jac.vals[f], adjoint_total(a, f))), z3.And(jac.has(f), jac.vals[f] == adjoint_total(a, f))),
                                           patterns=[a.F.elems[p]])),
            ("system-matrix-kept", mterm(c.new.self.linear_problem.lhs) == a.At)]


def _adjoint_inner(c, i):
    a = _adj(c)
    jac, fun = c.locals["jac"], c.locals["fun"]
    J = jac.vals[fun]
    p, r = z3.Int("p!ai"), z3.Int("r!ai")
    f = a.F.elems[p]
    return [("current-jacobian-shape", z3.And(jac.has(fun), nrows(J) == nrows(a.DX.vals[fun]), ncols(J) == ncols(a.DX.vals[fun]))),
            ("rows-so-far", z3.ForAll([r], z3.Implies(in_range(r, i), mrow(J, r) == adjoint_row(a, fun, r)), patterns=[mrow(J, r)])),
            ("other-jacobians-kept", z3.ForAll([p], z3.Implies(z3.And(in_range(p, a.F.n), f != fun, c.pre_locals["jac"].has(f)), z3.And(jac.has(f), jac.vals[f] == c.pre_locals["jac"].vals[f])),
                                               patterns=[a.F.elems[p]])),
            ("system-matrix-kept", mterm(c.new.self.linear_problem.lhs) == a.At)]


@register
class AdjointMode(Contract):
    """Adjoint mode: one linear system with (dR/dy)^T per function component; the rows assembled that way form the same matrix
    dF_f/dx - dF_f/dy (dR/dy)^-1 dR/dx as the direct mode."""

    targets = (CS + "._adjoint_mode",)
    prop = ("C07",)
    c07 = "ring"
    lu = False
    params = {"functions": NAMES, "dres_dx": TRing, "dres_dy_t": TRing, "dfun_dx": MATS, "dfun_dy": MATS, "linear_solver": TStr}
    returns = JACS
    modifies = ("self",)
    loops = {0: LoopSpec(anchor="functions", modifies=("jac", "self.linear_problem", "self"), inv=_kept(_adjoint_outer), local_types={"jac": JACS}),
             1: LoopSpec(anchor="range(dfunction_dy.shape[0])", modifies=("jac", "self.linear_problem", "self"), inv=_kept(_adjoint_inner))}

    def requires(self, c):
        a = _adj(c)
        i = z3.Int("i!ar")
        f = a.F.elems[i]
        return [("functions-have-partial-jacobians", functions_known(c, a.DX, a.DY)),
                ("partial-jacobians-of-a-function-have-the-same-rows", z3.ForAll([i], z3.Implies(in_range(i, a.F.n), nrows(a.DX.vals[f]) == nrows(a.DY.vals[f])), patterns=[a.F.elems[i]]))]

    def axioms(self, c):
        return ring_named()

    def ensures(self, c):
        a = _adj(c)
        jac = c.result
        i = z3.Int("i!am")
        f = a.F.elems[i]
        return [("closed-form", z3.ForAll([i], z3.Implies(z3.And(in_range(i, a.F.n), ext_q(jac.vals[f], adjoint_total(a, f))), z3.And(jac.has(f), jac.vals[f] == adjoint_total(a, f)))))] + \
            _counters(c, self.lu, False)


@register
class ModesAgreeLemma(Contract):
    """Corollary of the two contracts: total_derivatives hands (dR/dy)^T^T to the adjoint mode, so both modes return the same matrix,
    the closed-form implicit-function expression; the result does not depend on the derivation mode."""

    targets = ()
    prop = ("C07",)
    lemma = True

    def lemmas(self):
        from pyvc.plug_np_c07 import MatrixS

        DX, DY, A, B = (z3.Const(n, MatrixS) for n in ("DX", "DY", "A", "B"))
        ax = z3.And(*[f for _, f in ring_axioms()])
        return [("adjoint-of-the-transposed-transpose-equals-direct", z3.Implies(ax, closed_form(DX, DY, mtr(mtr(A)), B) == closed_form(DX, DY, A, B)))]


# ============================================================================ Part 3: the Jacobian operators (linear operators)
# An operator denotes a (possibly complex) matrix A: scipy's public matvec(x) = A x, rmatvec(x) = A^H x.  Every wrapper class of
# jacobian_operator.py must implement _matvec / _rmatvec consistently with the matrix IT denotes (built from its operands' matrices).
from pyvc.plug_np_c07 import TDtype, TOp, is_real, madj, midentity, mre, operator_axioms  # noqa: E402

JOP = "gemseo.core.derivatives.jacobian_operator."
SHAPE = TTuple(TInt, TInt)
_OP_BASE = {"shape": SHAPE, "dtype": TDtype}


def operator_named():
    return [(f"linear operators (assumed textbook identity): {l}", f) for l, f in operator_axioms()]


def _sub(x, y):
    return madd(x, mneg(y))


def _operator_contract(cls, fields, denotes, doc, real_part=False, real_operands=()):
    """Contracts of cls._matvec / cls._rmatvec: with D the matrix denoted by the wrapper (function `denotes` of its operands' matrices),
    _matvec(x) = D x and _rmatvec(x) = D^H x (their real parts for the real-casting wrapper); x and the operands are not modified."""
    schema(JOP + cls, dict(_OP_BASE, **fields))

    def operands(c):
        out = []
        for f in fields:
            v = getattr(c.old.self, f)
            out.append(v.obj.term if isinstance(v, C.View) else v)
        return out

    def make(method, adjoint):
        class _K(Contract):
            targets = (JOP + cls + "." + method,)
            prop = ("C07",)
            c07 = "ring"
            params = {"x": TRing}
            returns = TRing

            def requires(self, c):
                ops = operands(c)
                return [(f"operand-{i + 1}-is-a-real-array", is_real(ops[i])) for i in real_operands]

            def axioms(self, c):
                return operator_named()

            def ensures(self, c):
                D = denotes(*operands(c))
                x = mterm(c.old.x)
                expected = mmul(madj(D) if adjoint else D, x)
                if real_part:
                    expected = mre(expected)
                return [("applies-the-adjoint-of-the-denoted-matrix" if adjoint else "applies-the-denoted-matrix", mterm(c.result) == expected),
                        ("argument-not-modified", mterm(c.new.x) == x)]

        _K.__name__ = f"{cls.strip('_')}_{method.strip('_')}"
        _K.__qualname__ = _K.__name__
        _K.__doc__ = doc
        return register(_K)

    return make("_matvec", False), make("_rmatvec", True)


_P = "_RealJacobianOperator__operator"
_Q = "_AdjointJacobianOperator__operator"
_operator_contract("_RealJacobianOperator", {_P: TOp}, lambda a: a, "real casting: x -> Re(A x), x -> Re(A^H x)", real_part=True)
_operator_contract("_AdjointJacobianOperator", {_Q: TOp}, lambda a: madj(a), "adjoint (transpose of a real operator): denotes A^H")
_operator_contract("_SumOperation", {"_operand_1": TOp, "_operand_2": TOp}, lambda a, b: madd(a, b), "denotes A + B")
_operator_contract("_SumOperationWithArray", {"_operand_1": TOp, "_operand_2": TRing}, lambda a, b: madd(a, b), "denotes A + B (B a real array)", real_operands=(1,))
_operator_contract("_SubOperation", {"_operand_1": TOp, "_operand_2": TOp}, lambda a, b: _sub(a, b), "denotes A - B")
_operator_contract("_SubOperationWithArray", {"_operand_1": TOp, "_operand_2": TRing}, lambda a, b: _sub(a, b), "denotes A - B (B a real array)", real_operands=(1,))
_operator_contract("_ComposedOperationArrayOperator", {"_operand_1": TRing, "_operand_2": TOp}, lambda a, b: mmul(a, b), "denotes A B (A a real array)", real_operands=(0,))
_operator_contract("_ComposedOperationOperatorOperator", {"_operand_1": TOp, "_operand_2": TOp}, lambda a, b: mmul(a, b), "denotes A B")
_operator_contract("_ComposedOperationOperatorArray", {"_operand_1": TOp, "_operand_2": TRing}, lambda a, b: mmul(a, b), "denotes A B (B a real array)", real_operands=(1,))


def _identity_contract(method):
    class _K(Contract):
        """The identity operator returns its argument (I x = x, I^H x = x)."""

        targets = (JOP + "_IdentityOperator." + method,)
        prop = ("C07",)
        c07 = "ring"
        params = {"x": TRing}
        returns = TRing

        def ensures(self, c):
            return [("identity", mterm(c.result) == mterm(c.old.x)), ("argument-not-modified", mterm(c.new.x) == mterm(c.old.x))]

    _K.__name__ = _K.__qualname__ = f"IdentityOperator_{method.strip('_')}"
    return register(_K)


schema(JOP + "_IdentityOperator", dict(_OP_BASE))
_identity_contract("_matvec")
_identity_contract("_rmatvec")


# ---------------------------------------------------------------------------- construction of the wrappers (structure: class, operands, shape)
JO = JOP + "JacobianOperator"
schema(JO, dict(_OP_BASE))
schema(JOP + "_BaseOperation", dict(_OP_BASE, _operand_1=TOp, _operand_2=TOp))
schema(JOP + "_BaseComposedOperation", dict(_OP_BASE, _operand_1=TOp, _operand_2=TOp))


def _same_value(a, b):
    """Identity for heap objects, equality of terms for embedded values (as a z3 Bool)."""
    from pyvc.values import Ref as _Ref, SV as _SV

    if isinstance(a, _Ref) or isinstance(b, _Ref):
        if isinstance(a, _Ref) and isinstance(b, _Ref):
            return z3.BoolVal(a.id == b.id)
        return z3.BoolVal(False)
    if isinstance(a, _SV) and isinstance(b, _SV):
        return a.term == b.term
    return z3.BoolVal(a is b)


def _shape_is(obj, rows, cols):
    sh = obj.fields.get("shape")
    if not (isinstance(sh, tuple) and len(sh) == 2):
        return z3.BoolVal(False)
    t = lambda v: v.term if hasattr(v, "term") else z3.IntVal(v)  # noqa: E731
    return z3.And(t(sh[0]) == rows, t(sh[1]) == cols)


def _shape_of(c, v):
    """(rows, cols) terms of an operand: an operator object, an abstract operator or an abstract array."""
    from pyvc.values import Ref as _Ref

    if isinstance(v, _Ref):
        o = c._new_heap[v.id]
        if hasattr(o, "term"):
            return nrows(o.term), ncols(o.term)
        sh = o.fields["shape"]
        return sh[0].term, sh[1].term
    return nrows(v.term), ncols(v.term)


def _init_contract(cls, operands, shape_rule, doc):
    """cls.__init__ stores its operands unchanged and sets the shape of the denoted matrix."""

    class _K(Contract):
        targets = (JOP + cls + ".__init__",)
        prop = ("C07",)
        c07 = "ring"
        params = dict(operands)
        modifies = ("self",)
        inline_ok = True  # constructors are inlined at their call sites (real / T / __add__ ...)

        def ensures(self, c):
            o = c._new_heap[c.arg("self").id]
            names = list(operands)
            shapes = [_shape_of(c, c.arg(n)) for n in names]
            r, k = shape_rule(*shapes)
            out = [("shape", _shape_is(o, r, k))]
            for n in names:
                f = {"operator": f"{cls}__operator"}.get(n, f"_{n}")
                out.append((f"{n}-stored", _same_value(o.fields.get(f), c.arg(n))))
            return out

    _K.__name__ = _K.__qualname__ = f"{cls.strip('_')}_init"
    _K.__doc__ = doc
    return register(_K)


_init_contract("_RealJacobianOperator", {"operator": TOp}, lambda s: s, "same shape as the wrapped operator")
_init_contract("_AdjointJacobianOperator", {"operator": TOp}, lambda s: (s[1], s[0]), "shape of the wrapped operator swapped")
_init_contract("_BaseOperation", {"operand_1": TOp, "operand_2": TOp}, lambda s1, s2: s1, "sum / difference: shape of the first operand")
_init_contract("_BaseComposedOperation", {"operand_1": TOp, "operand_2": TOp}, lambda s1, s2: (s1[0], s2[1]), "product: (rows of the first, columns of the second operand)")


def _builder_contract(method, other_type, result_cls, order, shape_rule, doc, variant=None, kind="method"):
    """JacobianOperator.<method>: returns a wrapper of class result_cls over (self, other) with the shape of the denoted matrix."""

    class _K(Contract):
        targets = (JO + "." + method,)
        prop = ("C07",)
        c07 = "ring"
        params = {"other": other_type} if other_type is not None else {}
        inline_ok = True  # small glue: callers (shift_identity) see the body

        def ensures(self, c):
            from pyvc.values import Ref as _Ref

            r = c.result_value
            if not isinstance(r, _Ref) or not hasattr(c._new_heap[r.id], "fields"):
                return [("returns-a-wrapper-object", z3.BoolVal(False))]
            o = c._new_heap[r.id]
            me, other = c.arg("self"), (c.arg("other") if other_type is not None else None)
            ops = {"self": me, "other": other}
            first, second = (ops[n] for n in order) if len(order) == 2 else (ops[order[0]], None)
            out = [("wrapper-class", z3.BoolVal(o.cls == JOP + result_cls))]
            if second is None:
                out.append(("wrapped-operator", _same_value(o.fields.get(f"{result_cls}__operator"), first)))
                rows, cols = shape_rule(_shape_of(c, first))
            else:
                out += [("first-operand", _same_value(o.fields.get("_operand_1"), first)), ("second-operand", _same_value(o.fields.get("_operand_2"), second))]
                rows, cols = shape_rule(_shape_of(c, first), _shape_of(c, second))
            out.append(("shape", _shape_is(o, rows, cols)))
            return out  # (self and other unchanged: frame condition, modifies = ())

    if variant:
        _K.variant = variant
    _K.__name__ = _K.__qualname__ = f"JacobianOperator_{method.strip('_')}_{variant or 'operator'}"
    _K.__doc__ = doc
    return register(_K)


_first = lambda s1, s2=None: s1  # noqa: E731
_prod = lambda s1, s2: (s1[0], s2[1])  # noqa: E731
_builder_contract("real", None, "_RealJacobianOperator", ("self",), lambda s: s, "real casting wrapper over self")
_builder_contract("T", None, "_AdjointJacobianOperator", ("self",), lambda s: (s[1], s[0]), "adjoint wrapper over self, shape swapped")
_builder_contract("__add__", TOp, "_SumOperation", ("self", "other"), _first, "self + operator")
_builder_contract("__add__", TRing, "_SumOperationWithArray", ("self", "other"), _first, "self + array", variant="array")
_builder_contract("__sub__", TOp, "_SubOperation", ("self", "other"), _first, "self - operator")
_builder_contract("__sub__", TRing, "_SubOperationWithArray", ("self", "other"), _first, "self - array", variant="array")
_builder_contract("__matmul__", TOp, "_ComposedOperationOperatorOperator", ("self", "other"), _prod, "self @ operator")
_builder_contract("__matmul__", TRing, "_ComposedOperationOperatorArray", ("self", "other"), _prod, "self @ array", variant="array")
_builder_contract("__rmatmul__", TOp, "_ComposedOperationOperatorOperator", ("other", "self"), _prod, "operator @ self")
_builder_contract("__rmatmul__", TRing, "_ComposedOperationArrayOperator", ("other", "self"), _prod, "array @ self", variant="array")


@register
class IdentityOperatorInit(Contract):
    """The identity operator of size n has shape (n, n)."""

    targets = (JOP + "_IdentityOperator.__init__",)
    prop = ("C07",)
    c07 = "ring"
    params = {"size": TInt}
    modifies = ("self",)
    inline_ok = True

    def ensures(self, c):
        return [("shape", _shape_is(c._new_heap[c.arg("self").id], c.old.size, c.old.size))]


@register
class ShiftIdentity(Contract):
    """shift_identity() denotes A - I: a difference wrapper over (self, identity of size rows(A)), with the shape of A."""

    targets = (JO + ".shift_identity",)
    prop = ("C07",)
    c07 = "ring"

    def ensures(self, c):
        from pyvc.values import Ref as _Ref

        r = c.result_value
        if not isinstance(r, _Ref) or not hasattr(c._new_heap[r.id], "fields"):
            return [("returns-a-wrapper-object", z3.BoolVal(False))]
        o = c._new_heap[r.id]
        me = c.arg("self")
        rows, cols = _shape_of(c, me)
        second = o.fields.get("_operand_2")
        ident = c._new_heap[second.id] if isinstance(second, _Ref) else None
        return [("difference-wrapper", z3.BoolVal(o.cls == JOP + "_SubOperation")),
                ("first-operand-is-self", _same_value(o.fields.get("_operand_1"), me)),
                ("second-operand-is-the-identity-of-size-rows", z3.And(z3.BoolVal(ident is not None and getattr(ident, "cls", "") == JOP + "_IdentityOperator"),
                                                                       _shape_is(ident, rows, rows) if ident is not None and hasattr(ident, "fields") else z3.BoolVal(False))),
                ("shape", _shape_is(o, rows, cols))]
