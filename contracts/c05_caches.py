"""C05 - Discipline caches are transparent: contracts on gemseo.caches.* (DESIGN.md §4/C05).

Arrays are references (addresses) into a symbolic array heap ``arr`` (content: opaque ``Val``),
so that *content equality* (what a cache must preserve) and *identity* (what a caller can
mutate later) are distinguished.
"""
from __future__ import annotations

import z3

from pyvc import contract as C
from pyvc.contract import Contract, LoopSpec, register, schema
from pyvc.values import TAddr, TBool, TDict, TInt, TList, TOpt, TReal, TStr, TStruct, TVal, ValS

ARR = TAddr("arr", TVal)
DATA = TDict(TStr, ARR)  # StrKeyMapping of arrays
P = "gemseo.caches."

schema(P + "base_cache.BaseCache", {
    "_tolerance": TReal,
    "name": TStr,
    "_BaseCache__names_to_sizes": TDict(TStr, TInt),
    "_BaseCache__input_names": TList(TStr),
    "_output_names": TList(TStr),
})
schema(P + "simple_cache.SimpleCache", {
    "_SimpleCache__inputs": DATA,
    "_SimpleCache__outputs": DATA,
    "_SimpleCache__jacobian": DATA,
}, bases=[P + "base_cache.BaseCache"])

ENTRY = TStruct(P + "cache_entry.CacheEntry", {"inputs": DATA, "outputs": DATA, "jacobian": DATA})

# spec functions ------------------------------------------------------------------------------


def kq(name="k!spec"):
    return z3.Const(name, TStr.sort())


def content_eq(a, b, ha, hb):
    """Same keys and equal array contents (a read in heap ha, b in heap hb)."""
    k = kq()
    return z3.ForAll([k], z3.And(a.has(k) == b.has(k), z3.Implies(a.has(k), ha[a.get(k)] == hb[b.get(k)])))


def allocated(d, ctr):
    k = kq("k!al")
    return z3.ForAll([k], z3.Implies(d.has(k), z3.And(d.get(k) > 0, d.get(k) <= ctr)))


def fresh_or_kept(new, old, ctr0):
    """Every array stored in ``new`` is freshly allocated, or was already stored under that key."""
    k = kq("k!fk")
    return z3.ForAll([k], z3.Implies(new.has(k), z3.Or(new.get(k) > ctr0, z3.And(old.has(k), old.get(k) == new.get(k)))))


def dict_term(d):
    return DATA.dt.mk(d.member, d.vals, d.n)


def matches(c, data, stored, heap, tol):
    """Specification of 'the input data hit the stored entry' (compare_dict_of_arrays): equal contents for tolerance 0,
    otherwise an uninterpreted closeness predicate of the two contents and the tolerance."""
    return matches_c(cont(data, heap), cont(stored, heap), tol)


# abstract *content* of a dict of arrays: name -> optional array content (what hashing/comparison see) ----
OV = TOpt(TVal)
HEAPS = z3.ArraySort(z3.IntSort(), ValS)
CONTENT = z3.ArraySort(TStr.sort(), OV.sort())
def contf(m, v, h):
    """name -> some(content of the array) | none; a z3 lambda, so that equality of contents is array extensionality."""
    k = z3.Const("k!lam", TStr.sort())
    return z3.Lambda([k], z3.If(m[k], OV.dt.some(h[v[k]]), OV.dt.none))
hashf = z3.Function("hash_data", CONTENT, z3.IntSort())  # uninterpreted: collisions allowed
wtol = z3.Function("within_tol_c", CONTENT, CONTENT, z3.RealSort(), z3.BoolSort())


def cont(d, heap):
    """Content of a dict view in a heap."""
    return contf(d.member, d.vals, heap)


def cont_t(term, heap):
    """Content of an embedded DATA term."""
    return contf(DATA.acc(0)(term), DATA.acc(1)(term), heap)


def matches_c(ci, cs, tol):
    """'the probe content ci hits the stored content cs' (compare_dict_of_arrays on contents)."""
    return z3.If(tol == 0, ci == cs, wtol(ci, cs, tol))


def heap_preserved(c):
    """Allocation only: every previously allocated address keeps its content."""
    a = z3.Int("a!hp")
    h0, h1 = c.old_sym("arr", ValS), c.new_sym("arr", ValS)
    return z3.And(c.new_ctr >= c.old_ctr, z3.ForAll([a], z3.Implies(a <= c.old_ctr, h1[a] == h0[a])))


# contracts on helpers (assumed here; compare_dict_of_arrays is third-party-heavy numpy code) -----
@register
class CompareDictOfArrays(Contract):
    targets = ("gemseo.utils.comparisons.compare_dict_of_arrays",)
    prop = ("C05",)
    params = {"dict_of_arrays": DATA, "other_dict_of_arrays": DATA, "tolerance": TReal}
    returns = TBool
    trusted = True
    description = "assumed: equality of keys and of array contents for tolerance 0, an uninterpreted closeness predicate otherwise"

    def ensures(self, c):
        h = c.old_sym("arr", ValS)
        a, b, tol = c.old.dict_of_arrays, c.old.other_dict_of_arrays, c.old.tolerance
        return [("value", c.result == matches(c, a, b, h, tol)),
                # tolerance 0, pointwise (equality of contents is extensionality)
                ("value-pointwise", z3.Implies(tol == 0, c.result == content_eq(a, b, h, h)))]


@register
class DeepcopyDictOfArrays(Contract):
    targets = ("gemseo.utils.data_conversion.deepcopy_dict_of_arrays",)
    prop = ("C05",)
    params = {"dict_of_arrays": DATA}
    returns = DATA
    modifies = ("heap:arr",)
    loops = {0: LoopSpec(
        anchor="selected_keys",
        inv=lambda c, k: _deepcopy_inv(c, k),
        modifies=("deep_copy", "heap:arr"),
        local_types={"deep_copy": DATA},
    )}

    def requires(self, c):
        return [("allocated", allocated(c.old.dict_of_arrays, c.old_ctr)), ("all-keys", c.arg("names") == ())]

    def ensures(self, c):
        h1 = c.new_sym("arr", ValS)
        k = kq("k!dc")
        r, d = c.result, c.old.dict_of_arrays
        return [
            ("content", content_eq(r, d, h1, h1)),
            ("fresh", z3.ForAll([k], z3.Implies(r.has(k), z3.And(r.get(k) > c.old_ctr, r.get(k) <= c.new_ctr)))),
            ("heap-preserved", heap_preserved(c)),
            ("size", r.n == d.n),
        ]


def _deepcopy_inv(c, k):
    """After k keys: deep_copy holds fresh copies of exactly the first k keys of the source."""
    src = c.old.dict_of_arrays
    dc = c.locals["deep_copy"]
    h1 = c.new_sym("arr", ValS)
    seq = c.seq
    x = kq("k!inv")
    return [
        ("keys", z3.ForAll([x], dc.has(x) == z3.And(src.has(x), seq.pos[x] < k))),
        ("content", z3.ForAll([x], z3.Implies(dc.has(x), z3.And(h1[dc.get(x)] == h1[src.get(x)], dc.get(x) > c.old_ctr, dc.get(x) <= c.new_ctr)))),
        ("heap", heap_preserved(c)),
        ("size", dc.n == k),
    ]


# SimpleCache ---------------------------------------------------------------------------------
def sc(c, which="old"):
    s = getattr(c, which).self
    return s._SimpleCache__inputs, s._SimpleCache__outputs, s._SimpleCache__jacobian


def sc_hit(c):
    i, o, j = sc(c)
    return z3.And(i.n != 0, matches(c, c.old.input_data, i, c.old_sym("arr", ValS), c.old.self._tolerance))


def sc_wf(c, which="old"):
    i, o, j = sc(c, which)
    ctr = c.old_ctr if which == "old" else c.new_ctr
    return z3.And(allocated(i, ctr), allocated(o, ctr), allocated(j, ctr))


@register
class SimpleCacheCacheOutputs(Contract):
    targets = (P + "simple_cache.SimpleCache.cache_outputs",)
    prop = ("C05",)
    params = {"input_data": DATA, "output_data": DATA}
    modifies = ("self", "heap:arr")

    def requires(self, c):
        return [("wf", sc_wf(c)), ("args-allocated", z3.And(allocated(c.old.input_data, c.old_ctr), allocated(c.old.output_data, c.old_ctr)))]

    def ensures(self, c):
        i0, o0, j0 = sc(c)
        i1, o1, j1 = sc(c, "new")
        h0, h1 = c.old_sym("arr", ValS), c.new_sym("arr", ValS)
        hit = sc_hit(c)
        return [
            ("hit:inputs-kept", z3.Implies(hit, content_eq(i1, i0, h1, h0))),
            ("hit:outputs-kept-or-filled", z3.Implies(hit, z3.If(o0.n != 0, content_eq(o1, o0, h1, h0), content_eq(o1, c.old.output_data, h1, h0)))),
            ("hit:jacobian-kept", z3.Implies(hit, content_eq(j1, j0, h1, h0))),
            ("miss:inputs", z3.Implies(z3.Not(hit), content_eq(i1, c.old.input_data, h1, h0))),
            ("miss:outputs", z3.Implies(z3.Not(hit), content_eq(o1, c.old.output_data, h1, h0))),
            ("miss:jacobian-empty", z3.Implies(z3.Not(hit), j1.n == 0)),
            ("no-alias-inputs", fresh_or_kept(i1, i0, c.old_ctr)),
            ("no-alias-outputs", fresh_or_kept(o1, o0, c.old_ctr)),
            ("no-alias-jacobian", fresh_or_kept(j1, j0, c.old_ctr)),
            ("heap-preserved", heap_preserved(c)),
            ("wf", sc_wf(c, "new")),
        ]


@register
class SimpleCacheCacheJacobian(Contract):
    targets = (P + "simple_cache.SimpleCache.cache_jacobian",)

    def finding_regions(self, c):
        # known finding: whenever the Jacobian data are stored (a miss, or a hit on an entry without Jacobian) the caller's dict is kept
        _, _, j0 = sc(c)
        return {"jacobian-data-is-stored": z3.Or(z3.Not(sc_hit(c)), j0.n == 0)}

    prop = ("C05",)
    params = {"input_data": DATA, "jacobian_data": DATA}
    modifies = ("self", "heap:arr")

    def requires(self, c):
        return [("wf", sc_wf(c)), ("args-allocated", z3.And(allocated(c.old.input_data, c.old_ctr), allocated(c.old.jacobian_data, c.old_ctr)))]

    def ensures(self, c):
        i0, o0, j0 = sc(c)
        i1, o1, j1 = sc(c, "new")
        h0, h1 = c.old_sym("arr", ValS), c.new_sym("arr", ValS)
        hit = sc_hit(c)
        return [
            ("hit:inputs-kept", z3.Implies(hit, content_eq(i1, i0, h1, h0))),
            ("hit:jacobian-kept-or-filled", z3.Implies(hit, z3.If(j0.n != 0, content_eq(j1, j0, h1, h0), content_eq(j1, c.old.jacobian_data, h1, h0)))),
            ("hit:outputs-kept", z3.Implies(hit, content_eq(o1, o0, h1, h0))),
            ("miss:inputs", z3.Implies(z3.Not(hit), content_eq(i1, c.old.input_data, h1, h0))),
            ("miss:jacobian", z3.Implies(z3.Not(hit), content_eq(j1, c.old.jacobian_data, h1, h0))),
            ("miss:outputs-empty", z3.Implies(z3.Not(hit), o1.n == 0)),
            ("no-alias-inputs", fresh_or_kept(i1, i0, c.old_ctr)),
            ("no-alias-outputs", fresh_or_kept(o1, o0, c.old_ctr)),
            ("no-alias-jacobian", fresh_or_kept(j1, j0, c.old_ctr)),
            ("heap-preserved", heap_preserved(c)),
            ("wf", sc_wf(c, "new")),
        ]


@register
class SimpleCacheGetitem(Contract):
    targets = (P + "simple_cache.SimpleCache.__getitem__",)
    prop = ("C05",)
    params = {"input_data": DATA}
    returns = ENTRY

    def requires(self, c):
        return [("wf", sc_wf(c)), ("args-allocated", allocated(c.old.input_data, c.old_ctr))]

    def ensures(self, c):
        i0, o0, j0 = sc(c)
        h0, h1 = c.old_sym("arr", ValS), c.new_sym("arr", ValS)
        hit = sc_hit(c)
        r = c.result
        return [
            ("hit:outputs", z3.Implies(hit, content_eq(r.outputs, o0, h1, h0))),
            ("hit:jacobian", z3.Implies(hit, content_eq(r.jacobian, j0, h1, h0))),
            ("hit:inputs", z3.Implies(hit, content_eq(r.inputs, i0, h1, h0))),
            ("miss:empty", z3.Implies(z3.Not(hit), z3.And(r.outputs.n == 0, r.jacobian.n == 0))),
            ("miss:inputs", z3.Implies(z3.Not(hit), content_eq(r.inputs, c.old.input_data, h1, h0))),
            ("heap-unchanged", z3.And(c.new_ctr == c.old_ctr, h1 == h0)),
            ("result-allocated", z3.And(allocated(r.inputs, c.old_ctr), allocated(r.outputs, c.old_ctr), allocated(r.jacobian, c.old_ctr))),
        ]


@register
class SimpleCacheClear(Contract):
    targets = (P + "simple_cache.SimpleCache.clear",)
    prop = ("C05",)
    modifies = ("self",)

    def ensures(self, c):
        i1, o1, j1 = sc(c, "new")
        return [("empty", z3.And(i1.n == 0, o1.n == 0, j1.n == 0)), ("tolerance-kept", c.new.self._tolerance == c.old.self._tolerance),
                ("wf", sc_wf(c, "new"))]


@register
class SimpleCacheLen(Contract):
    targets = (P + "simple_cache.SimpleCache.__len__",)
    prop = ("C05",)
    returns = TInt

    def ensures(self, c):
        i0, _, _ = sc(c)
        return [("value", c.result == z3.If(i0.n != 0, 1, 0))]
