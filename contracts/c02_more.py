"""C02 (link level) - from the per-variable view of a DesignSpace to its vector view.

Schema variant "lnk": the variables carry precise bound arrays (Variable.lower_bound / upper_bound: real vectors), the normalisation
policies are precise boolean vectors, the cached normalisation data are precise arrays (as in c02_normalization.py).  What is proved
here is the link that c02_normalization.py (and C14 / C16 / C01, which use the cached arrays) take as a precondition (`wfnum`):
`__update_normalization_vars` establishes `wfnum` from the representation invariant `wf` of c02_design_space.py, and the cached arrays
are the concatenation, in the design space's variable order, of the per-variable bounds / policies / types.
"""
from __future__ import annotations

import z3

from contracts import c02_design_space as D
from contracts import c02_normalization as N2
from pyvc import contract as C
from pyvc.contract import Contract, LoopSpec, register, schema
from pyvc.npmodel import DTYPE, TArr, is_inf, is_ninf
from pyvc.plug_c14 import hs_off
from pyvc.values import TBool, TDict, TInt, TList, TReal, TRec, TStr, forall_pat, str_lit

DS = D.DS
F1, I1, B1 = N2.F1, N2.I1, N2.B1
VARA = TRec("VariableA", {"size": TInt, "type": TStr, "lower_bound": F1, "upper_bound": F1}, cls=D.VARCLS)
VARSA = TDict(TStr, VARA, ordered=True)
POL = TDict(TStr, B1, ordered=True)
FVALS = TDict(TStr, F1)
BVALS = TDict(TStr, B1)

schema(DS + "#lnk", {
    "name": TStr,
    "dimension": TInt,
    "_variables": VARSA,
    "normalize": POL,
    "_DesignSpace__names_to_indices": D.NTI,
    "_DesignSpace__current_value": D.CUR,
    "_DesignSpace__has_current_value": TBool,
    "_DesignSpace__norm_data_is_computed": TBool,
    "_DesignSpace__normalize_integer_variables": TBool,
    "_DesignSpace__lower_bounds_array": F1,
    "_DesignSpace__upper_bounds_array": F1,
    "_norm_factor": F1,
    "_norm_factor_inv": F1,
    "_DesignSpace__norm_inds": I1,
    "_DesignSpace__integer_components": B1,
    "_DesignSpace__no_integer": TBool,
    "_DesignSpace__common_dtype": DTYPE,
    "_DesignSpace__bound_tol": TReal,
})

GCD = DS + ".__get_common_dtype"
# __update_normalization_vars and what it needs also serve C01 (faithful evaluation rests on the exact unnormalisation: norm factor = ub - lb)
C02_C01 = ("C02", "C01")
CDA = DS + ".convert_dict_to_array"


# ---------------------------------------------------------------------------- spec helpers
def vsize(t):
    return VARA.accessor("size")(t)


def vtype(t):
    return VARA.accessor("type")(t)


def vlb(t):
    return VARA.accessor("lower_bound")(t)


def vub(t):
    return VARA.accessor("upper_bound")(t)


def wf_structure(s):
    """The representation invariant of c02_design_space.py (same field names in this schema variant; `size` read from the precise record)."""
    v, n, ix, cv = D.V(s), D.N(s), D.I(s), D.CV(s)
    i = z3.Int("i!wf")
    k = z3.Const("k!wfc", TStr.sort())
    rng = lambda j: ix.vals[v.keys[j]]  # noqa: E731
    return [
        ("same-order:normalize", D.same_key_order(v, n)),
        ("same-order:indices", D.same_key_order(v, ix)),
        ("sizes", forall_pat([i], z3.Implies(z3.And(0 <= i, i < v.n), z3.And(vsize(v.vals[v.keys[i]]) >= 1, D.stop(rng(i)) - D.start(rng(i)) == vsize(v.vals[v.keys[i]]))),
                            v.keys[i])),
        ("first-at-zero", z3.Implies(v.n > 0, D.start(rng(0)) == 0)),
        ("adjacent", D._adjacent(v, rng)),
        ("dimension", s.dimension == z3.If(v.n == 0, 0, D.stop(rng(v.n - 1)))),
        ("values-of-known-variables", z3.ForAll([k], z3.Implies(cv.has(k), v.has(k)))),
    ]


def wf_variables(s):
    """What pydantic's Variable validation and `_add_norm_policy` guarantee for every variable: bounds and policy have `size` components,
    the type is one of the two data types."""
    v, n = D.V(s), D.N(s)
    i = z3.Int("i!wv")
    var = v.vals[v.keys[i]]
    pol = n.vals[v.keys[i]]
    return [("bounds-and-policies-have-the-size-of-their-variable",
             forall_pat([i], z3.Implies(z3.And(0 <= i, i < v.n), z3.And(F1.dim(vlb(var)) == vsize(var), F1.dim(vub(var)) == vsize(var), B1.dim(pol) == vsize(var),
                                                                        z3.Or(vtype(var) == str_lit("float"), vtype(var) == str_lit("integer")))), v.keys[i]))]


def rngk(s, k):
    return D.I(s).vals[D.V(s).keys[k]]


def derived_ranges(s):
    """Consequence of the structural invariant (proved by induction, generically, in RangeLemmas): every index range lies within [0, dimension)."""
    v = D.V(s)
    k = z3.Int("k!dr")
    struct = z3.And(*[f for l, f in wf_structure(s) if l in ("sizes", "first-at-zero", "adjacent", "dimension")])
    return [("derived:index-ranges-within-the-dimension",
             z3.Implies(struct, forall_pat([k], z3.Implies(z3.And(0 <= k, k < v.n), z3.And(0 <= D.start(rngk(s, k)), D.stop(rngk(s, k)) <= s.dimension)), v.keys[k])))]


c02_owner = z3.Function("c02_owner", z3.ArraySort(z3.IntSort(), TStr.sort()), z3.ArraySort(TStr.sort(), D.TRange.sort()), z3.IntSort(), z3.IntSort(), z3.IntSort())


def owner(s, i):
    """Position (in the variable order) of the variable whose index range contains component i: a Skolem function of the existence statement proved by
    induction in OwnerLemmas (every component of [0, dimension) lies in the index range of some variable)."""
    return c02_owner(D.V(s).keys, D.I(s).vals, D.V(s).n, i)


def derived_owner(s):
    v = D.V(s)
    i = z3.Int("i!do")
    struct = z3.And(*[f for l, f in wf_structure(s) if l in ("sizes", "first-at-zero", "adjacent", "dimension")])
    o = owner(s, i)
    return [("derived:every-component-has-an-owner",
             z3.Implies(struct, z3.ForAll([i], z3.Implies(z3.And(0 <= i, i < s.dimension), z3.And(0 <= o, o < v.n, D.start(rngk(s, o)) <= i, i < D.stop(rngk(s, o)))), patterns=[o])))]


def derived_all(s):
    return D.derived_wf(s) + derived_ranges(s) + derived_owner(s)


# ---------------------------------------------------------------------------- __get_common_dtype
class _CommonDtype(Contract):
    """The common dtype of real (resp. boolean) vectors is the float dtype (no integer / complex value among them)."""

    targets = (GCD,)
    prop = C02_C01
    numpy = "precise"
    c02_lnk = True
    self_class = DS
    returns = DTYPE
    elem = F1
    loops = {0: LoopSpec(anchor="arrays", inv=lambda c, k: [("no-int-seen", z3.Not(c.locals["has_int"]))])}

    @property
    def params(self):
        return {"arrays": TList(self.elem)}

    def ensures(self, c):
        return [("float-dtype", c.result.kind == str_lit("f"))]


@register
class CommonDtypeOfRealVectors(_CommonDtype):
    variant = "f"
    elem = F1


@register
class CommonDtypeOfBooleanVectors(_CommonDtype):
    variant = "b"
    elem = B1


# ---------------------------------------------------------------------------- convert_dict_to_array (all the variables)
def sizes_match(s, dv, ty):
    """The values have the sizes of their variables."""
    v = D.V(s)
    i = z3.Int("i!sm")
    return forall_pat([i], z3.Implies(z3.And(0 <= i, i < v.n), ty.dim(dv.vals[v.keys[i]]) == vsize(v.vals[v.keys[i]])), v.keys[i])


def some_variable_without_value(s, dv):
    v = D.V(s)
    i = z3.Int("i!sv")
    return z3.Exists([i], z3.And(0 <= i, i < v.n, z3.Not(dv.has(v.keys[i]))))


def blocks_at_index_ranges(s, dv, ty, res):
    """Component start(name) + j of the vector is component j of the value of `name`, for every variable (by position in the variable order)."""
    v = D.V(s)
    k, j = z3.Int("k!br"), z3.Int("j!br")
    e = ty.els(dv.vals[v.keys[k]])[j]
    return z3.ForAll([k, j], z3.Implies(z3.And(0 <= k, k < v.n, 0 <= j, j < ty.dim(dv.vals[v.keys[k]])), N2.el(res, D.start(rngk(s, k)) + j) == e), patterns=[e])


def offsets_are_index_ranges(s, cat):
    """Conclusion of the cited lemma OffsetLemmas: the block offsets of the concatenation are the starts of the index ranges."""
    v = D.V(s)
    k = z3.Int("k!oi")
    return z3.And(z3.ForAll([k], z3.Implies(z3.And(0 <= k, k < v.n), z3.And(cat.off(k) == D.start(rngk(s, k)), cat.off(k + 1) == D.stop(rngk(s, k)))), patterns=[cat.off(k)]),
                  # (the instance at the last block, stated so that no prover has to guess it)
                  z3.Implies(v.n > 0, cat.off(v.n) == D.stop(rngk(s, v.n - 1))))


def blocks_of_the_concatenation(s, dv, ty, cat, conv=lambda e: e):
    """Derived from the placement of the blocks at their offsets and `offsets_are_index_ranges` (proved where the concatenation is built)."""
    v = D.V(s)
    k, j = z3.Int("k!bc"), z3.Int("j!bc")
    e = ty.els(dv.vals[v.keys[k]])[j]
    R = cat.res_elems  # noqa: N806
    return z3.ForAll([k, j], z3.Implies(z3.And(0 <= k, k < v.n, 0 <= j, j < cat.lens[k]), R[D.start(rngk(s, k)) + j] == e), patterns=[e])


def offset_lemma_hypotheses(s, cat):
    v = D.V(s)
    k = z3.Int("k!oh")
    k1, k2 = z3.Int("k1!oh"), z3.Int("k2!oh")
    return [("as-many-blocks-as-variables", cat.n == v.n),
            ("first-range-starts-at-zero", z3.Implies(v.n > 0, D.start(rngk(s, 0)) == 0)),
            ("range-lengths-are-block-lengths", z3.ForAll([k], z3.Implies(z3.And(0 <= k, k < v.n), D.stop(rngk(s, k)) - D.start(rngk(s, k)) == cat.lens[k]), patterns=[cat.lens[k]])),
            ("ranges-are-adjacent", z3.ForAll([k1, k2], z3.Implies(z3.And(0 <= k1, k2 == k1 + 1, k2 < v.n), D.start(rngk(s, k2)) == D.stop(rngk(s, k1))),
                                              patterns=[z3.MultiPattern(v.keys[k1], v.keys[k2])]))]


class _ConvertDictToArray(Contract):
    """convert_dict_to_array(design_values) with every variable: KeyError iff some variable has no value; otherwise the concatenation of the
    values in the design space's variable order - when the values have the sizes of their variables: a vector of length `dimension` whose
    component start(name) + j is component j of design_values[name]."""

    targets = (CDA,)
    prop = C02_C01
    self_schema = DS + "#lnk"
    numpy = "precise"
    c02_lnk = True
    elem = F1
    kind = "f"

    @property
    def params(self):
        return {"design_values": TDict(TStr, self.elem)}

    @property
    def returns(self):
        return F1

    @property
    def callee_variants(self):
        return {GCD: self.kind}

    @property
    def raises(self):
        return {"KeyError": lambda c: some_variable_without_value(c.old.self, c.old.design_values)}

    def requires(self, c):
        return wf_structure(c.old.self) + [("all-the-variables", z3.BoolVal(c.arg("variable_names") == ()))]

    def axioms(self, c):
        return D.derived_wf(c.old.self)

    def cat_lemmas(self, c, cat):
        s, dv = c.old.self, c.old.design_values
        m = sizes_match(s, dv, self.elem)
        return [("offsets-are-index-ranges", [(l, z3.Implies(m, h)) for l, h in offset_lemma_hypotheses(s, cat)], z3.Implies(m, offsets_are_index_ranges(s, cat))),
                ("derived:blocks-of-the-concatenation", [], z3.Implies(m, blocks_of_the_concatenation(s, dv, self.elem, cat)))]

    def ensures(self, c):
        s, dv, res = c.old.self, c.old.design_values, c.result
        m = sizes_match(s, dv, self.elem)
        return [("length-is-the-dimension", z3.Implies(m, N2.ln(res) == s.dimension)),
                ("blocks-at-index-ranges", z3.Implies(m, self.blocks(s, dv, res)))]

    def blocks(self, s, dv, res):
        return blocks_at_index_ranges(s, dv, self.elem, res)


@register
class ConvertRealValuesToArray(_ConvertDictToArray):
    variant = "f"
    elem = F1
    kind = "f"


@register
class ConvertPoliciesToArray(_ConvertDictToArray):
    """Boolean values (the normalisation policies): the result is the float vector of 0. / 1. (astype(float64) of the concatenation)."""

    variant = "b"
    elem = B1
    kind = "b"

    def blocks(self, s, dv, res):
        v = D.V(s)
        k, j = z3.Int("k!br"), z3.Int("j!br")
        e = B1.els(dv.vals[v.keys[k]])[j]
        return z3.ForAll([k, j], z3.Implies(z3.And(0 <= k, k < v.n, 0 <= j, j < B1.dim(dv.vals[v.keys[k]])),
                                            N2.el(res, D.start(rngk(s, k)) + j) == z3.If(e, z3.RealVal(1), z3.RealVal(0))), patterns=[e])


# ---------------------------------------------------------------------------- lemmas
@register
class OffsetLemmas(Contract):
    """Induction (base + step): when the index ranges S(k)..E(k) of n blocks start at 0, are adjacent and have the lengths of the blocks, the
    prefix sums of the block lengths are the range starts.  S, E are uninterpreted functions here (the lemma holds for every S, E); the verified
    functions cite the instance S(k) = start(names_to_indices[name_k]), E(k) = stop(...)."""

    targets = ()
    prop = C02_C01
    lemma = True

    def lemmas(self):
        lens = z3.Const("lens", z3.ArraySort(z3.IntSort(), z3.IntSort()))
        S, E = z3.Function("S", z3.IntSort(), z3.IntSort()), z3.Function("E", z3.IntSort(), z3.IntSort())  # noqa: N806
        n, m, k = z3.Ints("n m k")
        off = lambda t: hs_off(lens, t)  # noqa: E731
        defn = z3.And(off(0) == 0, z3.ForAll([k], z3.Implies(z3.And(0 <= k, k < n), off(k + 1) == off(k) + lens[k]), patterns=[off(k + 1)]))
        hyp = z3.And(z3.Implies(n > 0, S(0) == 0), z3.ForAll([k], z3.Implies(z3.And(0 <= k, k < n), E(k) - S(k) == lens[k]), patterns=[lens[k]]),
                     z3.ForAll([k], z3.Implies(z3.And(0 <= k, k + 1 < n), S(k + 1) == E(k)), patterns=[S(k + 1)]))
        P = lambda t: z3.And(off(t) == S(t), off(t + 1) == E(t))  # noqa: E731,N806
        return [("base", z3.Implies(z3.And(defn, hyp, n > 0), P(0))),
                ("step", z3.Implies(z3.And(defn, hyp, 0 <= m, m + 1 < n, P(m)), P(m + 1)))]


# ---------------------------------------------------------------------------- the link: cached arrays = concatenation of the per-variable data
GLB, GUB, UNV = DS + ".get_lower_bounds", DS + ".get_upper_bounds", DS + ".__update_normalization_vars"
INTEGER = str_lit("integer")


def bound_blocks(s, arr, which):
    """Component start(name) + j of `arr` is component j of the lower / upper bound of `name`."""
    v = D.V(s)
    k, j = z3.Int("k!bb"), z3.Int("j!bb")
    e = F1.els(which(v.vals[v.keys[k]]))[j]
    return z3.ForAll([k, j], z3.Implies(z3.And(0 <= k, k < v.n, 0 <= j, j < vsize(v.vals[v.keys[k]])), N2.el(arr, D.start(rngk(s, k)) + j) == e), patterns=[e])


def type_blocks(s, arr, elems=None):
    """Component start(name) + j of the integer mask tells whether `name` is an integer variable."""
    v = D.V(s)
    k, j = z3.Int("k!tb"), z3.Int("j!tb")
    e = N2.el(arr, D.start(rngk(s, k)) + j) if elems is None else elems[D.start(rngk(s, k)) + j]
    return z3.ForAll([k, j], z3.Implies(z3.And(0 <= k, k < v.n, 0 <= j, j < vsize(v.vals[v.keys[k]])), e == (vtype(v.vals[v.keys[k]]) == INTEGER)), patterns=[e])


def policy_blocks(s):
    """The normalised indices are exactly the components whose normalisation policy is True: component start(name) + j is (not) one of them when
    normalize[name][j] is (not) True."""
    d = N2.S(s)
    v, n = D.V(s), D.N(s)
    k, j, t = z3.Int("k!pb"), z3.Int("j!pb"), z3.Int("t!pb")
    pol = B1.els(n.vals[v.keys[k]])[j]
    comp = D.start(rngk(s, k)) + j
    rng = z3.And(0 <= k, k < v.n, 0 <= j, j < vsize(v.vals[v.keys[k]]))
    m = N2.ln(d.ni)
    t1, t2 = z3.Int("t1!pb"), z3.Int("t2!pb")
    distinct = z3.ForAll([t1, t2], z3.Implies(z3.And(0 <= t1, t1 < t2, t2 < m), N2.el(d.ni, t1) != N2.el(d.ni, t2)),
                         patterns=[z3.MultiPattern(N2.el(d.ni, t1), N2.el(d.ni, t2))])
    return [("normalised-indices-are-pairwise-distinct", distinct),
            ("components-with-a-false-policy-are-not-normalised",
             z3.ForAll([k, j], z3.Implies(z3.And(rng, z3.Not(pol)), z3.ForAll([t], z3.Implies(z3.And(0 <= t, t < m), N2.el(d.ni, t) != comp))), patterns=[pol])),
            ("components-with-a-true-policy-are-normalised",
             z3.ForAll([k, j], z3.Implies(z3.And(rng, pol), z3.Exists([t], z3.And(0 <= t, t < m, N2.el(d.ni, t) == comp))), patterns=[pol]))]


def linked(s):
    """The cached normalisation arrays are the concatenation, in variable order, of the per-variable bounds, types and policies."""
    d = N2.S(s)
    return [("lower-bounds-are-the-concatenated-variable-bounds", bound_blocks(s, d.lb, vlb)),
            ("upper-bounds-are-the-concatenated-variable-bounds", bound_blocks(s, d.ub, vub)),
            ("integer-mask-is-the-concatenated-variable-types", type_blocks(s, d.ic))] + policy_blocks(s)


def wfnum(s):
    """c02_normalization.wfnum(s), verbatim; its explicit triggers are dropped where z3 rejects them (the arrays of an exit state are lambda
    terms, and a select on a lambda term is no valid trigger)."""
    orig = z3.ForAll

    def forall(vs, body, **kw):
        try:
            return orig(vs, body, **kw)
        except z3.Z3Exception:
            return orig(vs, body)

    z3.ForAll = forall
    try:
        return N2.wfnum(s)
    finally:
        z3.ForAll = orig


def cache_invariant(s):
    """Cached normalisation data, when flagged as computed, are valid (wfnum) and linked to the variables."""
    return [(f"computed-implies:{l}", z3.Implies(s._DesignSpace__norm_data_is_computed, f)) for l, f in wfnum(s)[1:] + linked(s)]


def dtype_invariant(s):
    # (the common dtype is the float dtype from __init__ on and only ever replaced by a float / integer dtype: complex values are not covered)
    kind = s._DesignSpace__common_dtype.kind
    return [("common-dtype-is-float-or-integer", z3.Or(kind == str_lit("f"), kind == str_lit("i")))]


def wf_lnk(s):
    return wf_structure(s) + wf_variables(s) + cache_invariant(s) + dtype_invariant(s)


STRUCT_LNK = ("name", "dimension", "_variables", "normalize", "_DesignSpace__names_to_indices", "_DesignSpace__current_value", "_DesignSpace__has_current_value",
              "_DesignSpace__normalize_integer_variables", "_DesignSpace__bound_tol")


def kept(s0, s1, fields):
    out = []
    for f in fields:
        a, b = getattr(s0, f), getattr(s1, f)
        if isinstance(a, C.View) and a.obj is not None and hasattr(a.obj, "member"):
            out.append((f"kept:{f}", D.unchanged_dict(b, a)))
        elif isinstance(a, C.View) and a.obj is not None and hasattr(a.obj, "elems"):  # a vector: same length, same elements
            out.append((f"kept:{f}", z3.And(a.obj.shape[0] == b.obj.shape[0], a.obj.elems == b.obj.elems)))
        elif isinstance(a, C.View):
            out.append((f"kept:{f}", a.term == b.term))
        else:
            out.append((f"kept:{f}", a == b))
    return out


class _GetBounds(Contract):
    """get_lower_bounds() / get_upper_bounds() (every variable, as an array): a vector of length `dimension` whose component start(name) + j is
    component j of the bound of `name` - whether it is served from the cache (data flagged as computed) or concatenated on the spot."""

    prop = C02_C01
    variant = "lnk"
    self_schema = DS + "#lnk"
    numpy = "precise"
    c02_lnk = True
    returns = F1
    callee_variants = {CDA: "f"}
    which = staticmethod(vlb)

    def requires(self, c):
        return wf_lnk(c.old.self) + [("all-the-variables-as-an-array", z3.BoolVal(c.arg("variable_names") == () and c.arg("as_dict") is False))]

    def axioms(self, c):
        return D.derived_wf(c.old.self)

    def ensures(self, c):
        s = c.old.self
        return [("length-is-the-dimension", N2.ln(c.result) == s.dimension),
                ("blocks-at-index-ranges", bound_blocks(s, c.result, self.which))]


@register
class GetLowerBounds(_GetBounds):
    targets = (GLB,)
    which = staticmethod(vlb)


@register
class GetUpperBounds(_GetBounds):
    targets = (GUB,)
    which = staticmethod(vub)


@register
class CommonDtypeOfCurrentValues(Contract):
    targets = (GCD,)
    variant = "cv"
    prop = C02_C01
    numpy = "precise"
    self_class = DS
    returns = DTYPE
    trusted = True
    description = ("assumed: the current values are real or integer arrays (complex values are not covered), so their common dtype is the float or the "
                   "integer dtype; nothing is modified")

    def ensures(self, c):
        return [("float-or-integer-dtype", z3.Or(c.result.kind == str_lit("f"), c.result.kind == str_lit("i")))]


CACHE_LNK = ("_DesignSpace__norm_data_is_computed", "_DesignSpace__lower_bounds_array", "_DesignSpace__upper_bounds_array", "_norm_factor", "_norm_factor_inv",
             "_DesignSpace__norm_inds", "_DesignSpace__integer_components", "_DesignSpace__no_integer", "_DesignSpace__common_dtype")


@register
class UpdateNormalizationVars(Contract):
    """Establishes the validity of the cached normalisation data (`wfnum`, the precondition of the numerical contracts of c02_normalization.py,
    C14, C16) and their link to the variables, from the representation invariant of the design space; touches nothing but the cache."""

    targets = (UNV,)
    variant = "lnk"
    prop = C02_C01
    self_schema = DS + "#lnk"
    numpy = "precise"
    c02_lnk = True
    modifies = ("self",)
    callee_variants = {CDA: "b", GLB: "lnk", GUB: "lnk", GCD: "cv"}

    def requires(self, c):
        s = c.old.self
        # (every call site is guarded by `if not self.__norm_data_is_computed`)
        return wf_structure(s) + wf_variables(s) + dtype_invariant(s) + [("called-only-when-the-data-are-not-computed", z3.Not(s._DesignSpace__norm_data_is_computed))]

    def axioms(self, c):
        return derived_all(c.old.self)

    def cat_lemmas(self, c, cat):
        # the integer mask: concatenate(([variable.type == integer] * variable.size for variable in variables))
        s = c.old.self
        v = D.V(s)
        k, j = z3.Int("k!im"), z3.Int("j!im")
        R = cat.res_elems  # noqa: N806
        e = R[D.start(rngk(s, k)) + j]
        placed = z3.ForAll([k, j], z3.Implies(z3.And(0 <= k, k < v.n, 0 <= j, j < cat.lens[k]), e == B1.els(cat.L.elems[k])[j]), patterns=[e])
        derived = type_blocks(s, None, R)  # (literally the postcondition clause, stated over the elements of the concatenation)
        return [("offsets-are-index-ranges", offset_lemma_hypotheses(s, cat), offsets_are_index_ranges(s, cat)),
                ("derived:blocks-placed-at-the-index-ranges", [], placed),
                ("derived:integer-mask-blocks", [], derived)]

    def ensures(self, c):
        s0, s1 = c.old.self, c.new.self
        return wfnum(s1) + linked(s1) + kept(s0, s1, STRUCT_LNK)


@register
class RangeLemmas(Contract):
    """Induction (base + step): index ranges S(k)..E(k), k < n, that start at 0, are adjacent and non-empty lie within [0, E(n-1)]
    (= [0, dimension] by the `dimension` clause of the invariant).  S, E: uninterpreted functions (the lemma holds for every S, E)."""

    targets = ()
    prop = C02_C01
    lemma = True

    def lemmas(self):
        S, E = z3.Function("S", z3.IntSort(), z3.IntSort()), z3.Function("E", z3.IntSort(), z3.IntSort())  # noqa: N806
        n, m, k = z3.Ints("n m k")
        hyp = z3.And(z3.Implies(n > 0, S(0) == 0), z3.ForAll([k], z3.Implies(z3.And(0 <= k, k < n), E(k) - S(k) >= 1), patterns=[E(k)]),
                     z3.ForAll([k], z3.Implies(z3.And(0 <= k, k + 1 < n), S(k + 1) == E(k)), patterns=[S(k + 1)]))
        up = lambda t: S(t) >= 0  # noqa: E731
        down = lambda t: E(n - 1 - t) <= E(n - 1)  # noqa: E731
        return [("starts-non-negative:base", z3.Implies(z3.And(hyp, n > 0), up(0))),
                ("starts-non-negative:step", z3.Implies(z3.And(hyp, 0 <= m, m + 1 < n, up(m)), up(m + 1))),
                ("stops-below-the-last-stop:base", z3.Implies(z3.And(hyp, n > 0), down(0))),
                ("stops-below-the-last-stop:step", z3.Implies(z3.And(hyp, 0 <= m, m + 1 < n, down(m), S(n - 1 - m) == S(n - 1 - m)), down(m + 1)))]


# ---------------------------------------------------------------------------- normalisation policies
FLOAT = str_lit("float")
ANP = DS + "._add_norm_policy"


def policy_of(s, var, j):
    """A component is normalised iff its variable is a float variable (or integer variables are normalised too) and it is bounded on both sides."""
    return z3.And(z3.Or(vtype(var) == FLOAT, s._DesignSpace__normalize_integer_variables), z3.Not(is_ninf(F1.els(vlb(var))[j])), z3.Not(is_inf(F1.els(vub(var))[j])))


def wf_policies(s):
    """Every policy is the policy of its variable (what `_add_norm_policy` establishes for one variable)."""
    v, n = D.V(s), D.N(s)
    k, j = z3.Int("k!wp"), z3.Int("j!wp")
    var = v.vals[v.keys[k]]
    e = B1.els(n.vals[v.keys[k]])[j]
    return [("policies-are-the-policies-of-the-variables", z3.ForAll([k, j], z3.Implies(z3.And(0 <= k, k < v.n, 0 <= j, j < vsize(var)), e == policy_of(s, var, j)), patterns=[e]))]


@register
class AddNormPolicyLinked(Contract):
    """normalize[name] := one boolean per component of the variable: float variable (or integer normalisation enabled) and lower bound != -inf and
    upper bound != +inf; every other policy and everything else kept."""

    targets = (ANP,)
    variant = "lnk"
    prop = ("C02",)
    self_schema = DS + "#lnk"
    numpy = "precise"
    c02_lnk = True
    params = {"name": TStr}
    modifies = ("self",)
    raises = {"ValueError": lambda c: z3.Not(D.V(c.old.self).has(c.old.name))}

    def requires(self, c):
        # pydantic's Variable validation: both bounds have `size` components (every call site passes a validated variable)
        s, nm = c.old.self, c.old.name
        var = D.V(s).vals[nm]
        return [("bounds-have-the-size-of-the-variable", z3.Implies(D.V(s).has(nm), z3.And(F1.dim(vlb(var)) == vsize(var), F1.dim(vub(var)) == vsize(var), vsize(var) >= 1)))]

    def ensures(self, c):
        s0, s1 = c.old.self, c.new.self
        n0, n1 = D.N(s0), D.N(s1)
        nm = c.old.name
        var = D.V(s0).vals[nm]
        j = z3.Int("j!anp")
        e = B1.els(n1.vals[nm])[j]
        return [("policy-length", B1.dim(n1.vals[nm]) == vsize(var)),
                ("policy", z3.ForAll([j], z3.Implies(z3.And(0 <= j, j < vsize(var)), e == policy_of(s0, var, j)))),
                ("other-policies-kept", z3.If(n0.has(nm), z3.And(D.same_key_order(n1, n0), D._vals_kept_except(n1, n0, nm)), D.appended_key(n1, n0, nm))),
                ] + kept(s0, s1, [f for f in STRUCT_LNK + CACHE_LNK if f != "normalize"])


# ---------------------------------------------------------------------------- unnormalize_vect WITH integer variables (numerical level, schema "num")
from pyvc.npmodel import np_round  # noqa: E402

RV, UV, NV = DS + ".round_vect", DS + ".unnormalize_vect", DS + ".normalize_vect"


def relem(a, i):
    """Element i of a vector view as a real (the result may be an integer array)."""
    e = a.obj.elems[i]
    return z3.ToReal(e) if a.obj.kind == "i" else e


def rounded_if_integer(d, i, t):
    return z3.If(N2.el(d.ic, i), np_round(t), t)


def fa(vs, body, *pats):
    """ForAll with explicit triggers when z3 accepts them (a select on a lambda term is no valid trigger)."""
    try:
        if pats:
            return z3.ForAll(vs, body, patterns=list(pats))
    except z3.Z3Exception:
        pass
    return z3.ForAll(vs, body)


def _b(v):
    return z3.BoolVal(v) if isinstance(v, bool) else v


@register
class RoundVectInPlace(Contract):
    """Integer components are rounded (numpy.round), the others are kept; the argument itself is rounded unless `copy`."""

    targets = (RV,)
    variant = "v1"
    prop = ("C02",)
    self_schema = DS + "#num"
    numpy = "precise"
    params = {"x_vect": F1, "copy": TBool}
    returns = F1
    modifies = ("x_vect",)

    def requires(self, c):
        s = c.old.self
        return N2.wfnum(s) + [("vector-length", N2.ln(c.old.x_vect) == N2.S(s).dim)]

    def ensures(self, c):
        d = N2.S(c.old.self)
        x0, x1, r = c.old.x_vect, c.new.x_vect, c.result
        i = z3.Int("i!rv1")
        cp = _b(c.old.copy)
        rng = z3.And(0 <= i, i < d.dim)
        return [("length", N2.ln(r) == d.dim),
                ("rounded", fa([i], z3.Implies(rng, N2.el(r, i) == rounded_if_integer(d, i, N2.el(x0, i))), N2.el(r, i))),
                ("in-place-unless-copy", fa([i], z3.Implies(rng, N2.el(x1, i) == z3.If(cp, N2.el(x0, i), N2.el(r, i))), N2.el(x1, i))),
                ("argument-length-kept", N2.ln(x1) == N2.ln(x0))]


@register
class UnnormalizeVectWithIntegers(Contract):
    """Points (minus_lb): x[i] = u[i] (ub[i] - lb[i]) + lb[i] on normalised components, u[i] elsewhere, then numpy.round on the integer components.
    Gradients (not minus_lb: normalize_grad): the pure linear scaling g[i] (ub[i] - lb[i]) on normalised components, g[i] elsewhere - NO rounding, also
    for the components of integer variables.  For EVERY design space (integer variables or not, any common dtype of the current values)."""

    targets = (UV,)
    variant = "int"
    prop = ("C02",)
    self_schema = DS + "#num"
    numpy = "precise"
    params = {"x_vect": F1, "minus_lb": TBool, "no_check": TBool}
    returns = F1
    callee_variants = {RV: "v1"}

    def requires(self, c):
        s = c.old.self
        d = N2.S(s)
        return N2.wfnum(s) + [("vector-length", N2.ln(c.old.x_vect) == d.dim), ("monotone-lemma", N2.increasing_implies_distinct(d)), ("out-is-none", c.arg("out") is None)]

    def axioms(self, c):
        t = z3.Real("t!ra")
        return [("numpy.round-is-integer-valued", z3.ForAll([t], z3.IsInt(np_round(t)), patterns=[np_round(t)]))]

    def ensures(self, c):
        d = N2.S(c.old.self)
        x, r = c.old.x_vect, c.result
        j, i = z3.Int("j!uvi"), z3.Int("i!uvi")
        mlb = _b(c.old.minus_lb)
        nij = N2.el(d.ni, j)
        shift = z3.If(mlb, N2.el(d.lb, nij), z3.RealVal(0))
        # (written with the cached norm factor, as in C14: _norm_factor[i] = ub[i] - lb[i] is the clause `norm-factor` of wfnum, restated below at
        # the normalised indices; inside numpy.round the product must be syntactically the computed one)
        affine = N2.el(x, nij) * N2.el(d.nf, nij) + shift
        cast = ":after-the-integer-cast" if r.obj.kind == "i" else ""
        return [("length", N2.ln(r) == d.dim),
                ("norm-factor-is-ub-minus-lb", z3.ForAll([j], z3.Implies(z3.And(0 <= j, j < N2.ln(d.ni)), N2.el(d.nf, nij) == N2.el(d.ub, nij) - N2.el(d.lb, nij)))),
                # (the same two clauses on every path; the paths that end with the cast of the whole vector to int64 - all-integer design spaces
                # only, since the repair 4832538 - carry a label of their own)
                ("normalized-components" + cast, z3.ForAll([j], z3.Implies(z3.And(0 <= j, j < N2.ln(d.ni)), relem(r, nij) == z3.If(mlb, rounded_if_integer(d, nij, affine), affine)))),
                ("other-components" + cast, z3.ForAll([i], z3.Implies(z3.And(0 <= i, i < d.dim, N2.not_normalized(d, i)),
                                                                      relem(r, i) == z3.If(mlb, rounded_if_integer(d, i, N2.el(x, i)), N2.el(x, i))))),
                ("fresh-result", z3.BoolVal(c.result.ref.id != c.old.x_vect.ref.id))]


NG, UG = DS + ".normalize_grad", DS + ".unnormalize_grad"


@register
class NormalizeGrad(Contract):
    """normalize_grad is the linear scaling g[i] (ub[i] - lb[i]) on the normalised components and the identity elsewhere - with or without integer
    variables (no rounding, no integer cast: a gradient is no point of the design space)."""

    targets = (NG,)
    variant = "int"
    prop = ("C02",)
    self_schema = DS + "#num"
    numpy = "precise"
    params = {"g_vect": F1}
    returns = F1
    callee_variants = {UV: "int"}

    def requires(self, c):
        s = c.old.self
        d = N2.S(s)
        return N2.wfnum(s) + [("vector-length", N2.ln(c.old.g_vect) == d.dim), ("monotone-lemma", N2.increasing_implies_distinct(d))]

    def ensures(self, c):
        d = N2.S(c.old.self)
        g, r = c.old.g_vect, c.result
        j, i = z3.Int("j!ng"), z3.Int("i!ng")
        nij = N2.el(d.ni, j)
        return [("length", N2.ln(r) == d.dim),
                ("norm-factor-is-ub-minus-lb", z3.ForAll([j], z3.Implies(z3.And(0 <= j, j < N2.ln(d.ni)), N2.el(d.nf, nij) == N2.el(d.ub, nij) - N2.el(d.lb, nij)))),
                ("scaled-on-normalized-components", z3.ForAll([j], z3.Implies(z3.And(0 <= j, j < N2.ln(d.ni)), relem(r, nij) == N2.el(g, nij) * N2.el(d.nf, nij)))),
                ("identity-elsewhere", z3.ForAll([i], z3.Implies(z3.And(0 <= i, i < d.dim, N2.not_normalized(d, i)), relem(r, i) == N2.el(g, i)))),
                ("fresh-result", z3.BoolVal(c.result.ref.id != c.old.g_vect.ref.id))]


@register
class UnnormalizeGrad(Contract):
    """unnormalize_grad is the inverse scaling g[i] / (ub[i] - lb[i]) on the normalised components with lb < ub (g[i] where lb = ub) and the identity elsewhere."""

    targets = (UG,)
    variant = "int"
    prop = ("C02",)
    self_schema = DS + "#num"
    numpy = "precise"
    params = {"g_vect": F1}
    returns = F1

    def requires(self, c):
        s = c.old.self
        d = N2.S(s)
        return N2.wfnum(s) + [("vector-length", N2.ln(c.old.g_vect) == d.dim), ("monotone-lemma", N2.increasing_implies_distinct(d))]

    def ensures(self, c):
        d = N2.S(c.old.self)
        g, r = c.old.g_vect, c.result
        j, i = z3.Int("j!ug"), z3.Int("i!ug")
        at = lambda a: N2.el(a, N2.el(d.ni, j))  # noqa: E731
        return [("length", N2.ln(r) == d.dim),
                ("scaled-on-normalized-components", z3.ForAll([j], z3.Implies(z3.And(0 <= j, j < N2.ln(d.ni)),
                                                                             N2.el(r, N2.el(d.ni, j)) == z3.If(at(d.ub) == at(d.lb), at(g), at(g) / (at(d.ub) - at(d.lb)))))),
                ("identity-elsewhere", z3.ForAll([i], z3.Implies(z3.And(0 <= i, i < d.dim, N2.not_normalized(d, i)), N2.el(r, i) == N2.el(g, i)))),
                ("fresh-result", z3.BoolVal(c.result.ref.id != c.old.g_vect.ref.id))]


# ---------------------------------------------------------------------------- from ANY well-formed state: the functions that refresh the cache themselves
PIB = DS + ".project_into_bounds"


def finite_bounds(d, i):
    return z3.And(z3.Not(is_ninf(N2.el(d.lb, i))), z3.Not(is_inf(N2.el(d.lb, i))), z3.Not(is_ninf(N2.el(d.ub, i))), z3.Not(is_inf(N2.el(d.ub, i))))


class _FromAnyState(Contract):
    """Common part: the design space is in ANY state satisfying the representation invariant (cached data computed or not); afterwards the cached data
    are valid and linked to the variables, and nothing but the cache changed."""

    prop = ("C02",)
    variant = "lnk"
    self_schema = DS + "#lnk"
    numpy = "precise"
    c02_lnk = True
    modifies = ("self",)
    callee_variants = {UNV: "lnk"}
    returns = F1

    def axioms(self, c):
        return derived_all(c.old.self)

    def cache_after(self, c):
        s0, s1 = c.old.self, c.new.self
        return wfnum(s1) + linked(s1) + kept(s0, s1, STRUCT_LNK)


@register
class ProjectIntoBounds(_FromAnyState):
    """Component-wise projection onto [lb, ub] (not normalised) or [0, 1] (normalised): a component inside its bounds is unchanged, a component below
    (above) becomes the lower (upper) bound; the argument is untouched."""

    targets = (PIB,)
    params = {"x_c": F1, "normalized": TBool}

    def requires(self, c):
        s = c.old.self
        return wf_lnk(s) + [("vector-length", N2.ln(c.old.x_c) == s.dimension)]

    def ensures(self, c):
        d = N2.S(c.new.self)
        x, r = c.old.x_c, c.result
        i = z3.Int("i!pib")
        nz = _b(c.old.normalized)
        lo = z3.If(nz, z3.RealVal(0), N2.el(d.lb, i))
        hi = z3.If(nz, z3.RealVal(1), N2.el(d.ub, i))
        rng = z3.And(0 <= i, i < d.dim)
        faithful = z3.Or(nz, finite_bounds(d, i))  # (the model compares real values: an infinite bound is only a tag)
        ri, xi = N2.el(r, i), N2.el(x, i)
        return self.cache_after(c) + [
            ("length", N2.ln(r) == d.dim),
            ("inside-is-unchanged", fa([i], z3.Implies(z3.And(rng, faithful, lo <= xi, xi <= hi), ri == xi), xi)),
            ("result-within-the-bounds", fa([i], z3.Implies(z3.And(rng, faithful, lo <= hi), z3.And(lo <= ri, ri <= hi)), xi)),
            ("below-becomes-the-lower-bound", fa([i], z3.Implies(z3.And(rng, faithful, lo <= hi, xi < lo), ri == lo), xi)),
            ("above-becomes-the-upper-bound", fa([i], z3.Implies(z3.And(rng, faithful, lo <= hi, xi > hi), ri == hi), xi)),
            ("fresh-result", z3.BoolVal(c.result.ref.id != c.old.x_c.ref.id)),
        ]


@register
class NormalizeVectFromAnyState(_FromAnyState):
    """normalize_vect from any well-formed state (it refreshes the cached data itself when needed): the formula of c02_normalization.NormalizeVect over
    cached data that are valid and linked to the variables."""

    targets = (NV,)
    params = {"x_vect": F1, "minus_lb": TBool}

    def requires(self, c):
        s = c.old.self
        return wf_lnk(s) + [("vector-length", N2.ln(c.old.x_vect) == s.dimension), ("out-is-none", c.arg("out") is None)]

    def ensures(self, c):
        d = N2.S(c.new.self)
        x, r = c.old.x_vect, c.result
        j, i = z3.Int("j!nv"), z3.Int("i!nv")
        mlb = _b(c.old.minus_lb)
        at = lambda a: N2.el(a, N2.el(d.ni, j))  # noqa: E731
        shift = z3.If(mlb, at(d.lb), z3.RealVal(0))
        return self.cache_after(c) + [
            ("length", N2.ln(r) == d.dim),
            ("normalized-components", z3.ForAll([j], z3.Implies(z3.And(0 <= j, j < N2.ln(d.ni)),
                                                               N2.el(r, N2.el(d.ni, j)) == z3.If(at(d.ub) == at(d.lb), at(x) - shift, (at(x) - shift) / (at(d.ub) - at(d.lb)))))),
            ("other-components-unchanged", z3.ForAll([i], z3.Implies(z3.And(0 <= i, i < d.dim, N2.not_normalized(d, i)), N2.el(r, i) == N2.el(x, i)))),
            ("fresh-result", z3.BoolVal(c.result.ref.id != c.old.x_vect.ref.id)),
        ]


@register
class MonotoneLemma(Contract):
    """Induction on the distance: a sequence that increases from each element to the next one (clause `norm-inds-increasing` of wfnum) increases between
    any two positions - the `monotone-lemma` precondition of the numerical contracts (c02_normalization.increasing_implies_distinct)."""

    targets = ()
    prop = ("C02",)
    lemma = True

    def lemmas(self):
        a = z3.Const("a", z3.ArraySort(z3.IntSort(), z3.IntSort()))
        m, dd, j = z3.Ints("m dd j")
        hyp = z3.ForAll([j], z3.Implies(z3.And(0 <= j, j < m - 1), a[j] < a[j + 1]), patterns=[a[j]])
        claim = lambda t: z3.ForAll([j], z3.Implies(z3.And(0 <= j, j + t < m), a[j] < a[j + t]), patterns=[a[j]])  # noqa: E731
        return [("base", z3.Implies(hyp, claim(z3.IntVal(1)))),
                ("step", z3.Implies(z3.And(hyp, dd >= 1, claim(dd)), claim(dd + 1)))]


@register
class OwnerLemmas(Contract):
    """Induction on the number of variables (base + step with explicit witnesses): with index ranges S(k)..E(k) that start at 0 and are adjacent, every
    position below E(m) lies in the range of one of the first m + 1 variables; c02_owner is a Skolem function of this existence statement
    (dimension = E(n - 1) by the `dimension` clause of the invariant)."""

    targets = ()
    prop = C02_C01
    lemma = True

    def lemmas(self):
        S, E = z3.Function("S", z3.IntSort(), z3.IntSort()), z3.Function("E", z3.IntSort(), z3.IntSort())  # noqa: N806
        n, m, k, i, b = z3.Ints("n m k i b")
        hyp = z3.And(z3.Implies(n > 0, S(0) == 0), z3.ForAll([k], z3.Implies(z3.And(0 <= k, k + 1 < n), S(k + 1) == E(k)), patterns=[S(k + 1)]))
        inside = lambda t, top: z3.And(0 <= t, t <= top, S(t) <= i, i < E(t))  # noqa: E731
        return [("base", z3.Implies(z3.And(hyp, n > 0, 0 <= i, i < E(0)), inside(z3.IntVal(0), z3.IntVal(0)))),
                # induction hypothesis: b is an owner among the first m + 1 variables when i < E(m); then b, or m + 1, is one among the first m + 2
                ("step", z3.Implies(z3.And(hyp, 0 <= m, m + 1 < n, 0 <= i, i < E(m + 1), z3.Implies(i < E(m), inside(b, m))),
                                    z3.Or(inside(b, m + 1), inside(m + 1, m + 1))))]


# ---------------------------------------------------------------------------- check_membership (array form, every variable)
CM = DS + ".check_membership"


def comp_bound(s, i, which):
    """The bound (per-variable view) of component i of the design vector."""
    v = D.V(s)
    o = owner(s, i)
    return F1.els(which(v.vals[v.keys[o]]))[i - D.start(rngk(s, o))]


def some_component_out_of_bounds(s, x):
    i = z3.Int("i!ob")
    tol = s._DesignSpace__bound_tol
    xi = N2.el(x, i)
    return z3.Exists([i], z3.And(0 <= i, i < s.dimension, z3.Or(xi < comp_bound(s, i, vlb) - tol, xi > comp_bound(s, i, vub) + tol)))


@register
class CheckMembershipOfAnArray(Contract):
    """check_membership(array) decides against the CURRENT bounds of the variables, whatever the history of edits and queries: ValueError iff the size is
    not the dimension or some component is below its variable's lower bound - tolerance or above its upper bound + tolerance (comparisons of the
    stored real values: the model sees an infinite bound only as a tag)."""

    targets = (CM,)
    variant = "lnk"
    prop = ("C02",)
    self_schema = DS + "#lnk"
    numpy = "precise"
    c02_lnk = True
    params = {"x_vect": F1}
    modifies = ("self",)
    callee_variants = {GLB: "lnk", GUB: "lnk"}

    @property
    def raises(self):
        return {"ValueError": lambda c: z3.Or(N2.ln(c.old.x_vect) != c.old.self.dimension, some_component_out_of_bounds(c.old.self, c.old.x_vect))}

    def requires(self, c):
        return wf_lnk(c.old.self) + [("every-variable", z3.BoolVal(c.arg("variable_names") is None))]

    def axioms(self, c):
        return derived_all(c.old.self)

    def ensures(self, c):
        s0, s1 = c.old.self, c.new.self
        return kept(s0, s1, STRUCT_LNK + ("_DesignSpace__norm_data_is_computed",)) + [(f"cache-invariant:{l}", f) for l, f in cache_invariant(s1)]


# ---------------------------------------------------------------------------- __check_membership (dictionary form, every variable)
from pyvc.values import TNone, TOpt  # noqa: E402

CMD, ISI = DS + ".__check_membership", DS + ".__is_integer"
OVALS = TDict(TStr, TOpt(F1))
OF1 = TOpt(F1)
integral = z3.Function("c02_is_integer_value", z3.RealSort(), z3.BoolSort())


@register
class IsIntegerScalar(Contract):
    targets = (ISI,)
    variant = "scalar"
    prop = ("C02",)
    numpy = "precise"
    self_class = DS
    params = {"values": TReal}
    returns = TBool
    trusted = True
    description = ("assumed: __is_integer(x) of a real scalar is a deterministic predicate of x (integer-valued or infinite; numpy.mod / isinf on a scalar), "
                   "truth of the one-element array it returns; nothing is modified")

    def ensures(self, c):
        return [("predicate", c.result == integral(c.old.values))]


def payload(xd, name):
    return OF1.dt.get(xd.vals[name])


def comp_ok(s, xd, name, t):
    """Component t of the value of `name` is within the bounds (up to the tolerance) and integer-valued for an integer variable."""
    var = D.V(s).vals[name]
    x = F1.els(payload(xd, name))[t]
    tol = s._DesignSpace__bound_tol
    return z3.And(z3.Not(x < F1.els(vlb(var))[t] - tol), z3.Not(F1.els(vub(var))[t] + tol < x), z3.Implies(vtype(var) == INTEGER, integral(x)))


def value_ok(s, xd, name):
    """A None value is skipped; another one has the size of its variable and all its components are fine."""
    var = D.V(s).vals[name]
    t = z3.Int("t!vo")
    val = payload(xd, name)
    return z3.Or(OF1.is_none(xd.vals[name]),
                 z3.And(F1.dim(val) == vsize(var), z3.ForAll([t], z3.Implies(z3.And(0 <= t, t < vsize(var)), comp_ok(s, xd, name, t)), patterns=[F1.els(val)[t]])))


def first_values_ok(s, xd, k):
    v = D.V(s)
    p = z3.Int("p!fv")
    return z3.ForAll([p], z3.Implies(z3.And(0 <= p, p < k), z3.And(xd.has(v.keys[p]), value_ok(s, xd, v.keys[p]))), patterns=[v.keys[p]])


def some_value_not_ok(s, xd):
    v = D.V(s)
    p = z3.Int("p!sn")
    return z3.Exists([p], z3.And(0 <= p, p < v.n, xd.has(v.keys[p]), z3.Not(value_ok(s, xd, v.keys[p]))))


def _cmd_outer(c, k):
    return [("the-first-k-variables-are-fine", first_values_ok(c.old.self, c.old.x_dict, k))]


def _cmd_inner(c, i):
    s, xd = c.old.self, c.old.x_dict
    nm = c.locals["name"]
    t = z3.Int("t!ci")
    val = payload(xd, nm)
    return [("the-first-i-components-are-fine", z3.ForAll([t], z3.Implies(z3.And(0 <= t, t < i), comp_ok(s, xd, nm, t)), patterns=[F1.els(val)[t]]))]


@register
class CheckMembershipOfADict(Contract):
    """__check_membership(x_dict, None): EVERY variable is checked, in the variable order, a None value being skipped: ValueError iff some variable has a
    value of the wrong size, or with a component outside its bounds (up to the tolerance), or a non-integer component for an integer variable;
    KeyError only when some variable is no key of x_dict; nothing is modified."""

    targets = (CMD,)
    variant = "lnk"
    prop = ("C02",)
    self_schema = DS + "#lnk"
    numpy = "precise"
    c02_lnk = True
    params = {"x_dict": OVALS, "variable_names": TNone}
    callee_variants = {ISI: "scalar"}
    loops = {0: LoopSpec(anchor="variable_names", inv=_cmd_outer, local_types={"name": TStr, "variable": VARA, "value": OF1}),
             1: LoopSpec(anchor="range(variable.size)", inv=_cmd_inner, local_types={"i": TInt, "x_real": TReal, "lower_bound": TReal, "upper_bound": TReal})}

    @property
    def raises(self):
        def missing(c):
            v, xd = D.V(c.old.self), c.old.x_dict
            p = z3.Int("p!ms")
            return z3.Exists([p], z3.And(0 <= p, p < v.n, z3.Not(xd.has(v.keys[p]))))

        return {"ValueError": lambda c: some_value_not_ok(c.old.self, c.old.x_dict), "KeyError": missing}

    def requires(self, c):
        s = c.old.self
        return wf_structure(s) + wf_variables(s)

    def axioms(self, c):
        return D.derived_wf(c.old.self)


# ---------------------------------------------------------------------------- filter_dimensions at the link level
from pyvc.values import TList as _TList, TNd  # noqa: E402,F401

FD, SCV, GCV, UCM = DS + ".filter_dimensions", DS + ".set_current_variable", DS + ".get_current_value", DS + ".__update_current_metadata"
_RESTATED = ("restated for the link-level schema: the same function is VERIFIED against the same clauses under the structural schema in "
             "contracts/c02_design_space.py ({}); current values are opaque at both levels")
ALL_LNK = STRUCT_LNK + CACHE_LNK


@register
class SetCurrentVariableLnk(Contract):
    targets = (SCV,)
    variant = "lnk"
    prop = ("C02",)
    self_schema = DS + "#lnk"
    params = {"name": TStr, "current_value": TNd}
    modifies = ("self",)
    raises = {"ValueError": lambda c: z3.Not(D.V(c.old.self).has(c.old.name))}
    trusted = True
    description = "assumed, " + _RESTATED.format("SetCurrentVariable")

    def ensures(self, c):
        s0, s1 = c.old.self, c.new.self
        cv0, cv1 = D.CV(s0), D.CV(s1)
        k = z3.Const("k!scv", TStr.sort())
        nm = c.old.name
        return [("value-set", z3.And(cv1.has(nm), cv1.vals[nm] == D.CUR.v.dt.some(c.old.current_value))),
                ("others-kept", z3.ForAll([k], z3.Implies(k != nm, z3.And(cv1.has(k) == cv0.has(k), z3.Implies(cv0.has(k), cv1.vals[k] == cv0.vals[k]))))),
                wf_structure(s1)[-1]] + kept(s0, s1, [f for f in ALL_LNK if f not in ("_DesignSpace__current_value", "_DesignSpace__has_current_value")])


@register
class GetCurrentValueLnk(Contract):
    targets = (GCV,)
    variant = "lnk"
    prop = ("C02",)
    self_schema = DS + "#lnk"
    params = {"variable_names": TList(TStr)}
    returns = TNd
    raises_exact = False
    trusted = True
    description = "assumed (as GetCurrentValue in c02_design_space.py): get_current_value returns an opaque array and changes nothing of the link-level state"

    @property
    def raises(self):
        def some_name_without_value(c):
            i = z3.Int("i!gcv")
            L, cv = c.old.variable_names, D.CV(c.old.self)  # noqa: N806
            return z3.Exists([i], z3.And(0 <= i, i < L.n, z3.Not(cv.has(L.elems[i]))))

        return {"ValueError": None, "KeyError": some_name_without_value}


@register
class UpdateCurrentMetadataLnk(Contract):
    targets = (UCM,)
    variant = "lnk"
    prop = ("C02",)
    self_schema = DS + "#lnk"
    modifies = ("self",)
    trusted = True
    description = "assumed, " + _RESTATED.format("UpdateCurrentMetadata / UpdateCurrentStatus / ClearDependentData")

    def ensures(self, c):
        return kept(c.old.self, c.new.self, [f for f in ALL_LNK if f != "_DesignSpace__has_current_value"])


@register
class FilterDimensionsLnk(Contract):
    """Link level of filter_dimensions: the bounds AND the normalisation policy of `name` keep exactly the listed components (in the listed order), so
    that every policy still has one entry per component of its variable; the other variables and policies are untouched, the cached data are dropped."""

    targets = (FD,)
    variant = "lnk"
    prop = ("C02",)
    self_schema = DS + "#lnk"
    numpy = "precise"
    c02_lnk = True
    variable_record = VARA
    params = {"name": TStr, "dimensions": TList(TInt)}
    modifies = ("self",)
    raises = {"ValueError": None, "IndexError": None}
    raises_exact = False
    callee_variants = {SCV: "lnk", GCV: "lnk", UCM: "lnk"}
    loops = {0: LoopSpec(anchor="self.__names_to_indices.items()", modifies=("self._DesignSpace__names_to_indices#vals",), inv=D._filter_inv,
                         local_types={"_name": TStr, "indices": D.TRange})}

    def requires(self, c):
        s = c.old.self
        return wf_structure(s) + wf_variables(s) + wf_policies(s)

    def axioms(self, c):
        return D.derived_wf(c.old.self)

    def ensures(self, c):
        s0, s1 = c.old.self, c.new.self
        nm, dims = c.old.name, c.old.dimensions
        v0, v1, n0, n1 = D.V(s0), D.V(s1), D.N(s0), D.N(s1)
        k = z3.Const("k!fdl", TStr.sort())
        t = z3.Int("t!fdl")
        var0, var1 = v0.vals[nm], v1.vals[nm]
        sz0 = vsize(var0)
        src = z3.If(dims.elems[t] < 0, dims.elems[t] + sz0, dims.elems[t])  # (numpy semantics of a negative index)
        rng = z3.And(0 <= t, t < dims.n)
        return wf_structure(s1) + wf_variables(s1) + wf_policies(s1) + [
            ("known-variable", v0.has(nm)),
            ("variables-order", D.same_key_order(v1, v0)),
            ("other-variables-kept", z3.ForAll([k], z3.And(v1.has(k) == v0.has(k), z3.Implies(z3.And(v0.has(k), k != nm), v1.vals[k] == v0.vals[k])))),
            ("other-policies-kept", z3.ForAll([k], z3.And(n1.has(k) == n0.has(k), z3.Implies(z3.And(n0.has(k), k != nm), n1.vals[k] == n0.vals[k])))),
            ("new-size-and-type", z3.And(vsize(var1) == dims.n, vtype(var1) == vtype(var0))),
            ("policy-has-the-new-size", B1.dim(n1.vals[nm]) == dims.n),
            ("lower-bound-filtered", z3.ForAll([t], z3.Implies(rng, F1.els(vlb(var1))[t] == F1.els(vlb(var0))[src]))),
            ("upper-bound-filtered", z3.ForAll([t], z3.Implies(rng, F1.els(vub(var1))[t] == F1.els(vub(var0))[src]))),
            ("policy-filtered", z3.ForAll([t], z3.Implies(rng, B1.els(n1.vals[nm])[t] == B1.els(n0.vals[nm])[src]))),
            ("dimension", s1.dimension == s0.dimension - (sz0 - dims.n)),
            ("norm-data-dropped", z3.Not(s1._DesignSpace__norm_data_is_computed)),
        ]


# ---------------------------------------------------------------------------- transform_vect / untransform_vect: delegation
TV, UTV = DS + ".transform_vect", DS + ".untransform_vect"


class _Delegate(Contract):
    prop = ("C02",)
    variant = "int"
    self_schema = DS + "#num"
    numpy = "precise"
    returns = F1

    def requires(self, c):
        s = c.old.self
        d = N2.S(s)
        return N2.wfnum(s) + [("vector-length", N2.ln(c.old.vector) == d.dim), ("monotone-lemma", N2.increasing_implies_distinct(d)), ("out-is-none", c.arg("out") is None)]


@register
class TransformVect(_Delegate):
    """transform_vect(x) = normalize_vect(x) (lower bound removed): the clauses of c02_normalization.NormalizeVect with minus_lb = True."""

    targets = (TV,)
    params = {"vector": F1}

    def ensures(self, c):
        d = N2.S(c.old.self)
        x, r = c.old.vector, c.result
        j, i = z3.Int("j!tv"), z3.Int("i!tv")
        at = lambda a: N2.el(a, N2.el(d.ni, j))  # noqa: E731
        return [("length", N2.ln(r) == d.dim),
                ("normalized-components", z3.ForAll([j], z3.Implies(z3.And(0 <= j, j < N2.ln(d.ni)),
                                                                   N2.el(r, N2.el(d.ni, j)) == z3.If(at(d.ub) == at(d.lb), at(x) - at(d.lb), (at(x) - at(d.lb)) / (at(d.ub) - at(d.lb)))))),
                ("other-components-unchanged", z3.ForAll([i], z3.Implies(z3.And(0 <= i, i < d.dim, N2.not_normalized(d, i)), N2.el(r, i) == N2.el(x, i))))]


@register
class UntransformVect(_Delegate):
    """untransform_vect(u) = unnormalize_vect(u) for points: the clauses of UnnormalizeVectWithIntegers with minus_lb = True (rounding of integer components)."""

    targets = (UTV,)
    params = {"vector": F1, "no_check": TBool}
    callee_variants = {UV: "int"}

    def axioms(self, c):
        t = z3.Real("t!ra")
        return [("numpy.round-is-integer-valued", z3.ForAll([t], z3.IsInt(np_round(t)), patterns=[np_round(t)]))]

    def ensures(self, c):
        d = N2.S(c.old.self)
        x, r = c.old.vector, c.result
        j, i = z3.Int("j!utv"), z3.Int("i!utv")
        nij = N2.el(d.ni, j)
        affine = N2.el(x, nij) * N2.el(d.nf, nij) + N2.el(d.lb, nij)
        return [("length", N2.ln(r) == d.dim),
                ("normalized-components", z3.ForAll([j], z3.Implies(z3.And(0 <= j, j < N2.ln(d.ni)), relem(r, nij) == rounded_if_integer(d, nij, affine)))),
                ("other-components", z3.ForAll([i], z3.Implies(z3.And(0 <= i, i < d.dim, N2.not_normalized(d, i)), relem(r, i) == rounded_if_integer(d, i, N2.el(x, i)))))]
