"""C11 - a database exported to an HDF node (at once or incrementally) reloads to the same content.

The h5py objects are the ABSTRACT node of ``pyvc/plug_hdf.py`` (assumed contracts A1..A15, validated against the real h5py by
``tools/validate_h5py_model.py``).  Abstract node content ``F`` (see the plugin):

  X : name -> array content            K : name -> sequence of names
  VD: name -> sequence of scalars      VA: name -> (name -> array content)        (+ specification ghosts POS, SC)

Naming: ``sidx(i) = str(i)``, ``aname(i) = "arr_" + str(i)``.

Decoded view of point ``i`` of a node (what the property calls "the exported content"):
  nn(i)        number of names listed in k/<i>;  name(i, j) the j-th one
  isarr(i, j)  v/arr_<i>/<j> exists;  SC[i][j] = "the j-th name is a scalar" (ghost, = not isarr(i, j))
  fhas(i, nm)  nm is listed in k/<i> (at position POS[i][nm], ghost inverse of the listing)
  fval(i, nm)  v/arr_<i>/<j> if isarr(i, j) else v/<i>[rank(SC[i], j)]  with j = POS[i][nm]
where rank(P, j) = number of positions j' < j with P[j'] ("the scalars dataset holds, IN ORDER, the values of the non-array
names"): a recursive specification function with induction lemmas (``RankLemmas``).

STATUS OF THIS BUILD.  Verified against the real source: add_pending_array, the five primitive writers,
__add_hdf_output_dataset (two calling conventions), __get_missing_hdf_output_dataset, __create_hdf_input_output,
__append_hdf_output, and the induction lemmas on ``rank`` / filtered sub-sequences (``RankLemmas``).
The per-point FILE INVARIANT is ``pt_wf`` / ``pt_is`` below (for every exported index i: x/<i> is the i-th key; k/<i> lists the
exported names; v/<i> holds in order the scalars; v/arr_<i>/<j> the array of the j-th name) and the READER view is
``Node.fhas`` / ``Node.fval``; ``to_file`` and ``update_from_file`` are NOT yet verified against them (no contract is registered for
them: nothing is assumed about them either) - they are covered by the bounded run-time stand-in ``contracts/rt_c11.py`` only.
"""
from __future__ import annotations

import z3

from pyvc import contract as C
from pyvc import plug_hdf as H
from pyvc.contract import Contract, LoopSpec, register, schema
from pyvc.plug_hdf import AG, GROUP, KG, NAMES, POS_SORT, SC_SORT, SCAL, VA, VD, XG, aname, is_arr, sidx
from pyvc.values import StrS, TBool, TDict, TInt, TList, TNd, TNone, TObj, TStr, TTuple, TVal, ValS

from contracts.c01_c03_evaluation import A, DATA, HNd, OUTS, data_after_store, db_wf, key_of, o_member, o_n, o_vals

HDF = A + "_hdf_database.HDFDatabase"
DB = A + "database.Database"
PENDING = TDict(TInt, HNd, ordered=True)
schema(HDF + "#c11", {"_HDFDatabase__pending_arrays": PENDING})
schema(GROUP + "#x", {"ds": XG})
schema(GROUP + "#k", {"ds": KG})
schema(GROUP + "#v", {"ds": VD, "groups": VA})
GX, GK, GV = (TObj(GROUP, schema_key=f"{GROUP}#{k}") for k in "xkv")
IDXMAP = TDict(TStr, TInt, ordered=True)

# ---------------------------------------------------------------------------- rank (recursive specification function)
PRED = z3.ArraySort(z3.IntSort(), z3.BoolSort())
rank = z3.Function("h5_rank", PRED, z3.IntSort(), z3.IntSort())  # rank(P, j) = #{j' in [0, j): P[j']}


def rank_def():
    P, j, b = z3.Const("P!rk", PRED), z3.Int("j!rk"), z3.Int("b!rk")
    # (the step is triggered by the PAIR of terms rank(P, j), rank(P, b) with b = j + 1: no arithmetic inside the trigger, no matching loop;
    #  a proof has to name both terms)
    return [("rank-zero", z3.ForAll([P], rank(P, 0) == 0, patterns=[rank(P, 0)])),
            ("rank-step", z3.ForAll([P, j, b], z3.Implies(z3.And(j >= 0, b == j + 1), rank(P, b) == rank(P, j) + z3.If(P[j], 1, 0)),
                                    patterns=[z3.MultiPattern(rank(P, j), rank(P, b))]))]


def rank_monotone(P=None, top=None):
    """0 <= rank(P, a) <= rank(P, b) <= rank(P,a) + (b - a) for 0 <= a <= b (<= top)."""
    a, b = z3.Int("a!rm"), z3.Int("b!rm")
    vs = [a, b]
    if P is None:
        P = z3.Const("P!rm", PRED)
        vs = [P, a, b]
    rng = z3.And(0 <= a, a <= b) if top is None else z3.And(0 <= a, a <= b, b <= top)
    return z3.ForAll(vs, z3.Implies(rng, z3.And(0 <= rank(P, a), rank(P, a) <= rank(P, b), rank(P, b) <= rank(P, a) + (b - a))),
                     patterns=[z3.MultiPattern(rank(P, a), rank(P, b))])


def rank_congruence(P=None, Q=None, top=None):
    """Predicates that agree on [0, m) have the same rank at m."""
    m, j = z3.Int("m!rc"), z3.Int("j!rc")
    vs = [m]
    if P is None:
        P, Q = z3.Const("P!rc", PRED), z3.Const("Q!rc", PRED)
        vs = [P, Q, m]
    rng = 0 <= m if top is None else z3.And(0 <= m, m <= top)
    return z3.ForAll(vs, z3.Implies(z3.And(rng, z3.ForAll([j], z3.Implies(z3.And(0 <= j, j < m), P[j] == Q[j]))), rank(P, m) == rank(Q, m)),
                     patterns=[z3.MultiPattern(rank(P, m), rank(Q, m))])


def rank_axioms():
    """Definition + the two consequences proved by induction in RankLemmas."""
    return rank_def() + [("rank-monotone(lemma)", rank_monotone()), ("rank-congruence(lemma)", rank_congruence())]


@register
class RankLemmas(Contract):
    """Induction (base + step) for the consequences of the recursive definition of ``rank`` used as axioms, and for the
    characterisation of a filtered sub-sequence used by the plugin (``filtered_sequence`` hook): the position of a kept element
    in the filtered sequence is the rank of its source index."""

    targets = ()
    prop = ("C11",)
    lemma = True

    def lemmas(self):
        P, Q = z3.Const("P", PRED), z3.Const("Q", PRED)
        t, n, N = z3.Ints("t n N")
        defs = z3.And(*[f for _, f in rank_def()])
        i, j = z3.Int("i!fl"), z3.Int("j!fl")
        src, dst = z3.Const("src", z3.ArraySort(z3.IntSort(), z3.IntSort())), z3.Const("dst", z3.ArraySort(z3.IntSort(), z3.IntSort()))
        # the model of `(e for e in seq if cond)` (pyvc/models.py:_filtered_sequence), cond(i) = P[i], seq.n = N, result length n
        model = z3.And(
            0 <= n, n <= N,
            z3.ForAll([j], z3.Implies(z3.And(0 <= j, j < n), z3.And(0 <= src[j], src[j] < N, P[src[j]], dst[src[j]] == j))),
            z3.ForAll([i], z3.Implies(z3.And(0 <= i, i < N, P[i]), z3.And(0 <= dst[i], dst[i] < n, src[dst[i]] == i))),
            z3.ForAll([i, j], z3.Implies(z3.And(0 <= i, i < j, j < n), src[i] < src[j])))
        # Q(t): exactly the first rank(P, t) elements of the filtered sequence come from source indices < t
        cut = lambda t_: z3.ForAll([j], z3.Implies(z3.And(0 <= j, j < n), (src[j] < t_) == (j < rank(P, t_))))  # noqa: E731
        return [
            ("monotone:base", z3.Implies(defs, rank_monotone(P, z3.IntVal(0)))),
            ("monotone:step", z3.Implies(z3.And(defs, t >= 0, rank_monotone(P, t)), rank_monotone(P, t + 1))),
            ("congruence:base", z3.Implies(defs, rank_congruence(P, Q, z3.IntVal(0)))),
            ("congruence:step", z3.Implies(z3.And(defs, t >= 0, rank_congruence(P, Q, t)), rank_congruence(P, Q, t + 1))),
            ("filtered:base", z3.Implies(z3.And(defs, model), cut(z3.IntVal(0)))),
            # step, case "t is dropped": no element of the filtered sequence comes from t
            ("filtered:step(dropped)", z3.Implies(z3.And(defs, model, 0 <= t, t < N, cut(t), z3.Not(P[t]), rank(P, t + 1) == rank(P, t)), cut(t + 1))),
            # step, case "t is kept": its position d = dst[t] is exactly rank(P, t) (not below by cut(t); not above by monotonicity of src at rank(P, t) < d)
            ("filtered:step(kept):position", z3.Implies(z3.And(defs, model, 0 <= t, t < N, cut(t), P[t], rank(P, t) >= 0,
                                                               z3.Implies(rank(P, t) < dst[t], src[rank(P, t)] < src[dst[t]])), dst[t] == rank(P, t))),
            ("filtered:step(kept)", z3.Implies(z3.And(defs, model, 0 <= t, t < N, cut(t), P[t], dst[t] == rank(P, t), rank(P, t + 1) == rank(P, t) + 1), cut(t + 1))),
            ("filtered:position-is-rank", z3.Implies(z3.And(defs, model, 0 <= t, t < N, P[t], cut(t), cut(t + 1)), dst[t] == rank(P, t))),
        ]


# ---------------------------------------------------------------------------- the abstract node as seen by specifications
def _acc(T, i):
    return T.acc(i)


class Node:
    """Specification view of a node: membership/value arrays of the four maps + the ghosts POS, SC."""

    def __init__(self, Xm, Xv, Xn, Km, Kv, VDm, VDv, VAm, VAv, POS, SC):
        self.Xm, self.Xv, self.Xn, self.Km, self.Kv, self.VDm, self.VDv, self.VAm, self.VAv, self.POS, self.SC = Xm, Xv, Xn, Km, Kv, VDm, VDv, VAm, VAv, POS, SC

    # ---- constructors
    @staticmethod
    def of_ghost(c, which="old"):
        g = c.old_ghost if which == "old" else c.new_ghost
        x, k, vd, va = g("h5_x", XG.sort()), g("h5_k", KG.sort()), g("h5_vd", VD.sort()), g("h5_va", VA.sort())
        return Node(XG.acc(0)(x), XG.acc(1)(x), XG.acc(2)(x), KG.acc(0)(k), KG.acc(1)(k), VD.acc(0)(vd), VD.acc(1)(vd), VA.acc(0)(va), VA.acc(1)(va),
                    g("h5_pos", POS_SORT), g("h5_sc", SC_SORT))

    @staticmethod
    def of_groups(c, which="old", x=None, k=None, v=None):
        """From group objects (views); a group that is not given is a fresh unconstrained map (never read by the caller)."""
        g = c.old_ghost if which == "old" else c.new_ghost
        dummy = lambda T, n: (z3.Const(f"unused_{n}_m", z3.ArraySort(StrS, z3.BoolSort())), z3.Const(f"unused_{n}_v", z3.ArraySort(StrS, T.v.sort())))  # noqa: E731
        Xm, Xv = (x.ds.member, x.ds.vals) if x is not None else dummy(XG, "x")
        Xn = x.ds.n if x is not None else z3.Int("unused_x_n")
        Km, Kv = (k.ds.member, k.ds.vals) if k is not None else dummy(KG, "k")
        VDm, VDv = (v.ds.member, v.ds.vals) if v is not None else dummy(VD, "vd")
        VAm, VAv = (v.groups.member, v.groups.vals) if v is not None else dummy(VA, "va")
        return Node(Xm, Xv, Xn, Km, Kv, VDm, VDv, VAm, VAv, g("h5_pos", POS_SORT), g("h5_sc", SC_SORT))

    # ---- decoded content of point i
    def exported(self, i):
        return self.Xm[sidx(i)]

    def xval(self, i):
        return self.Xv[sidx(i)]

    def nn(self, i):
        return NAMES.dt.accessor(0, 0)(self.Kv[sidx(i)])

    def name(self, i, j):
        return NAMES.dt.accessor(0, 1)(self.Kv[sidx(i)])[j]

    def has_agrp(self, i):
        return self.VAm[aname(i)]

    def amem(self, i):
        return AG.acc(0)(self.VAv[aname(i)])

    def avals(self, i):
        return AG.acc(1)(self.VAv[aname(i)])

    def isarr(self, i, j):
        return z3.And(self.has_agrp(i), self.amem(i)[sidx(j)])

    def arrval(self, i, j):
        return self.avals(i)[sidx(j)]

    def has_scal(self, i):
        return self.VDm[sidx(i)]

    def scal_n(self, i):
        return SCAL.dt.accessor(0, 0)(self.VDv[sidx(i)])

    def scal(self, i, r):
        return SCAL.dt.accessor(0, 1)(self.VDv[sidx(i)])[r]

    def pos(self, i, nm):
        return self.POS[i][nm]

    def sc(self, i, j):
        return self.SC[i][j]

    def fhas(self, i, nm):
        p = self.pos(i, nm)
        return z3.And(0 <= p, p < self.nn(i), self.name(i, p) == nm)

    def fval(self, i, nm):
        p = self.pos(i, nm)
        return z3.If(self.isarr(i, p), self.arrval(i, p), self.scal(i, rank(self.SC[i], p)))


def pt_wf(F: Node, i):
    """Well-formedness of the record of point i (node only; what the reader relies on)."""
    j, s = z3.Int("j!pw"), z3.Const("s!pw", StrS)
    nn = F.nn(i)
    inr = z3.And(0 <= j, j < nn)
    return [
        ("names-dataset", z3.And(F.Km[sidx(i)], nn >= 0)),
        ("names-distinct(POS)", z3.ForAll([j], z3.Implies(inr, F.pos(i, F.name(i, j)) == j), patterns=[F.name(i, j)])),
        ("array-datasets-are-positions", z3.ForAll([s], z3.Implies(z3.And(F.has_agrp(i), F.amem(i)[s]),
                                                                   z3.And(s == sidx(H.int_of_str(s)), 0 <= H.int_of_str(s), H.int_of_str(s) < nn)), patterns=[F.amem(i)[s]])),
        ("scalar-flags(SC)", z3.ForAll([j], z3.Implies(inr, F.sc(i, j) == z3.Not(F.isarr(i, j))), patterns=[F.sc(i, j)])),
        ("scalars-length", z3.If(F.has_scal(i), F.scal_n(i) == rank(F.SC[i], nn), rank(F.SC[i], nn) == 0)),
    ]


def pt_is(F: Node, i, M, Vv):
    """Point i of the node encodes exactly the names M with the values Vv (arrays as arrays, scalars as scalars)."""
    nm = z3.Const("nm!pi", StrS)
    return pt_wf(F, i) + [
        ("names", z3.ForAll([nm], F.fhas(i, nm) == M[nm])),
        ("values", z3.ForAll([nm], z3.Implies(M[nm], z3.And(F.fval(i, nm) == Vv[nm], F.isarr(i, F.pos(i, nm)) == is_arr(Vv[nm]))))),
    ]


def axioms_naming():
    return [(f"A13:{k}", f) for k, f in enumerate(H.naming_axioms())]


def axioms_common():
    return axioms_naming() + rank_axioms()


# ---------------------------------------------------------------------------- add_pending_array
def hash_collision_free():
    a, b = z3.Const("a!hc", ValS), z3.Const("b!hc", ValS)
    return z3.ForAll([a, b], z3.Implies(H.hnd_hash(a) == H.hnd_hash(b), a == b), patterns=[z3.MultiPattern(H.hnd_hash(a), H.hnd_hash(b))])


def wa(p):
    return HNd.accessor("wrapped_array")(p)


def pending_wf(P):
    """Every pending array is filed under its own hash."""
    h = z3.Int("h!pw")
    return z3.ForAll([h], z3.Implies(P.has(h), H.hnd_hash(wa(P.get(h))) == h), patterns=[P.member[h]])


@register
class AddPendingArray(Contract):
    """The array is recorded for the next export and every array recorded before stays recorded.

    ASSUMPTION (explicit, an ``axioms`` entry listed in the evidence): the buffer is keyed by ``hash(array)``, so the clause
    'recorded before => still recorded' needs the hash to be collision free on the arrays of one history; with a collision
    the earlier array is silently replaced (a counter-model exists, it cannot be replayed with a 64-bit hash)."""

    targets = (HDF + ".add_pending_array",)
    variant = "c11"
    prop = ("C11",)
    self_schema = HDF + "#c11"
    params = {"data": HNd}
    modifies = ("self",)

    def axioms(self, c):
        return [("ASSUMED:hash-of-arrays-is-collision-free", hash_collision_free())]

    def requires(self, c):
        return [("pending-wf", pending_wf(c.old.self._HDFDatabase__pending_arrays))]

    def ensures(self, c):
        P0, P1 = c.old.self._HDFDatabase__pending_arrays, c.new.self._HDFDatabase__pending_arrays
        h = z3.Int("h!ap")
        d = c.old.data.term
        hd = H.hnd_hash(wa(d))
        return [
            ("recorded", z3.And(P1.has(hd), P1.get(hd) == d)),
            ("keys", z3.ForAll([h], P1.has(h) == z3.Or(P0.has(h), h == hd))),
            ("earlier-arrays-kept", z3.ForAll([h], z3.Implies(P0.has(h), P1.get(h) == P0.get(h)))),
            ("pending-wf", pending_wf(P1)),
        ]


# ---------------------------------------------------------------------------- the five primitive writers
class _Hdf(Contract):
    prop = ("C11",)
    self_schema = HDF + "#c11"

    def axioms(self, c):
        # (A13; the injectivity of str(int) needs an infinite model of the string sort: the vacuity canaries answer `unknown`
        #  only after their time limit, which costs wall time but no verdict)
        return axioms_naming()


@register
class AddHdfInputDataset(_Hdf):
    """x/<i> is created with the content of the input array; ValueError iff it exists; every other member of x unchanged."""

    targets = (HDF + ".__add_hdf_input_dataset",)
    params = {"index_dataset": TInt, "design_vars_group": GX, "design_vars_values": HNd}
    modifies = ("design_vars_group",)
    raises = {"ValueError": lambda c: c.old.design_vars_group.ds.has(sidx(c.old.index_dataset))}

    def ensures(self, c):
        X0, X1 = c.old.design_vars_group.ds, c.new.design_vars_group.ds
        s = z3.Const("s!ai", StrS)
        me = sidx(c.old.index_dataset)
        return [("created", z3.And(X1.has(me), X1.get(me) == c.old.design_vars_values.wrapped_array)),
                ("members", z3.ForAll([s], X1.has(s) == z3.Or(X0.has(s), s == me))),
                ("others-unchanged", z3.ForAll([s], z3.Implies(s != me, X1.get(s) == X0.get(s)))),
                ("size", X1.n == X0.n + 1)]


def sub_groups_named_arr(G):
    s = z3.Const("s!sg", StrS)
    return z3.ForAll([s], z3.Implies(G.has(s), H.is_arr_name(s)), patterns=[G.member[s]])


def datasets_named_decimal(Dm):
    s = z3.Const("s!dd", StrS)
    return z3.ForAll([s], z3.Implies(Dm.has(s), z3.Not(H.is_arr_name(s))), patterns=[Dm.member[s]])


def seq_n(T, term):
    return T.dt.accessor(0, 0)(term)


def seq_el(T, term):
    return T.dt.accessor(0, 1)(term)


def appended(T, D0, D1, me, bn, bel, label=""):
    """Dataset ``me`` of the map D = its old content (empty if absent) followed by the block; other members unchanged."""
    s, r = z3.Const("s!app", StrS), z3.Int("r!app")
    n0 = z3.If(D0.has(me), seq_n(T, D0.get(me)), 0)
    new, old = D1.get(me), D0.get(me)
    return [
        (label + "exists", D1.has(me)),
        (label + "length", seq_n(T, new) == n0 + bn),
        (label + "old-elements-kept", z3.ForAll([r], z3.Implies(z3.And(0 <= r, r < n0), seq_el(T, new)[r] == seq_el(T, old)[r]))),
        (label + "block-appended", z3.ForAll([r], z3.Implies(z3.And(n0 <= r, r < n0 + bn), seq_el(T, new)[r] == bel[r - n0]))),
        (label + "members", z3.ForAll([s], D1.has(s) == z3.Or(D0.has(s), s == me))),
        (label + "others-unchanged", z3.ForAll([s], z3.Implies(s != me, D1.get(s) == D0.get(s)))),
    ]


@register
class AddHdfNameOutput(_Hdf):
    """k/<i> = its previous names (none if absent) followed by ``keys``; nothing else changes."""

    targets = (HDF + ".__add_hdf_name_output",)
    params = {"index_dataset": TInt, "keys_group": GK, "keys": TList(TStr)}
    modifies = ("keys_group",)

    def ensures(self, c):
        return appended(NAMES, c.old.keys_group.ds, c.new.keys_group.ds, sidx(c.old.index_dataset), c.old.keys.n, c.old.keys.elems)


@register
class AddHdfScalarOutput(_Hdf):
    """v/<i> = its previous scalars followed by ``values``; the previous length is returned; sub-groups untouched."""

    targets = (HDF + ".__add_hdf_scalar_output",)
    params = {"index_dataset": TInt, "values_group": GV, "values": TList(TVal)}
    returns = TInt
    modifies = ("values_group",)

    def requires(self, c):
        # call sites: the sub-groups of v are only created by __add_hdf_vector_output under the names "arr_<i>"
        return [("sub-group-names-are-arr-names", sub_groups_named_arr(c.old.values_group.groups))]

    def ensures(self, c):
        V0, V1 = c.old.values_group, c.new.values_group
        me = sidx(c.old.index_dataset)
        s = z3.Const("s!as", StrS)
        return appended(SCAL, V0.ds, V1.ds, me, c.old.values.n, c.old.values.elems) + [
            ("returns-previous-length", c.result == z3.If(V0.ds.has(me), seq_n(SCAL, V0.ds.get(me)), 0)),
            ("sub-groups-unchanged", z3.ForAll([s], z3.And(V1.groups.has(s) == V0.groups.has(s), V1.groups.get(s) == V0.groups.get(s)))),
        ]


@register
class AddHdfVectorOutput(_Hdf):
    """v/arr_<i>/<j> is created with the array; ValueError iff it exists; every other dataset / sub-group unchanged."""

    targets = (HDF + ".__add_hdf_vector_output",)
    params = {"index_dataset": TInt, "idx_sub_group": TInt, "values_group": GV, "value": TVal}
    modifies = ("values_group",)
    raises = {
        "ValueError": lambda c: z3.And(c.old.values_group.groups.has(aname(c.old.index_dataset)),
                                       AG.acc(0)(c.old.values_group.groups.get(aname(c.old.index_dataset)))[sidx(c.old.idx_sub_group)]),
    }

    def requires(self, c):
        # call sites: the datasets of v are only created by __add_hdf_scalar_output under decimal names
        return [("scalar-dataset-names-are-decimal", datasets_named_decimal(c.old.values_group.ds))]

    def ensures(self, c):
        V0, V1 = c.old.values_group, c.new.values_group
        g, me = aname(c.old.index_dataset), sidx(c.old.idx_sub_group)
        s = z3.Const("s!av", StrS)
        a0, a1 = V0.groups.get(g), V1.groups.get(g)
        was = lambda t: z3.And(V0.groups.has(g), AG.acc(0)(a0)[t])  # noqa: E731
        return [
            ("created", z3.And(V1.groups.has(g), AG.acc(0)(a1)[me], AG.acc(1)(a1)[me] == c.old.value)),
            ("sub-group-members", z3.ForAll([s], AG.acc(0)(a1)[s] == z3.Or(was(s), s == me))),
            ("sub-group-others-unchanged", z3.ForAll([s], z3.Implies(z3.And(was(s), s != me), AG.acc(1)(a1)[s] == AG.acc(1)(a0)[s]))),
            ("sub-groups", z3.ForAll([s], V1.groups.has(s) == z3.Or(V0.groups.has(s), s == g))),
            ("other-sub-groups-unchanged", z3.ForAll([s], z3.Implies(s != g, V1.groups.get(s) == V0.groups.get(s)))),
            ("scalar-datasets-unchanged", z3.ForAll([s], z3.And(V1.ds.has(s) == V0.ds.has(s), V1.ds.get(s) == V0.ds.get(s)))),
        ]


# ---------------------------------------------------------------------------- __add_hdf_output_dataset
def old_nn(K, me):
    """Number of names already listed in k/<i> (0 if the dataset does not exist)."""
    return z3.If(K.has(me), seq_n(NAMES, K.get(me)), 0)


def node_of(c, which, k="keys_group", v="values_group", x=None):
    ns = c.old if which == "old" else c.new
    return Node.of_groups(c, which, x=getattr(ns, x) if x else None, k=getattr(ns, k) if k else None, v=getattr(ns, v) if v else None)


def _ghost_point(c):
    """Ghost code of __add_hdf_output_dataset (defines the specification ghosts POS, SC of point i only): the names of
    ``output_values`` are listed after the nn0 existing ones, in the order of sorted()."""
    i = c.old.index_dataset
    outs = c.old.output_values
    nn0 = old_nn(c.old.keys_group.ds, sidx(i))
    POS0, SC0 = c.old_ghost("h5_pos", POS_SORT), c.old_ghost("h5_sc", SC_SORT)
    nm, j, q = z3.Const("nm!gp", StrS), z3.Int("j!gp"), z3.Int("q!gp")
    mem = outs.member
    return {
        "h5_pos": lambda g: [z3.ForAll([q], z3.Implies(q != i, g[q] == POS0[q]), patterns=[g[q]]),
                             z3.ForAll([nm], g[i][nm] == z3.If(mem[nm], nn0 + H.sorted_pos(mem, nm), POS0[i][nm]), patterns=[g[i][nm]])],
        "h5_sc": lambda g: [z3.ForAll([q], z3.Implies(q != i, g[q] == SC0[q]), patterns=[g[q]]),
                            z3.ForAll([j], g[i][j] == z3.If(j < nn0, SC0[i][j], z3.Not(is_arr(outs.vals[H.sorted_el(mem, j - nn0)]))), patterns=[g[i][j]])],
    }


def _out_facts(c, F0, F1, upto, values=None):
    """What has been written for the first ``upto`` names of sorted(output_values): array datasets and (if ``values`` is
    given: the loop) the buffered scalars."""
    i = c.old.index_dataset
    outs = c.old.output_values
    mem = outs.member
    nn0 = old_nn(c.old.keys_group.ds, sidx(i))
    j, s = z3.Int("j!of"), z3.Const("s!of", StrS)
    L = lambda t: H.sorted_el(mem, t - nn0)  # noqa: E731  (name at absolute position t)
    SC = F1.SC[i]
    was = lambda t: z3.And(F0.has_agrp(i), F0.amem(i)[t])  # noqa: E731
    rng = z3.And(nn0 <= j, j < nn0 + upto)
    out = [
        ("arrays-written", z3.ForAll([j], z3.Implies(z3.And(rng, z3.Not(SC[j])), z3.And(F1.has_agrp(i), F1.amem(i)[sidx(j)], F1.avals(i)[sidx(j)] == outs.vals[L(j)])),
                                     patterns=[sidx(j)])),
        ("sub-group-members", z3.ForAll([s], z3.Implies(z3.And(F1.has_agrp(i), F1.amem(i)[s]),
                                                        z3.Or(was(s), z3.And(s == sidx(H.int_of_str(s)), nn0 <= H.int_of_str(s), H.int_of_str(s) < nn0 + upto, z3.Not(SC[H.int_of_str(s)])))),
                                        patterns=[F1.amem(i)[s]])),
        ("sub-group-old-datasets-kept", z3.ForAll([s], z3.Implies(was(s), z3.And(F1.has_agrp(i), F1.amem(i)[s], F1.avals(i)[s] == F0.avals(i)[s])), patterns=[F0.amem(i)[s]])),
        ("other-sub-groups-unchanged", z3.ForAll([s], z3.Implies(s != aname(i), z3.And(F1.VAm[s] == F0.VAm[s], F1.VAv[s] == F0.VAv[s])))),
    ]
    if values is not None:
        base = rank(SC, nn0)
        out += [
            ("scalars-buffered:count", values.n == rank(SC, nn0 + upto) - base),
            ("scalars-buffered:values", z3.ForAll([j], z3.Implies(z3.And(rng, SC[j]), z3.And(rank(SC, j + 1) == rank(SC, j) + 1,  # (names rank(SC, j + 1): instantiates the step and monotonicity)
                                                                                                    values.elems[rank(SC, j) - base] == outs.vals[L(j)])), patterns=[rank(SC, j)])),
            ("scalar-datasets-untouched", z3.And(F1.VDm == F0.VDm, F1.VDv == F0.VDv)),
        ]
    return out


def _out_inv(c, k):
    F0 = node_of(c, "old")
    F1 = node_of(c, "new")
    return _out_facts(c, F0, F1, k, c.locals["values"])


class _AddHdfOutputDataset(_Hdf):
    """The names of ``output_values`` are appended to k/<i> (in the order of sorted()), every array value becomes the dataset
    v/arr_<i>/<position of its name in k/<i>>, the scalar values are appended IN THAT ORDER to v/<i>; nothing else changes.
    Consequently (clauses ``point:*``): if point i encoded the names M0 with values V0 (or did not exist), it now encodes
    M0 + output_values."""

    modifies = ("keys_group", "values_group", "ghost:h5_pos", "ghost:h5_sc")
    loops = {0: LoopSpec(anchor="output_keys_sorted", modifies=("values_group", "values"), inv=_out_inv,
                         local_types={"values": TList(TVal), "value": TVal, "idx_value": TInt, "name": TStr})}
    ghost_defs = {"values = []": _ghost_point}

    def axioms(self, c):
        return axioms_common()

    def idx_given(self, c):
        return None

    def requires(self, c):
        i = c.old.index_dataset
        K0, V0 = c.old.keys_group.ds, c.old.values_group
        F0 = node_of(c, "old")
        outs = c.old.output_values
        nn0 = old_nn(K0, sidx(i))
        j, s, nm = z3.Int("j!rq"), z3.Const("s!rq", StrS), z3.Const("nm!rq", StrS)
        pre = [
            ("type:listing-length", z3.Implies(K0.has(sidx(i)), seq_n(NAMES, K0.get(sidx(i))) >= 0)),
            # call sites: __create_hdf_input_output (new point: nothing listed) / __append_hdf_output (the missing names only)
            ("names-not-listed-yet", z3.ForAll([j], z3.Implies(z3.And(0 <= j, j < nn0), z3.Not(outs.has(F0.name(i, j)))), patterns=[F0.name(i, j)])),
            ("listed-names-distinct(POS)", z3.ForAll([j], z3.Implies(z3.And(0 <= j, j < nn0), F0.pos(i, F0.name(i, j)) == j), patterns=[F0.name(i, j)])),
            ("array-datasets-are-positions", z3.ForAll([s], z3.Implies(z3.And(F0.has_agrp(i), F0.amem(i)[s]),
                                                                       z3.And(s == sidx(H.int_of_str(s)), 0 <= H.int_of_str(s), H.int_of_str(s) < nn0)), patterns=[F0.amem(i)[s]])),
            ("sub-group-names-are-arr-names", sub_groups_named_arr(V0.groups)),
            ("scalar-dataset-names-are-decimal", datasets_named_decimal(V0.ds)),
        ]
        idx = self.idx_given(c)
        if idx is None:
            pre.append(("no-index-map:new-point", nn0 == 0))
        else:
            # call site __append_hdf_output: the map returned by __get_missing_hdf_output_dataset
            pre.append(("index-map", z3.If(idx.n == 0, nn0 == 0,
                                           z3.ForAll([nm], z3.Implies(outs.has(nm), z3.And(idx.has(nm), idx.get(nm) == nn0 + H.sorted_pos(outs.member, nm))), patterns=[idx.member[nm]]))))
        return pre

    def ensures(self, c):
        i = c.old.index_dataset
        me = sidx(i)
        outs = c.old.output_values
        mem = outs.member
        K0, K1 = c.old.keys_group.ds, c.new.keys_group.ds
        F0, F1 = node_of(c, "old"), node_of(c, "new")
        nn0 = old_nn(K0, me)
        m = outs.n
        r, s, p, nm = z3.Int("r!od"), z3.Const("s!od", StrS), z3.Int("p!od"), z3.Const("nm!od", StrS)
        SC = F1.SC[i]
        out = [("names:" + l, f) for l, f in appended_fn(NAMES, K0, K1, me, m, lambda t: H.sorted_el(mem, t))]
        out += [("raw:" + l, f) for l, f in _out_facts(c, F0, F1, m)]
        # scalars: appended to v/<i> after the `off` existing ones, in listing order
        off = z3.If(F0.has_scal(i), F0.scal_n(i), 0)
        cnt = rank(SC, nn0 + m) - rank(SC, nn0)
        base = rank(SC, nn0)
        V0d, V1d = c.old.values_group.ds, c.new.values_group.ds
        out += [
            ("scalars:none-new", z3.Implies(cnt == 0, z3.And(F1.VDm == F0.VDm, F1.VDv == F0.VDv))),
            ("scalars:dataset", z3.Implies(cnt != 0, z3.And(F1.has_scal(i), F1.scal_n(i) == off + cnt))),
            ("scalars:old-kept", z3.Implies(cnt != 0, z3.ForAll([r], z3.Implies(z3.And(0 <= r, r < off), F1.scal(i, r) == F0.scal(i, r))))),
            ("scalars:appended-in-order", z3.Implies(cnt != 0, z3.ForAll([p], z3.Implies(z3.And(nn0 <= p, p < nn0 + m, SC[p]),
                                                                                         z3.And(rank(SC, p + 1) == rank(SC, p) + 1,
                                                                                                F1.scal(i, off + rank(SC, p) - base) == outs.vals[H.sorted_el(mem, p - nn0)])), patterns=[rank(SC, p)]))),
            ("scalars:other-datasets", z3.ForAll([s], z3.Implies(s != me, z3.And(V1d.has(s) == V0d.has(s), V1d.get(s) == V0d.get(s))))),
        ]
        # ghosts
        POS0, POS1, SC0 = c.old_ghost("h5_pos", POS_SORT), c.new_ghost("h5_pos", POS_SORT), c.old_ghost("h5_sc", SC_SORT)
        q = z3.Int("q!od")
        out += [
            ("ghost:other-points", z3.ForAll([q], z3.Implies(q != i, z3.And(POS1[q] == POS0[q], F1.SC[q] == SC0[q])))),
            ("ghost:POS", z3.ForAll([nm], POS1[i][nm] == z3.If(mem[nm], nn0 + H.sorted_pos(mem, nm), POS0[i][nm]))),
            ("ghost:SC-old-positions", z3.ForAll([p], z3.Implies(p < nn0, SC[p] == SC0[i][p]))),
            ("ghost:SC-new-positions", z3.ForAll([p], z3.Implies(z3.And(nn0 <= p, p < nn0 + m), SC[p] == z3.Not(is_arr(outs.vals[H.sorted_el(mem, p - nn0)]))))),
        ]
        return out


def appended_fn(T, D0, D1, me, bn, bel_at, label=""):
    s, r = z3.Const("s!app", StrS), z3.Int("r!app")
    n0 = z3.If(D0.has(me), seq_n(T, D0.get(me)), 0)
    new, old = D1.get(me), D0.get(me)
    return [
        (label + "exists", D1.has(me)),
        (label + "length", seq_n(T, new) == n0 + bn),
        (label + "old-elements-kept", z3.ForAll([r], z3.Implies(z3.And(0 <= r, r < n0), seq_el(T, new)[r] == seq_el(T, old)[r]))),
        (label + "block-appended", z3.ForAll([r], z3.Implies(z3.And(n0 <= r, r < n0 + bn), seq_el(T, new)[r] == bel_at(r - n0)))),
        (label + "members", z3.ForAll([s], D1.has(s) == z3.Or(D0.has(s), s == me))),
        (label + "others-unchanged", z3.ForAll([s], z3.Implies(s != me, D1.get(s) == D0.get(s)))),
    ]


@register
class AddHdfOutputDataset(_AddHdfOutputDataset):
    targets = (HDF + ".__add_hdf_output_dataset",)
    params = {"index_dataset": TInt, "keys_group": GK, "values_group": GV, "output_values": OUTS, "output_name_to_idx": IDXMAP}

    def idx_given(self, c):
        v = c.arg("output_name_to_idx")
        return None if v is None else c.old.output_name_to_idx


@register
class AddHdfOutputDatasetNoMap(_AddHdfOutputDataset):
    """Same contract, verified for the default ``output_name_to_idx=None``."""

    targets = (HDF + ".__add_hdf_output_dataset",)
    variant = "no-index-map"
    params = {"index_dataset": TInt, "keys_group": GK, "values_group": GV, "output_values": OUTS, "output_name_to_idx": TNone}


# ---------------------------------------------------------------------------- __get_missing_hdf_output_dataset / append / create
def listed(F: Node, i, nm, nn):
    p = F.pos(i, nm)
    return z3.And(0 <= p, p < nn, F.name(i, p) == nm)


def history_names_only_grow(F: Node, i, outs):
    """History precondition of an append (derived from the call sites: the file was written from an earlier state of the same
    database and outputs are only ever ADDED at a point): every name listed in k/<i> is still a name of the point, no duplicates."""
    j = z3.Int("j!hg")
    nn = F.nn(i)
    return z3.ForAll([j], z3.Implies(z3.And(0 <= j, j < nn), z3.And(outs.has(F.name(i, j)), F.pos(i, F.name(i, j)) == j)), patterns=[F.name(i, j)])


def _missing_cardinality(c):
    """Cited lemma (finite sets): the names of a finite map that are not in a duplicate-free list of some of its names are
    |map| - |list| many."""
    F0 = node_of(c, "old", v=None)
    i = c.old.index_dataset
    outs = c.old.output_values
    return [("cardinality of a set difference: |names not yet listed| = |names| - |listed names| (listed names distinct and all among the names)",
             z3.Implies(history_names_only_grow(F0, i, outs), c.locals["missing_name_values"].n == outs.n - F0.nn(i)))]


def _order_witness(c, nm):
    o = c.new.output_values  # (the same mapping: it is not modified; its order view exists once the function has iterated over it)
    if o.pos is None:
        return []
    return [o.pos[nm] >= 0, o.keys[o.pos[nm]] == nm]


@register
class GetMissingHdfOutputDataset(_Hdf):
    """The names of ``output_values`` not yet listed in k/<i> with their values, and for each of them the position it will take
    in k/<i> (after the existing ones, in the order of sorted()); ({}, {}) if there is none; ValueError iff k/<i> is absent."""

    targets = (HDF + ".__get_missing_hdf_output_dataset",)
    params = {"index_dataset": TInt, "keys_group": GK, "output_values": OUTS}
    returns = TTuple(OUTS, IDXMAP)
    raises = {"ValueError": lambda c: z3.Not(c.old.keys_group.ds.has(sidx(c.old.index_dataset)))}
    cited_lemmas = {"if not missing_name_values:": _missing_cardinality}

    def requires(self, c):
        F0 = node_of(c, "old", v=None)
        i = c.old.index_dataset
        return [("type:listing-length", F0.nn(i) >= 0), ("history:listed-names-are-names-of-the-point", history_names_only_grow(F0, i, c.old.output_values))]

    def ensures(self, c):
        F0 = node_of(c, "old", v=None)
        i = c.old.index_dataset
        outs = c.old.output_values
        nn0 = F0.nn(i)
        missing, idx = (C.View(c._new_heap, r, c.st) for r in c.result_value)
        nm = z3.Const("nm!gm", StrS)
        return [
            ("missing:names-are-unlisted-names", z3.ForAll([nm], z3.Implies(missing.has(nm), z3.And(outs.has(nm), z3.Not(listed(F0, i, nm, nn0)))))),
            # (outs.pos[nm] >= 0 holds for every name of the mapping - order view -; it is written out as the witness of the comprehension)
            ("missing:every-unlisted-name", z3.ForAll([nm], z3.Implies(z3.And(outs.has(nm), z3.Not(listed(F0, i, nm, nn0)), *_order_witness(c, nm)), missing.has(nm)))),
            ("missing:values", z3.ForAll([nm], z3.Implies(missing.has(nm), missing.get(nm) == outs.get(nm)))),
            ("missing:count", missing.n == outs.n - nn0),
            ("positions", z3.If(missing.n == 0, idx.n == 0,
                                z3.ForAll([nm], z3.Implies(missing.has(nm), z3.And(idx.has(nm), idx.get(nm) == nn0 + H.sorted_pos(H.named_mem(c.st, missing.member), nm)))))),
        ]


def new_point(c):
    """Call-site fact of __create_hdf_input_output (to_file: the index is not in x yet, and k, v only hold records of exported
    points): nothing of point i exists in k and v."""
    i = c.old.index_dataset
    return [("new-point:no-record-yet", z3.And(z3.Not(c.old.keys_group.ds.has(sidx(i))), z3.Not(c.old.values_group.ds.has(sidx(i))),
                                               z3.Not(c.old.values_group.groups.has(aname(i)))))]


@register
class CreateHdfInputOutput(_AddHdfOutputDataset):
    """x/<i> is created with the input array and the record of point i (names, arrays, scalars in order) is written as by
    __add_hdf_output_dataset on a point that has no record yet; ValueError iff x/<i> exists (nothing is written then)."""

    targets = (HDF + ".__create_hdf_input_output",)
    params = {"index_dataset": TInt, "design_vars_group": GX, "keys_group": GK, "values_group": GV, "input_values": HNd, "output_values": OUTS}
    modifies = ("design_vars_group", "keys_group", "values_group", "ghost:h5_pos", "ghost:h5_sc")
    raises = {"ValueError": lambda c: c.old.design_vars_group.ds.has(sidx(c.old.index_dataset))}
    loops = {}
    ghost_defs = {}

    def requires(self, c):
        return new_point(c) + [("sub-group-names-are-arr-names", sub_groups_named_arr(c.old.values_group.groups)),
                               ("scalar-dataset-names-are-decimal", datasets_named_decimal(c.old.values_group.ds))]

    def ensures(self, c):
        X0, X1 = c.old.design_vars_group.ds, c.new.design_vars_group.ds
        s = z3.Const("s!ci", StrS)
        me = sidx(c.old.index_dataset)
        return [("x:created", z3.And(X1.has(me), X1.get(me) == c.old.input_values.wrapped_array)),
                ("x:members", z3.ForAll([s], X1.has(s) == z3.Or(X0.has(s), s == me))),
                ("x:others-unchanged", z3.ForAll([s], z3.Implies(s != me, X1.get(s) == X0.get(s)))),
                ("x:size", X1.n == X0.n + 1)] + super().ensures(c)

    def raise_ensures(self, c, exc):
        K0, K1, V0, V1 = c.old.keys_group.ds, c.new.keys_group.ds, c.old.values_group, c.new.values_group
        return [("nothing-written", z3.And(K1.member == K0.member, K1.vals == K0.vals, V1.ds.member == V0.ds.member, V1.ds.vals == V0.ds.vals,
                                           V1.groups.member == V0.groups.member, V1.groups.vals == V0.groups.vals))]


@register
class AppendHdfOutput(_Hdf):
    """The names of the point that are not listed in k/<i> yet are added to its record (by __add_hdf_output_dataset, with the
    positions computed by __get_missing_hdf_output_dataset); when every name is listed already, nothing changes; ValueError iff
    k/<i> does not exist.  (Only the frame, the exception condition and the no-op case are stated at this level: the effect on
    the record is the postcondition of __add_hdf_output_dataset, whose preconditions are proved here at the call.)"""

    targets = (HDF + ".__append_hdf_output",)
    params = {"index_dataset": TInt, "keys_group": GK, "values_group": GV, "output_values": OUTS}
    modifies = ("keys_group", "values_group", "ghost:h5_pos", "ghost:h5_sc")
    raises = {"ValueError": lambda c: z3.Not(c.old.keys_group.ds.has(sidx(c.old.index_dataset)))}

    def axioms(self, c):
        return axioms_common()

    def requires(self, c):
        F0 = node_of(c, "old")
        i = c.old.index_dataset
        s = z3.Const("s!ah", StrS)
        nn0 = F0.nn(i)
        return [("type:listing-length", nn0 >= 0),
                ("history:listed-names-are-names-of-the-point", history_names_only_grow(F0, i, c.old.output_values)),
                ("array-datasets-are-positions", z3.ForAll([s], z3.Implies(z3.And(F0.has_agrp(i), F0.amem(i)[s]),
                                                                           z3.And(s == sidx(H.int_of_str(s)), 0 <= H.int_of_str(s), H.int_of_str(s) < nn0)), patterns=[F0.amem(i)[s]])),
                ("sub-group-names-are-arr-names", sub_groups_named_arr(c.old.values_group.groups)),
                ("scalar-dataset-names-are-decimal", datasets_named_decimal(c.old.values_group.ds))]

    def ensures(self, c):
        F0, F1 = node_of(c, "old"), node_of(c, "new")
        i = c.old.index_dataset
        outs = c.old.output_values
        nm, q, r = z3.Const("nm!ah", StrS), z3.Int("q!ah"), z3.Int("r!ah")
        nn0 = F0.nn(i)
        all_listed = z3.ForAll([nm], z3.Implies(outs.has(nm), listed(F0, i, nm, nn0)))
        K0, K1, V0, V1 = c.old.keys_group.ds, c.new.keys_group.ds, c.old.values_group, c.new.values_group
        POS0, POS1, SC0, SC1 = c.old_ghost("h5_pos", POS_SORT), c.new_ghost("h5_pos", POS_SORT), c.old_ghost("h5_sc", SC_SORT), c.new_ghost("h5_sc", SC_SORT)
        return [
            ("nothing-missing:unchanged", z3.Implies(all_listed, z3.And(K1.member == K0.member, K1.vals == K0.vals, V1.ds.member == V0.ds.member, V1.ds.vals == V0.ds.vals,
                                                                        V1.groups.member == V0.groups.member, V1.groups.vals == V0.groups.vals, POS1 == POS0, SC1 == SC0))),
            ("listing-grows-to-all-names", F1.nn(i) == outs.n),
            ("listed-names-kept", z3.ForAll([r], z3.Implies(z3.And(0 <= r, r < nn0), F1.name(i, r) == F0.name(i, r)))),
            ("ghost:other-points", z3.ForAll([q], z3.Implies(q != i, z3.And(POS1[q] == POS0[q], SC1[q] == SC0[q])))),
            # frame: the records of the other points are untouched
            ("frame:names-datasets", z3.And(K1.has(sidx(i)), z3.ForAll([nm], z3.Implies(nm != sidx(i), z3.And(K1.has(nm) == K0.has(nm), K1.get(nm) == K0.get(nm)))))),
            ("frame:scalar-datasets", z3.ForAll([nm], z3.Implies(nm != sidx(i), z3.And(V1.ds.has(nm) == V0.ds.has(nm), V1.ds.get(nm) == V0.ds.get(nm))))),
            ("frame:sub-groups", z3.ForAll([nm], z3.Implies(nm != aname(i), z3.And(V1.groups.has(nm) == V0.groups.has(nm), V1.groups.get(nm) == V0.groups.get(nm))))),
        ]


# ---------------------------------------------------------------------------- point-level round trip (lemmas over the writer's contract)
class _FD:
    """A dict view made of free constants (for lemmas stated over a contract's clauses)."""

    def __init__(self, name, T):
        self.member = z3.Const(name + "_m", z3.ArraySort(T.k.sort(), z3.BoolSort()))
        self.vals = z3.Const(name + "_v", z3.ArraySort(T.k.sort(), T.v.sort()))
        self.n = z3.Int(name + "_n")

    def has(self, k):
        return self.member[k]

    def get(self, k):
        return self.vals[k]


class _NS:
    def __init__(self, **kw):
        self.__dict__.update(kw)


class _FakeCtx:
    """The entry/exit states of one call of __add_hdf_output_dataset as free constants: what a caller knows is exactly the
    contract's requires (checked at the call) and ensures."""

    def __init__(self, with_map=False):
        mk = lambda tag: _NS(index_dataset=z3.Int("L_i"), output_values=self.outs,  # noqa: E731
                             keys_group=_NS(ds=_FD(f"L_k{tag}", KG)), values_group=_NS(ds=_FD(f"L_vd{tag}", VD), groups=_FD(f"L_va{tag}", VA)),
                             output_name_to_idx=_FD("L_idx", IDXMAP) if with_map else None)
        self.outs = _FD("L_outs", OUTS)
        self.old, self.new = mk(0), mk(1)
        self.g = {("old", "h5_pos"): z3.Const("L_pos0", POS_SORT), ("new", "h5_pos"): z3.Const("L_pos1", POS_SORT),
                  ("old", "h5_sc"): z3.Const("L_sc0", SC_SORT), ("new", "h5_sc"): z3.Const("L_sc1", SC_SORT)}
        self.with_map = with_map

    def old_ghost(self, name, sort):
        return self.g[("old", name)]

    def new_ghost(self, name, sort):
        return self.g[("new", name)]

    def arg(self, name):
        return getattr(self.old, name)


@register
class PointRoundTripLemmas(Contract):
    """Round trip at the level of one point, over the CONTRACT of __add_hdf_output_dataset (not its code): the record written for a
    point that had none DECODES (reader view fhas / fval, see ``Node``) to exactly the names and values of ``output_values``, arrays
    as arrays and scalars as scalars, and is well formed (pt_wf) - i.e. pt_is(F1, i, output_values)."""

    targets = ()
    prop = ("C11",)
    lemma = True

    def lemmas(self):
        c = _FakeCtx()
        ct = AddHdfOutputDatasetNoMap()
        i = c.old.index_dataset
        outs = c.outs
        k = z3.Const("k!prt", StrS)
        hyp = [f for _, f in axioms_common()] + [f for _, f in ct.requires(c)] + [f for _, f in ct.ensures(c)]
        hyp += [f for _, f in new_point(c)]
        # type invariants of the map of outputs (dict model): size >= 0, and sorted() lists it (plug_hdf._sorted)
        j = z3.Int("j!prt")
        mem = outs.member
        hyp += [outs.n >= 0,
                z3.ForAll([j], z3.Implies(z3.And(0 <= j, j < outs.n), z3.And(mem[H.sorted_el(mem, j)], H.sorted_pos(mem, H.sorted_el(mem, j)) == j)), patterns=[H.sorted_el(mem, j)]),
                z3.ForAll([k], z3.Implies(mem[k], z3.And(0 <= H.sorted_pos(mem, k), H.sorted_pos(mem, k) < outs.n, H.sorted_el(mem, H.sorted_pos(mem, k)) == k)), patterns=[H.sorted_pos(mem, k)])]
        F1 = node_of(c, "new")
        H_ = z3.And(*hyp)
        out = [(f"new-point:{label}", z3.Implies(H_, f)) for label, f in pt_is(F1, i, outs.member, outs.vals) if label != "values"]
        # the `values` clause of pt_is, by cases on the kind of the value (the two cases are proved from the contract, their
        # conjunction gives the clause by the definition of fval)
        nm = z3.Const("nm!prt", StrS)
        p = F1.pos(i, nm)
        v = outs.vals[nm]
        arr_case = z3.ForAll([nm], z3.Implies(z3.And(mem[nm], is_arr(v)), z3.And(F1.isarr(i, p), F1.arrval(i, p) == v)))
        sc_case = z3.ForAll([nm], z3.Implies(z3.And(mem[nm], z3.Not(is_arr(v))), z3.And(rank(F1.SC[i], p + 1) == rank(F1.SC[i], p) + 1,  # (names the successor term: step + monotonicity)
                                                                                               z3.Not(F1.isarr(i, p)), F1.scal(i, rank(F1.SC[i], p)) == v)))
        values = dict(pt_is(F1, i, outs.member, outs.vals))["values"]
        out += [("new-point:values:array-case", z3.Implies(H_, arr_case)), ("new-point:values:scalar-case", z3.Implies(H_, sc_case)),
                ("new-point:values", z3.Implies(z3.And(arr_case, sc_case), values))]
        return out


# ---------------------------------------------------------------------------- to_file (full export and append)
from pyvc.values import forall_pat as FA  # noqa: E402

schema("gemseo.algos.design_space.DesignSpace#c11", {})
DBT = TObj(DB)
NAMING = [("sub-group-names-are-arr-names", lambda F: FA([z3.Const("s!n1", StrS)], z3.Implies(F.VAm[z3.Const("s!n1", StrS)], H.is_arr_name(z3.Const("s!n1", StrS))), F.VAm[z3.Const("s!n1", StrS)])),
          ("scalar-dataset-names-are-decimal", lambda F: FA([z3.Const("s!n2", StrS)], z3.Implies(F.VDm[z3.Const("s!n2", StrS)], z3.Not(H.is_arr_name(z3.Const("s!n2", StrS)))), F.VDm[z3.Const("s!n2", StrS)]))]


def ios(s):
    return H.int_of_str(s)


def point_names(D, i):
    return D.vals[D.keys[i]]


def index_view(F: Node, D, n_x=None):
    """INDEX-LEVEL FILE INVARIANT w.r.t. the database D: the members of x are indices of D holding the matching key, a point has a
    names dataset iff it has an x dataset, scalar datasets / array sub-groups only exist for exported points."""
    s = z3.Const("s!iv", StrS)
    return [
        ("x:entries-are-indices-of-the-database", FA([s], z3.Implies(F.Xm[s], z3.And(s == sidx(ios(s)), 0 <= ios(s), ios(s) < D.n, key_of(F.Xv[s]) == D.keys[ios(s)])), F.Xm[s])),
        ("k:exists-iff-x-exists", FA([s], F.Km[s] == F.Xm[s], F.Km[s])),
        ("v:scalar-datasets-of-exported-points", FA([s], z3.Implies(F.VDm[s], F.Xm[s]), F.VDm[s])),
        ("v:sub-groups-of-exported-points", FA([s], z3.Implies(F.VAm[s], z3.And(H.is_arr_name(s), s == H.arr_of(H.arr_suffix(s)), F.Xm[H.arr_suffix(s)])), F.VAm[s])),
    ]


def record_pre(F: Node, D, i):
    """What __append_hdf_output needs about the record of an exported point i (history: its listed names are names of the point)."""
    j, s = z3.Int("j!rp"), z3.Const("s!rp", StrS)
    nn = F.nn(i)
    outs_m = o_member(point_names(D, i))
    return z3.And(nn >= 0,
                  FA([j], z3.Implies(z3.And(0 <= j, j < nn), z3.And(outs_m[F.name(i, j)], F.pos(i, F.name(i, j)) == j)), F.name(i, j)),
                  FA([s], z3.Implies(z3.And(F.has_agrp(i), F.amem(i)[s]), z3.And(s == sidx(ios(s)), 0 <= ios(s), ios(s) < nn)), F.amem(i)[s]))


def pend_hash(D, i):
    return H.hnd_hash(wa(D.keys[i]))


def is_pending(P, D, i):
    return z3.And(P.member[pend_hash(D, i)], P.vals[pend_hash(D, i)] == D.keys[i])


def processed(P, D, i, k):
    """Point i is one of the first k pending arrays."""
    return z3.And(is_pending(P, D, i), P.pos[pend_hash(D, i)] < k)


def _tf_views(c):
    s0 = c.old.self
    D = c.old.database._Database__data
    P = s0._HDFDatabase__pending_arrays
    F0 = Node.of_ghost(c, "old")
    return D, P, F0


def _cur_node(c):
    """The node as the open group objects hold it (inside the `with` block)."""
    L = c.locals
    return Node.of_groups(c, "new", x=L["design_vars_grp"], k=L["keys_group"], v=L["values_group"])


def _append_inv(c, k):
    D, P, F0 = _tf_views(c)
    F = _cur_node(c)
    i, h = z3.Int("i!ai"), z3.Int("h!ai")
    idx = c.locals["input_values_to_idx"]
    p = z3.Const("p!ai", HNd.sort())
    inr = z3.And(0 <= i, i < D.n)
    out = index_view(F, D) + [(l, f(F)) for l, f in NAMING]
    out += [
        ("x:exactly-the-old-and-the-processed-points", FA([i], z3.Implies(inr, F.Xm[sidx(i)] == z3.Or(F0.Xm[sidx(i)], processed(P, D, i, k))), sidx(i))),
        ("x:old-members-kept", FA([h], z3.Implies(F0.Xm[sidx(h)], z3.And(F.Xm[sidx(h)], F.Xv[sidx(h)] == F0.Xv[sidx(h)])), sidx(h))),
        # an exported point that has not been visited yet still has the record it had at entry
        ("unvisited-records-kept", FA([i], z3.Implies(z3.And(inr, F0.Xm[sidx(i)], z3.Not(processed(P, D, i, k))),
                                                      z3.And(F.Kv[sidx(i)] == F0.Kv[sidx(i)], F.VAm[aname(i)] == F0.VAm[aname(i)], F.VAv[aname(i)] == F0.VAv[aname(i)],
                                                             F.POS[i] == F0.POS[i])), sidx(i))),
        ("visited-points-list-all-their-names", FA([i], z3.Implies(z3.And(inr, processed(P, D, i, k)), F.nn(i) == o_n(point_names(D, i))), sidx(i))),
        # (named witnesses: the index of a database key in the map built by the comprehension)
        ("index-map", FA([p], z3.Implies(D.member[p], z3.And(idx.keys[D.pos[p]] == p, idx.member[p], idx.vals[p] == D.pos[p])), D.member[p])),
    ]
    return out


def _full_inv(c, k):
    D, P, F0 = _tf_views(c)
    F = _cur_node(c)
    i = z3.Int("i!fi")
    s = z3.Const("s!fi", StrS)
    cnt = c.locals["index_dataset"]
    return index_view(F, D) + [(l, f(F)) for l, f in NAMING] + [
        ("counter", cnt == k),
        ("x:exactly-the-first-k-points", FA([s], z3.Implies(F.Xm[s], ios(s) < k), F.Xm[s])),
        ("x:first-k-points-written", FA([i], z3.Implies(z3.And(0 <= i, i < k), F.Xm[sidx(i)]), sidx(i))),
        ("x:size", F.Xn == k),
        ("written-points-list-all-their-names", FA([i], z3.Implies(z3.And(0 <= i, i < k), F.nn(i) == o_n(point_names(D, i))), sidx(i))),
    ]


def _x_cardinality(c):
    """Cited lemma (finite sets): a dict whose keys are exactly str(0) .. str(n-1) (str injective) has n entries."""
    D = c.old.database._Database__data
    X = c.locals["design_vars_grp"].ds
    i, s = z3.Int("i!xc"), z3.Const("s!xc", StrS)
    exact = z3.And(z3.ForAll([i], z3.Implies(z3.And(0 <= i, i < D.n), X.member[sidx(i)])),
                   z3.ForAll([s], z3.Implies(X.member[s], z3.And(s == sidx(ios(s)), 0 <= ios(s), ios(s) < D.n))))
    return [("cardinality: a dict whose keys are exactly str(0), .., str(n-1) has n entries", z3.Implies(exact, X.n == D.n))]


@register
class ToFile(Contract):
    """FULL EXPORT and APPEND give the same index-level file view of the database (``exported-view``): x has exactly the entries
    0..n-1, x/<i> holding the i-th key, every point - also one stored with NO output - has its names dataset k/<i>, listing as many
    names as the point has outputs, scalar datasets / array sub-groups only exist for these points; the pending buffer is emptied.
    (The per-point content is the postcondition of __create_hdf_input_output / __append_hdf_output, see PointRoundTripLemmas.)

    History preconditions of the append branch (derived from the call sites Database.store -> add_pending_array and the previous
    to_file): the node was written from an earlier state of this database (index view + per-point history), every point that is not
    in the node yet, and every point that got new names, is pending; pending arrays are points of the database."""

    targets = (HDF + ".to_file",)
    prop = ("C11",)
    self_schema = HDF + "#c11"
    params = {"database": DBT, "file_path": TStr, "append": TBool, "hdf_node_path": TStr}
    modifies = ("self", "ghost:h5_x", "ghost:h5_k", "ghost:h5_vd", "ghost:h5_va", "ghost:h5_has_ds", "ghost:h5_pos", "ghost:h5_sc")
    loops = {
        0: LoopSpec(anchor="self.__pending_arrays.values()", inv=_append_inv,
                    modifies=("design_vars_grp", "keys_group", "values_group", "ghost:h5_pos", "ghost:h5_sc"),
                    local_types={"input_values": HNd, "output_values": OUTS, "index_dataset": TInt}),
        1: LoopSpec(anchor="database.items()", inv=_full_inv,
                    modifies=("design_vars_grp", "keys_group", "values_group", "ghost:h5_pos", "ghost:h5_sc"),
                    local_types={"input_values": HNd, "output_values": OUTS}),
    }
    cited_lemmas = {"input_space = database.input_space": _x_cardinality}

    def axioms(self, c):
        return axioms_common()

    def requires(self, c):
        D, P, F0 = _tf_views(c)
        i, h = z3.Int("i!tf"), z3.Int("h!tf")
        app = c.old.append
        inr = z3.And(0 <= i, i < D.n)
        pre = [("db-wf", db_wf(D)), ("pending-wf", pending_wf(P)),
               ("pending-arrays-are-points-of-the-database", FA([h], z3.Implies(P.member[h], D.member[P.vals[h]]), P.member[h]))]
        # the rest only matters for an append (mode "a": the node keeps its content)
        hist = index_view(F0, D) + [(l, f(F0)) for l, f in NAMING] + [
            ("history:records-of-exported-points", FA([i], z3.Implies(z3.And(inr, F0.Xm[sidx(i)]), record_pre(F0, D, i)), sidx(i))),
            ("history:new-points-are-pending", FA([i], z3.Implies(z3.And(inr, z3.Not(F0.Xm[sidx(i)])), is_pending(P, D, i)), sidx(i))),
            ("history:points-with-new-names-are-pending", FA([i], z3.Implies(z3.And(inr, F0.Xm[sidx(i)], z3.Not(is_pending(P, D, i))), F0.nn(i) == o_n(point_names(D, i))), sidx(i))),
        ]
        return pre + [(f"append:{l}", z3.Implies(app, f)) for l, f in hist]

    def ensures(self, c):
        D, P, F0 = _tf_views(c)
        F1 = Node.of_ghost(c, "new")
        P1 = c.new.self._HDFDatabase__pending_arrays
        i = z3.Int("i!te")
        inr = z3.And(0 <= i, i < D.n)
        return [("exported-view:" + l, f) for l, f in index_view(F1, D)] + [
            ("exported-view:every-point-is-in-x", FA([i], z3.Implies(inr, F1.Xm[sidx(i)]), sidx(i))),
            ("exported-view:x-has-n-entries", F1.Xn == D.n),
            ("exported-view:every-point-lists-all-its-names", FA([i], z3.Implies(inr, F1.nn(i) == o_n(point_names(D, i))), sidx(i))),
            ("pending-buffer-emptied", P1.n == 0),
        ] + [(l, f(F1)) for l, f in NAMING]


# ---------------------------------------------------------------------------- update_from_file (the reader)
def reader_file_wf(F: Node):
    """What the reader relies on (established by to_file, see index_view / pt_wf): x has exactly the entries 0..N-1 with pairwise
    distinct arrays, every one of them has a well-formed record."""
    i, j = z3.Int("i!rw"), z3.Int("j!rw")
    N = F.Xn
    out = [("x:exactly-0..N-1", FA([i], z3.Implies(z3.And(0 <= i, i < N), F.Xm[sidx(i)]), sidx(i))),
           ("x:distinct-points", z3.ForAll([i, j], z3.Implies(z3.And(0 <= i, i < j, j < N), F.Xv[sidx(i)] != F.Xv[sidx(j)])))]
    for label, f in pt_wf(F, i):
        out.append(("records:" + label, FA([i], z3.Implies(z3.And(0 <= i, i < N), f), sidx(i))))
    return out + [(l, f(F)) for l, f in NAMING]


# The content clauses of the reader (names = fhas, values = fval): proved by a STAGED decode argument written as ghost assertions
# (``c11_asserts``: each one is a proof obligation, then a hypothesis) right before ``scalar_dict.update(..)`` and ``database.store(..)``:
# comprehension witness -> dataset name is a position -> POS injectivity (arrays); kept positions = scalar positions -> filtered-rank
# lemma -> rank congruence -> position in v/<k> (scalars); then the merged dictionary is exactly (fhas, fval) of point k.
import os as _os  # noqa: E402

READER_CONTENT_CLAUSES = _os.environ.get("C11_READER_CONTENT", "1") == "1"  # ON: proved through the staged ghost assertions below (C11_READER_CONTENT=0 switches the clauses off)


def _rd(c):
    """Terms of one reader iteration (point k = raw_index): file view, the comprehension dict of arrays, the dict of scalars."""
    F = Node.of_ghost(c, "old")
    k = c.locals["raw_index"]
    NA, SD = c.locals["names_to_arrays"], c.locals["scalar_dict"]
    inner = F.VAv[aname(k)]
    return F, k, NA, SD, AG.acc(3)(inner), AG.acc(4)(inner)


def _na_mem(NA, nm):
    return NA.member[nm]


def _stage_update(c):
    """Ghost assertions (proved, then usable) right before ``scalar_dict.update(names_to_arrays)``: the two partial dictionaries
    decode the array names / the scalar names of point k."""
    F, k, NA, SD, dkeys, dpos = _rd(c)
    nm, j = z3.Const("nm!su", StrS), z3.Int("j!su")
    p = F.pos(k, nm)
    nn = F.nn(k)
    out = []
    na_obj = NA.obj
    if na_obj.keys is not None and not na_obj.is_empty_literal:
        t = NA.pos[nm]
        dk, ip = dkeys[t], ios(dkeys[t])
        dn = AG.acc(2)(F.VAv[aname(k)])
        tp = dpos[sidx(p)]
        L = lambda f: z3.ForAll([nm], z3.Implies(NA.member[nm], f))  # noqa: E731
        Cp = lambda f: z3.ForAll([nm], z3.Implies(z3.And(F.fhas(k, nm), F.isarr(k, p)), f))  # noqa: E731
        out += [("arrays:listed:1-position-in-the-comprehension", L(z3.And(0 <= t, t < NA.n, NA.keys[t] == nm, F.has_agrp(k), F.amem(k)[dk]))),
                ("arrays:listed:2-dataset-name-is-a-position", L(z3.And(dk == sidx(ip), 0 <= ip, ip < nn, F.name(k, ip) == nm))),
                ("arrays:listed:3-decoded", L(z3.And(p == ip, F.fhas(k, nm), F.isarr(k, p), NA.vals[nm] == F.arrval(k, p)))),
                ("arrays:complete:1-dataset-is-enumerated", Cp(z3.And(0 <= tp, tp < dn, dkeys[tp] == sidx(p)))),
                ("arrays:complete:2-its-name", Cp(NA.keys[tp] == nm)),
                ("arrays:complete:3-member", Cp(NA.member[nm]))]
    else:
        out += [("arrays:none", z3.ForAll([nm], z3.Not(z3.And(F.fhas(k, nm), F.isarr(k, p)))))]
    flt = c.st.ghost.get("h5_filtered", [])
    sd_obj = SD.obj
    if flt and getattr(sd_obj, "pair_wit", None) is not None:
        P, src, dst, nf = flt[-1]
        wit = sd_obj.pair_wit
        r = wit[nm]
        SCk = F.SC[k]
        Sc = lambda f: z3.ForAll([nm], z3.Implies(z3.And(F.fhas(k, nm), z3.Not(F.isarr(k, p))), f))  # noqa: E731
        out += [("kept-positions-are-the-scalar-positions", z3.ForAll([j], z3.Implies(z3.And(0 <= j, j < nn), P[j] == SCk[j]))),
                ("scalars:rank-of-a-listed-position", z3.ForAll([nm], z3.Implies(F.fhas(k, nm), z3.And(rank(P, p) == rank(SCk, p), rank(SCk, p + 1) == rank(SCk, p) + z3.If(SCk[p], 1, 0),
                                                                                                      0 <= rank(SCk, p), rank(SCk, p + 1) <= rank(SCk, nn))))),
                ("scalars:listed", z3.ForAll([nm], z3.Implies(SD.member[nm], z3.And(0 <= r, 0 <= src[r], F.name(k, src[r]) == nm, P[src[r]], dst[src[r]] == r, F.fhas(k, nm), z3.Not(F.isarr(k, p)),
                                                                                   rank(P, p) == rank(SCk, p), SD.vals[nm] == F.scal(k, rank(SCk, p)))))),
                ("scalars:complete:1-kept", Sc(z3.And(P[p], 0 <= dst[p], dst[p] < nf, src[dst[p]] == p))),
                ("scalars:complete:2-rank", Sc(z3.And(dst[p] == rank(SCk, p), rank(SCk, p) < F.scal_n(k)))),
                ("scalars:complete:3-member", Sc(SD.member[nm]))]
    else:
        SCk = F.SC[k]
        out += [("scalars:rank-of-a-listed-position", z3.ForAll([nm], z3.Implies(F.fhas(k, nm), z3.And(rank(SCk, p + 1) == rank(SCk, p) + z3.If(SCk[p], 1, 0),
                                                                                                      0 <= rank(SCk, p), rank(SCk, p + 1) <= rank(SCk, nn))))),
                ("scalars:none", z3.ForAll([nm], z3.Not(z3.And(F.fhas(k, nm), z3.Not(F.isarr(k, p))))))]
    return out if READER_CONTENT_CLAUSES else []


def _stage_store(c):
    """... and right before ``database.store``: the merged dictionary is exactly the decoded point k."""
    F, k, NA, SD, dkeys, dpos = _rd(c)
    nm = z3.Const("nm!ss", StrS)
    if not READER_CONTENT_CLAUSES:
        return []
    return [("point:names", z3.ForAll([nm], SD.member[nm] == F.fhas(k, nm))),
            ("point:values", z3.ForAll([nm], z3.Implies(F.fhas(k, nm), SD.vals[nm] == F.fval(k, nm))))]


def _reader_inv(c, k):
    F = Node.of_ghost(c, "old")
    D0, D1 = c.old.database._Database__data, c.new.database._Database__data
    i, nm = z3.Int("i!ri"), z3.Const("nm!ri", StrS)
    rng = z3.And(0 <= i, i < k)
    e = lambda t: D1.vals[D1.keys[t]]  # noqa: E731
    empty = D0.n == 0
    out = [
        ("db-wf", db_wf(D1)),
        ("points", z3.Implies(empty, z3.And(D1.n == k, FA([i], z3.Implies(rng, D1.keys[i] == key_of(F.xval(i))), D1.keys[i])))),
    ]
    if READER_CONTENT_CLAUSES:
        out += [("names", z3.Implies(empty, z3.ForAll([i, nm], z3.Implies(rng, o_member(e(i))[nm] == F.fhas(i, nm))))),
                ("values", z3.Implies(empty, z3.ForAll([i, nm], z3.Implies(z3.And(rng, F.fhas(i, nm)), o_vals(e(i))[nm] == F.fval(i, nm)))))]
    return out


@register
class UpdateFromFile(Contract):
    """READER, index level: from a well-formed node (x = exactly 0..N-1, distinct arrays, well-formed records) the loop never raises
    (no KeyError on a missing dataset, no IndexError / ValueError while decoding, no duplicate key in the rebuilt dictionaries) and an
    empty database is rebuilt with exactly N points, the i-th one being x/<i>, in index order.
    CONTENT (clauses ``names`` / ``values``): the output names of the i-th point are exactly the names listed in k/<i> (fhas) and every
    value is the decoded one (fval: the array v/arr_<i>/<j>, or the scalar of v/<i> at the rank of position j among the scalar positions)."""

    targets = (HDF + ".update_from_file",)
    prop = ("C11",)
    params = {"database": DBT, "file_path": TStr, "hdf_node_path": TStr}
    modifies = ("database", "database._Database__hdf_database", "ghost:calllog", "ghost:calllog_n")
    c11_asserts = {"scalar_dict.update(names_to_arrays)": _stage_update, "database.store(array(design_vars_grp[str_index]), scalar_dict)": _stage_store}
    loops = {0: LoopSpec(anchor="range(len(design_vars_grp))", inv=_reader_inv,
                         modifies=("database", "database._Database__hdf_database", "ghost:calllog", "ghost:calllog_n"),
                         local_types={"str_index": TStr, "array_name": TStr, "keys": TList(TStr), "raw_index": TInt})}

    def axioms(self, c):
        return axioms_common()

    def requires(self, c):
        return [("db-wf", db_wf(c.old.database._Database__data))] + reader_file_wf(Node.of_ghost(c, "old"))

    def ensures(self, c):
        F = Node.of_ghost(c, "old")
        return [(l, f) for l, f in _reader_inv(c, F.Xn) if l != "db-wf"] + [("db-wf", db_wf(c.new.database._Database__data))]


# ---------------------------------------------------------------------------- index-level round trip / append == single export
def _free_node(tag):
    mk = lambda n, T: z3.Const(f"IL_{n}{tag}", T.sort())  # noqa: E731
    x, k, vd, va = mk("x", XG), mk("k", KG), mk("vd", VD), mk("va", VA)
    return Node(XG.acc(0)(x), XG.acc(1)(x), XG.acc(2)(x), KG.acc(0)(k), KG.acc(1)(k), VD.acc(0)(vd), VD.acc(1)(vd), VA.acc(0)(va), VA.acc(1)(va),
                z3.Const(f"IL_pos{tag}", POS_SORT), z3.Const(f"IL_sc{tag}", SC_SORT))


class _FreeDb:
    """An ordered dict view (database content) made of free constants, with the order facts of the dict model."""

    def __init__(self, tag):
        d = z3.Const(f"IL_db{tag}", DATA.sort())
        self.member, self.vals, self.n, self.keys, self.pos = (DATA.acc(t)(d) for t in range(5))

    def facts(self):
        p, i = z3.Const("p!fd", HNd.sort()), z3.Int("i!fd")
        return [self.n >= 0,
                z3.ForAll([p], z3.Implies(self.member[p], z3.And(0 <= self.pos[p], self.pos[p] < self.n, self.keys[self.pos[p]] == p)), patterns=[self.pos[p]]),
                z3.ForAll([i], z3.Implies(z3.And(0 <= i, i < self.n), z3.And(self.member[self.keys[i]], self.pos[self.keys[i]] == i)), patterns=[self.keys[i]])]


def exported_view(F: Node, D):
    """The postcondition of to_file (both branches)."""
    i = z3.Int("i!ev")
    inr = z3.And(0 <= i, i < D.n)
    return [f for _, f in index_view(F, D)] + [FA([i], z3.Implies(inr, F.Xm[sidx(i)]), sidx(i)), F.Xn == D.n,
                                               FA([i], z3.Implies(inr, F.nn(i) == o_n(point_names(D, i))), sidx(i))]


@register
class IndexRoundTripLemmas(Contract):
    """Lemmas over the contracts of to_file and update_from_file (index level):
    (1) the node written by to_file satisfies the reader's preconditions on x (exactly 0..N-1, pairwise distinct arrays);
    (2) reader(writer(db)) has the same points in the same order as db;
    (3) 'incremental append == single final export': two nodes that both satisfy to_file's postcondition for the same database -
        whatever interleaving of exports produced them - hold the same point at every index and list the same number of names for
        it, hence reload to databases with the same points in the same order."""

    targets = ()
    prop = ("C11",)
    lemma = True

    def lemmas(self):
        D, D1, D2 = _FreeDb(""), _FreeDb("1"), _FreeDb("2")
        Fa, Fb = _free_node("a"), _free_node("b")
        ax = [f for _, f in axioms_naming()]
        i, j = z3.Int("i!il"), z3.Int("j!il")
        hyp = z3.And(*ax, *D.facts(), *exported_view(Fa, D))
        reader_post = lambda F, Dr: z3.And(Dr.n == F.Xn, z3.ForAll([i], z3.Implies(z3.And(0 <= i, i < F.Xn), Dr.keys[i] == key_of(F.xval(i)))))  # noqa: E731
        same_points = lambda Da, Db: z3.And(Da.n == Db.n, z3.ForAll([i], z3.Implies(z3.And(0 <= i, i < Da.n), Da.keys[i] == Db.keys[i])))  # noqa: E731
        hyp2 = z3.And(hyp, *exported_view(Fb, D))
        return [
            ("writer-establishes-reader-precondition:x-exactly-0..N-1", z3.Implies(hyp, z3.ForAll([i], z3.Implies(z3.And(0 <= i, i < Fa.Xn), Fa.Xm[sidx(i)])))),
            ("writer-establishes-reader-precondition:x-distinct-points", z3.Implies(hyp, z3.ForAll([i, j], z3.Implies(z3.And(0 <= i, i < j, j < Fa.Xn), Fa.Xv[sidx(i)] != Fa.Xv[sidx(j)])))),
            ("reader(writer(db))-has-the-same-points-in-the-same-order", z3.Implies(z3.And(hyp, reader_post(Fa, D1)), same_points(D1, D))),
            ("append==single-export:same-point-at-every-index", z3.Implies(hyp2, z3.ForAll([i], z3.Implies(z3.And(0 <= i, i < D.n), z3.And(Fa.Xm[sidx(i)], Fb.Xm[sidx(i)], Fa.Xv[sidx(i)] == Fb.Xv[sidx(i)],
                                                                                                                                        Fa.nn(i) == Fb.nn(i)))))),
            ("append==single-export:same-reloaded-points", z3.Implies(z3.And(hyp2, reader_post(Fa, D1), reader_post(Fb, D2)), same_points(D1, D2))),
        ]


@register
class ValueRoundTripLemmas(Contract):
    """reader(writer(db)) == db at VALUE level, as a lemma over the contracts: if the node has the index view of to_file for the
    database D and the record of every point i encodes exactly the names and values of D's i-th point (``pt_is`` - the per-point
    postcondition of the writers, see PointRoundTripLemmas; its assembly into a file-level invariant of to_file is NOT proved, it is a
    hypothesis here), then the database rebuilt by update_from_file (postcondition of UpdateFromFile incl. its content clauses) has
    the same points in the same order, each with exactly the same output names and the same values."""

    targets = ()
    prop = ("C11",)
    lemma = True

    def lemmas(self):
        D, D1 = _FreeDb(""), _FreeDb("1")
        F = _free_node("a")
        i, nm = z3.Int("i!vr"), z3.Const("nm!vr", StrS)
        rng = z3.And(0 <= i, i < D.n)
        e0, e1 = D.vals[D.keys[i]], D1.vals[D1.keys[i]]
        per_point = z3.ForAll([i], z3.Implies(rng, z3.And(*[f for l, f in pt_is(F, i, o_member(e0), o_vals(e0)) if l in ("names", "values")])))
        reader = z3.And(D1.n == F.Xn, z3.ForAll([i], z3.Implies(z3.And(0 <= i, i < F.Xn), D1.keys[i] == key_of(F.xval(i)))),
                        z3.ForAll([i, nm], z3.Implies(z3.And(0 <= i, i < F.Xn), o_member(e1)[nm] == F.fhas(i, nm))),
                        z3.ForAll([i, nm], z3.Implies(z3.And(0 <= i, i < F.Xn, F.fhas(i, nm)), o_vals(e1)[nm] == F.fval(i, nm))))
        hyp = z3.And(*[f for _, f in axioms_naming()], *D.facts(), *exported_view(F, D), per_point, reader)
        return [
            ("same-points-in-the-same-order", z3.Implies(hyp, z3.And(D1.n == D.n, z3.ForAll([i], z3.Implies(rng, D1.keys[i] == D.keys[i]))))),
            ("same-output-names-per-point", z3.Implies(hyp, z3.ForAll([i, nm], z3.Implies(rng, z3.And(D1.keys[i] == D.keys[i], o_member(e1)[nm] == o_member(e0)[nm]))))),
            ("same-values-per-point", z3.Implies(hyp, z3.ForAll([i, nm], z3.Implies(z3.And(rng, o_member(e0)[nm]), z3.And(D1.keys[i] == D.keys[i], o_vals(e1)[nm] == o_vals(e0)[nm]))))),
        ]
