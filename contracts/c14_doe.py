"""C14 - DOE samples honour bounds, types, sample count and seed (gemseo's own side).

Layer A (driver level, design space seen through its C02 representation: ordered dictionaries, opaque bound arrays):
  BaseDOELibrary.compute_doe / _pre_run / __convert_unit_samples_to_samples / __enable_integer_variables_normalization /
  __reset_integer_variables_normalization / __check_unnormalization_capability, Seeder.get_seed, DiagonalDOE and CustomDOE unit samples.
  The abstract sampler `_generate_unit_samples` is an uninterpreted function of (algorithm, dimension, settings, default seed)
  with rows in [0,1]^d (assumed: third-party samplers); `DesignSpace.untransform_vect` is the uninterpreted function
  `c14_untransform` of the design-space state and the unit samples at this level.
Layer B (numerical level, cached normalisation data typed precisely as in c02_normalization): what untransform_vect computes on a
  batch (rank-2 array) of unit samples, integer rounding included, and the per-component lemmas (inside the bounds, integer values).
"""
from __future__ import annotations

import z3

from contracts import c02_design_space as D
from contracts import c02_normalization as N2
from pyvc import contract as C
from pyvc.contract import Contract, LoopSpec, register, schema
from pyvc.npmodel import TArr, np_round, round_axioms
from pyvc.values import TBool, TDict, TInt, TList, TObj, TOpt, TReal, TStr, TVal, declare_ghost, str_lit

DS = D.DS
BASE = "gemseo.algos.doe.base_doe_library.BaseDOELibrary"
SEEDER = "gemseo.utils.seeder.Seeder"
F1, F2, B1, I1 = TArr("f", 1), TArr("f", 2), TArr("b", 1), TArr("i", 1)

FLAG = "_DesignSpace__normalize_integer_variables"

# the design space at the driver level: its C02 representation, with the normalisation policies typed precisely
# (normalize[name] = one boolean per component of the variable: "this component is normalised", i.e. bounded on both sides)
POL = TDict(TStr, B1, ordered=True)
schema(DS + "#c14", {**C.class_schema(DS), "normalize": POL})
DSO = TObj(DS, schema_key=DS + "#c14")


def flag(s):
    return getattr(s, FLAG)


def fa(vs, body, *pats):
    """ForAll with explicit triggers when z3 accepts them (a select on a store / lambda term is not a valid trigger)."""
    from pyvc.values import _pattern_ok

    def ok(p):
        return all(_pattern_ok(p.arg(i)) for i in range(p.num_args())) if z3.is_app(p) and p.decl().name() == "pattern" else _pattern_ok(p)

    try:
        if pats and all(ok(p) for p in pats):
            return z3.ForAll(vs, body, patterns=list(pats))
    except z3.Z3Exception:
        pass
    return z3.ForAll(vs, body)


# ---------------------------------------------------------------------------- Seeder
schema(SEEDER, {"default_seed": TInt})


@register
class GetSeed(Contract):
    """A given seed is returned unchanged, otherwise the incremented default seed; the default seed is incremented exactly once per call either way."""

    targets = (SEEDER + ".get_seed",)
    prop = ("C14",)
    params = {"seed": TOpt(TInt)}
    returns = TInt
    modifies = ("self",)

    def ensures(self, c):
        s0, s1 = c.old.self, c.new.self
        seed = c.arg("seed")  # SV of type Optional[int]
        none = seed.ty.is_none(seed.term)
        res = c.result
        if isinstance(res, C.View):
            # `x if seed is None else seed`: the engine returns the (non-None on this path) optional itself
            res = res.ref.ty.dt.get(res.ref.term)
        return [("default-seed-incremented-exactly-once", s1.default_seed == s0.default_seed + 1),
                ("given-seed-returned-unchanged", z3.Implies(z3.Not(none), res == seed.ty.dt.get(seed.term))),
                ("default-seed-otherwise", z3.Implies(none, res == s0.default_seed + 1))]


# ---------------------------------------------------------------------------- the integer-normalisation flag
def ds_kept(s0, s1, *except_fields):
    """The design space is untouched (whole abstract view), except the listed fields."""
    return D._only_field_changed(s0, s1, *except_fields, caches_too=False)


def ds_structure_kept(s0, s1):
    """What a toggle of the flag keeps (C02 setter contract): variables (sizes, types, bounds), order, index ranges, current values, dimension."""
    return [("variables-kept", D.unchanged_dict(D.V(s1), D.V(s0))),
            ("indices-kept", D.unchanged_dict(D.I(s1), D.I(s0))),
            ("values-kept", D.unchanged_dict(D.CV(s1), D.CV(s0))),
            ("dimension-kept", s1.dimension == s0.dimension),
            ("policies-keep-their-order", D.same_key_order(D.N(s1), D.N(s0)))]


@register
class EnableIntegerVariablesNormalization(Contract):
    """Afterwards the flag is enabled; returns whether it had to be enabled (= it was disabled); an enabled design space is untouched."""

    targets = (BASE + ".__enable_integer_variables_normalization",)
    prop = ("C14",)
    params = {"design_space": DSO}
    returns = TBool
    modifies = ("design_space",)

    def requires(self, c):
        return D.wf(c.old.design_space)

    def ensures(self, c):
        s0, s1 = c.old.design_space, c.new.design_space
        return D.wf(s1) + [("flag-enabled", flag(s1)),
                           ("returns-whether-it-was-disabled", c.result == z3.Not(flag(s0)))] + ds_structure_kept(s0, s1) + \
            [(f"untouched-when-already-enabled:{l}", z3.Implies(flag(s0), f)) for l, f in ds_kept(s0, s1)]


@register
class ResetIntegerVariablesNormalization(Contract):
    """The flag is disabled again iff it had to be enabled; otherwise the design space is untouched."""

    targets = (BASE + ".__reset_integer_variables_normalization",)
    prop = ("C14",)
    params = {"design_space": DSO, "enabled": TBool}
    modifies = ("design_space",)

    def requires(self, c):
        return D.wf(c.old.design_space)

    def ensures(self, c):
        s0, s1 = c.old.design_space, c.new.design_space
        en = c.old.enabled
        return D.wf(s1) + [("flag-reset", flag(s1) == z3.If(en, z3.BoolVal(False), flag(s0)))] + ds_structure_kept(s0, s1) + \
            [(f"untouched-when-not-enabled-by-us:{l}", z3.Implies(z3.Not(en), f)) for l, f in ds_kept(s0, s1)]


# ---------------------------------------------------------------------------- unnormalisation capability
def some_component_not_normalizable(s):
    """Some component of some variable has a False normalisation policy (it is unbounded on one side)."""
    n = D.N(s)
    k, j = z3.Const("k!nn", TStr.sort()), z3.Int("j!nn")
    pol = n.vals[k]
    # (pos[k] >= 0 holds for every member; it is mentioned so that the order view of the dictionary is instantiated at k)
    return z3.Exists([k, j], z3.And(n.member[k], n.pos[k] >= 0, 0 <= j, j < B1.dim(pol), z3.Not(B1.els(pol)[j])))


@register
class CheckUnnormalizationCapability(Contract):
    """Raises ValueError iff some component of the design space is not normalisable; changes nothing."""

    targets = (BASE + ".__check_unnormalization_capability",)
    prop = ("C14",)
    numpy = "precise"
    c14 = True
    params = {"design_space": DSO}
    raises = {"ValueError": lambda c: some_component_not_normalizable(c.old.design_space)}


# ---------------------------------------------------------------------------- driver level: compute_doe / _pre_run
EP = "gemseo.algos.evaluation_problem.EvaluationProblem"
DRV = "gemseo.algos.base_driver_library.BaseDriverLibrary"
ALG = "gemseo.algos.base_algorithm_library.BaseAlgorithmLibrary"
KW = TDict(TStr, TVal)  # validated settings / **settings
StrS, ValS = TStr.sort(), TVal.sort()

schema(EP + "#c14", {"_stop_if_nan": TBool, "design_space": DSO})
schema(BASE + "#c14", {"_algo_name": TStr, "unit_samples": F2, "samples": F2, "_seeder": TObj(SEEDER)})
PROBLEM = TObj(EP, schema_key=EP + "#c14")

# abstract design-space state in which DesignSpace.untransform_vect was last called (ghost)
declare_ghost("c14_ut_flag", z3.BoolSort())
declare_ghost("c14_ut_vars", D.VARS.sort())
declare_ghost("c14_ut_norm", POL.sort())
UT_GHOSTS = ("ghost:c14_ut_flag", "ghost:c14_ut_vars", "ghost:c14_ut_norm")

# uninterpreted functions of this level
untransform = z3.Function("c14_untransform", z3.BoolSort(), D.VARS.sort(), POL.sort(), F2.sort(), F2.sort())
gen_unit = z3.Function("c14_unit_samples", StrS, z3.IntSort(), KW.sort(), z3.IntSort(), F2.sort())  # (algorithm, dimension, settings, default seed)
validated = z3.Function("c14_validated_settings", StrS, ValS, KW.sort(), KW.sort())  # (algorithm, settings model, **settings)
filtered = z3.Function("c14_filtered_settings", KW.sort(), StrS, KW.sort())  # (settings, model to exclude)
invalid_settings = z3.Function("c14_invalid_settings", StrS, ValS, KW.sort(), z3.BoolSort())


def arr2(a):
    """Embedded term of a rank-2 array view."""
    return F2.dt.mk(a.obj.shape[0], a.obj.shape[1], a.obj.elems)


def kw_term(d):
    return KW.dt.mk(d.member, d.vals, d.n)


def vars_term(s):
    v = D.V(s)
    return D.VARS.dt.mk(v.member, v.vals, v.n, v.keys, v.pos)


def norm_term(s):
    n = D.N(s)
    return POL.dt.mk(n.member, n.vals, n.n, n.keys, n.pos)


class TermDict:
    """Read access to an embedded ordered dict term (same interface as a dict view)."""

    def __init__(self, ty, term):
        self.member, self.vals, self.n, self.keys, self.pos = (ty.acc(i)(term) for i in range(5))

    def has(self, k):
        return self.member[k]


def ut_ghosts(c, new=True):
    g = c.new_ghost if new else c.old_ghost
    return g("c14_ut_flag", z3.BoolSort()), g("c14_ut_vars", D.VARS.sort()), g("c14_ut_norm", POL.sort())


NUM_CACHE_FIELDS = ("_DesignSpace__norm_data_is_computed", "_DesignSpace__lower_bounds_array", "_DesignSpace__upper_bounds_array", "_norm_factor",
                    "_norm_factor_inv", "_DesignSpace__norm_inds", "_DesignSpace__integer_components", "_DesignSpace__no_integer", "_DesignSpace__common_dtype")


def el2(a, r, i):
    return z3.Select(a.obj.elems, r, i)


@register
class UntransformVectAbstract(Contract):
    targets = (DS + ".untransform_vect",)
    variant = "c14"
    prop = ("C14",)
    self_schema = DS + "#c14"
    numpy = "precise"
    params = {"vector": F2, "no_check": TBool}
    returns = F2
    modifies = ("self",) + UT_GHOSTS
    trusted = True
    description = ("assumed (driver level): untransform_vect(x, no_check=True) returns a new array of the shape of x that is a deterministic function "
                   "(c14_untransform) of the integer-normalisation flag, the variables (order, sizes, types, bounds), the normalisation policies and x; it only "
                   "refreshes the cached normalisation data of the design space.  What it computes per component is PROVED at the numerical level "
                   "(UnnormalizeVectBatch, RoundVectBatch, UnitCubeLemmas) under the validity of the cached data (C02: wfnum)")

    def requires(self, c):
        return [("out-is-none", c.arg("out") is None)]

    def ensures(self, c):
        s0, s1 = c.old.self, c.new.self
        gf, gv, gn = ut_ghosts(c)
        x, r = c.old.vector, c.result
        return [("state-recorded", z3.And(gf == flag(s0), gv == vars_term(s0), gn == norm_term(s0))),
                ("image", arr2(r) == untransform(gf, gv, gn, arr2(x))),
                ("shape", z3.And(r.obj.shape[0] == x.obj.shape[0], r.obj.shape[1] == x.obj.shape[1])),
                ("fresh-result", z3.BoolVal(c.result.ref.id != c.old.vector.ref.id)),
                ] + ds_kept(s0, s1, *NUM_CACHE_FIELDS)


@register
class GenerateUnitSamplesAbstract(Contract):
    targets = (BASE + "._generate_unit_samples",)
    prop = ("C14",)
    self_schema = BASE + "#c14"
    numpy = "precise"
    params = {"design_space": DSO, "settings": KW}
    returns = F2
    modifies = ("self._seeder",)
    trusted = True
    description = ("assumed (abstract method; SciPy / OpenTURNS / pyDOE samplers are out of reach): the unit samples are a deterministic function of "
                   "(algorithm name, design-space dimension, validated settings, default seed of the library's Seeder), one column per component of the "
                   "design space, every entry in [0,1]; only the Seeder may change.  DiagonalDOE and CustomDOE are verified against their own contracts")

    def ensures(self, c):
        s0 = c.old.self
        r = c.result
        a, b = z3.Int("r!gu"), z3.Int("i!gu")
        return [("deterministic", arr2(r) == gen_unit(s0._algo_name, c.old.design_space.dimension, kw_term(c.old.settings), s0._seeder.default_seed)),
                ("one-column-per-component", r.obj.shape[1] == c.old.design_space.dimension),
                ("in-unit-hypercube", z3.ForAll([a, b], z3.Implies(z3.And(0 <= a, a < r.obj.shape[0], 0 <= b, b < r.obj.shape[1]),
                                                                  z3.And(0 <= el2(r, a, b), el2(r, a, b) <= 1)), patterns=[el2(r, a, b)]))]


@register
class ValidateSettingsAbstract(Contract):
    targets = (ALG + "._validate_settings",)
    variant = "c14"
    prop = ("C14",)
    self_schema = BASE + "#c14"
    params = {"settings_model": TVal, "settings": KW}
    returns = KW
    raises = {"ValueError": lambda c: invalid_settings(c.old.self._algo_name, c.arg("settings_model").term, kw_term(c.old.settings))}
    trusted = True
    description = ("assumed (pydantic): _validate_settings either raises a ValidationError (a ValueError) or returns a new dictionary that is a deterministic "
                   "function of the algorithm, the settings model and the settings; it changes nothing")

    def ensures(self, c):
        return [("deterministic", kw_term(c.result) == validated(c.old.self._algo_name, c.arg("settings_model").term, kw_term(c.old.settings)))]


@register
class FilterSettingsAbstract(Contract):
    targets = (ALG + "._filter_settings",)
    variant = "c14"
    prop = ("C14",)
    params = {"settings": KW}
    returns = KW
    trusted = True
    description = ("assumed (pydantic model_fields): _filter_settings returns a new dictionary that is a deterministic function of the settings and of the "
                   "excluded model; no DOE settings model has a field named `self` or `design_space`")

    def ensures(self, c):
        r = c.result
        return [("deterministic", kw_term(r) == filtered(kw_term(c.old.settings), str_lit(c.arg("model_to_exclude").qualname))),
                ("no-parameter-name", z3.And(z3.Not(r.member[str_lit("self")]), z3.Not(r.member[str_lit("design_space")])))]


@register
class StopIfNanSetterAbstract(Contract):
    targets = (EP + ".stop_if_nan",)
    setter = True
    variant = "c14"
    prop = ("C14",)
    self_schema = EP + "#c14"
    params = {"value": TBool}
    modifies = ("self",)
    trusted = True
    description = "assumed: the stop_if_nan setter only sets the flag of the problem and of its functions (the design space is untouched)"

    def ensures(self, c):
        v = c.old.value
        return [("flag-set", c.new.self._stop_if_nan == (z3.BoolVal(v) if isinstance(v, bool) else v))]


@register
class InitIterObserverAbstract(Contract):
    targets = (DRV + "._init_iter_observer",)
    variant = "c14"
    prop = ("C14",)
    self_schema = BASE + "#c14"
    params = {"problem": PROBLEM, "max_iter": TInt}
    trusted = True
    description = ("assumed (C03 domain): _init_iter_observer only sets the evaluation counter of the problem and the progress bar / start time of the "
                   "library (state not under contract here)")


CALLEES = {DS + ".untransform_vect": "c14", ALG + "._validate_settings": "c14", ALG + "._filter_settings": "c14", EP + ".stop_if_nan#setter": "c14",
           DRV + "._init_iter_observer": "c14"}


def types_valid(s):
    v = D.V(s)
    k = z3.Const("k!tv", TStr.sort())
    ty = D.VAR.accessor("type")(v.vals[k])
    return z3.ForAll([k], z3.Implies(v.has(k), z3.Or(ty == str_lit("float"), ty == str_lit("integer"))))


def image_clauses(c, s0, result, unit, label="samples"):
    """`result` is the image, under the design space with integer normalisation enabled and the entry variables, of `unit`."""
    gf, gv, gn = ut_ghosts(c)
    return [(f"{label}-are-the-design-space-image-of-the-unit-samples", arr2(result) == untransform(gf, gv, gn, arr2(unit))),
            ("integer-normalization-enabled-for-the-transformation", gf),
            ("transformed-with-the-entry-variables", D.unchanged_dict(TermDict(D.VARS, gv), D.V(s0))),
            ("transformed-with-policies-in-variable-order", D.same_key_order(TermDict(POL, gn), D.V(s0)))]


@register
class ConvertUnitSamplesToSamples(Contract):
    """The samples are untransform_vect(unit samples, no_check=True); the design space is untouched (up to its normalisation caches)."""

    targets = (BASE + ".__convert_unit_samples_to_samples",)
    prop = ("C14",)
    self_schema = BASE + "#c14"
    numpy = "precise"
    c14 = True
    callee_variants = CALLEES
    params = {"problem": PROBLEM}
    returns = F2
    modifies = ("problem.design_space",) + UT_GHOSTS

    def requires(self, c):
        s = c.old.problem.design_space
        return D.wf(s) + [("variable-types-are-valid", types_valid(s))]

    def ensures(self, c):
        s0, s1 = c.old.problem.design_space, c.new.problem.design_space
        gf, gv, gn = ut_ghosts(c)
        u = c.old.self.unit_samples
        return [("image", arr2(c.result) == untransform(gf, gv, gn, arr2(u))),
                ("transformed-in-the-entry-state", z3.And(gf == flag(s0), gv == vars_term(s0), gn == norm_term(s0))),
                ("shape", z3.And(c.result.obj.shape[0] == u.obj.shape[0], c.result.obj.shape[1] == u.obj.shape[1]))] + ds_kept(s0, s1, *NUM_CACHE_FIELDS)


@register
class ComputeDOE(Contract):
    """Unit sampling: the unit samples of the algorithm, the design space untouched.  Otherwise: their image by untransform_vect, computed with
    integer normalisation enabled; the flag has its entry value on return and the variables are untouched."""

    targets = (BASE + ".compute_doe",)
    prop = ("C14",)
    self_schema = BASE + "#c14"
    numpy = "precise"
    c14 = True
    callee_variants = CALLEES
    params = {"variables_space": DSO, "unit_sampling": TBool, "settings_model": TVal, "settings": KW}
    returns = F2
    modifies = ("variables_space", "self._seeder") + UT_GHOSTS
    raises = {"ValueError": None}

    def requires(self, c):
        return D.wf(c.old.variables_space)

    def unit(self, c):
        s = c.old.self
        st = filtered(validated(s._algo_name, c.arg("settings_model").term, kw_term(c.old.settings)), str_lit("gemseo.algos.doe.base_doe_settings.BaseDOESettings"))
        return gen_unit(s._algo_name, c.old.variables_space.dimension, st, s._seeder.default_seed)

    def ensures(self, c):
        s0, s1 = c.old.variables_space, c.new.variables_space
        us = c.old.unit_sampling
        us = z3.BoolVal(us) if isinstance(us, bool) else us
        gf, gv, gn = ut_ghosts(c)
        r = arr2(c.result)
        unit = self.unit(c)
        out = [("unit-sampling:the-unit-samples", z3.Implies(us, r == unit)),
               ("samples-are-the-design-space-image-of-the-unit-samples", z3.Implies(z3.Not(us), r == untransform(gf, gv, gn, unit))),
               ("integer-normalization-enabled-for-the-transformation", z3.Implies(z3.Not(us), gf)),
               ("transformed-with-the-entry-variables", z3.Implies(z3.Not(us), D.unchanged_dict(TermDict(D.VARS, gv), D.V(s0)))),
               ("integer-normalization-flag-restored", flag(s1) == flag(s0)),
               ("sample-count-and-dimension", z3.And(F2.dim(r, 0) == F2.dim(unit, 0), F2.dim(r, 1) == F2.dim(unit, 1)))]
        out += D.wf(s1) + ds_structure_kept(s0, s1)
        out += [(f"unit-sampling:design-space-untouched:{l}", z3.Implies(us, f)) for l, f in ds_kept(s0, s1)]
        return out


@register
class PreRun(Contract):
    """unit_samples = the unit samples of the algorithm for the filtered settings; samples = their image by untransform_vect computed with integer
    normalisation enabled; the flag has its entry value on return and the variables are untouched."""

    targets = (BASE + "._pre_run",)
    prop = ("C14",)
    self_schema = BASE + "#c14"
    numpy = "precise"
    c14 = True
    callee_variants = CALLEES
    params = {"problem": PROBLEM, "settings": KW}
    modifies = ("self", "self._seeder", "problem", "problem.design_space") + UT_GHOSTS
    raises = {"ValueError": None}

    def requires(self, c):
        s = c.old.problem.design_space
        return D.wf(s) + [("variable-types-are-valid", types_valid(s))]

    def ensures(self, c):
        s0, s1 = c.old.problem.design_space, c.new.problem.design_space
        me0, me1 = c.old.self, c.new.self
        gf, gv, gn = ut_ghosts(c)
        unit = gen_unit(me0._algo_name, s0.dimension, filtered(kw_term(c.old.settings), str_lit("gemseo.algos.doe.base_doe_settings.BaseDOESettings")),
                        me0._seeder.default_seed)
        return [("unit-samples-of-the-algorithm", arr2(me1.unit_samples) == unit),
                ("samples-are-the-design-space-image-of-the-unit-samples", arr2(me1.samples) == untransform(gf, gv, gn, arr2(me1.unit_samples))),
                ("integer-normalization-enabled-for-the-transformation", gf),
                ("transformed-with-the-entry-variables", D.unchanged_dict(TermDict(D.VARS, gv), D.V(s0))),
                ("integer-normalization-flag-restored", flag(s1) == flag(s0)),
                ("same-design-space", z3.BoolVal(c.new.problem.design_space.ref.id == c.old.problem.design_space.ref.id)),
                ("algorithm-kept", me1._algo_name == me0._algo_name),
                ] + D.wf(s1) + ds_structure_kept(s0, s1)


# ---------------------------------------------------------------------------- DiagonalDOE
from pyvc.plug_c14 import TKw, hstack_axioms, hs_blk, hs_off, lin_t, linspace_definition, str_of_int  # noqa: E402

DIAG = "gemseo.algos.doe.diagonal_doe.diagonal_doe.DiagonalDOE"
schema(DIAG, dict(C.class_schema(BASE + "#c14")))
NBI = TDict(TInt, TStr)
LSTR = TList(TStr)


def in_list(L, x):
    i = z3.Int("i!il")
    return z3.Exists([i], z3.And(0 <= i, i < L.n, L.elems[i] == x))


def comp_range_ok(s, name, x):
    """Component x lies in the index range of variable `name`."""
    v, ix = D.V(s), D.I(s)
    return z3.And(v.has(name), D.start(ix.vals[name]) <= x, x < D.stop(ix.vals[name]))


def _diag_off(s, k):
    v, ix = D.V(s), D.I(s)
    return z3.If(k < v.n, D.start(ix.vals[v.keys[k]]), s.dimension)


def _nbi_facts(s, nbi, upto):
    x = z3.Int("x!nbi")
    return [("components-named-so-far", fa([x], nbi.member[x] == z3.And(0 <= x, x < upto), nbi.member[x])),
            ("names-are-the-owners", fa([x], z3.Implies(z3.And(0 <= x, x < upto), comp_range_ok(s, nbi.vals[x], x)), nbi.vals[x]))]


def _diag_inv0(c, k):
    s = c.old.design_space
    v = D.V(s)
    # (keys[k - 1] and keys[k] are mentioned so that the adjacency clause of the representation invariant is instantiated at (k - 1, k))
    return [("start-is-the-offset", z3.And(c.locals["start"] == _diag_off(s, k), z3.Implies(z3.And(k >= 1, k < v.n), v.has(v.keys[k - 1]) == v.has(v.keys[k])))),
            ("start-nonnegative", c.locals["start"] >= 0)] + \
        _nbi_facts(s, c.locals["name_by_index"], c.locals["start"])


def _diag_inv1(c, j):
    s = c.old.design_space
    return [("same-variable", z3.And(c.locals["start"] == c.pre_locals["start"], c.locals["size"] == c.pre_locals["size"]))] + \
        _nbi_facts(s, c.locals["name_by_index"], c.locals["start"] + j)


def _kw_field(c, name):
    o = c.st.heap[c.arg("settings").id]
    return C.View(c._old_heap, o.vals[name], c.st)._wrap(o.vals[name])


def diag_column_value(c, rev_j, r):
    n = _kw_field(c, "n_samples")
    return z3.If(rev_j, 1 - lin_t(r, n), lin_t(r, n))


def _diag_inv2(c, k):
    s = c.old.design_space
    n = _kw_field(c, "n_samples")
    rev = _kw_field(c, "reverse")
    nbi = c.locals["name_by_index"]
    smp = c.locals["samples"]
    j, r = z3.Int("j!d2"), z3.Int("r!d2")
    col = smp.elems[j]
    rev_j = z3.Or(in_list(rev, str_of_int(j)), in_list(rev, nbi.vals[j]))
    return [("one-column-per-component-so-far", smp.n == k),
            ("column-shapes", fa([j], z3.Implies(z3.And(0 <= j, j < k), z3.And(F2.dim(col, 0) == n, F2.dim(col, 1) == 1)), smp.elems[j])),
            ("column-values", fa([j, r], z3.Implies(z3.And(0 <= j, j < k, 0 <= r, r < n), z3.Select(F2.els(col), r, 0) == diag_column_value(c, rev_j, r)),
                                 z3.Select(F2.els(col), r, 0))),
            ] + _nbi_facts(s, nbi, s.dimension)


@register
class DiagonalGenerateUnitSamples(Contract):
    """n_samples rows, one column per component of the design space (in its variable order); column j is linspace(0, 1, n_samples), or
    linspace(1, 0, n_samples) when "j" or the name of the variable owning component j is listed in `reverse`; every entry lies in [0, 1]."""

    targets = (DIAG + "._generate_unit_samples",)
    prop = ("C14",)
    numpy = "precise"
    c14 = True
    params = {"design_space": DSO, "settings": TKw({"n_samples": TInt, "reverse": LSTR})}
    returns = F2
    raises = {"ValueError": lambda c: c.old.design_space.dimension == 0}
    loops = {
        0: LoopSpec(anchor="design_space", inv=_diag_inv0, modifies=("name_by_index",), local_types={"name_by_index": NBI, "size": TInt, "index": TInt, "name": TStr}),
        1: LoopSpec(anchor="range(start, start + size)", inv=_diag_inv1, modifies=("name_by_index",), local_types={"name_by_index": NBI, "index": TInt}),
        2: LoopSpec(anchor="range(design_space.dimension)", inv=_diag_inv2, modifies=("samples",), local_types={"samples": TList(F2), "index": TInt}),
    }

    def axioms(self, c):
        from pyvc.plug_c14 import linspace_facts

        return [(f"linspace-t:{i}", f) for i, f in enumerate(linspace_facts())]

    def requires(self, c):
        # n_samples >= 2: validated by DiagonalDOE_Settings (ge=2) at every call site (compute_doe / execute validate the settings)
        return D.wf(c.old.design_space) + [("at-least-two-samples", _kw_field(c, "n_samples") >= 2)]

    def ensures(self, c):
        s = c.old.design_space
        n = _kw_field(c, "n_samples")
        rev = _kw_field(c, "reverse")
        res = c.result
        r, j = z3.Int("r!dg"), z3.Int("j!dg")
        # the variable owning component j: the design space's index ranges are disjoint (C02 invariant), so "a variable whose index range
        # contains j" is "the" variable; the clause names the one the function looked up (local name_by_index)
        owner = c.locals["name_by_index"].vals[j]
        e = el2(res, r, j)
        rng = z3.And(0 <= r, r < n, 0 <= j, j < s.dimension)
        rev_j = z3.Or(in_list(rev, str_of_int(j)), in_list(rev, owner))
        return [("exactly-n-samples-rows", res.obj.shape[0] == n),
                ("one-column-per-component", res.obj.shape[1] == s.dimension),
                ("entries-in-unit-interval", fa([r, j], z3.Implies(rng, z3.And(0 <= e, e <= 1)), e)),
                ("column-is-linspace-or-reversed-linspace", fa([r, j], z3.Implies(rng, z3.Or(e == lin_t(r, n), e == 1 - lin_t(r, n))), e)),
                ("reversed-exactly-when-requested", fa([r, j], z3.Implies(rng, z3.And(comp_range_ok(s, owner, j), e == diag_column_value(c, rev_j, r))), e))]


# ---------------------------------------------------------------------------- numerical level: batches of unit samples
def relem(a, r, i):
    """Element (r, i) of a rank-2 array view as a real."""
    e = z3.Select(a.obj.elems, r, i)
    return z3.ToReal(e) if a.obj.kind == "i" else e


def rounded_if_integer(d, i, t):
    return z3.If(N2.el(d.ic, i), np_round(t), t)


@register
class RoundVectBatch(Contract):
    """Row by row: integer components are rounded (numpy.round), the others are kept; in place unless `copy`."""

    targets = (DS + ".round_vect",)
    variant = "batch"
    prop = ("C14",)
    self_schema = DS + "#num"
    numpy = "precise"
    c14 = True
    params = {"x_vect": F2, "copy": TBool}
    returns = F2
    modifies = ("x_vect",)

    def requires(self, c):
        s = c.old.self
        return N2.wfnum(s) + [("one-column-per-component", c.old.x_vect.obj.shape[1] == N2.S(s).dim)]

    def ensures(self, c):
        d = N2.S(c.old.self)
        x0, x1, res = c.old.x_vect, c.new.x_vect, c.result
        r, i = z3.Int("r!rb"), z3.Int("i!rb")
        cp = c.old.copy
        cp = z3.BoolVal(cp) if isinstance(cp, bool) else cp
        rng = z3.And(0 <= r, r < x0.obj.shape[0], 0 <= i, i < d.dim)
        return [("shape", z3.And(res.obj.shape[0] == x0.obj.shape[0], res.obj.shape[1] == d.dim)),
                ("rounded", fa([r, i], z3.Implies(rng, el2(res, r, i) == rounded_if_integer(d, i, el2(x0, r, i))), el2(res, r, i))),
                ("in-place-unless-copy", fa([r, i], z3.Implies(rng, el2(x1, r, i) == z3.If(cp, el2(x0, r, i), el2(res, r, i))), el2(x1, r, i))),
                ("argument-shape-kept", z3.And(x1.obj.shape[0] == x0.obj.shape[0], x1.obj.shape[1] == x0.obj.shape[1]))]


@register
class UnnormalizeVectBatch(Contract):
    """What untransform_vect(unit samples, no_check=True) computes on a batch, row by row and component by component (so: in the design space's
    component order): u (ub - lb) + lb on normalised components, u elsewhere, then numpy.round on the integer components."""

    targets = (DS + ".unnormalize_vect",)
    variant = "batch"
    prop = ("C14",)
    self_schema = DS + "#num"
    numpy = "precise"
    c14 = True
    callee_variants = {DS + ".round_vect": "batch"}
    params = {"x_vect": F2, "no_check": TBool}
    returns = F2

    def requires(self, c):
        s = c.old.self
        d = N2.S(s)
        # (no assumption on the common dtype of the current values: since the repair 4832538 the result is cast to integers only when every
        # component is an integer component - `recast_to_int = bool(self.__integer_components.all())` - so the clauses hold for every dtype;
        # `monotone-lemma` is proved as C02 MonotoneLemma, wfnum is established by C02 UpdateNormalizationVars@lnk)
        return N2.wfnum(s) + [("one-column-per-component", c.old.x_vect.obj.shape[1] == d.dim), ("monotone-lemma", N2.increasing_implies_distinct(d)),
                              ("out-is-none", c.arg("out") is None)]

    def axioms(self, c):
        t = z3.Real("t!ra")
        return [("numpy.round-is-integer-valued", z3.ForAll([t], z3.IsInt(np_round(t)), patterns=[np_round(t)]))]

    def ensures(self, c):
        d = N2.S(c.old.self)
        x, res = c.old.x_vect, c.result
        r, j, i = z3.Int("r!ub"), z3.Int("j!ub"), z3.Int("i!ub")
        nij = N2.el(d.ni, j)
        rows = z3.And(0 <= r, r < x.obj.shape[0])
        # (written with the cached norm factor: _norm_factor[i] = ub[i] - lb[i] by the validity of the cached data - clause `norm-factor` of wfnum)
        affine = el2(x, r, nij) * N2.el(d.nf, nij) + N2.el(d.lb, nij)
        return [("shape", z3.And(res.obj.shape[0] == x.obj.shape[0], res.obj.shape[1] == d.dim)),
                ("normalized-components", z3.ForAll([r, j], z3.Implies(z3.And(rows, 0 <= j, j < N2.ln(d.ni)), relem(res, r, nij) == rounded_if_integer(d, nij, affine)))),
                ("other-components", z3.ForAll([r, i], z3.Implies(z3.And(rows, 0 <= i, i < d.dim, N2.not_normalized(d, i)),
                                                                  relem(res, r, i) == rounded_if_integer(d, i, el2(x, r, i))))),
                ("unit-samples-untouched", z3.BoolVal(c.result.ref.id != c.old.x_vect.ref.id))]


# ---------------------------------------------------------------------------- lemmas (pure SMT)
@register
class UnitCubeLemmas(Contract):
    """Per component, over the formulas proved for untransform_vect (UnnormalizeVectBatch) and the numpy.round axioms:
    a unit sample lands inside the bounds; with integer bounds the rounded value is an integer inside the bounds."""

    targets = ()
    prop = ("C14",)
    lemma = True

    def lemmas(self):
        u, lb, ub, nf, x = z3.Reals("u lb ub nf x")
        U = u * nf + lb  # noqa: N806  (what UnnormalizeVectBatch proves for a normalised component, nf = ub - lb by wfnum)
        rx = np_round(x)
        rax = z3.And(*round_axioms(x))
        unit = z3.And(0 <= u, u <= 1)
        LL, BB, RR = (z3.ToReal(v) for v in z3.Ints("L B R"))  # noqa: N806
        return [
            ("unit-sample-lands-inside-the-bounds", z3.Implies(z3.And(unit, lb <= ub, nf == ub - lb), z3.And(lb <= U, U <= ub))),
            ("end-points", z3.Implies(nf == ub - lb, z3.And(z3.substitute(U, (u, z3.RealVal(0))) == lb, z3.substitute(U, (u, z3.RealVal(1))) == ub))),
            ("equal-bounds-give-the-bound", z3.Implies(z3.And(lb == ub, nf == ub - lb), U == lb)),
            ("monotone-in-the-unit-sample", z3.Implies(z3.And(lb <= ub, nf == ub - lb, u <= x), U <= x * nf + lb)),
            ("rounded-value-is-an-integer", z3.Implies(rax, z3.IsInt(rx))),
            # integer bounds L <= x <= B and an integer-valued R within 1/2 of x (= numpy.round(x), integer-valued by the first axiom), written with
            # integer variables (linear integer-real arithmetic; with is_int over real-sorted terms z3 does not terminate)
            ("rounding-stays-inside-integer-bounds", z3.Implies(z3.And(RR - x <= z3.Q(1, 2), x - RR <= z3.Q(1, 2), LL <= x, x <= BB), z3.And(LL <= RR, RR <= BB))),
            ("unit-bounds:identity", z3.Implies(z3.And(lb == 0, ub == 1, nf == ub - lb), U == u)),
            ("rounding-keeps-integer-samples", z3.Implies(z3.And(rax, z3.IsInt(x)), rx == x)),
        ]


@register
class LinspaceLemmas(Contract):
    """Bounds and end points of t(i, n) = i / (n - 1) from its definition (facts handed to the provers by the linspace model)."""

    targets = ()
    prop = ("C14",)
    lemma = True

    def lemmas(self):
        i, n = z3.Ints("i n")
        t = lin_t(i, n)
        defn = linspace_definition()
        return [("bounds", z3.Implies(z3.And(defn, n >= 2, 0 <= i, i <= n - 1), z3.And(0 <= t, t <= 1))),
                ("first-point", z3.Implies(z3.And(defn, n >= 2), lin_t(0, n) == 0)),
                ("last-point", z3.Implies(z3.And(defn, n >= 2), lin_t(n - 1, n) == 1)),
                ("increasing", z3.Implies(z3.And(defn, n >= 2, lin_t(i + 1, n) == lin_t(i + 1, n)), lin_t(i, n) < lin_t(i + 1, n))),
                ("positive-after-the-first-point", z3.Implies(z3.And(defn, n >= 2, 1 <= i), t > 0))]


@register
class HstackLemmas(Contract):
    """Induction (base + step) for the consequences of the recursive offset definition that the hstack model hands to the provers."""

    targets = ()
    prop = ("C14",)
    lemma = True

    def lemmas(self):
        lens = z3.Const("lens", z3.ArraySort(z3.IntSort(), z3.IntSort()))
        n, m, k, a, b, i, j = z3.Ints("n m k a b i j")
        off = lambda t: hs_off(lens, t)  # noqa: E731
        defn = z3.And(off(0) == 0, z3.ForAll([k], z3.Implies(z3.And(0 <= k, k < n), z3.And(off(k + 1) == off(k) + lens[k], lens[k] >= 0)), patterns=[off(k + 1)]))
        mono = lambda top: z3.ForAll([a, b], z3.Implies(z3.And(0 <= a, a <= b, b <= top), off(a) <= off(b)), patterns=[z3.MultiPattern(off(a), off(b))])  # noqa: E731
        block = lambda top: z3.ForAll([i], z3.Implies(z3.And(0 <= i, i < off(top)), z3.Exists([b], z3.And(0 <= b, b < top, off(b) <= i, i < off(b + 1)))))  # noqa: E731
        return [("monotone:base", z3.Implies(defn, mono(z3.IntVal(0)))),
                ("monotone:step", z3.Implies(z3.And(defn, 0 <= m, m < n, mono(m), off(m + 1) == off(m + 1)), mono(m + 1))),
                # existence of the block of a position, by induction on the number of blocks; the step is written with explicit witnesses
                # (b0: the block given by the induction hypothesis when i < off(m); m otherwise), so that no existential has to be guessed
                ("block-of-position:base", z3.Implies(defn, block(z3.IntVal(0)))),
                ("block-of-position:step", z3.Implies(z3.And(defn, 0 <= m, m < n, 0 <= i, i < off(m + 1),
                                                             z3.Implies(i < off(m), z3.And(0 <= b, b < m, off(b) <= i, i < off(b + 1)))),
                                                      z3.Or(z3.And(0 <= b, b < m + 1, off(b) <= i, i < off(b + 1)), z3.And(0 <= m, m < m + 1, off(m) <= i, i < off(m + 1))))),
                ("position-in-range", z3.Implies(z3.And(defn, mono(n), 0 <= k, k < n, 0 <= j, j < lens[k], off(k + 1) == off(k + 1), off(n) == off(n)),
                                                 z3.And(0 <= off(k) + j, off(k) + j < off(n))))]


# ---------------------------------------------------------------------------- CustomDOE
from pyvc.values import TNone  # noqa: E402

CUSTOM = "gemseo.algos.doe.custom_doe.custom_doe.CustomDOE"
schema(CUSTOM, dict(C.class_schema(BASE + "#c14")))
transform_vect = z3.Function("c14_transform_vect", z3.BoolSort(), D.VARS.sort(), POL.sort(), F1.sort(), F1.sort())


def row_term(a, r):
    i = z3.Int("i!tr")
    return F1.dt.mk(a.obj.shape[1], z3.Lambda([i], z3.Select(a.obj.elems, r, i)))


@register
class CustomGenerateUnitSamples(Contract):
    """Samples given as a matrix: ValueError iff it does not have one column per component of the design space; otherwise one returned row per
    given row, in the given order: row r is transform_vect(given row r) (compute_doe / _pre_run map it back with untransform_vect)."""

    targets = (CUSTOM + "._generate_unit_samples",)
    prop = ("C14",)
    numpy = "precise"
    c14 = True
    params = {"design_space": DSO, "settings": TKw({"samples": F2, "doe_file": TNone})}
    returns = F2
    modifies = ("design_space",)
    raises = {"ValueError": lambda c: _kw_field(c, "samples").obj.shape[1] != c.old.design_space.dimension}

    def ensures(self, c):
        s0, s1 = c.old.design_space, c.new.design_space
        given, res = _kw_field(c, "samples"), c.result
        r = z3.Int("r!tr")
        return [("as-many-rows-as-given", res.obj.shape[0] == given.obj.shape[0]),
                ("one-column-per-component", res.obj.shape[1] == s0.dimension),
                ("rows-are-the-given-rows-transformed-in-order",
                 z3.ForAll([r], z3.Implies(z3.And(0 <= r, r < given.obj.shape[0]), row_term(res, r) == transform_vect(flag(s0), vars_term(s0), norm_term(s0), row_term(given, r))))),
                ] + ds_kept(s0, s1, *NUM_CACHE_FIELDS)


@register
class CheckUnnormalizationCapabilityCustomDOE(Contract):
    """A library that does not sample in the unit hypercube (CustomDOE) never rejects a design space."""

    targets = (BASE + ".__check_unnormalization_capability",)
    variant = "custom-doe"
    prop = ("C14",)
    self_class = CUSTOM
    numpy = "precise"
    c14 = True
    params = {"design_space": DSO}

    def ensures(self, c):
        return ds_kept(c.old.design_space, c.new.design_space)


# ---------------------------------------------------------------------------- stratified OpenTURNS designs: number of levels
from pyvc.plug_c14 import pow2  # noqa: E402

OTA = "gemseo.algos.doe.openturns._algos."
STRAT = OTA + "base_ot_stratified_doe.BaseOTStratifiedDOE"
AXIAL, FACTORIAL, COMPOSITE = OTA + "ot_axial_doe.OTAxialDOE", OTA + "ot_factorial_doe.OTFactorialDOE", OTA + "ot_composite_doe.OTCompositeDOE"

# points added per level (documented and checked natively on openturns.Axial / Factorial / Composite: a design with L levels in
# dimension d has 1 + weight(d) * L points: the centre, and per level 2 d axial points / 2^d corner points / both)
STRAT_WEIGHTS = {AXIAL: lambda d: 2 * d, FACTORIAL: lambda d: pow2(d), COMPOSITE: lambda d: 2 * d + pow2(d)}


def strat_count(cls, d, levels):
    """Documented number of points of the stratified design of class `cls` with `levels` levels in dimension d."""
    return 1 + STRAT_WEIGHTS[cls](d) * levels


class _ComputeNLevels(Contract):
    """The largest number of levels whose documented point count does not exceed n_samples; ValueError when even one level does not fit."""

    prop = ("C14",)
    c14 = True
    cls = None
    params = {"n_samples": TInt, "dimension": TInt}
    returns = TInt

    @property
    def raises(self):
        return {"ValueError": lambda c: strat_count(self.cls, c.old.dimension, 1) > c.old.n_samples}

    def requires(self, c):
        # call site (BaseOTStratifiedDOE.generate_samples): only called when n_samples > 0; the dimension of a design space under a DOE is >= 1
        return [("positive-number-of-samples", c.old.n_samples > 0), ("dimension-at-least-one", c.old.dimension >= 1)]

    def ensures(self, c):
        n, d, L = c.old.n_samples, c.old.dimension, c.result
        return [("at-least-one-level", L >= 1),
                ("documented-count-never-exceeds-the-request", strat_count(self.cls, d, L) <= n),
                ("largest-such-number-of-levels", strat_count(self.cls, d, L + 1) > n)]


@register
class AxialNLevels(_ComputeNLevels):
    targets = (AXIAL + "._compute_n_levels",)
    cls = AXIAL


@register
class FactorialNLevels(_ComputeNLevels):
    targets = (FACTORIAL + "._compute_n_levels",)
    cls = FACTORIAL


@register
class CompositeNLevels(_ComputeNLevels):
    targets = (COMPOSITE + "._compute_n_levels",)
    cls = COMPOSITE


# ---------------------------------------------------------------------------- wrapper libraries: what is handed to the third-party sampler
from pyvc.plug_c14 import TP_GHOSTS, int_of_val, random_state, tp_samples  # noqa: E402
from pyvc.values import val_none, val_of_int  # noqa: E402

OTLIB = "gemseo.algos.doe.openturns.openturns.OpenTURNS"
SCIPYLIB = "gemseo.algos.doe.scipy.scipy_doe.SciPyDOE"
PYDOELIB = "gemseo.algos.doe.pydoe.pydoe.PyDOELibrary"
for _lib in (OTLIB, SCIPYLIB, PYDOELIB):
    schema(_lib, dict(C.class_schema(BASE + "#c14")))
TP_MODIFIES = tuple(f"ghost:{g}" for g in TP_GHOSTS)


def tp_ghost(c, name, new=True):
    return (c.new_ghost if new else c.old_ghost)("c14_tp_" + name, TP_GHOSTS["c14_tp_" + name])


def seed_of_get_seed(default_seed, given_is_none, given):
    """Seeder.get_seed (contract GetSeed): a given seed unchanged (0 included), otherwise the incremented default seed."""
    return z3.If(given_is_none, default_seed + 1, given)


def third_party_call(c, algo, dim, n, seed, opts_clauses):
    """Exactly one call of the third-party sampler, with these arguments; the result is what it returned."""
    return [("exactly-one-sampler-call", tp_ghost(c, "calls") == tp_ghost(c, "calls", new=False) + 1),
            ("algorithm-forwarded", tp_ghost(c, "algo") == algo),
            ("dimension-forwarded-unchanged", tp_ghost(c, "dim") == dim),
            ("n-samples-forwarded-unchanged", tp_ghost(c, "n") == n),
            ("seed-is-exactly-get-seed-of-the-given-seed", tp_ghost(c, "seed") == seed)] + opts_clauses


def returned_what_the_sampler_returned(c):
    return ("returns-what-the-sampler-returned",
            arr2(c.result) == tp_samples(tp_ghost(c, "algo"), tp_ghost(c, "dim"), tp_ghost(c, "n"), tp_ghost(c, "seed"), tp_ghost(c, "opts")))


@register
class OpenTURNSGenerateUnitSamples(Contract):
    """The OpenTURNS random generator is seeded with exactly Seeder.get_seed(seed) (a given seed unchanged, 0 included; None -> incremented default
    seed); n_samples, the dimension and the remaining settings are forwarded unchanged; the result is what the sampler returned."""

    targets = (OTLIB + "._generate_unit_samples",)
    prop = ("C14",)
    numpy = "precise"
    c14 = True
    params = {"design_space": DSO, "n_samples": TInt, "seed": TOpt(TInt), "settings": KW}
    returns = F2
    modifies = ("self._seeder",) + TP_MODIFIES

    def ensures(self, c):
        me0, me1 = c.old.self, c.new.self
        seed = c.arg("seed")
        expected = seed_of_get_seed(me0._seeder.default_seed, seed.ty.is_none(seed.term), seed.ty.dt.get(seed.term))
        return third_party_call(c, me0._algo_name, c.old.design_space.dimension, val_of_int(c.old.n_samples), expected,
                                [("settings-forwarded-unchanged", tp_ghost(c, "opts") == kw_term(c.old.settings))]) + \
            [returned_what_the_sampler_returned(c), ("default-seed-incremented-exactly-once", me1._seeder.default_seed == me0._seeder.default_seed + 1)]


SCIPY_OPTION_NAMES = ("bits", "centered", "hypersphere", "ncandidates", "optimization", "radius", "scramble", "strength")


def setting_is_optional_int(d, name):
    v = d.vals[str_lit(name)]
    return z3.And(d.member[str_lit(name)], z3.Or(v == val_none, v == val_of_int(int_of_val(v))))


def seed_from_setting(default_seed, v):
    return seed_of_get_seed(default_seed, v == val_none, int_of_val(v))


@register
class SciPyGenerateUnitSamples(Contract):
    """The SciPy engine is built for the dimension of the design space with seed = exactly Seeder.get_seed(settings["seed"]) and with SciPy options taken
    unchanged from the settings; settings["n_samples"] is handed unchanged to engine.random; the result is what it returned."""

    targets = (SCIPYLIB + "._generate_unit_samples",)
    prop = ("C14",)
    numpy = "precise"
    c14 = True
    params = {"design_space": DSO, "settings": KW}
    returns = F2
    modifies = ("self._seeder",) + TP_MODIFIES

    def requires(self, c):
        d = c.old.settings
        # validated settings (pydantic model_dump): every field of the settings model is present; seed: int | None
        return [("seed-setting-is-an-optional-int", setting_is_optional_int(d, "seed")), ("n-samples-setting-present", d.member[str_lit("n_samples")])]

    def ensures(self, c):
        me0, me1 = c.old.self, c.new.self
        d = c.old.settings
        opts = TermDictU(KW, tp_ghost(c, "opts"))
        k = z3.Const("k!so", TStr.sort())
        return third_party_call(c, me0._algo_name, c.old.design_space.dimension, d.vals[str_lit("n_samples")], seed_from_setting(me0._seeder.default_seed, d.vals[str_lit("seed")]),
                                [("options-are-settings-forwarded-unchanged", z3.ForAll([k], z3.Implies(opts.member[k], z3.And(d.member[k], opts.vals[k] == d.vals[k])))),
                                 ("only-scipy-options", z3.ForAll([k], z3.Implies(opts.member[k], z3.Or(*[k == str_lit(n) for n in SCIPY_OPTION_NAMES]))))]) + \
            [returned_what_the_sampler_returned(c), ("default-seed-incremented-exactly-once", me1._seeder.default_seed == me0._seeder.default_seed + 1)]


class TermDictU:
    """Read access to an embedded unordered dict term."""

    def __init__(self, ty, term):
        self.member, self.vals, self.n = (ty.acc(i)(term) for i in range(3))


FULLFACT_CLS = "gemseo.algos.doe.pydoe.pydoe_full_factorial_doe.PyDOEFullFactorialDOE"
schema(FULLFACT_CLS, {})
fullfact_samples = z3.Function("c14_pydoe_fullfact_samples", z3.IntSort(), KW.sort(), F2.sort())


@register
class FullFactorialGenerateSamplesAbstract(Contract):
    targets = ("gemseo.algos.doe.base_full_factorial_doe.BaseFullFactorialDOE.generate_samples",)
    variant = "c14"
    prop = ("C14",)
    self_schema = FULLFACT_CLS
    numpy = "precise"
    params = {"n_samples": TVal, "dimension": TInt, "settings": KW}
    returns = F2
    raises = {"ValueError": None}
    trusted = True
    description = ("assumed: the full-factorial DOE (levels deduced from n_samples ** (1 / dimension) in floating point, pyDOE3.fullfact) is a deterministic "
                   "function of the dimension and the settings; its level arithmetic (real powers) is not under contract")

    def ensures(self, c):
        return [("deterministic", arr2(c.result) == fullfact_samples(c.old.dimension, kw_term(c.old.settings)))]


@register
class PyDOEGenerateUnitSamples(Contract):
    """PYDOE_LHS: pyDOE's lhs gets random_state = RandomState(exactly Seeder.get_seed(settings["random_state"])), samples = settings["n_samples"], every
    other setting unchanged, and its result is returned.  Other pyDOE functions: called with the dimension and the unchanged settings, result
    mapped from [-1, 1] to [0, 1] entry by entry ((x + 1) / 2); the Seeder is not touched."""

    targets = (PYDOELIB + "._generate_unit_samples",)
    prop = ("C14",)
    numpy = "precise"
    c14 = True
    callee_variants = {"gemseo.algos.doe.base_full_factorial_doe.BaseFullFactorialDOE.generate_samples": "c14"}
    params = {"design_space": DSO, "settings": KW}
    returns = F2
    modifies = ("self._seeder", "settings") + TP_MODIFIES
    raises = {"ValueError": lambda c: c.old.self._algo_name == str_lit("PYDOE_FULLFACT")}
    raises_exact = False

    def requires(self, c):
        d = c.old.settings
        lhs = c.old.self._algo_name == str_lit("PYDOE_LHS")
        ff = c.old.self._algo_name == str_lit("PYDOE_FULLFACT")
        # validated settings (pydantic model_dump): every field of the settings model of the algorithm is present
        return [("lhs:random-state-setting-is-an-optional-int", z3.Implies(lhs, setting_is_optional_int(d, "random_state"))),
                ("lhs:n-samples-setting-present", z3.Implies(lhs, z3.And(d.member[str_lit("n_samples")], z3.Not(d.member[str_lit("samples")])))),
                ("fullfact:settings-present", z3.Implies(ff, z3.And(d.member[str_lit("n_samples")], z3.Not(d.member[str_lit("dimension")]))))]

    def ensures(self, c):
        me0, me1 = c.old.self, c.new.self
        d = c.old.settings
        algo = me0._algo_name
        lhs, ff = algo == str_lit("PYDOE_LHS"), algo == str_lit("PYDOE_FULLFACT")
        other = z3.And(z3.Not(lhs), z3.Not(ff))
        opts = TermDictU(KW, tp_ghost(c, "opts"))
        k = z3.Const("k!po", TStr.sort())
        r, i = z3.Int("r!po"), z3.Int("i!po")
        rs, sm, ns = str_lit("random_state"), str_lit("samples"), str_lit("n_samples")
        tp = tp_samples(tp_ghost(c, "algo"), tp_ghost(c, "dim"), tp_ghost(c, "n"), tp_ghost(c, "seed"), tp_ghost(c, "opts"))
        res = c.result
        seed = seed_from_setting(me0._seeder.default_seed, d.vals[rs])
        called = z3.And(tp_ghost(c, "calls") == tp_ghost(c, "calls", new=False) + 1, tp_ghost(c, "algo") == algo, tp_ghost(c, "dim") == c.old.design_space.dimension)
        return [
            ("pydoe-function-called-once-with-the-dimension", z3.Implies(z3.Not(ff), called)),
            ("lhs:seed-is-exactly-get-seed-of-the-given-seed", z3.Implies(lhs, z3.And(opts.member[rs], opts.vals[rs] == random_state(seed)))),
            ("lhs:n-samples-forwarded-unchanged", z3.Implies(lhs, z3.And(opts.member[sm], opts.vals[sm] == d.vals[ns], z3.Not(opts.member[ns])))),
            ("lhs:other-settings-forwarded-unchanged", z3.Implies(lhs, z3.ForAll([k], z3.Implies(z3.And(k != rs, k != sm, k != ns),
                                                                                                 z3.And(opts.member[k] == d.member[k], z3.Implies(d.member[k], opts.vals[k] == d.vals[k])))))),
            ("lhs:returns-what-the-sampler-returned", z3.Implies(lhs, arr2(res) == tp)),
            ("lhs:default-seed-incremented-exactly-once", z3.Implies(lhs, me1._seeder.default_seed == me0._seeder.default_seed + 1)),
            ("others:settings-forwarded-unchanged", z3.Implies(other, tp_ghost(c, "opts") == kw_term(d))),
            ("others:shape", z3.Implies(other, z3.And(res.obj.shape[0] == F2.dim(tp, 0), res.obj.shape[1] == F2.dim(tp, 1)))),
            ("others:scaled-from-[-1,1]-to-[0,1]", z3.Implies(other, z3.ForAll([r, i], z3.Implies(z3.And(0 <= r, r < F2.dim(tp, 0), 0 <= i, i < F2.dim(tp, 1)),
                                                                                                   el2(res, r, i) == (z3.Select(F2.els(tp), r, i) + 1) / 2)))),
            ("no-seeding-without-random-state", z3.Implies(z3.Not(lhs), me1._seeder.default_seed == me0._seeder.default_seed)),
        ]


# ---------------------------------------------------------------------------- OATDOE
OAT = "gemseo.algos.doe.oat_doe.oat_doe.OATDOE"
schema(OAT, dict(C.class_schema(BASE + "#c14")))
LF1 = TList(F1)


def oat_moved(x, step):
    """The step rule as coded: one step up unless that leaves the unit interval, then one step down."""
    return z3.If(x + step > 1, x - step, x + step)


def _oat_inv(c, k):
    x0, step = c.old.initial_point, c.old.step
    pts = c.locals["points"]
    p = x0.obj.shape[0]
    j, m = z3.Int("j!oa"), z3.Int("m!oa")
    pj = pts.elems[j]
    return [("one-point-per-step-so-far", pts.n == k + 1),
            ("point-lengths", fa([j], z3.Implies(z3.And(0 <= j, j <= k), F1.dim(pj) == p), pts.elems[j])),
            ("points", fa([j, m], z3.Implies(z3.And(0 <= j, j <= k, 0 <= m, m < p), F1.els(pj)[m] == z3.If(m < j, oat_moved(x0.obj.elems[m], step), x0.obj.elems[m])),
                          F1.els(pj)[m]))]


@register
class OATGenerateUnitSamples(Contract):
    """d + 1 points for an initial point of length d: the initial point, then point j + 1 = point j with component j moved by one step (up unless that
    leaves [0, 1], then down); every point is in the unit hypercube when the initial point is (KNOWN FINDING: not for a step > 1/2)."""

    targets = (OAT + "._generate_unit_samples",)
    prop = ("C14",)
    numpy = "precise"
    c14 = True
    params = {"design_space": DSO, "step": TReal, "initial_point": F1, "settings": KW}
    returns = F2
    loops = {0: LoopSpec(anchor="range(len(initial_point))", inv=_oat_inv, modifies=("points",), local_types={"points": LF1, "i": TInt, "current_point": F1})}

    def requires(self, c):
        x0 = c.old.initial_point
        m = z3.Int("m!oq")
        e = x0.obj.elems[m]
        # step: PositiveFloat (OATDOE_Settings / MorrisDOE_Settings); the initial point is a point of the unit hypercube (MorrisDOE passes unit samples)
        return [("positive-step", c.old.step > 0), ("at-least-one-component", x0.obj.shape[0] >= 1),
                ("initial-point-in-unit-hypercube", z3.ForAll([m], z3.Implies(z3.And(0 <= m, m < x0.obj.shape[0]), z3.And(0 <= e, e <= 1)), patterns=[e]))]

    def finding_regions(self, c):
        return {"step-larger-than-one-half": c.old.step > z3.Q(1, 2)}

    def ensures(self, c):
        x0, step, res = c.old.initial_point, c.old.step, c.result
        p = x0.obj.shape[0]
        r, m = z3.Int("r!oa"), z3.Int("m!oa")
        rng = z3.And(0 <= r, r <= p, 0 <= m, m < p)
        e = el2(res, r, m)
        return [("dimension-plus-one-points", res.obj.shape[0] == p + 1),
                ("one-column-per-component", res.obj.shape[1] == p),
                ("one-factor-at-a-time", fa([r, m], z3.Implies(rng, e == z3.If(m < r, oat_moved(x0.obj.elems[m], step), x0.obj.elems[m])), e)),
                ("points-in-unit-hypercube", fa([r, m], z3.Implies(rng, z3.And(0 <= e, e <= 1)), e))]


@register
class ComputeDOEFromDimension(ComputeDOE):
    """variables_space given as a dimension d: the sampled space is the new design space with the single float variable "x" of size d and bounds
    [0, 1] (for which untransform_vect is the identity: UnitCubeLemmas `unit-bounds:identity`)."""

    targets = (BASE + ".compute_doe",)
    variant = "dimension"
    c14_design_space_schema = DS + "#c14"
    params = {"variables_space": TInt, "unit_sampling": TBool, "settings_model": TVal, "settings": KW}
    modifies = ("self._seeder",) + UT_GHOSTS

    def requires(self, c):
        return []

    def ensures(self, c):
        s = c.old.self
        us = c.old.unit_sampling
        us = z3.BoolVal(us) if isinstance(us, bool) else us
        gf, gv, gn = ut_ghosts(c)
        r = arr2(c.result)
        d = c.old.variables_space
        unit = gen_unit(s._algo_name, d, filtered(validated(s._algo_name, c.arg("settings_model").term, kw_term(c.old.settings)),
                                                 str_lit("gemseo.algos.doe.base_doe_settings.BaseDOESettings")), s._seeder.default_seed)
        v = TermDict(D.VARS, gv)
        x = str_lit("x")
        return [("unit-sampling:the-unit-samples", z3.Implies(us, r == unit)),
                ("samples-are-the-design-space-image-of-the-unit-samples", z3.Implies(z3.Not(us), r == untransform(gf, gv, gn, unit))),
                ("integer-normalization-enabled-for-the-transformation", z3.Implies(z3.Not(us), gf)),
                ("the-space-is-one-float-variable-x-of-size-d", z3.Implies(z3.Not(us), z3.And(v.n == 1, v.keys[0] == x, v.member[x], D.size(v.vals[x]) == d,
                                                                                             D.VAR.accessor("type")(v.vals[x]) == str_lit("float")))),
                ("sample-count-and-dimension", z3.And(F2.dim(r, 0) == F2.dim(unit, 0), F2.dim(r, 1) == F2.dim(unit, 1)))]


# ---------------------------------------------------------------------------- lemmas: determinism, documented counts
@register
class DeterminismLemmas(Contract):
    """"The same algorithm, settings and seed always generate the same samples": congruence of the (uninterpreted) third-party sampler composed with
    the proved seed rule - a given seed does not depend on the state of the Seeder, the default seed only on the number of earlier calls."""

    targets = ()
    prop = ("C14",)
    lemma = True

    def lemmas(self):
        a1, a2 = z3.Consts("a1 a2", StrS)
        d1, d2, s1, s2, def1, def2, given = z3.Ints("d1 d2 s1 s2 def1 def2 given")
        n1, n2 = z3.Consts("n1 n2", ValS)
        o1, o2 = z3.Consts("o1 o2", KW.sort())
        seed = lambda default, none: seed_of_get_seed(default, none, given)  # noqa: E731
        return [("same-arguments-same-samples", z3.Implies(z3.And(a1 == a2, d1 == d2, n1 == n2, s1 == s2, o1 == o2), tp_samples(a1, d1, n1, s1, o1) == tp_samples(a2, d2, n2, s2, o2))),
                ("given-seed:independent-of-the-seeder-state", seed(def1, z3.BoolVal(False)) == seed(def2, z3.BoolVal(False))),
                ("given-seed-zero-is-used", z3.Implies(given == 0, seed(def1, z3.BoolVal(False)) == 0)),
                ("given-seed:same-samples-on-every-run", tp_samples(a1, d1, n1, seed(def1, z3.BoolVal(False)), o1) == tp_samples(a1, d1, n1, seed(def2, z3.BoolVal(False)), o1)),
                ("default-seed:same-samples-after-the-same-number-of-calls", z3.Implies(def1 == def2, tp_samples(a1, d1, n1, seed(def1, z3.BoolVal(True)), o1)
                                                                                       == tp_samples(a1, d1, n1, seed(def2, z3.BoolVal(True)), o1))),
                ("default-seeds-of-successive-calls-differ", seed(def1, z3.BoolVal(True)) != seed(def1 + 1, z3.BoolVal(True)))]


@register
class DocumentedCountLemmas(Contract):
    """Arithmetic of the documented point counts (pure integer arithmetic over the spec functions; MorrisDOE's own code is NOT verified against it)."""

    targets = ()
    prop = ("C14",)
    lemma = True

    def lemmas(self):
        n, d, L, r = z3.Ints("n d L r")
        lem = []
        for cls, nm in ((AXIAL, "axial"), (FACTORIAL, "factorial"), (COMPOSITE, "composite")):
            hyp = z3.And(d >= 1, pow2(d) >= 1, L >= 1)
            lem += [(f"{nm}:count-increases-with-the-levels", z3.Implies(hyp, strat_count(cls, d, L) < strat_count(cls, d, L + 1))),
                    (f"{nm}:more-than-the-centre", z3.Implies(hyp, strat_count(cls, d, L) >= 2))]
        # Morris: r = n // (d + 1) replicates of an OAT design of d + 1 points (floor division: r (d + 1) <= n < (r + 1) (d + 1))
        floor = z3.And(d >= 1, n >= 1, r * (d + 1) <= n, n < (r + 1) * (d + 1))
        lem += [("morris:documented-count-never-exceeds-the-request", z3.Implies(floor, r * (d + 1) <= n)),
                ("morris:no-replicate-iff-fewer-samples-than-one-oat-design", z3.Implies(floor, (r == 0) == (n < d + 1))),
                ("oat:dimension-plus-one", z3.Implies(d >= 1, d + 1 >= 2)),
                ]
        return lem


# ---------------------------------------------------------------------------- stratified OpenTURNS designs: the common base
from pyvc.plug_c14 import strat_weight  # noqa: E402

schema(STRAT, {})


@register
class StratifiedNLevelsAbstract(Contract):
    targets = (STRAT + "._compute_n_levels",)
    prop = ("C14",)
    params = {"n_samples": TInt, "dimension": TInt}
    returns = TInt
    raises = {"ValueError": lambda c: 1 + strat_weight(c.old.dimension) > c.old.n_samples}
    trusted = True
    description = ("abstract method: the contract proved for the three implementations (OTAxialDOE, OTFactorialDOE, OTCompositeDOE: _ComputeNLevels), "
                   "with the points-per-level weight of the class written c14_stratified_weight(d)")

    def requires(self, c):
        return [("positive-number-of-samples", c.old.n_samples > 0), ("dimension-at-least-one", c.old.dimension >= 1)]

    def ensures(self, c):
        n, d, L = c.old.n_samples, c.old.dimension, c.result
        w = strat_weight(d)
        return [("at-least-one-level", L >= 1), ("documented-count-never-exceeds-the-request", 1 + w * L <= n), ("largest", 1 + w * (L + 1) > n)]


@register
class StratifiedGenerateSamples(Contract):
    """A maximum number of samples is given (n_samples > 0): the design has the documented count 1 + weight(d) * levels <= n_samples rows, d columns,
    and (centre 1/2, levels linspace(0, 1, levels + 1)[1:]) every entry is in [0, 1]."""

    targets = (STRAT + ".generate_samples",)
    variant = "n_samples"
    prop = ("C14",)
    numpy = "precise"
    c14 = True
    params = {"n_samples": TInt, "dimension": TInt}
    returns = F2
    raises = {"ValueError": lambda c: 1 + strat_weight(c.old.dimension) > c.old.n_samples}

    def axioms(self, c):
        from pyvc.plug_c14 import linspace_facts

        return [(f"linspace-t:{i}", f) for i, f in enumerate(linspace_facts())]

    def requires(self, c):
        return [("a-maximum-number-of-samples-is-given", c.old.n_samples > 0), ("dimension-at-least-one", c.old.dimension >= 1)]

    def ensures(self, c):
        n, d, res = c.old.n_samples, c.old.dimension, c.result
        r, i = z3.Int("r!sg"), z3.Int("i!sg")
        e = el2(res, r, i)
        return [("never-more-than-requested", res.obj.shape[0] <= n),
                ("one-column-per-component", res.obj.shape[1] == d),
                ("points-in-unit-hypercube", fa([r, i], z3.Implies(z3.And(0 <= r, r < res.obj.shape[0], 0 <= i, i < d), z3.And(0 <= e, e <= 1)), e))]
