"""C16 / C13 - derivative approximation, continued: parallel forward differences, per-component steps, Jacobian-check indices.

* ``FirstOrderFD._compute_parallel_grad`` returns exactly the quotients of the sequential ``_compute_grad``
  (same postcondition, which determines the result): gradient[k] = (F(P[:, k]) - F(x)) / step_k with the step
  ACTUALLY received (scalar broadcast by ``full`` or per-component array), the outputs being taken positionally from the
  parallel execution (slot 0 = unperturbed point, slot k + 1 = perturbation k).  The parallel execution is seen through
  the summary of its C13 contract (pyvc/plug_c16.py), the task body being the real ``_wrap_function``.
* ``FirstOrderFD._compute_grad`` with per-component steps (variant ``steps``).
* ``DisciplineJacApprox._compute_variable_indices``: flat index = offset(variable) + selected component, the offsets being the
  local prefix sums of the FULL variable sizes.
"""
from __future__ import annotations

import z3

from contracts.c16_derivatives import F1, F2, FD, FP, Ffun, _grad_inv, ln, quotient_ok
from pyvc.contract import Contract, LoopSpec, register, schema
from pyvc.values import TBool, TDict, TInt, TList, TNone, TReal, TStr, TVal

schema(FD + "#par", {"f_pointer": FP, "_step": TReal, "_normalize": TBool, "_parallel": TBool, "_design_space": TNone,
                     "_parallel_args": TDict(TStr, TVal), "_function_kwargs": TDict(TStr, TVal)})


def _fixed_output_dimension():
    v = z3.Const("v!fm", F1.sort())
    return ("output-dimension-is-fixed", z3.ForAll([v], z3.And(F1.dim(Ffun(v)) == z3.Int("m_out"), z3.Int("m_out") >= 0)))


def _step_at(c, j):
    """The step received for perturbation j: the scalar, or the j-th entry of the per-component array."""
    h = c.old.step
    return h if z3.is_expr(h) else h.obj.elems[j]


class _Grad(Contract):
    """gradient[k] = (F(P[:, k]) - F(x)) / step_k, one row per perturbation (the postcondition of the sequential computation)."""

    prop = ("C16", "C13")
    numpy = "precise"
    c16 = True
    returns = TList(F1)
    loops = {0: LoopSpec(anchor="range(n_perturbations)", modifies=("gradient",), local_types={"gradient": TList(F1)}, inv=_grad_inv)}
    per_component = False

    def requires(self, c):
        x, P = c.old.input_values, c.old.input_perturbations
        out = [("perturbation-shape", ln(P, 0) == ln(x)), _fixed_output_dimension()]
        if self.per_component:
            # what _generate_perturbations returns with a design space: one step per perturbation
            out.append(("one-step-per-perturbation", ln(c.old.step) == ln(P, 1)))
        return out

    def ensures(self, c):
        x, P = c.old.input_values, c.old.input_perturbations
        g = c.result
        j = z3.Int("j!cg")
        return [("one-row-per-perturbation", g.n == ln(P, 1)),
                ("difference-quotients-with-the-step-used", z3.ForAll([j], z3.Implies(z3.And(0 <= j, j < g.n), quotient_ok(g.elems[j], x, P, j, _step_at(c, j)))))]


@register
class ParallelGradScalarStep(_Grad):
    targets = (FD + "._compute_parallel_grad",)
    self_schema = FD + "#par"
    params = {"input_values": F1, "input_perturbations": F2, "step": TReal}
    modifies = ("self",)  # self._function_kwargs


@register
class ParallelGradStepArray(_Grad):
    targets = (FD + "._compute_parallel_grad",)
    variant = "steps"
    self_schema = FD + "#par"
    params = {"input_values": F1, "input_perturbations": F2, "step": F1}
    modifies = ("self",)
    per_component = True


@register
class SequentialGradStepArray(_Grad):
    targets = (FD + "._compute_grad",)
    variant = "steps"
    prop = ("C16",)
    self_schema = FD + "#nods"
    params = {"input_values": F1, "input_perturbations": F2, "step": F1}
    per_component = True
