"""C16 / C13 - derivative approximation, continued: parallel forward differences, per-component steps, Jacobian-check indices.

* ``FirstOrderFD._compute_parallel_grad`` returns exactly the quotients of the sequential ``_compute_grad``
  (same postcondition, which determines the result): gradient[k] = (F(P[:, k]) - F(x)) / step_k with the step
  ACTUALLY received (scalar broadcast by ``full`` or per-component array), the outputs being taken positionally from the
  parallel execution (slot 0 = unperturbed point, slot k + 1 = perturbation k).  The parallel execution is seen through
  the summary of its C13 contract (pyvc/plug_c16.py), the task body being the real ``_wrap_function``.
* ``FirstOrderFD._compute_grad`` with per-component steps (variant ``steps``).
* ``DisciplineJacApprox._compute_variable_indices``: flat index = offset(variable) + selected component, the offsets being the
  local prefix sums of the FULL variable sizes.
"""
from __future__ import annotations

import z3

from contracts.c16_derivatives import F1, F2, FD, FP, STEP, Ffun, _grad_inv, ln, quotient_ok
from pyvc.contract import Contract, LoopSpec, register, schema
from pyvc.plug_c16 import TByStep
from pyvc.values import TBool, TDict, TInt, TList, TNone, TReal, TStr, TVal

schema(FD + "#par", {"f_pointer": FP, "_step": TReal, "_normalize": TBool, "_parallel": TBool, "_design_space": TNone,
                     "_parallel_args": TDict(TStr, TVal), "_function_kwargs": TDict(TStr, TVal)})


def _fixed_output_dimension():
    v = z3.Const("v!fm", F1.sort())
    return ("output-dimension-is-fixed", z3.ForAll([v], z3.And(F1.dim(Ffun(v)) == z3.Int("m_out"), z3.Int("m_out") >= 0)))


def _step_at(c, j):
    """The step received for perturbation j: the scalar, or the j-th entry of the per-component array."""
    h = c.old.step
    return h if z3.is_expr(h) else h.obj.elems[j]


class _Grad(Contract):
    """gradient[k] = (F(P[:, k]) - F(x)) / step_k, one row per perturbation (the postcondition of the sequential computation)."""

    prop = ("C16", "C13")
    numpy = "precise"
    c16 = True
    returns = TList(F1)
    loops = {0: LoopSpec(anchor="range(n_perturbations)", modifies=("gradient",), local_types={"gradient": TList(F1)}, inv=_grad_inv)}
    def requires(self, c):
        x, P = c.old.input_values, c.old.input_perturbations
        out = [("perturbation-shape", ln(P, 0) == ln(x)), _fixed_output_dimension()]
        if not z3.is_expr(c.old.step):
            # what _generate_perturbations returns with a design space: one step per perturbation
            out.append(("one-step-per-perturbation", ln(c.old.step) == ln(P, 1)))
        return out

    def ensures(self, c):
        x, P = c.old.input_values, c.old.input_perturbations
        g = c.result
        j = z3.Int("j!cg")
        return [("one-row-per-perturbation", g.n == ln(P, 1)),
                ("difference-quotients-with-the-step-used", z3.ForAll([j], z3.Implies(z3.And(0 <= j, j < g.n), quotient_ok(g.elems[j], x, P, j, _step_at(c, j)))))]


@register
class ParallelGrad(_Grad):
    targets = (FD + "._compute_parallel_grad",)
    self_schema = FD + "#par"
    params = {"input_values": F1, "input_perturbations": F2, "step": STEP}  # one global step, or one step per perturbation
    modifies = ("self",)  # self._function_kwargs


# ============================================================================ DisciplineJacApprox._compute_variable_indices
from pyvc import contract as C  # noqa: E402
from pyvc.plug_c16 import OInt, TSel  # noqa: E402
from pyvc.values import TTuple  # noqa: E402

DJA = "gemseo.utils.derivatives.derivatives_approx.DisciplineJacApprox"
SEL = TSel.dt
start = z3.Function("cvi_start", z3.IntSort(), z3.IntSort())  # offset of the j-th variable in the flat input vector
cnt = z3.Function("cvi_cnt", z3.IntSort(), z3.IntSort())  # number of components selected in the variables before the j-th one


def _clean(t):
    stack = [t]
    while stack:
        x = stack.pop()
        if z3.is_quantifier(x) or not z3.is_app(x):
            if not z3.is_var(x):
                return False
            continue
        if x.decl().kind() in (z3.Z3_OP_ITE, z3.Z3_OP_AND, z3.Z3_OP_OR, z3.Z3_OP_NOT, z3.Z3_OP_EQ, z3.Z3_OP_STORE):
            return False
        stack.extend(x.children())
    return True


def FA(vs, body, patterns=()):
    """ForAll with the given patterns when z3 accepts them (terms over stores / ite are not valid triggers), without otherwise."""
    if patterns and all(_clean(p) for p in patterns):
        try:
            return z3.ForAll(vs, body, patterns=list(patterns))
        except z3.Z3Exception:
            pass
    return z3.ForAll(vs, body)


class _Spec:
    """The selection of the j-th variable, normalised: nsel(j) components comp(j, 0..nsel(j)-1) of a variable of size(j) components."""

    def __init__(self, c):
        self.names, self.sizes, self.indices = c.old.variable_names, c.old.variable_sizes, c.old.indices
        self.n = self.names.n

    def name(self, j):
        return self.names.elems[j]

    def size(self, j):
        return self.sizes.get(self.name(j))

    def sel(self, j):
        return self.indices.get(self.name(j))

    def everything(self, j):
        """No entry for the variable, Ellipsis or None: all its components."""
        s = self.sel(j)
        return z3.Or(z3.Not(self.indices.has(self.name(j))), SEL.is_sel_ellipsis(s), SEL.is_sel_none(s))

    def _slice(self, j):
        """slice(lo, hi) of range(size): first component and number of components (Python's clamping of negative / large bounds)."""
        s, n = self.sel(j), self.size(j)
        lo, hi = SEL.sel_lo(s), SEL.sel_hi(s)
        a = z3.If(OInt.is_none(lo), z3.IntVal(0), OInt.dt.get(lo))
        b = z3.If(OInt.is_none(hi), n, OInt.dt.get(hi))
        a = z3.If(a < 0, z3.If(a + n < 0, 0, a + n), z3.If(a > n, n, a))
        b = z3.If(b < 0, z3.If(b + n < 0, 0, b + n), z3.If(b > n, n, b))
        return a, z3.If(b > a, b - a, 0)

    def nsel(self, j):
        s = self.sel(j)
        return z3.If(self.everything(j), self.size(j),
                     z3.If(SEL.is_sel_int(s), 1, z3.If(SEL.is_sel_list(s), TSel.list_n(s), self._slice(j)[1])))

    def comp(self, j, t):
        s = self.sel(j)
        return z3.If(self.everything(j), t,
                     z3.If(SEL.is_sel_int(s), SEL.sel_i(s), z3.If(SEL.is_sel_list(s), TSel.list_el(s)[t], self._slice(j)[0] + t)))


def _offset_axioms(c):
    sp = _Spec(c)
    j = z3.Int("j!ax")
    return [
        ("start(0) = 0", start(0) == 0),
        ("start(j+1) = start(j) + size(j)", FA([j], z3.Implies(j >= 0, start(j + 1) == start(j) + sp.size(j)), patterns=[start(j + 1)])),
        ("cnt(0) = 0", cnt(0) == 0),
        ("cnt(j+1) = cnt(j) + nsel(j)", FA([j], z3.Implies(j >= 0, cnt(j + 1) == cnt(j) + sp.nsel(j)), patterns=[cnt(j + 1)])),
    ]


def _is_selection(sp, term, j, shift):
    """``term`` (a selection value) is the list of the nsel(j) components of variable j, each shifted by ``shift``."""
    t = z3.Int("t!is")
    return z3.And(SEL.is_sel_list(term), TSel.list_n(term) == sp.nsel(j),
                  FA([t], z3.Implies(z3.And(0 <= t, t < sp.nsel(j)), TSel.list_el(term)[t] == shift + sp.comp(j, t)), patterns=[TSel.list_el(term)[t]]))


def _cvi_inv(c, k):
    sp = _Spec(c)
    seq, d = c.locals["indices_sequence"], c.locals["names_to_indices"]
    j = z3.Int("j!ci")
    return [
        ("offset-is-the-sum-of-the-full-sizes", c.locals["variable_position"] == start(k)),
        ("one-index-list-per-variable", seq.n == k),
        ("flat-indices-are-offset-plus-component", FA([j], z3.Implies(z3.And(0 <= j, j < k), _is_selection(sp, seq.elems[j], j, start(j))), patterns=[seq.elems[j]])),
        ("components-per-name", FA([j], z3.Implies(z3.And(0 <= j, j < k), z3.And(d.has(sp.name(j)), _is_selection(sp, d.get(sp.name(j)), j, z3.IntVal(0)))),
                                          patterns=[sp.name(j)])),
    ]


@register
class ComputeVariableIndices(Contract):
    """Flat indices: for the j-th variable, offset(j) + each selected component, offset(j) = sum of the FULL sizes of the variables before it."""

    targets = (DJA + "._compute_variable_indices",)
    prop = ("C16",)
    c16 = True
    flatten_offsets = cnt
    params = {"indices": TDict(TStr, TSel), "variable_names": TList(TStr), "variable_sizes": TDict(TStr, TInt)}
    returns = TTuple(TList(TInt), TDict(TStr, TSel))
    loops = {0: LoopSpec(anchor="variable_names", inv=_cvi_inv, modifies=("indices_sequence", "names_to_indices"),
                         local_types={"indices_sequence": TList(TSel), "names_to_indices": TDict(TStr, TSel)})}

    def axioms(self, c):
        return _offset_axioms(c)

    def requires(self, c):
        sp = _Spec(c)
        j = z3.Int("j!rq")
        k = z3.Const("k!rq", TStr.sort())
        return [
            # variable_sizes = compute_names_to_sizes(variable_names, ...) at both call sites
            ("every-variable-has-a-size", FA([j], z3.Implies(z3.And(0 <= j, j < sp.n), z3.And(sp.sizes.has(sp.name(j)), sp.size(j) >= 0)), patterns=[sp.name(j)])),
            # type invariant of list values
            ("type:list-lengths-are-non-negative", FA([k], z3.Implies(SEL.is_sel_list(sp.indices.get(k)), TSel.list_n(sp.indices.get(k)) >= 0),
                                                            patterns=[sp.indices.get(k)])),
        ]

    def ensures(self, c):
        sp = _Spec(c)
        flat, d = (C.View(c._new_heap, r, c.st) for r in c.result_value)
        j, t = z3.Int("j!cv"), z3.Int("t!cv")
        return [
            ("number-of-flat-indices", flat.n == cnt(sp.n)),
            ("flat-index = offset(variable) + component", FA([j, t], z3.Implies(z3.And(0 <= j, j < sp.n, 0 <= t, t < sp.nsel(j)),
                                                                                       flat.elems[cnt(j) + t] == start(j) + sp.comp(j, t)))),
            ("components-per-name", FA([j], z3.Implies(z3.And(0 <= j, j < sp.n), z3.And(d.has(sp.name(j)), _is_selection(sp, d.get(sp.name(j)), j, z3.IntVal(0)))),
                                              patterns=[sp.name(j)])),
        ]


# ============================================================================ centered differences: the perturbation matrix
from contracts.c16_derivatives import el, idx_ok  # noqa: E402

CD = "gemseo.utils.derivatives.centered_differences.CenteredDifferences"
schema(CD + "#nods", {"f_pointer": FP, "_step": TReal, "_normalize": TBool, "_parallel": TBool, "_design_space": TNone})


@register
class CenteredGeneratePerturbationsNoDesignSpace(Contract):
    """Column k is x + step e_{I_k} and column n + k is x - step e_{I_k} (k < n = number of differentiated components): the points of
    the centered quotient (F(x + h e) - F(x - h e)) / (2 h), exact on quadratics (OrderOfAccuracyLemmas)."""

    targets = (CD + "._generate_perturbations",)
    prop = ("C16",)
    self_schema = CD + "#nods"
    numpy = "precise"
    c16 = True
    params = {"input_values": F1, "input_indices": TList(TInt), "step": STEP}  # one global step, or one step per differentiated component
    returns = TByStep(TTuple(F2, TReal), TTuple(F2, F1))

    def requires(self, c):
        out = idx_ok(c.old.input_indices, ln(c.old.input_values))
        if not z3.is_expr(c.old.step):
            out.append(("one-step-per-component", ln(c.old.step) == c.old.input_indices.n))
        return out

    def ensures(self, c):
        x, idx, h0 = c.old.input_values, c.old.input_indices, c.old.step
        P, s = c.result_value
        Pv = C.View(c._new_heap, P, c.st)
        i, k, q = z3.Int("i!gp"), z3.Int("k!gp"), z3.Int("q!gp")
        rng = z3.And(0 <= i, i < ln(x), 0 <= k, k < idx.n)
        if z3.is_expr(h0):
            step_at = lambda t: h0  # noqa: E731
            returned = ("step-returned", s.term == h0)
        else:
            step_at = lambda t: el(h0, t)  # noqa: E731
            Sv = C.View(c._new_heap, s, c.st)
            returned = ("step-returned", z3.And(ln(Sv) == idx.n, z3.ForAll([k], z3.Implies(z3.And(0 <= k, k < idx.n), el(Sv, k) == el(h0, k)))))
        return [
            ("shape", z3.And(ln(Pv, 0) == ln(x), ln(Pv, 1) == 2 * idx.n)),
            ("forward-columns", z3.ForAll([i, k], z3.Implies(rng, el(Pv, i, k) == el(x, i) + z3.If(i == idx.elems[k], step_at(k), z3.RealVal(0))))),
            # (absolute column index q = n + k: E-matching friendly)
            ("backward-columns", FA([i, q], z3.Implies(z3.And(0 <= i, i < ln(x), idx.n <= q, q < 2 * idx.n),
                                                               el(Pv, i, q) == el(x, i) - z3.If(i == idx.elems[q - idx.n], step_at(q - idx.n), z3.RealVal(0))), patterns=[el(Pv, i, q)])),
            returned,
        ]


# ============================================================================ centered differences: the quotients
np_norm = z3.Function("np_norm_f1", F1.sort(), z3.RealSort())  # numpy.linalg.norm of a vector (npmodel: uninterpreted, >= 0)


def _col(P, k):
    i = z3.Int("i!np0")
    return F1.dt.mk(P.obj.shape[0], z3.Lambda([i], z3.Select(P.obj.elems, i, k)))


def _diff(P, k, k2):
    """The vector P[:, k] - P[:, k2]."""
    i = z3.Int("i!np0")
    return F1.dt.mk(P.obj.shape[0], z3.Lambda([i], z3.Select(P.obj.elems, i, k) - z3.Select(P.obj.elems, i, k2)))


def _half(P):
    """int(n_columns / 2)"""
    return ln(P, 1) / 2  # integer division: the number of columns is non-negative


@register
class CenteredComputeGrad(Contract):
    """gradient[k] = (F(P[:, k]) - F(P[:, n + k])) / ||P[:, k] - P[:, n + k]|| for the n = int(n_columns / 2) pairs of columns
    (forward point k, backward point n + k of the perturbation matrix)."""

    targets = (CD + "._compute_grad",)
    prop = ("C16",)
    self_schema = CD + "#nods"
    numpy = "precise"
    c16 = True
    params = {"input_values": F1, "input_perturbations": F2, "step": STEP}  # (not used: the quotient divides by the distance between the two points)
    returns = TList(F1)

    fun_output_dim = z3.Int("m_out")  # see the precondition output-dimension-is-fixed

    def requires(self, c):
        return [_fixed_output_dimension()]

    def ensures(self, c):
        P = c.old.input_perturbations
        g = c.result
        n = _half(P)
        j, i = z3.Int("j!cg"), z3.Int("i!cg")
        fp, fm = Ffun(_col(P, j)), Ffun(_col(P, n + j))
        m = z3.Int("m_out")
        return [("one-row-per-pair-of-perturbations", g.n == n),
                ("output-dimension", z3.ForAll([j], z3.Implies(z3.And(0 <= j, j < n), F1.dim(g.elems[j]) == m))),
                ("centered-quotients", z3.ForAll([j, i], z3.Implies(z3.And(0 <= j, j < n, 0 <= i, i < m),
                                                                      F1.els(g.elems[j])[i] == (F1.els(fp)[i] - F1.els(fm)[i]) / np_norm(_diff(P, j, n + j)))))]
