"""C15 - PydanticGrammar: "validation reflects the current definition, never a stale one" for the lazily rebuilt pydantic model.

Abstract view:   grammar --__model--> model class(model_fields: name -> FieldInfo (live dict), _built (ghost): the fields the validation / JSON schema was built from)
                         --__model_needs_rebuild: bool
pydantic itself is abstract (pyvc/plug_pydantic.py): create_model / model_rebuild / model_validate / model_json_schema have ASSUMED contracts over that view;
FieldInfo(annotation=a) / .annotation / Union / get_origin are uninterpreted.

MODEL VALIDITY (MV), the invariant every mutator re-establishes and every consumer relies on:  not __model_needs_rebuild  =>  _built lists exactly the current fields.
Mutators establish it by raising the flag; `__rebuild_model` (called by _validate / set_descriptions / __getstate__) by rebuilding.
(For pydantic grammars an element is required exactly when its model field has no default - properties.jsonl C15 - so required-name changes are not model edits.)
"""
from __future__ import annotations

import z3

from contracts import c15_grammars as G
from contracts.c15_grammars import DATA, NAMELIST, NAMES, TMsg, kq, member_fn, same_dict, same_set
from pyvc import contract as C
from pyvc import plug_pydantic as P
from pyvc.contract import Contract, LoopSpec, register, schema
from pyvc.values import PyObj, TBool, TDict, TInt, TObj, TStr, TVal, Unsupported, val_none

PG, MODEL = P.PG, P.PYD_MODEL
RN, DF = G.RN, G.DF
RNP, DFP = RN + "#pydantic", DF + "#pydantic"
NTT = G.NTT
FIELDS = P.FIELDS_T
NDP = G.type_const(P.ND_PYDANTIC.name)


class TPartP(TObj):
    def __init__(self, cls, key, backfield):
        super().__init__(cls, schema_key=key)
        self.backfield = backfield
        self.name = f"PartP[{key}]"

    def fresh_in(self, st, hint, owner):
        o = PyObj(self.cls, {})
        o.schema_key = self.schema_key
        ref = st.alloc(o)
        for f, t in C.class_schema(self.schema_key).items():
            o.fields[f] = owner if f == self.backfield else t.fresh(st, f"{hint}.{f}")
        return ref

    def fresh(self, st, hint):
        raise Unsupported(f"{self} only exists inside its grammar")


class TBackP(TObj):
    def __init__(self):
        super().__init__(PG)
        self.name = "Back[PydanticGrammar]"


schema(MODEL, {"model_fields": FIELDS, "_built": FIELDS, "__internal__": TVal, "__pydantic_parent_namespace__": TDict(TStr, TVal)})
schema(RNP, {"_RequiredNames__names": NAMES, "_RequiredNames__grammar": TBackP()})
schema(DFP, {"_Defaults__data": DATA, "_Defaults__grammar": TBackP()})
schema(PG, {
    "name": TStr,
    "_defaults": TPartP(DF, DFP, "_Defaults__grammar"),
    "_required_names": TPartP(RN, RNP, "_RequiredNames__grammar"),
    "_PydanticGrammar__model": TObj(MODEL),
    "_PydanticGrammar__model_needs_rebuild": TBool,
})
M = "self._PydanticGrammar__model"


def model(g):
    return g._PydanticGrammar__model


def fields(g):
    return model(g).model_fields


def built(g):
    return model(g)._built


def flag(g):
    return g._PydanticGrammar__model_needs_rebuild


def req(g):
    return g._required_names._RequiredNames__names


def dfl(g):
    return g._defaults._Defaults__data


def mv(g):
    return [("model:built-from-the-current-fields-unless-flagged", z3.Implies(z3.Not(flag(g)), same_dict(built(g), fields(g))))]


def axioms():
    return [(f"pydantic{i}", f) for i, f in enumerate(P.field_axioms())]


def parts_kept(g0, g1, model_too=True):
    out = [("kept:required-names", same_set(req(g1), req(g0))), ("kept:defaults", same_dict(dfl(g1), dfl(g0))), ("kept:name", g1.name == g0.name),
           ("kept:parts", z3.BoolVal(g1._defaults.ref == g0._defaults.ref and g1._required_names.ref == g0._required_names.ref))]
    if model_too:
        out.append(("kept:model-object", z3.BoolVal(model(g1).ref == model(g0).ref)))
    return out


class _PG(Contract):
    prop = ("C15",)

    def requires(self, c):
        return mv(c.old.self)

    def axioms(self, c):
        return axioms()  # FieldInfo(annotation=a).annotation == a (definitional: assumed, never a precondition)


def with_mv(cls):
    orig = cls.ensures

    def ensures(self, c):
        return mv(c.new.self) + orig(self, c)

    cls.ensures = ensures
    return cls


def removed(d1, d0, gone):
    k = kq("k!prm")
    return z3.And(z3.ForAll([k], d1.has(k) == z3.And(d0.has(k), z3.Not(gone(k)))), z3.ForAll([k], z3.Implies(d1.has(k), d1.get(k) == d0.get(k))))


# ---------------------------------------------------------------------------- rebuild
@register
class RebuildModel(_PG):
    """Afterwards the model is built from the current fields and the flag is down; the fields are not changed."""

    targets = (PG + ".__rebuild_model",)
    modifies = ("self", M)

    def ensures(self, c):
        g0, g1 = c.old.self, c.new.self
        return [("flag-down", z3.Not(flag(g1))), ("built-from-the-current-fields", same_dict(built(g1), fields(g1))),
                ("fields-kept", same_dict(fields(g1), fields(g0)))] + parts_kept(g0, g1)


# ---------------------------------------------------------------------------- mutators
@register
@with_mv
class Delitem(_PG):
    targets = (PG + "._delitem",)
    params = {"name": TStr}
    modifies = ("self", M)
    raises = {"KeyError": lambda c: z3.Not(fields(c.old.self).has(c.old.name))}

    def ensures(self, c):
        g0, g1 = c.old.self, c.new.self
        return [("field-removed", removed(fields(g1), fields(g0), lambda k: k == c.old.name)), ("size", fields(g1).n == fields(g0).n - 1)] + parts_kept(g0, g1)


@register
@with_mv
class RenameElement(_PG):
    targets = (PG + "._rename_element",)
    params = {"current_name": TStr, "new_name": TStr}
    modifies = ("self", M)
    raises = {"KeyError": lambda c: z3.Not(fields(c.old.self).has(c.old.current_name))}

    def ensures(self, c):
        g0, g1 = c.old.self, c.new.self
        f0, f1 = fields(g0), fields(g1)
        a, b = c.old.current_name, c.old.new_name
        k = kq()
        return [("names", z3.ForAll([k], f1.has(k) == z3.Or(z3.And(f0.has(k), k != a), k == b))),
                ("field-moved", f1.get(b) == f0.get(a)),
                ("others-kept", z3.ForAll([k], z3.Implies(z3.And(f0.has(k), k != a, k != b), f1.get(k) == f0.get(k))))] + parts_kept(g0, g1)


@register
@with_mv
class Clear(_PG):
    """A new model without field, built (nothing to rebuild)."""

    targets = (PG + "._clear",)
    modifies = ("self",)

    def requires(self, c):
        return []

    def ensures(self, c):
        g0, g1 = c.old.self, c.new.self
        return [("no-field", fields(g1).n == 0), ("new-model", z3.BoolVal(model(g1).ref != model(g0).ref)), ("flag-down", z3.Not(flag(g1))),
                ("built-without-field", built(g1).n == 0)] + parts_kept(g0, g1, model_too=False)


def _restrict_inv(c, k):
    g0, g = c.old.self, c.new.self
    pos = c.seq.pos
    gone = lambda y: z3.And(z3.Not(member_fn(c.old.names)(y)), pos[y] < k)  # noqa: E731
    return [("fields", removed(fields(g), fields(g0), gone)), ("flag-raised-after-the-first-deletion", z3.Implies(k >= 1, flag(g))),
            ("untouched-before", z3.Implies(k == 0, z3.And(flag(g) == flag(g0), same_dict(built(g), built(g0))))),
            ("built-kept", same_dict(built(g), built(g0)))] + parts_kept(g0, g)


@register
@with_mv
class RestrictTo(_PG):
    targets = (PG + "._restrict_to",)
    params = {"names": NAMELIST}
    modifies = ("self", M)
    loops = {0: LoopSpec(anchor="self.keys() - names", modifies=("self", M + ".model_fields"), inv=_restrict_inv)}

    def ensures(self, c):
        g0, g1 = c.old.self, c.new.self
        return [("fields", removed(fields(g1), fields(g0), lambda k: z3.Not(member_fn(c.old.names)(k))))] + parts_kept(g0, g1)


def new_annotation(f0, nta, merge):
    return lambda x: z3.If(z3.And(merge, f0.has(x)), P.union_of(P.annotation_of(f0.get(x)), nta.get(x)), nta.get(x))


def updated_fields(f1, f0, taken, annotation):
    k = kq("k!uf")
    return [("names", z3.ForAll([k], f1.has(k) == z3.Or(f0.has(k), taken(k)))),
            ("new-fields", z3.ForAll([k], z3.Implies(taken(k), f1.get(k) == P.field_of_annotation(annotation(k))))),
            ("others-kept", z3.ForAll([k], z3.Implies(z3.And(f0.has(k), z3.Not(taken(k))), f1.get(k) == f0.get(k))))]


def _ufa_inv(c, k):
    g0, g = c.old.self, c.new.self
    nta = c.old.names_to_annotations
    pos = c.seq.pos
    done = lambda y: z3.And(nta.has(y), pos[y] < k)  # noqa: E731
    return updated_fields(fields(g), fields(g0), done, new_annotation(fields(g0), nta, c.old.merge)) + [
        ("alias", z3.BoolVal(c.locals["fields"].ref == fields(g).ref)), ("built-kept", same_dict(built(g), built(g0))), ("flag-kept", flag(g) == flag(g0))] + parts_kept(g0, g)


@register
@with_mv
class UpdateFromAnnotations(_PG):
    """Every given name becomes a field with the given annotation (Union with the former one when merging an existing field); the flag is raised."""

    targets = (PG + ".__update_from_annotations",)
    params = {"names_to_annotations": NTT, "merge": TBool}
    modifies = ("self", M)
    loops = {0: LoopSpec(anchor="names_to_annotations.items()", modifies=(M + ".model_fields",), inv=_ufa_inv)}

    def ensures(self, c):
        g0, g1 = c.old.self, c.new.self
        nta = c.old.names_to_annotations
        return updated_fields(fields(g1), fields(g0), lambda k: nta.has(k), new_annotation(fields(g0), nta, c.old.merge)) + [("flag-raised", flag(g1))] + parts_kept(g0, g1)


@register
@with_mv
class UpdateFromNames(_PG):
    targets = (PG + "._update_from_names",)
    params = {"names": NAMELIST, "merge": TBool}
    modifies = ("self", M)

    def ensures(self, c):
        g0, g1 = c.old.self, c.new.self
        f0 = fields(g0)
        ann = lambda x: z3.If(z3.And(c.old.merge, f0.has(x)), P.union_of(P.annotation_of(f0.get(x)), NDP), NDP)  # noqa: E731
        return updated_fields(fields(g1), f0, member_fn(c.old.names), ann) + [("flag-raised", flag(g1))] + parts_kept(g0, g1)


def _uft_inv(c, k):
    t = c.old.names_to_types
    a = c.locals["names_to_annotations"]
    pos = c.seq.pos
    x = kq("k!uti")
    return [("names", z3.ForAll([x], a.has(x) == t.has(x))), ("size", a.n == t.n),
            ("annotations", z3.ForAll([x], z3.Implies(t.has(x), a.get(x) == z3.If(z3.And(t.get(x) == G.TYPE_NDARRAY, pos[x] < k), NDP, t.get(x))))),
            ("own-dictionary", z3.BoolVal(a.ref != t.ref))]


@register
@with_mv
class UpdateFromTypes(_PG):
    """As __update_from_annotations, ndarray being replaced by NDArrayPydantic; the argument is not modified."""

    targets = (PG + "._update_from_types",)
    params = {"names_to_types": NTT, "merge": TBool}
    modifies = ("self", M)
    loops = {0: LoopSpec(anchor="names_to_types.items()", modifies=("names_to_annotations",), inv=_uft_inv)}

    def ensures(self, c):
        g0, g1 = c.old.self, c.new.self
        t = c.old.names_to_types
        f0 = fields(g0)
        given = lambda x: z3.If(t.get(x) == G.TYPE_NDARRAY, NDP, t.get(x))  # noqa: E731
        ann = lambda x: z3.If(z3.And(c.old.merge, f0.has(x)), P.union_of(P.annotation_of(f0.get(x)), given(x)), given(x))  # noqa: E731
        return updated_fields(fields(g1), f0, lambda k: t.has(k), ann) + [("flag-raised", flag(g1)), ("argument-not-modified", same_dict(c.new.names_to_types, t))] + parts_kept(g0, g1)


def _update_inv(c, k):
    o = c.old.grammar
    a = c.locals["names_to_annotations"]
    pos = c.seq.pos
    x = kq("k!ui")
    taken = lambda y: z3.And(fields(o).has(y), pos[y] < k, z3.Not(c.old.excluded_names.member[y]))  # noqa: E731
    return [("names", z3.ForAll([x], a.has(x) == taken(x))), ("annotations", z3.ForAll([x], z3.Implies(a.has(x), a.get(x) == P.annotation_of(fields(o).get(x)))))]


@register
@with_mv
class Update(_PG):
    """The fields of the other grammar, except the excluded names, with their annotations; the other grammar is not changed."""

    targets = (PG + "._update",)
    params = {"grammar": TObj(PG), "excluded_names": NAMES, "merge": TBool}
    modifies = ("self", M)
    loops = {0: LoopSpec(anchor="grammar.__model.model_fields.items()", modifies=("names_to_annotations",), inv=_update_inv, local_types={"names_to_annotations": NTT})}

    def requires(self, c):
        return mv(c.old.self) + [("not-itself", z3.BoolVal(c.arg("grammar") != c.arg("self") and model(c.old.grammar).ref != model(c.old.self).ref))]

    def ensures(self, c):
        g0, g1, o = c.old.self, c.new.self, c.old.grammar
        f0 = fields(g0)
        taken = lambda x: z3.And(fields(o).has(x), z3.Not(c.old.excluded_names.member[x]))  # noqa: E731
        given = lambda x: P.annotation_of(fields(o).get(x))  # noqa: E731
        ann = lambda x: z3.If(z3.And(c.old.merge, f0.has(x)), P.union_of(P.annotation_of(f0.get(x)), given(x)), given(x))  # noqa: E731
        return updated_fields(fields(g1), f0, taken, ann) + [("flag-raised", flag(g1)), ("other:fields-kept", same_dict(fields(c.new.grammar), fields(o)))] + parts_kept(g0, g1)


# ---------------------------------------------------------------------------- consumers
@register
class Validate(_PG):
    """The verdict is the one of a model built from the CURRENT fields; the fields are not changed."""

    targets = (PG + "._validate",)
    params = {"data": DATA, "error_message": TMsg()}
    returns = TBool
    modifies = ("self", M)

    def ensures(self, c):
        g0, g1 = c.old.self, c.new.self
        d = c.old.data
        return [("model:built-from-the-current-fields", same_dict(built(g1), fields(g1))), ("flag-down", z3.Not(flag(g1))),
                ("verdict:of-that-model", c.result == P.pyd_accepts(P.built_term(built(g1).obj), DATA.embed(c.st, c.arg("data")))),
                ("fields-kept", same_dict(fields(g1), fields(g0))), ("data-not-modified", same_dict(c.new.data, d))] + parts_kept(g0, g1)


@register
class Schema(_PG):
    """The JSON schema of the CURRENT fields (the model is rebuilt first when flagged - d39649c); the fields are not changed."""

    targets = (PG + ".schema",)
    returns = TVal
    modifies = ("self", M)

    def requires(self, c):
        return mv(c.old.self)

    def ensures(self, c):
        g0, g1 = c.old.self, c.new.self
        k = kq("k!ps")
        f = fields(g0)
        return mv(g1) + [("schema:lists-the-current-fields", z3.ForAll([k], z3.And(P.schema_names(c.result)[k] == f.has(k), z3.Implies(f.has(k), P.schema_fields(c.result)[k] == f.get(k))))),
                         ("fields-kept", same_dict(fields(g1), f))] + parts_kept(g0, g1)


@register
class Getitem(_PG):
    targets = (PG + ".__getitem__",)
    params = {"name": TStr}
    returns = TVal
    raises = {"KeyError": lambda c: z3.Not(fields(c.old.self).has(c.old.name))}

    def ensures(self, c):
        return [("value", c.result == fields(c.old.self).get(c.old.name))]


@register
class Len(_PG):
    targets = (PG + ".__len__",)
    returns = TInt

    def ensures(self, c):
        return [("value", c.result == fields(c.old.self).n)]


@register
class CopyInto(_PG):
    """The other grammar gets the same fields in its OWN new model whose fields dictionary is a copy (editing one grammar never changes the other - e892c2a),
    flagged for rebuild; the source is not changed."""

    targets = (PG + "._copy",)
    params = {"grammar": TObj(PG)}
    modifies = ("grammar",)

    def ensures(self, c):
        s, o0, o1 = c.old.self, c.old.grammar, c.new.grammar
        return [(f"copy:{l}", f) for l, f in mv(o1)] + [
            ("copy:same-fields", same_dict(fields(o1), fields(s))),
            ("copy:own-model", z3.BoolVal(model(o1).ref != model(s).ref and fields(o1).ref != fields(s).ref and built(o1).ref != built(s).ref)),
            ("copy:new-model", z3.BoolVal(model(o1).ref != model(o0).ref)),
            ("copy:flag-raised", flag(o1)),
            ("copy:kept:name", o1.name == o0.name),
            ("copy:kept:parts", z3.BoolVal(o1._defaults.ref == o0._defaults.ref and o1._required_names.ref == o0._required_names.ref))]


# ---------------------------------------------------------------------------- conversion to a SimpleGrammar
def simple_type_of(field):
    a = P.annotation_of(field)
    t = z3.If(P.origin_of(a) == val_none, a, P.origin_of(a))
    return z3.If(P.is_simple_type(t), t, val_none)


def _gntt_inv(c, k):
    g0 = c.old.self
    r = c.locals["names_to_types"]
    x = kq("k!pgi")
    pos = c.seq.pos
    return [("names", z3.ForAll([x], r.has(x) == z3.And(fields(g0).has(x), pos[x] < k))),
            ("types", z3.ForAll([x], z3.Implies(r.has(x), r.get(x) == simple_type_of(fields(g0).get(x))))), ("size", r.n == k)]


@register
class GetNamesToTypes(_PG):
    """names -> the annotation (its origin for a generic alias) when it is one of the simple types, else None; read-only."""

    targets = (PG + "._get_names_to_types",)
    returns = NTT
    loops = {0: LoopSpec(anchor="self.__model.model_fields.items()", inv=_gntt_inv, modifies=("names_to_types",), local_types={"names_to_types": NTT})}

    def ensures(self, c):
        g0, r = c.old.self, c.result
        k = kq("k!pgn")
        return [("names:the-current-fields", z3.ForAll([k], r.has(k) == fields(g0).has(k))),
                ("types", z3.ForAll([k], z3.Implies(fields(g0).has(k), r.get(k) == simple_type_of(fields(g0).get(k))))), ("size", r.n == fields(g0).n)]


def simple_types_facts():
    v = z3.Const("v!pst", P.ValS)
    return [("table:simple-types-are-types", z3.ForAll([v], z3.Implies(P.is_simple_type(v), z3.And(G.is_type(v), v != val_none)), patterns=[P.is_simple_type(v)]))]


@register
class ToSimplePydantic(Contract):
    """As for JSON grammars (c15_json_grammar.ToSimpleJson): a NEW well-formed SimpleGrammar bound to itself, same names, converted types, same required names,
    same default values in its own dictionary; the pydantic grammar is not changed."""

    targets = (G.BG + ".to_simple_grammar",)
    variant = "pydantic"
    prop = ("C15",)
    self_class = PG
    returns = TObj(G.SG)

    def axioms(self, c):
        return axioms()

    def requires(self, c):
        g = c.old.self
        k = kq("k!wfp")
        return mv(g) + G.type_facts() + simple_types_facts() + [
            ("wfg:required-names-are-elements", z3.ForAll([k], z3.Implies(req(g).member[k], fields(g).member[k]))),
            ("wfg:defaults-are-elements", z3.ForAll([k], z3.Implies(dfl(g).member[k], fields(g).member[k]))),
            ("wfg:name-is-not-empty", G._nonempty(g.name))]

    def ensures(self, c):
        g0, r = c.old.self, c.result
        k = kq("k!tsp")
        t = G.ntt(r)
        return G.wfg(r) + [
            ("same-names", z3.ForAll([k], t.has(k) == fields(g0).has(k))),
            ("types:converted", z3.ForAll([k], z3.Implies(t.has(k), t.get(k) == G.stored_type(simple_type_of(fields(g0).get(k)))))),
            ("same-required-names", z3.ForAll([k], G.req(r).member[k] == req(g0).member[k])),
            ("same-defaults", same_dict(G.dfl(r), dfl(g0))),
            ("same-name", r.name == g0.name),
            ("independent:defaults", z3.BoolVal(r._defaults.ref != g0._defaults.ref and r._defaults._Defaults__data.ref != g0._defaults._Defaults__data.ref)),
            ("independent:required-names", z3.BoolVal(r._required_names._RequiredNames__names.ref != g0._required_names._RequiredNames__names.ref)),
        ]
