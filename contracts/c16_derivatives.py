"""C16 - forward finite differences: perturbation matrix, bound safety, exact difference quotients.

Precise numpy model; the differentiated function is an uninterpreted map F: R^n -> R^m_out.
"""
from __future__ import annotations

import z3

from pyvc import contract as C
from pyvc.contract import Contract, LoopSpec, register, schema
from pyvc.npmodel import TArr
from pyvc.plug_c16 import TByStep, TStepUnion
from pyvc.values import TBool, TFun, TInt, TList, TNone, TObj, TOpt, TReal, TTuple

FD = "gemseo.utils.derivatives.finite_differences.FirstOrderFD"
BASE = "gemseo.utils.derivatives.base_gradient_approximator.BaseGradientApproximator"
DS = "gemseo.algos.design_space.DesignSpace"
F1, F2, I1 = TArr("f", 1), TArr("f", 2), TArr("i", 1)
FP = TFun("f_pointer", [F1], F1)
STEP = TStepUnion()
Ffun = z3.Function("f_pointer", F1.sort(), F1.sort())

schema(DS + "#fd", {"dimension": TInt})
schema(FD, {
    "f_pointer": FP,
    "_step": TReal,
    "_design_space": TOpt(TInt),  # replaced per contract (None / object): see the two contract variants
    "_normalize": TBool,
    "_parallel": TBool,
})
schema(FD + "#nods", {"f_pointer": FP, "_step": TReal, "_normalize": TBool, "_parallel": TBool, "_design_space": TNone})
schema(FD + "#ds", {"f_pointer": FP, "_step": TReal, "_normalize": TBool, "_parallel": TBool, "_design_space": TObj(DS, schema_key=DS + "#fd")})


def el(a, *i):
    return z3.Select(a.obj.elems, *i)


def ln(a, j=0):
    return a.obj.shape[j]


def idx_ok(idx, d):
    """input_indices: in range and pairwise distinct."""
    j, j2 = z3.Int("j!io"), z3.Int("j2!io")
    return [("indices-in-range", z3.ForAll([j], z3.Implies(z3.And(0 <= j, j < idx.n), z3.And(0 <= idx.elems[j], idx.elems[j] < d)))),
            ("indices-distinct", z3.ForAll([j, j2], z3.Implies(z3.And(0 <= j, j < j2, j2 < idx.n), idx.elems[j] != idx.elems[j2])))]


@register
class GeneratePerturbationsNoDesignSpace(Contract):
    """Column k of the perturbation matrix is x + step * e_{I_k}."""

    targets = (FD + "._generate_perturbations",)
    prop = ("C16",)
    self_schema = FD + "#nods"
    numpy = "precise"
    c16 = True
    params = {"input_values": F1, "input_indices": TList(TInt), "step": STEP}  # one global step, or one step per perturbation
    returns = TByStep(TTuple(F2, TReal), TTuple(F2, F1))

    def requires(self, c):
        out = idx_ok(c.old.input_indices, ln(c.old.input_values))
        if not z3.is_expr(c.old.step):
            out.append(("one-step-per-perturbation", ln(c.old.step) == c.old.input_indices.n))
        return out

    def ensures(self, c):
        x, idx, h = c.old.input_values, c.old.input_indices, c.old.step
        P, s = c.result_value
        Pv = C.View(c._new_heap, P, c.st)
        i, k = z3.Int("i!gp"), z3.Int("k!gp")
        hk = h if z3.is_expr(h) else el(h, k)
        if z3.is_expr(h):
            returned = ("step-returned", s.term == h)
        else:
            Sv = C.View(c._new_heap, s, c.st)
            returned = ("step-returned", z3.And(ln(Sv) == idx.n, z3.ForAll([k], z3.Implies(z3.And(0 <= k, k < idx.n), el(Sv, k) == el(h, k)))))
        return [
            ("shape", z3.And(ln(Pv, 0) == ln(x), ln(Pv, 1) == idx.n)),
            ("columns", z3.ForAll([i, k], z3.Implies(z3.And(0 <= i, i < ln(x), 0 <= k, k < idx.n),
                                                      el(Pv, i, k) == el(x, i) + z3.If(i == idx.elems[k], hk, z3.RealVal(0))))),
            returned,
        ]


def _grad_inv(c, k):
    """gradient[j] = (F(P[:, j]) - F(x)) / step[j] for the first k perturbations."""
    x, P = c.old.input_values, c.old.input_perturbations
    g = c.locals["gradient"]
    step = c.locals["step"]
    j, i = z3.Int("j!gi"), z3.Int("i!gi")
    return [("count", g.n == k),
            ("quotients", z3.ForAll([j], z3.Implies(z3.And(0 <= j, j < k), quotient_ok(g.elems[j], x, P, j, step.obj.elems[j]))))]


def column(P, k):
    i = z3.Int("i!col")
    return F1.dt.mk(P.obj.shape[0], z3.Lambda([i], z3.Select(P.obj.elems, i, k)))


def quotient_ok(gj, x, P, k, h):
    """gj (embedded rank-1 array) is the forward difference quotient of F for perturbation k."""
    i = z3.Int("i!q")
    fx = Ffun(F1.dt.mk(x.obj.shape[0], x.obj.elems))
    fp = Ffun(column(P, k))
    m = F1.dim(fx)
    return z3.And(F1.dim(gj) == m, z3.ForAll([i], z3.Implies(z3.And(0 <= i, i < m), F1.els(gj)[i] == (F1.els(fp)[i] - F1.els(fx)[i]) / h)))


@register
class ComputeGrad(Contract):
    targets = (FD + "._compute_grad",)
    prop = ("C16",)
    self_schema = FD + "#nods"
    numpy = "precise"
    c16 = True
    params = {"input_values": F1, "input_perturbations": F2, "step": STEP}  # one global step, or one step per perturbation
    returns = TList(F1)
    loops = {0: LoopSpec(anchor="range(n_perturbations)", modifies=("gradient",), local_types={"gradient": TList(F1)}, inv=_grad_inv)}

    def requires(self, c):
        x, P = c.old.input_values, c.old.input_perturbations
        v = z3.Const("v!fm", F1.sort())
        out = [("perturbation-shape", ln(P, 0) == ln(x)),
               ("output-dimension-is-fixed", z3.ForAll([v], z3.And(F1.dim(Ffun(v)) == z3.Int("m_out"), z3.Int("m_out") >= 0)))]
        if not z3.is_expr(c.old.step):
            out.append(("one-step-per-perturbation", ln(c.old.step) == ln(P, 1)))
        return out

    def ensures(self, c):
        x, P, h = c.old.input_values, c.old.input_perturbations, c.old.step
        g = c.result
        j = z3.Int("j!cg")
        hj = h if z3.is_expr(h) else el(h, j)
        return [("one-row-per-perturbation", g.n == ln(P, 1)),
                ("difference-quotients", z3.ForAll([j], z3.Implies(z3.And(0 <= j, j < g.n), quotient_ok(g.elems[j], x, P, j, hj))))]


@register
class OrderOfAccuracyLemmas(Contract):
    """Exact error of the forward quotient on polynomials with symbolic coefficients (first order in the step)."""

    targets = ()
    prop = ("C16",)
    lemma = True

    def lemmas(self):
        a0, a1, a2, x, h = z3.Reals("a0 a1 a2 x h")
        p = lambda t: a0 + a1 * t + a2 * t * t  # noqa: E731
        dp = a1 + 2 * a2 * x
        return [
            ("forward-exact-on-affine", z3.Implies(z3.And(h != 0, a2 == 0), (p(x + h) - p(x)) / h == dp)),
            ("forward-error-on-quadratic-is-a2*h", z3.Implies(h != 0, (p(x + h) - p(x)) / h - dp == a2 * h)),
            ("centered-exact-on-quadratic", z3.Implies(h != 0, (p(x + h) - p(x - h)) / (2 * h) == dp)),
        ]


# ---------------------------------------------------------------------------- with a design space: bound safety
from contracts import c02_normalization as N2  # noqa: E402

schema(DS + "#fd", dict(C.class_schema(DS + "#num")))


@register
class GetUpperBoundsComputed(Contract):
    """With up-to-date normalisation data, the cached array of all upper bounds is returned (assumed here, C02)."""

    targets = (DS + ".get_upper_bounds",)
    prop = ("C16",)
    self_schema = DS + "#num"
    returns = F1
    trusted = True
    description = "assumed: get_upper_bounds() returns the cached array of all upper bounds when the normalisation data are up to date"

    def requires(self, c):
        return N2.wfnum(c.old.self) + [("all-variables", c.arg("variable_names") == ()), ("as-array", c.arg("as_dict") is False)]

    def ensures(self, c):
        d = N2.S(c.old.self)
        i = z3.Int("i!gub")
        return [("length", ln(c.result) == d.dim), ("values", z3.ForAll([i], z3.Implies(z3.And(0 <= i, i < d.dim), el(c.result, i) == N2.el(d.ub, i))))]


@register
class GeneratePerturbationsWithDesignSpace(Contract):
    """Same columns with steps +-h, and no perturbed component exceeds its upper bound (h > 0, x within bounds)."""

    targets = (FD + "._generate_perturbations",)
    variant = "ds"
    prop = ("C16",)
    self_schema = FD + "#ds"
    numpy = "precise"
    params = {"input_values": F1, "input_indices": TList(TInt), "step": TReal}
    returns = TTuple(F2, F1)

    def requires(self, c):
        s = c.old.self
        ds = s._design_space
        d = N2.S(ds)
        x = c.old.input_values
        i = z3.Int("i!gpr")
        return (idx_ok(c.old.input_indices, ln(x)) + N2.wfnum(ds)
                + [("monotone-lemma", N2.increasing_implies_distinct(d)), ("dimension", ln(x) == d.dim), ("positive-step", c.old.step > 0)])

    def axioms(self, c):
        # instances of the real-arithmetic identity t != 0 => t / t == 1 (proved: contracts/c16_centered.DivisionLemma) at the ranges of the
        # normalised components (proof stability of bounds-used:normalized)
        d = N2.S(c.old.self._design_space)
        j = z3.Int("j!dl")
        t = N2.el(d.ub, N2.el(d.ni, j)) - N2.el(d.lb, N2.el(d.ni, j))
        return [("t != 0 => t / t == 1 at t = ub - lb of the normalised components", z3.ForAll([j], z3.Implies(t != 0, t / t == 1), patterns=[N2.el(d.ni, j)]))]

    def ensures(self, c):
        from pyvc.state import Undecided

        s = c.old.self
        d = N2.S(s._design_space)
        x, idx, h = c.old.input_values, c.old.input_indices, c.old.step
        P, steps = c.result_value
        Pv, Sv = C.View(c._new_heap, P, c.st), C.View(c._new_heap, steps, c.st)
        if "upper_bounds" not in c.locals:
            raise Undecided("the local 'upper_bounds' (bounds the perturbed points are compared with) no longer exists")
        UB = c.locals["upper_bounds"]
        i, k, j = z3.Int("i!gp"), z3.Int("k!gp"), z3.Int("j!gp")
        ubn = lambda t: N2.el(d.ub, t)  # noqa: E731
        lbn = lambda t: N2.el(d.lb, t)  # noqa: E731
        nij = N2.el(d.ni, j)
        return [
            ("shape", z3.And(ln(Pv, 0) == ln(x), ln(Pv, 1) == idx.n, ln(Sv) == idx.n)),
            ("steps-are-plus-or-minus-h", z3.ForAll([k], z3.Implies(z3.And(0 <= k, k < idx.n), z3.Or(el(Sv, k) == h, el(Sv, k) == -h)))),
            ("columns", z3.ForAll([i, k], z3.Implies(z3.And(0 <= i, i < ln(x), 0 <= k, k < idx.n),
                                                      el(Pv, i, k) == el(x, i) + z3.If(i == idx.elems[k], el(Sv, k), z3.RealVal(0))))),
            # the bounds used are the design space's upper bounds in the coordinates the approximator works in
            ("bounds-used:length", ln(UB) == d.dim),
            ("bounds-used:physical", z3.Implies(z3.Not(s._normalize), z3.ForAll([i], z3.Implies(z3.And(0 <= i, i < d.dim), el(UB, i) == ubn(i))))),
            ("bounds-used:normalized", z3.Implies(s._normalize, z3.ForAll([j], z3.Implies(z3.And(0 <= j, j < N2.ln(d.ni)),
                                                                                           el(UB, nij) == z3.If(ubn(nij) == lbn(nij), z3.RealVal(0), z3.RealVal(1)))))),
            ("bounds-used:not-normalized-components", z3.Implies(s._normalize, z3.ForAll([i], z3.Implies(z3.And(0 <= i, i < d.dim, N2.not_normalized(d, i)), el(UB, i) == ubn(i))))),
            # no perturbed component exceeds its upper bound
            ("upper-bound-safety", z3.ForAll([k], z3.Implies(z3.And(0 <= k, k < idx.n, el(x, idx.elems[k]) <= el(UB, idx.elems[k])),
                                                               el(Pv, idx.elems[k], k) <= el(UB, idx.elems[k])))),
        ]
