"""C05 (continued) - HDF5Cache is a behavioural subtype of the BaseFullCache storage specification.

``BaseFullCache`` is verified (contracts/c05_full_cache.py) relative to the contracts of its four storage methods
``_initialize_entry/_has_group/_read_data/_write_data`` over the model field ``_store`` (index -> group -> name -> array).  An
override has to satisfy the same contracts over its own representation.  ``MemoryFullCache`` keeps ``_store`` in a dictionary;
``HDF5Cache`` keeps it in a file, seen here through the abstract cache file of ``HDF5FileSingleton`` (contracts/c11_hdf5_cache_file.py,
pyvc/plug_hdf.py: entries -> groups -> datasets with attributes, *contents* only).

Method: ``_store`` stays a model field of the HDF5Cache object; the real code never touches it, *model code* (pyvc/plug_c05more.py)
updates it next to the file writes (``_write_data``: fresh arrays holding the written contents are filed under index/group;
``_initialize_entry``: an empty entry).  The COUPLING INVARIANT ``coupled`` relates it to the file:

  groups    entry i has group g in the store  <=>  the file has the entry str(i) and its group g
  names     the names (and their number) of store[i][g] are the datasets of that file group
  contents  the array filed under a name is what its dataset is stored as (bytes <-> str, sparse arrays as matrices)
  allocated the arrays of the store are allocated

Every storage method of HDF5Cache is verified against the storage contract of BaseFullCache (same class ``_WriteData`` ...) with the
coupling invariant as an extra pre- and postcondition.  Soundness of the transfer: ``_store`` is a model field, so inherited code
changes it only through the four storage methods; the file is private to HDF5Cache (one cache object per node: assumed); every
contract of c05_full_cache.py states that the array heap only grows (``heap-preserved``), and ``coupled`` is stable under allocation
(lemma checked as the postcondition ``coupling-kept`` of the read-only methods).  Hence ``coupled`` holds between any two calls and
every theorem proved for BaseFullCache over ``_store`` (cache_outputs, cache_jacobian, __getitem__, last_entry, __len__) holds for
HDF5Cache with ``_store`` = the content of its file.

The file handler's remaining methods (``has_group``, ``clear``, ``read_hashes``) and ``HDF5Cache.clear`` / ``_read_hashes`` are below;
the linearize protocol is in contracts/c05_linearize.py (imported at the end).
"""
from __future__ import annotations

import z3

from pyvc import plug_c05more as PM
from pyvc import plug_hdf as H
from pyvc.contract import Contract, LoopSpec, register, schema
from pyvc.plug_hdf import sidx
from pyvc.values import StrS, TBool, TInt, TList, TObj, TOpt, TStr, ValS, declare_ghost, forall_pat as FA, str_lit

from contracts.c05_caches import DATA, P, allocated, cont, cont_t, hashf, heap_preserved, kq, sc
from contracts.c05_full_cache import (BFC, BUCKETS, IDX, CELLS, FC, G_IN, G_JAC, G_OUT, GD, _Bfc, _HasGroup, _InitializeEntry, _ReadData, _WriteData, content_stable, nestc, preserved, ri,
                                      sterm, store_same)
from contracts.c11_hdf5_cache_file import CF, CFILE, FILE_F, SING, _Sing, _cpath, file_wf

HC = P + "hdf5_cache.HDF5Cache"
HC_FILE, HC_NODE = "_HDF5Cache__hdf_file", "_HDF5Cache__hdf_node_path"
schema(HC + "#c05", {HC_FILE: TObj(SING, schema_key=SING + "#file"), HC_NODE: TStr}, bases=[BFC])
FILE_PATH = "self." + HC_FILE + "." + FILE_F


class HF(CF):
    """The cache file of an HDF5Cache (``self.__hdf_file.__file``) in the entry or exit state."""

    def __init__(self, c, which="old"):
        f = getattr(getattr(getattr(c, which).self, HC_FILE), FILE_F)
        self.f = f
        self.node, self.nmem = f.node, f.nmem
        self.ents, self.hashes, self.grps, self.gds, self.gat = f.ents, f.hashes, f.grps, f.gds, f.gat
        self.heap = c.old_sym("arr", ValS) if which == "old" else c.new_sym("arr", ValS)


def gpath(i, g):
    return H.h5_path(sidx(i), g)


def stored_as(F: CF, p, name, content):
    """``content`` is the array the dataset ``name`` of the group p stands for: the matrix of the stored CSR triple for a dataset flagged
    sparse (whatever the format of the array: see the axiom ``sparse-contents-are-matrices``), the stored array otherwise (a bytes
    dataset stands for the str array it converts to)."""
    d = F.ds_val(p)[name]
    return z3.If(F.flagged(p, name), z3.And(H.is_sparse(content), H.sp_mat(content) == F.matrix(p, name)),
                 z3.If(H.np_dtype_is_bytes(d), content == H.np_to_str(d), content == d))


def coupled(v: FC, F: CF, heap=None, ctr=None):
    """The coupling invariant between the model field ``_store`` (view v) and the cache file (view F)."""
    heap = v.heap if heap is None else heap
    ctr = v.ctr if ctr is None else ctr
    i, g, k, s = z3.Int("i!cp"), z3.Const("g!cp", StrS), z3.Const("k!cp", StrS), z3.Const("s!cp", StrS)
    p = gpath(i, g)
    has = v.has(i, g)
    return [
        ("cpl:groups", FA([i, g], has == z3.And(F.ents.member[sidx(i)], F.has_grp(p)), p, GD.acc(0)(v.D.get(i))[g])),
        ("cpl:names", FA([i, g], z3.Implies(has, z3.And(v.dmem(i, g) == F.ds_mem(p), v.dn(i, g) == F.ds_n(p))), p, GD.acc(1)(v.D.get(i))[g])),
        ("cpl:contents", FA([i, g, k], z3.Implies(z3.And(has, F.ds_mem(p)[k]), stored_as(F, p, k, heap[v.dvals(i, g)[k]])), F.ds_mem(p)[k])),
        ("cpl:allocated", FA([i, g, k], z3.Implies(z3.And(has, F.ds_mem(p)[k]), z3.And(v.dvals(i, g)[k] > 0, v.dvals(i, g)[k] <= ctr)), F.ds_mem(p)[k])),
        ("cpl:members", F.nmem >= 0),
        # what makes a reopened file readable (read_hashes): entries are named by positive integers and carry the hash of their inputs
        ("cpl:entries-are-indices", entries_are_indices(F)),
        ("cpl:entries-have-inputs", FA([s], z3.Implies(F.ents.member[s], F.has_grp(H.h5_path(s, G_IN))), F.ents.member[s])),
        ("cpl:hashes-belong-to-entries", FA([s], z3.Implies(F.hashes.has(s), F.ents.member[s]), F.hashes.has(s))),
        ("cpl:hashes", FA([i], z3.Implies(v.has(i, G_IN), stored_hash(F, i) == hashf(v.cin[i])), F.hashes.get(sidx(i)), v.cin[i])),
    ] + file_wf(F)


def hdf_axioms():
    """Assumed facts used by the HDF5Cache contracts (listed in the evidence as axioms)."""
    a, b, s, g = z3.Const("a!ax", ValS), z3.Const("b!ax", ValS), z3.Const("s!ax", StrS), z3.Const("g!ax", StrS)
    i, j = z3.Int("i!ax"), z3.Int("j!ax")
    return [
        # at the cache level the content of a sparse array IS the matrix it denotes: a Jacobian written as a CSC/COO... array is
        # read back as the CSR array of the same matrix, which the property counts as the same Jacobian
        ("sparse-contents-are-matrices", z3.ForAll([a, b], z3.Implies(z3.And(H.is_sparse(a), H.is_sparse(b), H.sp_mat(a) == H.sp_mat(b)), a == b),
                                                   patterns=[z3.MultiPattern(H.sp_mat(a), H.sp_mat(b))])),
        ("h5-paths-are-injective", z3.ForAll([s, g], z3.And(H.h5_path_e(H.h5_path(s, g)) == s, H.h5_path_g(H.h5_path(s, g)) == g), patterns=[H.h5_path(s, g)])),
        ("str(int)-is-injective", z3.ForAll([i], z3.And(H.int_of_str(H.str_of_int(i)) == i, H.str_is_int(H.str_of_int(i))), patterns=[H.str_of_int(i)])),
        ("hash-dataset-decodes", z3.ForAll([i], PM.hash_of_bytes(H.hash_bytes(i)) == i, patterns=[H.hash_bytes(i)])),
        ("numpy-astype:str->bytes->str", z3.ForAll([a], z3.Implies(H.np_dtype_is_str(a), z3.And(H.np_dtype_is_bytes(H.np_to_bytes(a)), H.np_to_str(H.np_to_bytes(a)) == a)),
                                                   patterns=[H.np_to_bytes(a)])),
    ]


def cacheable(values, heap):
    """What an HDF5 cache is given (call sites: discipline data are numeric or str arrays, Jacobians numeric dense or sparse arrays):
    no bytes array, no sparse str array."""
    k = kq("k!ca")
    val = heap[values.get(k)]
    return z3.ForAll([k], z3.Implies(values.has(k), z3.And(z3.Not(H.np_dtype_is_bytes(val)), z3.Not(z3.And(H.np_dtype_is_str(val), H.is_sparse(val))))))


class _Hdf:
    """Mixin of the HDF5Cache storage contracts: same specification as the abstract method, over ``_store`` coupled with the file."""

    self_schema = HC + "#c05"
    field, abstract = "_store", False
    couples = True  # the coupling invariant is re-established (False: read-only method, `coupling-kept` instead)

    def axioms(self, c):
        return hdf_axioms()

    def requires(self, c):
        return super().requires(c) + coupled(self.v(c), HF(c))

    def ensures(self, c):
        v1 = self.v(c, "new")
        return super().ensures(c) + [(l if self.couples else "coupling-kept:" + l, f) for l, f in coupled(v1, HF(c, "new"))]


# =============================================================================== the four storage methods
def _model_initialize_entry(ex):
    """Model code of the (inherited, empty) ``_initialize_entry``: the model store gets an empty entry."""
    st = ex.st
    env = ex.frame.env
    store = st.heap[st.heap[env["self"].id].fields["_store"].id]
    e = PM.DictObj.empty(st, TStr, DATA)
    store.set(st, TInt.embed(st, env["index"]), GD.dt.mk(e.member, e.vals, e.n))
    ex.writeback(store)


@register
class HcInitializeEntry(_Hdf, _InitializeEntry):
    """BaseFullCache._initialize_entry as inherited by HDF5Cache (an empty body): correct because nothing is stored under an unused index."""

    targets = (BFC + "._initialize_entry",)
    variant = "hdf5"
    self_class = HC
    c05more_model_code = {"@entry": _model_initialize_entry}


@register
class HcHasGroup(_Hdf, _HasGroup):
    targets = (HC + "._has_group",)
    couples = False


def _model_write_data(ex):
    """Model code of ``_write_data``: fresh arrays holding the contents of ``values`` are filed under store[index][group]."""
    st = ex.st
    env = ex.frame.env
    store = st.heap[st.heap[env["self"].id].fields["_store"].id]
    values = st.heap[env["values"].id]
    idx, grp = TInt.embed(st, env["index"]), TStr.embed(st, env["group"])
    h0, ctr0 = st.symheap("arr", ValS), st.heap.ctr
    h1, ctr1 = st.fresh_const("heap_arr", h0.sort()), st.fresh_int("addr_ctr")
    vals1 = st.fresh_const("filed", DATA.acc(1).range())
    a, k = z3.Int("a!mw"), kq("k!mw")
    st.assume(ctr1 >= ctr0)
    st.assume(z3.ForAll([a], z3.Implies(a <= ctr0, h1[a] == h0[a])))
    st.assume(z3.ForAll([k], z3.Implies(values.member[k], z3.And(vals1[k] > ctr0, vals1[k] <= ctr1, h1[vals1[k]] == h0[values.vals[k]])), patterns=[vals1[k]]))
    st.heap.sym["arr"] = h1
    st.heap.ctr = ctr1
    cur = store.vals[idx]
    mem, vals, n = (GD.acc(j)(cur) for j in range(3))
    new = GD.dt.mk(z3.Store(mem, grp, z3.BoolVal(True)), z3.Store(vals, grp, DATA.dt.mk(values.member, vals1, values.n)), z3.If(mem[grp], n, n + 1))
    store.set(st, idx, new)
    ex.writeback(store)


@register
class HcWriteData(_Hdf, _WriteData):
    targets = (HC + "._write_data",)
    c05more_model_code = {"@entry": _model_write_data}

    @property
    def modifies(self):
        return ("self._store", FILE_PATH, "heap:arr")

    def requires(self, c):
        return super().requires(c) + [("values-are-cacheable", cacheable(c.old.values, c.old_sym("arr", ValS)))]


declare_ghost("hc_keep", z3.BoolSort())  # HDF5FileSingleton.__keep_open
declare_ghost("hc_open", z3.BoolSort())  # HDF5FileSingleton.__file is not None (the handle is open)
BOOL = z3.BoolSort()


@register
class HcReadData(_Hdf, _ReadData):
    targets = (HC + "._read_data",)
    couples = False
    modifies = ("heap:arr", "ghost:hc_open")

    def ensures(self, c):
        # ASSUMED (the open/close protocol of HDF5FileSingleton.__open is not verified): a file operation leaves the handle open inside
        # `keep_open` and closed otherwise
        return super().ensures(c) + [("assumed:file-handle", c.new_ghost("hc_open", BOOL) == c.old_ghost("hc_keep", BOOL))]


# =============================================================================== the file handler: has_group, clear
@register
class SingHasGroupPublic(_Sing):
    """``has_group``: the locked/opened version of ``_has_group`` - same value, same KeyError."""

    targets = (SING + ".has_group",)
    params = {"index": TInt, "group": TStr, "hdf_node_path": TStr}
    returns = TBool
    raises = {"KeyError": lambda c: z3.Not(CF(c).node)}

    def requires(self, c):
        return file_wf(CF(c))

    def ensures(self, c):
        F0 = CF(c)
        return [("value", c.result == z3.And(F0.ents.member[sidx(c.old.index)], F0.has_grp(_cpath(c))))]


def file_is_empty(F: CF):
    s = z3.Const("s!fe", StrS)
    return z3.And(z3.Not(F.node), z3.ForAll([s], z3.And(z3.Not(F.ents.member[s]), z3.Not(F.grps.member[s]), z3.Not(F.hashes.has(s)))))


@register
class SingClear(_Sing):
    """``clear``: the node is deleted with all its entries; nothing happens (and no exception) when the node does not exist
    (repaired by 56476e4: the deletion used to be unconditional, h5py raising KeyError for a missing node)."""

    targets = (SING + ".clear",)
    params = {"hdf_node_path": TStr}
    modifies = ("self." + FILE_F,)

    def requires(self, c):
        s = z3.Const("s!sc", StrS)
        F0 = CF(c)
        # (hash datasets live in entries: true of any file written through write_data; call site: the coupling invariant of HDF5Cache)
        return [("type:members", F0.nmem >= 0), ("type:members-count-the-node", z3.Implies(F0.node, F0.nmem >= 1)),
                ("hashes-belong-to-entries", FA([s], z3.Implies(F0.hashes.has(s), F0.ents.member[s]), F0.hashes.has(s)))] + file_wf(F0)

    def ensures(self, c):
        F0, F1 = CF(c), CF(c, "new")
        return [("node-deleted", file_is_empty(F1)), ("type:members", z3.And(F1.nmem >= 0, F1.nmem == z3.If(F0.node, F0.nmem - 1, F0.nmem)))] + file_wf(F1)


# =============================================================================== read_hashes: the hash table of a reopened file
SLOTS = z3.ArraySort(z3.IntSort(), z3.IntSort())  # the ghost fc_slot of c05_full_cache (index -> position in its bucket)


def stored_hash(F: CF, i):
    """The hash recorded in the file for the entry i (decoded as read_hashes does)."""
    return PM.hash_of_bytes(F.hashes.get(sidx(i)))


def entries_are_indices(F: CF):
    """Every entry of the node is named by a positive integer and has a hash dataset (what write_data creates)."""
    s = z3.Const("s!ei", StrS)
    return FA([s], z3.Implies(F.ents.member[s], z3.And(H.str_is_int(s), s == sidx(H.int_of_str(s)), H.int_of_str(s) >= 1, F.hashes.has(s))), F.ents.member[s])


class HV:
    """View of a ``_hashes_to_indices`` dictionary (hash -> index array)."""

    def __init__(self, d):
        self.d = d

    def has(self, h):
        return self.d.has(h)

    def n(self, h):
        return IDX.dt.accessor(0, 0)(self.d.get(h))

    def el(self, h):
        return IDX.dt.accessor(0, 1)(self.d.get(h))


def _filed(F, Hn, slot, upto=None, pos=None):
    """Every entry (visited so far) is filed in the bucket of its stored hash, at the position slot[index]."""
    i = z3.Int("i!fl")
    hk = stored_hash(F, i)
    cond = F.ents.member[sidx(i)] if upto is None else z3.And(F.ents.member[sidx(i)], pos[sidx(i)] < upto)
    return FA([i], z3.Implies(cond, z3.And(Hn.has(hk), 0 <= slot[i], slot[i] < Hn.n(hk), Hn.el(hk)[slot[i]] == i)), sidx(i))


def _only_entries(F, Hn, slot, upto=None, pos=None):
    """A bucket holds nothing else: each element is an entry (visited so far) with that stored hash, at its slot."""
    h, p = z3.Int("h!oe"), z3.Int("p!oe")
    idx = Hn.el(h)[p]
    ent = F.ents.member[sidx(idx)] if upto is None else z3.And(F.ents.member[sidx(idx)], pos[sidx(idx)] < upto)
    return FA([h, p], z3.Implies(z3.And(Hn.has(h), 0 <= p, p < Hn.n(h)), z3.And(ent, stored_hash(F, idx) == h, slot[idx] == p)), Hn.el(h)[p])


def _ghost_slot(c):
    """Ghost code of read_hashes (right before the bucket of the entry is looked up): the entry will be appended to its bucket."""
    Hn = HV(c.new.hashes_to_indices)
    h = c.locals["hash_"]
    slot = c.new_ghost("fc_slot", SLOTS)
    return {"fc_slot": z3.Store(slot, c.locals["index"], z3.If(Hn.has(h), Hn.n(h), 0))}


def _read_hashes_inv(c, k):
    F0 = CF(c)
    Hn = HV(c.new.hashes_to_indices)
    slot = c.new_ghost("fc_slot", SLOTS)
    pos, keys = c.seq.pos, c.seq.keys
    mx = c.locals["max_index"]
    i = z3.Int("i!rh")
    return [
        ("filed-so-far", _filed(F0, Hn, slot, k, pos)),
        ("only-visited-entries", _only_entries(F0, Hn, slot, k, pos)),
        ("max:bound", FA([i], z3.Implies(z3.And(F0.ents.member[sidx(i)], pos[sidx(i)] < k), i <= mx), sidx(i))),
        ("max:attained", z3.Or(mx == 0, z3.And(F0.ents.member[sidx(mx)], pos[sidx(mx)] < k))),
        ("max:nonnegative", mx >= 0),
    ]


@register
class SingReadHashes(_Sing):
    """``read_hashes`` on an EMPTY hash table (call site: HDF5Cache.__init__): afterwards every entry of the node is filed exactly once,
    in the bucket of the hash recorded in the file (ghost ``fc_slot``: its position there), the buckets hold nothing else, and the
    result is the largest entry index (0 when the file or the node does not exist or the node is empty).  The file is not modified."""

    targets = (SING + ".read_hashes",)
    params = {"hashes_to_indices": BUCKETS, "hdf_node_path": TStr}
    returns = TInt
    modifies = ("hashes_to_indices", "ghost:fc_slot")
    loops = {0: LoopSpec(anchor="root.items()", modifies=("hashes_to_indices", "ghost:fc_slot"), inv=_read_hashes_inv,
                         local_types={"index": TInt, "hash_": TInt, "max_index": TInt})}
    ghost_code = {"indices = hashes_to_indices.get(hash_)": _ghost_slot}

    def axioms(self, c):
        return hdf_axioms()[1:4]

    def requires(self, c):
        H0 = c.old.hashes_to_indices
        h = z3.Int("h!rq")
        return [("empty-hash-table", z3.And(H0.n == 0, z3.ForAll([h], z3.Not(H0.has(h))))), ("entries-are-indices", entries_are_indices(CF(c)))] + file_wf(CF(c))

    def ensures(self, c):
        F0 = CF(c)
        Hn = HV(c.new.hashes_to_indices)
        slot = c.new_ghost("fc_slot", SLOTS)
        i = z3.Int("i!re")
        r = c.result
        return [
            ("filed", _filed(F0, Hn, slot)),
            ("only-entries", _only_entries(F0, Hn, slot)),
            ("max:bound", FA([i], z3.Implies(F0.ents.member[sidx(i)], i <= r), sidx(i))),
            ("max:attained", z3.Or(r == 0, F0.ents.member[sidx(r)])),
            ("max:nonnegative", r >= 0),
        ]


# =============================================================================== HDF5Cache._read_hashes: a reopened cache serves the same entries
declare_ghost("hc_prev_max", z3.IntSort())  # the number of entries of the session that left the file
NO_TABLE = ("ri:range", "ri:initialized", "ri:inputs-present", "ri:view-coupling", "ri:allocated", "ri:distinct-inputs", "ri:nothing-stored-beyond-max-index")


class PrevFC(FC):
    """The abstract cache a previous session left: the store coupled with the file and its ``hc_prev_max`` entries; the hash table and
    the counters of the new HDF5Cache object are not set yet."""

    def __init__(self, c, which="old"):
        super().__init__(c, which)
        self.M = self.L = c.old_ghost("hc_prev_max", z3.IntSort())


@register
class HcReadHashes(_Bfc):
    """``HDF5Cache._read_hashes`` (called by ``__init__`` on an empty hash table): if the file holds what a previous session left - a store
    of ``hc_prev_max`` entries satisfying the representation invariant (but for the hash table) and the coupling invariant - then the
    new cache object satisfies BOTH invariants with the SAME abstract entries: ``len`` is restored, every entry is filed under the hash
    of its inputs.  Hence every lookup theorem of BaseFullCache holds for the reopened cache over the entries the file was left with."""

    targets = (HC + "._read_hashes",)
    self_schema = HC + "#c05"
    modifies = ("self._hashes_to_indices", *CELLS, "ghost:fc_slot")

    def axioms(self, c):
        return hdf_axioms()

    def requires(self, c):
        v0, vp = self.v(c), PrevFC(c)
        h = z3.Int("h!rh")
        return [("empty-hash-table", z3.And(v0.H.n == 0, z3.ForAll([h], z3.Not(v0.H.has(h)))))] + \
               [("previous-session:" + l, f) for l, f in ri(vp) if l in NO_TABLE] + coupled(v0, HF(c))

    def ensures(self, c):
        v0, v1 = self.v(c), self.v(c, "new")
        mp = c.old_ghost("hc_prev_max", z3.IntSort())
        F0 = HF(c)
        # (two stepping stones naming the terms the proof of `size-restored` needs)
        return [("lemma:the-last-entry-of-the-previous-session-is-in-the-file", z3.Implies(mp >= 1, z3.And(v0.has(mp, G_IN), F0.ents.member[sidx(mp)]))),
                ("lemma:the-largest-entry-has-inputs", z3.Implies(v1.M != 0, z3.And(F0.ents.member[sidx(v1.M)], F0.has_grp(gpath(v1.M, G_IN)), v0.has(v1.M, G_IN)))),
                ("size-restored", z3.And(v1.M == mp, v1.L == mp)), ("entries-untouched", store_same(v0, v1)), ("tolerance-kept", v1.tol == v0.tol)] + ri(v1) + coupled(v1, HF(c, "new"))


def _model_clear(ex):
    """Model code of ``HDF5Cache.clear`` (before the node is deleted): the model store is emptied."""
    st = ex.st
    store = st.heap[st.heap[ex.frame.env["self"].id].fields["_store"].id]
    e = PM.DictObj.empty(st, TInt, GD)
    store.member, store.vals, store.n = e.member, e.vals, e.n
    ex.writeback(store)


@register
class HcClear(_Bfc):
    """``HDF5Cache.clear``: no entry is left, neither in the hash table nor in the file; the representation and coupling invariants
    hold afterwards.  No exception is allowed - also when the node does not exist in the file (nothing was ever written, or the cache
    was already cleared): the KeyError of ``del file[node]`` was repaired by 56476e4."""

    targets = (HC + ".clear",)
    self_schema = HC + "#c05"
    modifies = ("self", *CELLS, FILE_PATH)
    c05more_model_code = {"self.__hdf_file.clear(self.__hdf_node_path)": _model_clear}

    def axioms(self, c):
        return hdf_axioms()

    def requires(self, c):
        v0, F0 = self.v(c), HF(c)
        # (len(file) counts the node when it exists)
        return ri(v0) + coupled(v0, F0) + [("type:members-count-the-node", z3.Implies(F0.node, F0.nmem >= 1))]

    def ensures(self, c):
        v0, v1 = self.v(c), self.v(c, "new")
        h, i = z3.Int("h!hc"), z3.Int("i!hc")
        return [("no-entry", z3.And(v1.M == 0, v1.L == 0)), ("no-bucket", z3.And(v1.H.n == 0, z3.ForAll([h], z3.Not(v1.H.has(h))))),
                ("tolerance-kept", v1.tol == v0.tol), ("store-empty", z3.And(v1.D.n == 0, z3.ForAll([i], z3.Not(v1.D.has(i))))),
                ("file-empty", file_is_empty(HF(c, "new")))] + ri(v1) + coupled(v1, HF(c, "new"))


# =============================================================================== enumeration of the entries (index order)
ENTRYV = PM.TEntryRec("CacheEntryValue", {"inputs": DATA, "outputs": DATA, "jacobian": DATA})
ENTRIES = TList(ENTRYV)


@register
class AllGroups(_Bfc):
    targets = (BFC + "._all_groups",)
    returns = TList(TInt)
    trusted = True
    description = ("assumed (sorted / itertools.chain / ndarray.tolist): the sorted concatenation of the index arrays of the hash table; under the "
                   "representation invariant every index 1..max_index occurs exactly once in the buckets and nothing else does, i.e. the list [1, ..., max_index]")

    def requires(self, c):
        return ri(self.v(c))

    def ensures(self, c):
        v0, r = self.v(c), c.result
        j = z3.Int("j!ag")
        return [("size", r.n == v0.M), ("ascending-indices", FA([j], z3.Implies(z3.And(0 <= j, j < r.n), r.elems[j] == j + 1), r.elems[j]))]


def _dt(term, f):
    return ENTRYV.accessor(f)(term)


def entry_value_is(v0, e, i, heap, ctr):
    """The entry value e (a yielded CacheEntry) is the stored entry i: its inputs, and its outputs / Jacobian when it has some."""
    c_of = lambda f: cont_t(_dt(e, f), heap)  # noqa: E731
    n_of = lambda f: DATA.acc(2)(_dt(e, f))  # noqa: E731
    k = kq("k!ev")
    alloc = lambda f: z3.ForAll([k], z3.Implies(DATA.acc(0)(_dt(e, f))[k], z3.And(DATA.acc(1)(_dt(e, f))[k] > 0, DATA.acc(1)(_dt(e, f))[k] <= ctr)))  # noqa: E731
    return z3.And(
        c_of("inputs") == v0.cin[i],
        z3.Implies(v0.nonempty(i, G_OUT), c_of("outputs") == v0.content(i, G_OUT)), (n_of("outputs") == 0) == z3.Not(v0.nonempty(i, G_OUT)),
        z3.Implies(v0.nonempty(i, G_JAC), c_of("jacobian") == nestc(v0.content(i, G_JAC))), (n_of("jacobian") == 0) == z3.Not(v0.nonempty(i, G_JAC)),
        alloc("inputs"), alloc("outputs"), alloc("jacobian"))


def _entries_inv(c, k):
    v0 = FC(c)
    ys = c.locals["__yield__"]
    j = z3.Int("j!en")
    h1 = c.new_sym("arr", ValS)
    return [("heap", heap_preserved(c)), ("content-stable", content_stable(c)), ("yielded", ys.n == k),
            ("entries-so-far", FA([j], z3.Implies(z3.And(0 <= j, j < k), entry_value_is(v0, ys.elems[j], j + 1, h1, c.new_ctr)), ys.elems[j]))]


@register
class BfcGetAllEntries(_Bfc):
    """``get_all_entries`` (and ``__iter__``): the entries 1..len(cache) in index order, each with the inputs filed under its index and the
    outputs / Jacobian stored for it (empty when it has none); the cache is not modified."""

    targets = (BFC + ".get_all_entries",)
    returns = ENTRIES
    modifies = ("heap:arr",)
    loops = {0: LoopSpec(anchor="self._all_groups", modifies=("__yield__", "heap:arr"), inv=_entries_inv)}

    def requires(self, c):
        return ri(self.v(c))

    def ensures(self, c):
        v0, r = self.v(c), c.result
        j = z3.Int("j!ge")
        h1 = c.new_sym("arr", ValS)
        return [("one-entry-per-index", r.n == v0.M),
                ("entries-in-index-order", FA([j], z3.Implies(z3.And(0 <= j, j < r.n), entry_value_is(v0, r.elems[j], j + 1, h1, c.new_ctr)), r.elems[j])),
                *preserved(c)]


def _hc_entries_inv(c, k):
    return _entries_inv(c, k) + [("handle", z3.And(c.new_ghost("hc_keep", BOOL), z3.Implies(k >= 1, c.new_ghost("hc_open", BOOL)),
                                                   z3.Implies(k == 0, c.new_ghost("hc_open", BOOL) == c.old_ghost("hc_open", BOOL))))]


@register
class HcGetAllEntries(BfcGetAllEntries):
    """The override of HDF5Cache (same loop inside ``keep_open``): same specification, the file and the model store stay coupled, the
    file handle is closed again.  No exception is allowed - also for an EMPTY cache, where no file operation opens the handle
    (``keep_open`` used to close it unconditionally -> AssertionError of ``__close``; repaired by 5ec8a9c, see KeepOpen below)."""

    targets = (HC + ".get_all_entries",)
    self_schema = HC + "#c05"
    modifies = ("heap:arr", "ghost:hc_open", "ghost:hc_keep")
    loops = {0: LoopSpec(anchor="self._all_groups", modifies=("__yield__", "heap:arr", "ghost:hc_open"), inv=_hc_entries_inv)}
    c05more_handle_protocol = True

    def axioms(self, c):
        return hdf_axioms()

    def requires(self, c):
        closed = z3.And(z3.Not(c.old_ghost("hc_keep", BOOL)), z3.Not(c.old_ghost("hc_open", BOOL)))
        return super().requires(c) + coupled(self.v(c), HF(c)) + [("file-handle-closed", closed)]

    def ensures(self, c):
        return super().ensures(c) + [("file-handle-closed", z3.And(z3.Not(c.new_ghost("hc_keep", BOOL)), z3.Not(c.new_ghost("hc_open", BOOL))))]


# ---- the handle protocol of keep_open, on the real source
schema(SING + "#handle", {"_HDF5FileSingleton__keep_open": TBool, "_HDF5FileSingleton__file": TOpt(TInt)})  # (the handle: an opaque id or None)


@register
class CloseHandle(Contract):
    targets = (SING + ".__close",)
    prop = ("C05",)
    self_schema = SING + "#handle"
    modifies = ("self",)
    trusted = True
    description = ("assumed (h5py File.close): `__close` closes the handle and forgets it; its `assert self.__file is not None` is the "
                   "PRECONDITION every call site has to establish (an AssertionError otherwise)")

    def requires(self, c):
        return [("the-handle-is-open (assert self.__file is not None)", z3.Not(c.old.self._HDF5FileSingleton__file.is_none()))]

    def ensures(self, c):
        return [("handle-forgotten", c.new.self._HDF5FileSingleton__file.is_none()), ("flag-kept", c.new.self._HDF5FileSingleton__keep_open == c.old.self._HDF5FileSingleton__keep_open)]


@register
class KeepOpen(Contract):
    """``keep_open`` (a generator-based context manager: the code before the yield is the entry, the code after it the exit), for an
    ARBITRARY state of the handle when the body is left - open (some file operation ran inside) or not (none did, e.g. the loop of
    get_all_entries over an empty cache): no exception, the flag is reset and no handle is left open."""

    targets = (SING + ".keep_open",)
    prop = ("C05",)
    self_schema = SING + "#handle"
    returns = TList(TOpt(TInt))
    modifies = ("self",)
    inline_ok = True  # callers (HDF5Cache.get_all_entries) see keep_open through the context-manager summary of pyvc/plug_c05more.py, which states this contract

    def ensures(self, c):
        return [("flag-reset", z3.Not(c.new.self._HDF5FileSingleton__keep_open)), ("no-handle-left-open", c.new.self._HDF5FileSingleton__file.is_none()),
                ("yields-once", c.result.n == 1)]


@register
class CacheIter(BfcGetAllEntries):
    """``BaseCache.__iter__`` of a full cache is ``get_all_entries``."""

    targets = (P + "base_cache.BaseCache.__iter__",)
    self_class = BFC
    loops = {}


@register
class SimpleCacheGetAllEntries(Contract):
    """``SimpleCache.get_all_entries``: the single stored entry (inputs, outputs, Jacobian as stored), nothing for an empty cache."""

    targets = (P + "simple_cache.SimpleCache.get_all_entries",)
    prop = ("C05",)
    returns = ENTRIES

    def ensures(self, c):
        i0, o0, j0 = sc(c)
        r = c.result
        e = r.elems[0]
        same = lambda f, d: z3.And(DATA.acc(0)(_dt(e, f)) == d.member, DATA.acc(1)(_dt(e, f)) == d.vals, DATA.acc(2)(_dt(e, f)) == d.n)  # noqa: E731
        return [("size", r.n == z3.If(i0.n != 0, 1, 0)),
                ("the-stored-entry", z3.Implies(i0.n != 0, z3.And(same("inputs", i0), same("outputs", o0), same("jacobian", j0))))]


# =============================================================================== BaseDiscipline.__can_load_cache with a FULL cache
# The branch of the data converters: the cached output arrays are converted back to grammar values (array -> float/int/str for the
# non-array output types).  The entry returned by the cache MAY BE the stored one (MemoryFullCache(is_memory_shared=False) hands out its
# dictionaries): the conversion must be written into a COPY - the frame clause below; see DATA_S in contracts/c05_full_cache.py.
from contracts.c05_caches import ARR  # noqa: E402
from contracts.c05_discipline import DISC, GR, IOC, merged, same_dict_obj  # noqa: E402
from contracts.c05_full_cache import BfcGetitem, buckets_same, ghosts_same  # noqa: E402
from pyvc.values import TSet  # noqa: E402

CONV = "gemseo.core.data_converters.base.BaseDataConverter"
schema(CONV, {})
schema(GR + "#conv", {"_names": TSet(TStr), "_data_converter": TObj(CONV)})
schema(IOC + "#full", {"_IO__data": DATA, "input_grammar": TObj(GR), "output_grammar": TObj(GR, schema_key=GR + "#conv")})
schema(DISC + "#full", {"name": TStr, "cache": TObj(BFC), "io": TObj(IOC, schema_key=IOC + "#full")})
conv_value = z3.Function("convert_array_to_value", StrS, ValS, ValS)  # the grammar value of a cached array (per output name)
WRITTEN = "fc_entry_written"


@register
class ConvertArrayToValue(Contract):
    targets = (CONV + ".convert_array_to_value",)
    prop = ("C05",)
    params = {"name": TStr, "array": ARR}
    returns = ARR
    modifies = ("heap:arr",)
    trusted = True
    description = ("assumed (data converters): the grammar value of a cached array is a function of the output name and of the content of the array "
                   "(the array itself for array types, array[0] for float/int/str types); the given array is not modified")

    def ensures(self, c):
        h0, h1 = c.old_sym("arr", ValS), c.new_sym("arr", ValS)
        return [("value", h1[c.result] == conv_value(sterm(c.old.name), h0[c.old.array])), ("allocated", z3.And(c.result > 0, c.result <= c.new_ctr)),
                ("heap-preserved", heap_preserved(c))]


def _convert_inv(c, k):
    """After k names: their values are converted, the others are still the cached arrays; no dictionary of the cache was written to."""
    co = c.locals["cache_output"]
    pre = c.pre_locals["cache_output"]
    h1 = c.new_sym("arr", ValS)
    hpre = c.st.ex._loop_pre[0].sym.get("arr", c.old_sym("arr", ValS))
    cpre = c.st.ex._loop_pre[0].ctr
    s, a = kq("k!cv"), z3.Int("a!cv")
    pos = c.seq.pos
    return [("names", z3.And(co.n == pre.n, FA([s], co.member[s] == pre.member[s], co.member[s]))),
            ("converted-so-far", FA([s], z3.Implies(z3.And(pre.member[s], pos[s] < k), z3.And(h1[co.vals[s]] == conv_value(s, hpre[pre.vals[s]]), co.vals[s] > 0, co.vals[s] <= c.new_ctr)), co.vals[s])),
            ("not-yet-converted", FA([s], z3.Implies(z3.And(pre.member[s], pos[s] >= k), co.vals[s] == pre.vals[s]), co.vals[s])),
            ("no-cache-dictionary-written", z3.Not(c.new_ghost(WRITTEN, z3.BoolSort()))),
            ("cached-arrays-allocated", FA([s], z3.Implies(pre.member[s], z3.And(pre.vals[s] > 0, pre.vals[s] <= cpre)), pre.vals[s])),
            ("heap-since-the-conversion-began", z3.And(c.new_ctr >= cpre, z3.ForAll([a], z3.Implies(a <= cpre, h1[a] == hpre[a])))),
            ("heap", heap_preserved(c))]


@register
class CanLoadCacheFull(_Bfc):
    """``__can_load_cache`` of a discipline holding a FULL cache (exact matching): True iff the entry of the input data has outputs; then the
    local data are the inputs merged with the CONVERTED cached outputs; and - frame - NOTHING of the cache changes: neither the store, the
    hash table, the counters... nor any dictionary the cache handed out (which may be the stored entry itself)."""

    targets = (DISC + ".__can_load_cache",)
    variant = "full"
    prop = ("C05",)
    self_schema = DISC + "#full"
    params = {"input_data": DATA}
    returns = TBool
    modifies = ("self.io", "heap:arr")
    loops = {0: LoopSpec(anchor="cache_output.items()", modifies=("cache_output", "heap:arr", "ghost:" + WRITTEN), inv=_convert_inv, local_types={"output_name": TStr, "value": ARR})}

    def v(self, c, which="old"):
        class _Re:  # the discipline re-rooted at its cache
            def __init__(self, ns):
                self.self = ns.self.cache

        class _C:
            old, new = _Re(c.old), _Re(c.new)
            old_sym, new_sym, old_ctr, new_ctr, old_ghost, new_ghost = c.old_sym, c.new_sym, c.old_ctr, c.new_ctr, c.old_ghost, c.new_ghost

        return FC(_C, which)

    def requires(self, c):
        v0 = self.v(c)
        return ri(v0) + [("exact-matching", v0.tol == 0), ("input-allocated", allocated(c.old.input_data, c.old_ctr)),
                         ("no-cache-dictionary-written-so-far", z3.Not(c.old_ghost(WRITTEN, z3.BoolSort())))]

    def ensures(self, c):
        v0, v1 = self.v(c), self.v(c, "new")
        inp = c.old.input_data
        ci = cont(inp, v0.heap)
        h1 = c.new_sym("arr", ValS)
        d0, d1 = c.old.self.io._IO__data, c.new.self.io._IO__data
        i, s = z3.Int("i!cl"), kq("k!cl")
        out_of = lambda x: OVget(v0.content(x, G_OUT)[s])  # noqa: E731
        hit = lambda x: z3.And(v0.inR(x), v0.cin[x] == ci, v0.nonempty(x, G_OUT))  # noqa: E731
        return [
            ("frame:a-cache-hit-does-not-write-into-the-cached-entry", z3.Not(c.new_ghost(WRITTEN, z3.BoolSort()))),
            ("frame:cache-unchanged", z3.And(store_same(v0, v1), buckets_same(v0, v1), ghosts_same(v0, v1), v1.M == v0.M)),
            ("hit:value", FA([i], z3.Implies(hit(i), c.result), v0.cin[i])),
            ("miss:value", z3.Implies(z3.ForAll([i], z3.Not(hit(i))), z3.Not(c.result))),
            ("hit:local-data-are-the-inputs-merged-with-the-converted-cached-outputs",
             FA([i], z3.Implies(hit(i), z3.ForAll([s], z3.And(
                 d1.has(s) == z3.Or(inp.has(s), v0.dmem(i, G_OUT)[s]),
                 z3.Implies(d1.has(s), h1[d1.get(s)] == z3.If(v0.dmem(i, G_OUT)[s], conv_value(s, v0.heap[v0.dvals(i, G_OUT)[s]]), v0.heap[inp.get(s)]))))), v0.cin[i])),
            ("miss:local-data-unchanged", z3.Implies(z3.Not(c.result), same_dict_obj(d1, d0))),
            ("input-untouched", same_dict_obj(c.new.input_data, inp)),
            *preserved(c),
        ]


def OVget(x):
    return x


from contracts import c05_linearize  # noqa: E402,F401  (registers the linearize contracts)
