"""C18 (partial) - RBF kernel derivatives are the derivatives of the kernels SciPy's Rbf evaluates.

Each ``der_<kernel>(x, |x|, eps)`` works component-wise on arrays; it is verified here for one
component x_i with r = |x| (r >= 0, x_i^2 <= r^2), which is what broadcasting applies everywhere.
Spec: d/dx_i phi(|x|) = phi'(r) x_i / r with the kernel definitions of scipy.interpolate.Rbf
(assumed): multiquadric sqrt((r/eps)^2+1), inverse 1/sqrt((r/eps)^2+1), gaussian exp(-(r/eps)^2)
- scaled by eps - and linear r, cubic r^3, quintic r^5, thin_plate r^2 log r - NOT scaled.
sqrt/exp/log are uninterpreted with the axioms used below; the two TOL-guarded kernels are
specified up to their documented regularisation (exact 0 at r <= TOL, the TOL-shifted formula
elsewhere).
"""
from __future__ import annotations

import z3

from pyvc import gmodels as G
from pyvc.contract import Contract, register
from pyvc.npmodel import np_exp, np_log, np_sqrt
from pyvc.values import TReal

CLS = "gemseo.mlearning.regression.algos.rbf.RBFRegressor.RBFDerivatives"
TOLV = z3.Real("rbf_TOL")  # finfo(float).eps: a positive constant
G.CLASS_CONSTANTS[(CLS, "TOL")] = lambda ex: __import__("pyvc.values", fromlist=["SV"]).SV(TOLV, TReal)


class _Der(Contract):
    prop = ("C18",)
    numpy = "precise"
    params = {"input_data": TReal, "norm_input_data": TReal, "eps": TReal}
    returns = TReal

    def requires(self, c):
        x, r, e = c.old.input_data, c.old.norm_input_data, c.old.eps
        s = (r / e) * (r / e) + 1
        return [("radius", z3.And(r >= 0, x * x <= r * r)), ("epsilon", e > 0), ("tolerance", TOLV > 0),
                ("sqrt", z3.And(np_sqrt(s) > 0, np_sqrt(s) * np_sqrt(s) == s))]


def _scaled(c):
    x, r, e = c.old.input_data, c.old.norm_input_data, c.old.eps
    return x, r, e, np_sqrt((r / e) * (r / e) + 1)


@register
class DerMultiquadric(_Der):
    """phi = s = sqrt((r/eps)^2+1):  s * dphi/dx_i = x_i / eps^2  (from 2 s s' = 2 r / eps^2 and dr/dx_i = x_i / r)."""

    targets = (CLS + ".der_multiquadric",)

    def ensures(self, c):
        x, r, e, s = _scaled(c)
        return [("derivative", c.result * s * e * e == x)]


@register
class DerInverseMultiquadric(_Der):
    """phi = 1/s:  s^3 * dphi/dx_i = -x_i / eps^2.  (``** 1.5`` is read as s^3 with s the square root.)"""

    targets = (CLS + ".der_inverse_multiquadric",)

    def ensures(self, c):
        x, r, e, s = _scaled(c)
        return [("derivative", c.result * s * s * s * e * e == -x)]


@register
class DerGaussian(_Der):
    """phi = exp(-(r/eps)^2):  dphi/dx_i = -2 x_i / eps^2 * phi."""

    targets = (CLS + ".der_gaussian",)

    def ensures(self, c):
        x, r, e, _ = _scaled(c)
        return [("derivative", c.result * e * e == -2 * x * np_exp(-((r / e) * (r / e))))]


@register
class DerLinear(_Der):
    """phi = r (not scaled by eps):  dphi/dx_i = x_i / r, regularised as x_i / (r + TOL) for r > TOL and 0 otherwise."""

    targets = (CLS + ".der_linear",)

    def ensures(self, c):
        x, r, e, _ = _scaled(c)
        return [("derivative", z3.If(r > TOLV, c.result * (r + TOLV) == x, c.result == 0)), ("independent-of-epsilon", z3.BoolVal(True))]


@register
class DerCubic(_Der):
    """phi = r^3:  dphi/dx_i = 3 r x_i."""

    targets = (CLS + ".der_cubic",)

    def ensures(self, c):
        x, r, e, _ = _scaled(c)
        return [("derivative", c.result == 3 * r * x)]


@register
class DerQuintic(_Der):
    """phi = r^5:  dphi/dx_i = 5 r^3 x_i."""

    targets = (CLS + ".der_quintic",)

    def ensures(self, c):
        x, r, e, _ = _scaled(c)
        return [("derivative", c.result == 5 * r * r * r * x)]


@register
class DerThinPlate(_Der):
    """phi = r^2 log r:  dphi/dx_i = x_i (1 + 2 log r), regularised as log(r + TOL) for r > TOL and 0 otherwise."""

    targets = (CLS + ".der_thin_plate",)

    def ensures(self, c):
        x, r, e, _ = _scaled(c)
        return [("derivative", z3.If(r > TOLV, c.result == x * (1 + 2 * np_log(r + TOLV)), c.result == 0))]
