"""C06 (PARTIAL CORRECTNESS ONLY) - what the MDA solvers guarantee IF they stop because the tolerance criterion is met.

Convergence itself (that the loop ever meets the criterion), agreement between algorithms and floating point are NOT covered.

(A) stop criterion (``BaseMDASolver``): ``_warn_convergence_criteria`` / ``_stop_criterion_is_reached`` - true iff the normalized residual
    norm just computed is <= tolerance or the iteration counter reached ``max_mda_iter``.
(B) ``_compute_normalized_residual_norm``: the scaling table, one contract variant per ``ResidualScaling`` member: the reference is
    fixed the FIRST time the function runs with ``_scaling_data is None`` and never changes afterwards.
(C) ``_compute_residuals``: residual[name] = value(local data)[name] - value(input data)[name] for a resolved variable name, the value
    of the discipline residual variable otherwise.
(D) the loops of ``MDAGaussSeidel._execute`` / ``MDAJacobi._execute`` / ``MDANewtonRaphson._execute``: iterate recursion and exit theorem.
(E) ``MDASequential._execute``: warm-started chain of MDAs, stop at the first one whose normed residual is below the tolerance.

Abstractions (see pyvc/plug_c06.py): vectors are opaque arrays, ``norm`` an uninterpreted non-negative real; the vector <-> data
conversions ``pack`` / ``unpack`` (through the lazily computed names-to-slices maps), the sequence transformer and the disciplines are
uninterpreted deterministic functions.
"""
from __future__ import annotations

import z3

from pyvc import plug_graph as PG
from pyvc.contract import Contract, LoopSpec, register, schema
from pyvc.plug_c06 import TAsm, asm_step_fn  # noqa: I001
from pyvc.plug_c06 import (ConvS, EXM_S, EXV_S, RS_MEMBERS, TConv, TNpReal, c06_array1, c06_div0, c06_norm, c06_out_m, c06_out_v, c06_sqrt,
                           c06_value_array, rs)
from pyvc.plug_graph import DLIST, DataM, DataV, DiscS, TDisc
from pyvc.values import (forall_pat, StrS, TBool, TDict, TInt, TList, TNd, TNone, TObj, TOpt, TReal, TRec, TStr, TTuple, TVal, ValS, str_lit, val_none)

I = z3.IntSort()  # noqa: E741
R = z3.RealSort()
B = z3.BoolSort()

MDA = "gemseo.mda.base_mda.BaseMDA"
SOLVER = "gemseo.mda.base_mda_solver.BaseMDASolver"
GS = "gemseo.mda.gauss_seidel.MDAGaussSeidel"
JACOBI = "gemseo.mda.jacobi.MDAJacobi"
ROOT = "gemseo.mda.base_mda_root.BaseMDARoot"
NEWTON = "gemseo.mda.newton_raphson.MDANewtonRaphson"
SEQ = "gemseo.mda.sequential_mda.MDASequential"
IOCLS = "gemseo.core.discipline.io.IO"
RELAX = "gemseo.algos.sequence_transformer.composite.relaxation_acceleration.RelaxationAcceleration"
COMPOSITE = "gemseo.algos.sequence_transformer.composite.composite.CompositeSequenceTransformer"

NRN = str_lit("MDA residuals norm")  # BaseMDA.NORMALIZED_RESIDUAL_NORM

SETTINGS = TRec("c06.MDASettings", {"tolerance": TReal, "max_mda_iter": TInt, "log_convergence": TBool, "warm_start": TBool, "execute_before_linearizing": TBool,
                                    "newton_linear_solver_name": TStr, "newton_linear_solver_settings": TVal, "method": TStr})
DATA = TDict(TStr, TVal)
RESID = TDict(TStr, TNd)
SLICES = TDict(TStr, TVal, ordered=True)  # name -> slice
SLMAP = TDict(TConv, SLICES, ordered=True)  # converter -> {name: slice}
NAMES = TList(TStr)

# the MDA's own IO: its data, and (ghost) the names of its output grammar (what IO.update_output_data filters on)
schema(IOCLS + "#c06", {"_IO__data": DATA, "c06_output_names": PG.NAMES})
schema(RELAX + "#c06", {"c06_state": TVal})  # ghost: the content of the transformers' queues

_SOLVER_FIELDS = {
    "settings": SETTINGS,
    "name": TStr,
    "normed_residual": TReal,
    "_current_iter": TInt,
    "reset_history_each_run": TBool,
    "residual_history": TList(TReal),
    "_starting_indices": TList(TInt),
    "_scaling": TStr,
    "_scaling_data": TVal,
    "io": TObj(IOCLS, schema_key=IOCLS + "#c06"),
    "_BaseMDASolver__resolved_variable_names": NAMES,
    "_BaseMDASolver__resolved_residual_names": NAMES,
    "_BaseMDASolver__resolved_variable_names_to_slices": SLMAP,
    "_BaseMDASolver__resolved_residual_names_to_slices": SLMAP,
    "c06_variable_map": SLMAP,  # prophecy ghosts: the maps __compute_names_to_slices computes the first time it runs
    "c06_residual_map": SLMAP,
    "_current_residuals": RESID,
    "_sequence_transformer": TObj(RELAX, schema_key=RELAX + "#c06"),
    "_ProcessDiscipline__disciplines": DLIST,
    "assembly": TAsm,  # the Jacobian assembly (opaque; C07)
    "matrix_type": TStr,
}
for _cls in (SOLVER, GS, JACOBI):
    schema(_cls + "#c06", dict(_SOLVER_FIELDS))


def same_map(a, b):
    """Two (ordered) dictionaries with the same content and order."""
    return z3.And(a.member == b.member, a.vals == b.vals, a.n == b.n, a.keys == b.keys, a.pos == b.pos)


def same_list(a, b):
    return z3.And(a.n == b.n, a.elems == b.elems)


# ============================================================================ abstract vector <-> data conversions
_MS = (z3.ArraySort(ConvS, B), z3.ArraySort(ConvS, SLICES.sort()), z3.ArraySort(I, ConvS), I)
pack = z3.Function("c06_pack", *_MS, DataM, DataV, ValS)  # concatenation, in the order of the map, of the values of the named entries
unpack_m = z3.Function("c06_unpack_member", *_MS, ValS, DataM)  # keys / values of the data a vector denotes through the map
unpack_v = z3.Function("c06_unpack_vals", *_MS, ValS, DataV)
EMPTY_VEC = z3.Const("val_empty_array", ValS)


reference_of = z3.Function("c06_is_reference_of", StrS, ValS, B)  # the scaling data are a reference computed by that scaling method


def scaling_invariant(scaling, data):
    """`_scaling_data` is None or a reference of the CURRENT scaling method (typed in the verified variants of (B): a real / an array).
    Established by __init__ (None), preserved by the scaling setters (F: verified - the data are reset) and by the norm computation."""
    return z3.Or(data == val_none, reference_of(scaling, data))


def _map_args(m):
    return (m.member, m.vals, m.keys, m.n)


def pack_of(m, d):
    return pack(*_map_args(m), d.member, d.vals)


# ============================================================================ ASSUMED summaries (callees of the functions under contract)
def computed_maps(s):
    """The names-to-slices maps after ``__compute_names_to_slices``: the cached ones when the cache is filled, else the (prophecy) maps
    the function computes.  Returns ((member, vals, keys, n) of the variable map, ... of the residual map, z3 Bool "already cached")."""
    vm, rm = s._BaseMDASolver__resolved_variable_names_to_slices, s._BaseMDASolver__resolved_residual_names_to_slices
    gv, gr = s.c06_variable_map, s.c06_residual_map
    cached = vm.n != 0
    pick = lambda a, b: tuple(z3.If(cached, x, y) for x, y in zip(_map_args(a), _map_args(b)))  # noqa: E731
    return pick(vm, gv), pick(rm, gr), cached


def maps_are(s1, s0):
    vm1, rm1 = s1._BaseMDASolver__resolved_variable_names_to_slices, s1._BaseMDASolver__resolved_residual_names_to_slices
    vm0, rm0 = s0._BaseMDASolver__resolved_variable_names_to_slices, s0._BaseMDASolver__resolved_residual_names_to_slices
    cached = vm0.n != 0
    return [("cached-maps-are-kept", z3.Implies(cached, z3.And(same_map(vm1, vm0), same_map(rm1, rm0)))),
            ("maps-computed-once", z3.Implies(z3.Not(cached), z3.And(same_map(vm1, s0.c06_variable_map), same_map(rm1, s0.c06_residual_map))))]


def maps_kept(s1, s0):
    return z3.And(same_map(s1._BaseMDASolver__resolved_variable_names_to_slices, s0._BaseMDASolver__resolved_variable_names_to_slices),
                  same_map(s1._BaseMDASolver__resolved_residual_names_to_slices, s0._BaseMDASolver__resolved_residual_names_to_slices))


_MAPS = ("self._BaseMDASolver__resolved_variable_names_to_slices", "self._BaseMDASolver__resolved_residual_names_to_slices")


@register
class ComputeNamesToSlices(Contract):
    """ASSUMED: the two names-to-slices maps are computed once (when the variable map is empty) and cached; nothing else changes."""

    targets = (SOLVER + ".__compute_names_to_slices",)
    prop = ("C06",)
    trusted = True
    description = ("assumed: __compute_names_to_slices leaves a non-empty cache as it is and otherwise fills both names-to-slices maps (named by the prophecy ghost "
                   "fields c06_variable_map / c06_residual_map; grammars and data converters are not modelled); nothing else changes")
    self_schema = SOLVER + "#c06"
    modifies = _MAPS

    def ensures(self, c):
        return maps_are(c.new.self, c.old.self)


def residual_vector(s):
    """The vector ``get_current_resolved_residual_vector`` returns in state s (maps as they are after the lazy computation)."""
    _, rm, _ = computed_maps(s)
    return z3.If(s._BaseMDASolver__resolved_residual_names.n == 0, EMPTY_VEC, pack(*rm, s._current_residuals.member, s._current_residuals.vals))


def variables_vector(s):
    vm, _, _ = computed_maps(s)
    d = s.io._IO__data
    return z3.If(s._BaseMDASolver__resolved_variable_names.n == 0, EMPTY_VEC, pack(*vm, d.member, d.vals))


class _GetVector(Contract):
    prop = ("C06",)
    trusted = True
    self_schema = SOLVER + "#c06"
    returns = TNd
    modifies = _MAPS
    names = ""

    def ensures(self, c):
        s0, s1 = c.old.self, c.new.self
        empty = getattr(s0, self.names).n == 0
        return [(l, z3.Implies(z3.Not(empty), f)) for l, f in maps_are(s1, s0)] + [
            ("no-names-nothing-computed", z3.Implies(empty, maps_kept(s1, s0))),
            ("vector", c.result == (residual_vector(s0) if "residual" in self.names else variables_vector(s0)))]


@register
class GetCurrentResolvedResidualVector(_GetVector):
    """ASSUMED: the empty array when there is no resolved residual, else pack(residual map, _current_residuals)."""

    targets = (SOLVER + ".get_current_resolved_residual_vector",)
    names = "_BaseMDASolver__resolved_residual_names"
    description = ("assumed: get_current_resolved_residual_vector returns array([]) when there is no resolved residual name, else the concatenation c06_pack(residual "
                   "names-to-slices map, _current_residuals) (uninterpreted; converters not modelled), after the lazy computation of the maps")


@register
class GetCurrentResolvedVariablesVector(_GetVector):
    """ASSUMED: the empty array when there is no resolved variable, else pack(variable map, local data)."""

    targets = (SOLVER + ".get_current_resolved_variables_vector",)
    names = "_BaseMDASolver__resolved_variable_names"
    description = ("assumed: get_current_resolved_variables_vector returns array([]) when there is no resolved variable name, else c06_pack(variable names-to-slices "
                   "map, local data) (uninterpreted), after the lazy computation of the maps")


def data_updated(d1, d0, um, uv, array_level=False):
    """d1 = d0 updated with the mapping (um, uv).  (array_level: also as array equalities - for assumed summaries only)"""
    x = z3.Const("x!du", StrS)
    if array_level:
        nm, nv = z3.Lambda([x], z3.Or(d0.member[x], um[x])), z3.Lambda([x], z3.If(um[x], uv[x], d0.vals[x]))
        return data_updated(d1, d0, um, uv) + [("keys(array)", d1.member == nm), ("values(array)", d1.vals == nv)]
    return [("keys", forall_pat([x], d1.member[x] == z3.Or(d0.member[x], um[x]), d1.member[x])),
            ("values", forall_pat([x], d1.vals[x] == z3.If(um[x], uv[x], d0.vals[x]), d1.vals[x]))]


@register
class UpdateOutputData(Contract):
    """ASSUMED: the items of ``output_data`` whose key is an output name are stored in the data (namespaces not modelled)."""

    targets = (IOCLS + ".update_output_data",)
    prop = ("C06",)
    trusted = True
    description = ("assumed: IO.update_output_data(output_data) stores the items whose key is a name of the output grammar (ghost set c06_output_names) and ignores "
                   "the others (namespaces not modelled)")
    self_schema = IOCLS + "#c06"
    params = {"output_data": DATA}
    modifies = ("self",)

    def ensures(self, c):
        s0, s1, od = c.old.self, c.new.self, c.old.output_data
        x = z3.Const("x!uo", StrS)
        sel = z3.Lambda([x], z3.And(od.member[x], s0.c06_output_names.member[x]))
        return data_updated(s1._IO__data, s0._IO__data, sel, od.vals) + [
            ("output-names-kept", z3.And(s1.c06_output_names.member == s0.c06_output_names.member, s1.c06_output_names.n == s0.c06_output_names.n))]


# ============================================================================ (A) stop criterion
@register
class WarnConvergenceCriteria(Contract):
    """(normed residual <= tolerance, max_mda_iter <= current iteration); no effect (the warning is a log message)."""

    targets = (SOLVER + "._warn_convergence_criteria",)
    prop = ("C06",)
    c06 = True
    self_schema = SOLVER + "#c06"
    returns = TTuple(TBool, TBool)

    def ensures(self, c):
        s = c.old.self
        small, maxit = c.result_value
        return [("residual-is-small", small.term == (s.normed_residual <= s.settings.tolerance)),
                ("max-iter-is-reached", maxit.term == (s.settings.max_mda_iter <= s._current_iter))]


# ============================================================================ (B) the normalized residual norm: scaling table
from pyvc.gmodels import nd_size  # noqa: E402


def coupled_system(s):
    """The claim is about COUPLED systems: there is at least one resolved variable / residual, and the residual names-to-slices map (cached, or the
    one that will be computed) is not empty.  (An MDA without resolved variables is left out of the claim: see not_covered.)"""
    vm, rm, gr = s._BaseMDASolver__resolved_variable_names_to_slices, s._BaseMDASolver__resolved_residual_names_to_slices, s.c06_residual_map
    return [("coupled:at-least-one-resolved-residual", s._BaseMDASolver__resolved_residual_names.n >= 1),
            ("coupled:the-residual-map-is-not-empty", z3.And(gr.n >= 1, z3.Implies(vm.n != 0, rm.n >= 1)))]


def pack_axioms():
    """ASSUMED: the concatenation of the values of a non-empty names-to-slices map has at least one component."""
    a = [z3.Const(f"p{i}!pa", srt) for i, srt in enumerate((*_MS, DataM, DataV))]
    return [("packed-vector-of-a-non-empty-map-is-not-empty", z3.ForAll(a, z3.Implies(a[3] >= 1, nd_size(pack(*a)) >= 1), patterns=[pack(*a)]))]

from pyvc.plug_c06 import c06_scalar  # noqa: E402  (the real a 0-d numpy value denotes)
normed_of = z3.Function("c06_normed_residual", StrS, ValS, ValS, R)  # abstract view: (scaling, scaling data AFTER the call, residual vector) -> normed residual
next_scaling_data = z3.Function("c06_next_scaling_data", StrS, ValS, ValS, ValS)  # ... -> scaling data after the call


def npf(name, *args):
    """The uninterpreted function the opaque numpy layer (pyvc/gmodels.py) uses for an operation on opaque arrays."""
    return z3.Function(f"np_{name}_{len(args)}", *([ValS] * len(args)), ValS)(*args)


def history_spec(c, N, store_it):
    """Residual history / starting indices / iteration counter as coded: reset at the first iteration of a run when reset_history_each_run,
    then (store_it) the index of the first residual of a run is recorded, the residual appended, the counter incremented."""
    s0, s1 = c.old.self, c.new.self
    h0, h1, i0, i1 = s0.residual_history, s1.residual_history, s0._starting_indices, s1._starting_indices
    first = s0._current_iter == 0
    reset = z3.And(first, s0.reset_history_each_run)
    bh, bi = z3.If(reset, 0, h0.n), z3.If(reset, 0, i0.n)
    j = z3.Int("j!hs")
    out = [
        ("counter", s1._current_iter == z3.If(store_it, s0._current_iter + 1, s0._current_iter)),
        ("history-length", h1.n == z3.If(store_it, bh + 1, bh)),
        ("history-prefix-kept", forall_pat([j], z3.Implies(z3.And(0 <= j, j < bh), h1.elems[j] == h0.elems[j]), h1.elems[j])),
        ("history-last", z3.Implies(store_it, h1.elems[bh] == N)),
        ("starting-indices-length", i1.n == z3.If(z3.And(store_it, first), bi + 1, bi)),
        ("starting-indices-prefix-kept", forall_pat([j], z3.Implies(z3.And(0 <= j, j < bi), i1.elems[j] == i0.elems[j]), i1.elems[j])),
        ("starting-index-recorded", z3.Implies(z3.And(store_it, first), i1.elems[bi] == bh)),
    ]
    return out


def norm_stored_in_data(s1, s0, N):
    """The local data get the item NORMALIZED_RESIDUAL_NORM: array([normed residual]) if this is an output name, and nothing else."""
    x = z3.Const("x!ns", StrS)
    sel = z3.Lambda([x], z3.And(x == NRN, s0.io.c06_output_names.member[NRN]))
    return data_updated(s1.io._IO__data, s0.io._IO__data, sel, z3.K(StrS, c06_array1(N)))


def norm_post(c, N, sd_clauses, store_it):
    """State after _compute_normalized_residual_norm(store_it) given the normed residual N and the clauses on the new scaling data."""
    s0, s1 = c.old.self, c.new.self
    empty = s0._BaseMDASolver__resolved_residual_names.n == 0
    keep = [(f, getattr(s1, f) == getattr(s0, f)) for f in ("name", "reset_history_each_run", "_scaling")] + [("settings", s1.settings.term == s0.settings.term)]
    keep += [(f, same_list(getattr(s1, f), getattr(s0, f))) for f in ("_BaseMDASolver__resolved_variable_names", "_BaseMDASolver__resolved_residual_names",
                                                                        "_ProcessDiscipline__disciplines")]
    keep += [(f, same_map(getattr(s1, f), getattr(s0, f))) for f in ("c06_variable_map", "c06_residual_map")]
    cr0, cr1 = s0._current_residuals, s1._current_residuals
    return [("normed-residual", s1.normed_residual == N)] + [(f"scaling-data:{l}", f) for l, f in sd_clauses] + \
        [(f"history:{l}", f) for l, f in history_spec(c, N, store_it)] + \
        [(f"data:{l}", f) for l, f in norm_stored_in_data(s1, s0, N)] + \
        [(f"maps:{l}", z3.Implies(z3.Not(empty), f)) for l, f in maps_are(s1, s0)] + [("maps:no-names-nothing-computed", z3.Implies(empty, maps_kept(s1, s0)))] + \
        [(f"unchanged:{l}", f) for l, f in keep] + \
        [("unchanged:residuals", z3.And(cr1.member == cr0.member, cr1.vals == cr0.vals, cr1.n == cr0.n)),
         ("unchanged:output-names", s1.io.c06_output_names.member == s0.io.c06_output_names.member)]


def abstract_table(c):
    s0, s1 = c.old.self, c.new.self
    Rv = residual_vector(s0)
    # (every row of the table computes the norm from the reference AFTER the call: the one just fixed, or the stored one)
    return normed_of(s0._scaling, s1._scaling_data, Rv), [("abstract", s1._scaling_data == next_scaling_data(s0._scaling, s0._scaling_data, Rv)),
                                                            ("inv:scaling-data-fit-the-current-method", scaling_invariant(s0._scaling, s1._scaling_data))]


_NORM_RAISES = {"ValueError": None}  # a scaling value that is no ResidualScaling member (see the variant unknown_scaling)


_NORM_MODIFIES = ("self", "self.io", "self.residual_history", "self._starting_indices", *_MAPS)


class _NormBase(Contract):
    targets = (SOLVER + "._compute_normalized_residual_norm",)
    prop = ("C06",)
    c06 = True
    params = {"store_it": TBool}
    returns = TReal
    modifies = _NORM_MODIFIES

    def table(self, c, Rv):
        """-> (normed residual, list of clauses on the new scaling data)"""
        raise NotImplementedError

    def axioms(self, c):
        return pack_axioms()

    def ensures(self, c):
        N, sd_clauses = self.table(c, residual_vector(c.old.self))
        return [("result", c.result == N)] + norm_post(c, N, sd_clauses, c.old.store_it)


@register
class NormAbstract(_NormBase):
    """ASSUMED abstraction used at the call sites (the loops): the normed residual and the next scaling data are uninterpreted functions
    of (scaling method, scaling data, residual vector) - what the per-scaling variants below verify on the real source, without the
    formulas; history, counter and data clauses are the same as in the verified variants."""

    trusted = True
    description = ("assumed abstraction of _compute_normalized_residual_norm for its call sites: normed residual = c06_normed_residual(scaling, scaling data, residual "
                   "vector), scaling data' = c06_next_scaling_data(...) (uninterpreted; the formulas are verified per ResidualScaling member by the variants of the "
                   "same function), same history / counter / local-data clauses as the verified variants")
    self_schema = SOLVER + "#c06"
    raises = _NORM_RAISES
    raises_exact = False

    def requires(self, c):
        return [("inv:scaling-data-fit-the-current-method", scaling_invariant(c.old.self._scaling, c.old.self._scaling_data))] + coupled_system(c.old.self)

    def table(self, c, Rv):
        return abstract_table(c)


def _variant_schema(tag, sd_type):
    schema(SOLVER + "#c06:" + tag, {**_SOLVER_FIELDS, "_scaling_data": sd_type})
    return SOLVER + "#c06:" + tag


class _NormVariant(_NormBase):
    member = ""

    def requires(self, c):
        # (distinct string literals: a tautology of the string model, stated so that every member literal exists when the branches are decided)
        return [("scaling-method", c.old.self._scaling == rs(self.member)), ("members-are-distinct-strings", z3.Distinct(*[rs(m) for m in RS_MEMBERS]))] + \
            self.rep_invariant(c) + coupled_system(c.old.self)

    def rep_invariant(self, c):
        return []


@register
class NormNoScaling(_NormVariant):
    """NO_SCALING: ||R||_2; the scaling data are not touched."""

    variant = "no_scaling"
    member = "NO_SCALING"
    self_schema = _variant_schema("no_scaling", TVal)

    def table(self, c, Rv):
        return c06_norm(Rv), [("kept", c.new.self._scaling_data == c.old.self._scaling_data)]


OPT_REAL = TOpt(TReal)


def _ref(sd, first_value):
    """The reference: the stored one, or - the first time - the given value."""
    return z3.If(sd.is_none(), first_value, OPT_REAL.dt.get(sd.term))


@register
class NormInitialResidualNorm(_NormVariant):
    """INITIAL_RESIDUAL_NORM: ||R||_2 / ref with ref = ||R_first||_2 (1 if that is 0), fixed the first time and kept afterwards."""

    variant = "initial_residual_norm"
    member = "INITIAL_RESIDUAL_NORM"
    self_schema = _variant_schema("initial_residual_norm", OPT_REAL)

    def rep_invariant(self, c):
        sd = c.old.self._scaling_data
        return [("inv:stored-reference-is-not-zero", z3.Or(sd.is_none(), OPT_REAL.dt.get(sd.term) != 0))]

    def table(self, c, Rv):
        nr = c06_norm(Rv)
        ref = _ref(c.old.self._scaling_data, z3.If(nr != 0, nr, z3.RealVal(1)))
        return nr / ref, [("reference-fixed-the-first-time", c.new.self._scaling_data.term == OPT_REAL.dt.some(ref)), ("inv:reference-is-not-zero", ref != 0)]


@register
class NormNCouplingVariables(_NormVariant):
    """N_COUPLING_VARIABLES: ||R||_2 / ref with ref = sqrt(size of R_first), fixed the first time (numpy division: no exception when the
    vector is empty - the quotient is then inf/nan, about which nothing is claimed)."""

    variant = "n_coupling_variables"
    member = "N_COUPLING_VARIABLES"
    self_schema = _variant_schema("n_coupling_variables", OPT_REAL)

    def table(self, c, Rv):
        ref = _ref(c.old.self._scaling_data, c06_sqrt(nd_size(Rv)))
        return z3.If(ref == 0, c06_div0(c06_norm(Rv)), c06_norm(Rv) / ref), [("reference-fixed-the-first-time", c.new.self._scaling_data.term == OPT_REAL.dt.some(ref))]


OPT_ND = TOpt(TNd)


def _ref_nd(sd, Rv):
    """Component-wise reference: the stored one or, the first time, R + (R == 0) (a zero component is replaced by 1)."""
    from pyvc.values import val_of_int

    return z3.If(sd.is_none(), npf("op_Add", Rv, npf("cmp_Eq", Rv, val_of_int(z3.IntVal(0)))), OPT_ND.dt.get(sd.term))


@register
class NormInitialResidualComponent(_NormVariant):
    """INITIAL_RESIDUAL_COMPONENT: max_i |R_i / ref_i| with ref = R_first + (R_first == 0), fixed the first time."""

    variant = "initial_residual_component"
    member = "INITIAL_RESIDUAL_COMPONENT"
    self_schema = _variant_schema("initial_residual_component", OPT_ND)

    def table(self, c, Rv):
        ref = _ref_nd(c.old.self._scaling_data, Rv)
        return c06_scalar(npf("method_max", npf("numpy_abs", npf("op_Div", Rv, ref)))), [("reference-fixed-the-first-time", c.new.self._scaling_data.term == OPT_ND.dt.some(ref))]


@register
class NormScaledInitialResidualComponent(_NormVariant):
    """SCALED_INITIAL_RESIDUAL_COMPONENT: ||R / ref||_2 / sqrt(size of R) with ref = R_first + (R_first == 0), fixed the first time.
    No exception for a coupled system (the Python float division by sqrt(size) needs a non-empty residual vector)."""

    variant = "scaled_initial_residual_component"
    member = "SCALED_INITIAL_RESIDUAL_COMPONENT"
    self_schema = _variant_schema("scaled_initial_residual_component", OPT_ND)
    def table(self, c, Rv):
        ref = _ref_nd(c.old.self._scaling_data, Rv)
        return c06_norm(npf("op_Div", Rv, ref)) / c06_sqrt(nd_size(Rv)), [("reference-fixed-the-first-time", c.new.self._scaling_data.term == OPT_ND.dt.some(ref))]


@register
class NormUnknownScaling(_NormVariant):
    """A scaling value that is no ResidualScaling member: ValueError (StrEnum casting), nothing is computed."""

    variant = "unknown_scaling"
    self_schema = _variant_schema("unknown", TVal)
    raises = {"ValueError": lambda c: z3.BoolVal(True)}

    def requires(self, c):
        return [("no-member", z3.And(*[c.old.self._scaling != rs(m) for m in RS_MEMBERS]))]

    def table(self, c, Rv):
        return z3.RealVal(0), []


@register
class StopCriterionIsReached(Contract):
    """The normalized residual norm is computed (and stored: history, counter, local data - abstract summary of (B)) and the result is
    true iff THAT norm is <= tolerance or the incremented iteration counter reached max_mda_iter."""

    targets = (SOLVER + "._stop_criterion_is_reached",)
    prop = ("C06",)
    c06 = True
    self_schema = SOLVER + "#c06"
    returns = TBool
    modifies = _NORM_MODIFIES
    raises = _NORM_RAISES
    raises_exact = False

    def requires(self, c):
        return [("inv:scaling-data-fit-the-current-method", scaling_invariant(c.old.self._scaling, c.old.self._scaling_data))] + coupled_system(c.old.self)

    def axioms(self, c):
        return pack_axioms()

    def ensures(self, c):
        s1 = c.new.self
        N, sd_clauses = abstract_table(c)
        return [("stop-iff-small-residual-or-max-iter", c.result == z3.Or(N <= s1.settings.tolerance, s1.settings.max_mda_iter <= c.old.self._current_iter + 1))] + \
            norm_post(c, N, sd_clauses, z3.BoolVal(True))


# ============================================================================ (C) residuals
SL_MEMBER, SL_VALS = SLICES.acc(0), SLICES.acc(1)


def in_list(L, x, tag="il"):
    i = z3.Int(f"i!{tag}")
    return z3.Exists([i], z3.And(0 <= i, i < L.n, L.elems[i] == x))


def value_array(cv, name, d):
    return c06_value_array(cv, name, d.member[name], d.vals[name])


def residual_of(cv, name, varnames, data, inp):
    """new value - previous value for a resolved variable name, the value of the (discipline) residual variable otherwise"""
    return z3.If(in_list(varnames, name, "ro"), npf("op_Sub", value_array(cv, name, data), value_array(cv, name, inp)), value_array(cv, name, data))


def map_names_disjoint(m_member, m_vals, tag):
    a, b = z3.Const(f"a!{tag}", ConvS), z3.Const(f"b!{tag}", ConvS)
    x = z3.Const(f"x!{tag}", StrS)
    return z3.ForAll([a, b, x], z3.Implies(z3.And(m_member[a], m_member[b], a != b, SL_MEMBER(m_vals[a])[x]), z3.Not(SL_MEMBER(m_vals[b])[x])),
                     patterns=[z3.MultiPattern(SL_MEMBER(m_vals[a])[x], SL_MEMBER(m_vals[b])[x])])


def residuals_are(cr1, cr0, rm, varnames, data, inp, done=None, tag="ra"):
    """cr1 = cr0 with, for every name of the residual map rm = (member, vals, ...) (restricted to the (converter, name) pairs selected by
    `done`), the residual of that name; every other key is untouched."""
    m_member, m_vals = rm[0], rm[1]
    cv, x = z3.Const(f"c!{tag}", ConvS), z3.Const(f"x!{tag}", StrS)
    sel = lambda q: z3.And(m_member[q], SL_MEMBER(m_vals[q])[x]) if done is None else z3.And(m_member[q], SL_MEMBER(m_vals[q])[x], done(q, x))  # noqa: E731
    return [
        ("residual-of-every-resolved-name", z3.ForAll([cv, x], z3.Implies(sel(cv), z3.And(cr1.member[x], cr1.vals[x] == residual_of(cv, x, varnames, data, inp))),
                                                      patterns=[SL_MEMBER(m_vals[cv])[x]])),
        ("other-entries-untouched", z3.ForAll([x], z3.Or(z3.And(cr1.member[x] == cr0.member[x], cr1.vals[x] == cr0.vals[x]), z3.Exists([cv], sel(cv))),
                                              patterns=[cr1.member[x]])),
    ]


@register
class ComputeResiduals(Contract):
    """For every name n of the residual names-to-slices map (under its converter c): _current_residuals[n] = value(c, n, local data) -
    value(c, n, input_data) if n is a resolved variable name, value(c, n, local data) (a discipline residual variable) otherwise;
    every other entry is untouched; nothing else changes but the lazily computed maps."""

    targets = (SOLVER + "._compute_residuals",)
    prop = ("C06",)
    c06 = True
    self_schema = SOLVER + "#c06"
    params = {"input_data": DATA}
    modifies = ("self._current_residuals", *_MAPS)
    loops = {0: LoopSpec(anchor="self.__resolved_residual_names_to_slices.items()", inv=lambda c, k: _cr_inv0(c, k), modifies=("self._current_residuals",)),
             1: LoopSpec(anchor="couplings_names_to_slices", inv=lambda c, k: _cr_inv1(c, k), modifies=("self._current_residuals",), local_types={"residual": TNd})}

    def requires(self, c):
        s = c.old.self
        rm, gm = s._BaseMDASolver__resolved_residual_names_to_slices, s.c06_residual_map
        return [("inv:names-partitioned-by-converter", map_names_disjoint(rm.member, rm.vals, "d0")),
                ("inv:names-partitioned-by-converter(computed)", map_names_disjoint(gm.member, gm.vals, "d1"))]

    def ensures(self, c):
        s0, s1 = c.old.self, c.new.self
        cached = s0._BaseMDASolver__resolved_variable_names_to_slices.n != 0
        out = []
        for tag, guard, rm in (("cached", cached, s0._BaseMDASolver__resolved_residual_names_to_slices), ("computed", z3.Not(cached), s0.c06_residual_map)):
            out += [(f"{l}({tag})", z3.Implies(guard, f)) for l, f in residuals_are(s1._current_residuals, s0._current_residuals, _map_args(rm),
                                                                                 s0._BaseMDASolver__resolved_variable_names, s0.io._IO__data, c.old.input_data, tag=f"ra{tag[:2]}")]
        return out + maps_are(s1, s0)


def _cr_parts(c):
    s0, s1 = c.old.self, c.new.self
    rm = s1._BaseMDASolver__resolved_residual_names_to_slices
    return s0, s1, rm, (rm.member, rm.vals), s0._BaseMDASolver__resolved_variable_names, s0.io._IO__data, c.old.input_data


def _cr_inv0(c, k):
    s0, s1, rm, rmt, vn, data, inp = _cr_parts(c)
    return residuals_are(s1._current_residuals, s0._current_residuals, rmt, vn, data, inp, done=lambda q, x: rm.pos[q] < k, tag="i0") + \
        [("names-partitioned-by-converter", map_names_disjoint(rm.member, rm.vals, "i0d"))]


def _cr_inv1(c, k):
    s0, s1, rm, rmt, vn, data, inp = _cr_parts(c)
    cv = c.locals["converter"]
    sl_pos = SLICES.acc(4)
    done = lambda q, x: z3.Or(rm.pos[q] < rm.pos[cv], z3.And(q == cv, sl_pos(rm.vals[cv])[x] < k))  # noqa: E731
    return residuals_are(s1._current_residuals, s0._current_residuals, rmt, vn, data, inp, done=done, tag="i1") + \
        [("names-partitioned-by-converter", map_names_disjoint(rm.member, rm.vals, "i1d")),
         ("current-converter", z3.And(rm.member[cv], rm.pos[cv] >= 0))]


# ============================================================================ ASSUMED: sequence transformer, vector -> data, warm start
INIT_Q = z3.Const("c06_transformer_cleared", ValS)
tr_push = z3.Function("c06_transformer_push", ValS, ValS, ValS, ValS)  # state after compute_transformed_iterate(iterate, residual)
tr_out = z3.Function("c06_transformed_iterate", ValS, ValS)  # the iterate returned in that state
tr_last_x = z3.Function("c06_transformer_last_iterate", ValS, ValS)
tr_last_r = z3.Function("c06_transformer_last_residual", ValS, ValS)
tr_prev = z3.Function("c06_transformer_previous_state", ValS, ValS)
tr_is_identity = z3.Function("c06_transformer_is_identity", ValS, B)  # no acceleration and relaxation factor 1 (a property of the object, kept by push/clear)


@register
class TransformerClear(Contract):
    """ASSUMED: clear() empties the queues of the chained transformers (abstract state := cleared)."""

    targets = (COMPOSITE + ".clear",)
    prop = ("C06",)
    trusted = True
    description = "assumed: RelaxationAcceleration.clear() resets the abstract state of the sequence transformer (ghost field c06_state) to the cleared state"
    self_schema = RELAX + "#c06"
    modifies = ("self",)

    def ensures(self, c):
        return [("cleared", c.new.self.c06_state == INIT_Q)]


@register
class ComputeTransformedIterate(Contract):
    """ASSUMED: the returned iterate is an uninterpreted function of the transformer's history, which is extended by (iterate, residual);
    identity when there is no acceleration and the relaxation factor is 1."""

    targets = (COMPOSITE + ".compute_transformed_iterate",)
    prop = ("C06",)
    trusted = True
    description = ("assumed: RelaxationAcceleration.compute_transformed_iterate(iterate, residual) pushes (iterate, residual) on the abstract history (ghost field "
                   "c06_state; free constructor c06_transformer_push with observers) and returns c06_transformed_iterate(history), which is `iterate` itself when the "
                   "transformer is the identity (no acceleration, relaxation factor 1); the arguments are not modified")
    self_schema = RELAX + "#c06"
    params = {"iterate": TNd, "residual": TNd}
    returns = TNd
    modifies = ("self",)

    def ensures(self, c):
        q0, q1, x, r = c.old.self.c06_state, c.new.self.c06_state, c.old.iterate, c.old.residual
        return [("history-extended", q1 == tr_push(q0, x, r)), ("observers", z3.And(tr_last_x(q1) == x, tr_last_r(q1) == r, tr_prev(q1) == q0)),
                ("result", c.result == tr_out(q1)), ("identity-when-no-acceleration-and-unit-relaxation", z3.Implies(tr_is_identity(q0), z3.And(c.result == x, tr_is_identity(q1))))]


def unpacked(vm, vec):
    return unpack_m(*vm, vec), unpack_v(*vm, vec)


@register
class UpdateLocalDataFromArray(Contract):
    """ASSUMED: the local data are updated with the data the array denotes through the variable names-to-slices map."""

    targets = (SOLVER + "._update_local_data_from_array",)
    prop = ("C06",)
    trusted = True
    description = ("assumed: _update_local_data_from_array(array) updates the local data with c06_unpack(variable names-to-slices map, array) (uninterpreted; "
                   "converters not modelled); nothing else changes")
    self_schema = SOLVER + "#c06"
    params = {"array_": TNd}
    modifies = ("self.io",)

    def ensures(self, c):
        s0, s1 = c.old.self, c.new.self
        vm = _map_args(s0._BaseMDASolver__resolved_variable_names_to_slices)
        um, uv = unpacked(vm, c.old.array_)
        return data_updated(s1.io._IO__data, s0.io._IO__data, um, uv, array_level=True) + [("output-names-kept", s1.io.c06_output_names.member == s0.io.c06_output_names.member)]


@register
class PrepareWarmStart(Contract):
    """ASSUMED: the warm start only changes the local data (cached coupling values are loaded)."""

    targets = (MDA + "._prepare_warm_start",)
    prop = ("C06",)
    trusted = True
    description = "assumed: _prepare_warm_start only changes the MDA's local data (the cache is not modelled: the data after it are unconstrained)"
    self_schema = SOLVER + "#c06"
    modifies = ("self.io",)

    def ensures(self, c):
        return [("output-names-kept", c.new.self.io.c06_output_names.member == c.old.self.io.c06_output_names.member)]


# ============================================================================ (D1) Gauss-Seidel sweep
_LS = z3.ArraySort(I, DiscS)
gs_m = z3.Function("c06_gauss_seidel_member", _LS, I, DataM, DataV, DataM)  # keys / values of the data after the first j disciplines of a sweep
gs_v = z3.Function("c06_gauss_seidel_vals", _LS, I, DataM, DataV, DataV)


def _upd(m, v, um, uv):
    x = z3.Const("x!up", StrS)
    return z3.Lambda([x], z3.Or(m[x], um[x])), z3.Lambda([x], z3.If(um[x], uv[x], v[x]))


def gs_axioms(L, m0, v0):
    """F(0) = data;  F(j+1) = F(j) updated with the outputs of L[j] executed ON F(j) (each discipline sees the outputs of the previous ones)."""
    j = z3.Int("j!gs")
    fm, fv = gs_m(L, j, m0, v0), gs_v(L, j, m0, v0)
    nm, nv = _upd(fm, fv, c06_out_m(L[j], fm, fv), c06_out_v(L[j], fm, fv))
    return [("gauss-seidel-def:0", z3.And(gs_m(L, 0, m0, v0) == m0, gs_v(L, 0, m0, v0) == v0)),
            ("gauss-seidel-def:member", z3.ForAll([j], z3.Implies(j >= 0, gs_m(L, j + 1, m0, v0) == nm), patterns=[gs_m(L, j + 1, m0, v0)])),
            ("gauss-seidel-def:vals", z3.ForAll([j], z3.Implies(j >= 0, gs_v(L, j + 1, m0, v0) == nv), patterns=[gs_v(L, j + 1, m0, v0)]))]


def data_is(d, m, v):
    return z3.And(d.member == m, d.vals == v)


@register
class GaussSeidelSweep(Contract):
    """One Gauss-Seidel sweep (no input data given): the local data become the left fold, in list order, of
    `data.update(outputs of d executed on data)` - each discipline is executed on the data already updated by the previous ones."""

    targets = (GS + "._execute_disciplines_and_update_local_data",)
    prop = ("C06",)
    c06 = True
    self_schema = GS + "#c06"
    params = {"input_data": DATA}
    modifies = ("self.io", "ghost:c06_exec_m", "ghost:c06_exec_v")
    loops = {0: LoopSpec(anchor="self.disciplines", inv=lambda c, k: _gs_inv(c, k), modifies=("self.io", "ghost:c06_exec_m", "ghost:c06_exec_v"))}

    def requires(self, c):
        return [("no-input-data-given", c.old.input_data.n == 0)]

    def axioms(self, c):
        s = c.old.self
        return gs_axioms(s._ProcessDiscipline__disciplines.elems, s.io._IO__data.member, s.io._IO__data.vals)

    def ensures(self, c):
        s0, s1 = c.old.self, c.new.self
        L, d0 = s0._ProcessDiscipline__disciplines, s0.io._IO__data
        return [("data-is-the-sweep", data_is(s1.io._IO__data, gs_m(L.elems, L.n, d0.member, d0.vals), gs_v(L.elems, L.n, d0.member, d0.vals))),
                ("output-names-kept", s1.io.c06_output_names.member == s0.io.c06_output_names.member)]


def _gs_inv(c, k):
    s0, s1 = c.old.self, c.new.self
    L, d0 = s0._ProcessDiscipline__disciplines, s0.io._IO__data
    return [("data-is-the-partial-sweep", data_is(s1.io._IO__data, gs_m(L.elems, k, d0.member, d0.vals), gs_v(L.elems, k, d0.member, d0.vals))),
            ("output-names-kept", s1.io.c06_output_names.member == s0.io.c06_output_names.member)]


# ============================================================================ (D2) the fixed-point loops
_LOOP_MODIFIES = ("self", "self.io", "self.residual_history", "self._starting_indices", "self._current_residuals", "self._sequence_transformer", *_MAPS,
                  "ghost:c06_exec_m", "ghost:c06_exec_v")


def rep_invariant(s, tag):
    rm, gm = s._BaseMDASolver__resolved_residual_names_to_slices, s.c06_residual_map
    return [("inv:names-partitioned-by-converter", map_names_disjoint(rm.member, rm.vals, f"{tag}0")),
            ("inv:names-partitioned-by-converter(computed)", map_names_disjoint(gm.member, gm.vals, f"{tag}1")),
            ("inv:scaling-data-fit-the-current-method", scaling_invariant(s._scaling, s._scaling_data))] + coupled_system(s)


def configuration_kept(s1, s0):
    """What no MDA execution changes: settings, scaling method, resolved names, disciplines, output names, the (prophecy) computed maps."""
    L0, L1 = s0._ProcessDiscipline__disciplines, s1._ProcessDiscipline__disciplines
    out = [(f, getattr(s1, f) == getattr(s0, f)) for f in ("name", "reset_history_each_run", "_scaling")] + [("settings", s1.settings.term == s0.settings.term)]
    out += [(f, same_list(getattr(s1, f), getattr(s0, f))) for f in ("_BaseMDASolver__resolved_variable_names", "_BaseMDASolver__resolved_residual_names")]
    out += [("disciplines", same_list(L1, L0)), ("output-names", s1.io.c06_output_names.member == s0.io.c06_output_names.member),
            ("computed-variable-map", same_map(s1.c06_variable_map, s0.c06_variable_map)), ("computed-residual-map", same_map(s1.c06_residual_map, s0.c06_residual_map))]
    return [(f"kept:{l}", f) for l, f in out]


def maps_of(s):
    return _map_args(s._BaseMDASolver__resolved_variable_names_to_slices), _map_args(s._BaseMDASolver__resolved_residual_names_to_slices)


def with_norm(m, v, s):
    """The data (m, v) with the item NORMALIZED_RESIDUAL_NORM: array([s.normed_residual]) stored if this is an output name of the MDA."""
    x = z3.Const("x!wn", StrS)
    sel = z3.Lambda([x], z3.And(x == NRN, s.io.c06_output_names.member[NRN]))
    return _upd(m, v, sel, z3.K(StrS, c06_array1(s.normed_residual)))


def last_iteration(s1, D, sweep, tag):
    """What holds after the residual norm of an iteration that started from the data D was computed (state s1): the residuals are
    those of (sweep(D), D), the local data are sweep(D) (+ the norm item), the normed residual is the scaled norm of the packed residuals."""
    sm, sv = sweep(D)
    vm, rm = maps_of(s1)
    swept = type("V", (), {"member": sm, "vals": sv})
    wm, wv = with_norm(sm, sv, s1)
    x = z3.Const(f"x!{tag}", StrS)
    d1, cr1 = s1.io._IO__data, s1._current_residuals
    Rv = z3.If(s1._BaseMDASolver__resolved_residual_names.n == 0, EMPTY_VEC, pack(*rm, cr1.member, cr1.vals))
    return [
        ("residuals-are-sweep-minus-start", residuals_are(cr1, cr1, rm, s1._BaseMDASolver__resolved_variable_names, swept, D, tag=tag)[0][1]),
        ("data-keys-are-the-sweep", forall_pat([x], d1.member[x] == wm[x], d1.member[x])),
        ("data-values-are-the-sweep", forall_pat([x], d1.vals[x] == wv[x], d1.vals[x])),
        ("normed-residual-is-the-scaled-norm-of-the-residual-vector", s1.normed_residual == normed_of(s1._scaling, s1._scaling_data, Rv)),
    ], Rv


def gs_sweep(L):
    return lambda D: (gs_m(L.elems, L.n, D.member, D.vals), gs_v(L.elems, L.n, D.member, D.vals))


class _FixedPointExecute(Contract):
    prop = ("C06",)
    c06 = True
    modifies = _LOOP_MODIFIES
    raises = _NORM_RAISES
    raises_exact = False
    sweep = staticmethod(gs_sweep)

    def requires(self, c):
        s = c.old.self
        return [("counter-reset-by-execute", s._current_iter == 0)] + rep_invariant(s, "rq")

    def ensures(self, c):
        s0, s1 = c.old.self, c.new.self
        out = configuration_kept(s1, s0) + [("inv:scaling-data-fit-the-current-method", scaling_invariant(s1._scaling, s1._scaling_data))]
        if "local_data_before_execution" not in c.locals:
            return out  # (max_mda_iter == 0 with Gauss-Seidel: one sweep, no residual)
        D = c.locals["local_data_before_execution"]
        facts, Rv = last_iteration(s1, D, self.sweep(s0._ProcessDiscipline__disciplines), "ex")
        tol = s1.settings.tolerance
        return out + [(f"last-iteration:{l}", f) for l, f in facts] + [
            ("exit:small-residual-or-max-iter", z3.Or(s1.normed_residual <= tol, s1.settings.max_mda_iter <= s1._current_iter)),
            ("exit-theorem:converged-means-scaled-norm-of-(sweep(D)-D)-below-tolerance", z3.Implies(s1.normed_residual <= tol, normed_of(s1._scaling, s1._scaling_data, Rv) <= tol)),
        ]


def fixed_point_feed(s1, D, wm, wv, vm, Rv, c=None):
    """Gauss-Seidel / Jacobi: the transformer is fed the swept resolved variables and the residual vector."""
    return z3.If(s1._BaseMDASolver__resolved_variable_names.n == 0, EMPTY_VEC, pack(*vm, wm, wv)), Rv


def fixed_point_invariant(c, k, sweep, feed=fixed_point_feed, extra=None):
    s0, s1 = c.old.self, c.new.self
    out = [("counter", s1._current_iter == k)] + configuration_kept(s1, s0) + rep_invariant(s1, "iv")
    if "updated_couplings" not in c.locals or not hasattr(c.locals.get("local_data_before_execution"), "member"):
        return out
    D, U = c.locals["local_data_before_execution"], c.locals["updated_couplings"]
    facts, Rv = last_iteration(s1, D, sweep(s0._ProcessDiscipline__disciplines), "iv")
    # the data at the end of iteration k-1: sweep(D) (+ norm item) updated with the unpacked transformed iterate
    sm, sv = sweep(s0._ProcessDiscipline__disciplines)(D)
    wm, wv = with_norm(sm, sv, s1)
    vm, rm = maps_of(s1)
    um, uv = unpacked(vm, U)
    nm, nv = _upd(wm, wv, um, uv)
    x = z3.Const("x!fi", StrS)
    d1, q = s1.io._IO__data, s1._sequence_transformer.c06_state
    xvec, rvec = feed(s1, D, wm, wv, vm, Rv, c)
    step = (extra(c, s1, D) if extra is not None else []) + [
        facts[0], facts[3],
        ("data-keys-are-sweep-then-transformed-iterate", forall_pat([x], d1.member[x] == nm[x], d1.member[x])),
        ("data-values-are-sweep-then-transformed-iterate", forall_pat([x], d1.vals[x] == nv[x], d1.vals[x])),
        ("transformed-iterate-is-the-transformer-output", U == tr_out(q)),
        ("transformer-was-fed-the-swept-variables", tr_last_x(q) == xvec),
        ("transformer-was-fed-the-residual-vector", tr_last_r(q) == rvec),
    ]
    return out + [(f"step:{l}", z3.Implies(k >= 1, f)) for l, f in step]


@register
class GaussSeidelExecute(_FixedPointExecute):
    """Gauss-Seidel MDA.  Loop invariant: after k >= 1 iterations, with D the data the last iteration started from, the local data are
    sweep(D) (+ norm item) updated with unpack(T), T the output of the sequence transformer fed with (pack(sweep(D)), residual vector),
    and the residuals are sweep(D) - D on the resolved names.  Exit theorem: see _FixedPointExecute.ensures."""

    targets = (GS + "._execute",)
    self_schema = GS + "#c06"
    loops = {0: LoopSpec(anchor="True", inv=lambda c, k: fixed_point_invariant(c, k, gs_sweep), modifies=_LOOP_MODIFIES,
                         local_types={"local_data_before_execution": DATA, "updated_couplings": TNd})}


# ============================================================================ (D3) Jacobi sweep
jac_m = z3.Function("c06_jacobi_member", _LS, I, DataM, DataV, DataM, DataV, DataM)  # (disciplines, j, data, execution point): keys / values of the data after
jac_v = z3.Function("c06_jacobi_vals", _LS, I, DataM, DataV, DataM, DataV, DataV)  # the outputs of the first j disciplines were merged


def jacobi_axioms(L, m0, v0, pm, pv):
    """F(0) = data;  F(j+1) = F(j) updated with the outputs of L[j] executed ON THE SAME point (pm, pv) (the initial data in a Jacobi sweep)."""
    j = z3.Int("j!jc")
    a = (m0, v0, pm, pv)
    fm, fv = jac_m(L, j, *a), jac_v(L, j, *a)
    nm, nv = _upd(fm, fv, c06_out_m(L[j], pm, pv), c06_out_v(L[j], pm, pv))
    return [("jacobi-def:0", z3.And(jac_m(L, 0, *a) == m0, jac_v(L, 0, *a) == v0)),
            ("jacobi-def:member", z3.ForAll([j], z3.Implies(j >= 0, jac_m(L, j + 1, *a) == nm), patterns=[jac_m(L, j + 1, *a)])),
            ("jacobi-def:vals", z3.ForAll([j], z3.Implies(j >= 0, jac_v(L, j + 1, *a) == nv), patterns=[jac_v(L, j + 1, *a)]))]


def executed_on(c, L, upto, m, v, tag):
    """The first `upto` disciplines of L were last executed on the data (m, v) (ghost maps of the opaque disciplines)."""
    em, ev = c.new_ghost("c06_exec_m", EXM_S), c.new_ghost("c06_exec_v", EXV_S)
    j = z3.Int(f"j!{tag}")
    return z3.ForAll([j], z3.Implies(z3.And(0 <= j, j < upto), z3.And(em[L.elems[j]] == m, ev[L.elems[j]] == v)), patterns=[L.elems[j]])


class _ExecuteSequentially(Contract):
    """Every discipline is executed on the same data (the local data / the given data), which are not modified."""

    prop = ("C06",)
    c06 = True
    modifies = ("ghost:c06_exec_m", "ghost:c06_exec_v")
    loops = {0: LoopSpec(anchor="self.disciplines", inv=lambda c, k: [("executed-so-far", executed_on(c, c.old.self._ProcessDiscipline__disciplines, k, *_exec_point(c), "es"))],
                         modifies=("ghost:c06_exec_m", "ghost:c06_exec_v"))}

    def ensures(self, c):
        L = c.old.self._ProcessDiscipline__disciplines
        return [("all-executed-on-the-same-data", executed_on(c, L, L.n, *_exec_point(c), "ee"))]


def _exec_point(c):
    d = c.old.input_data if "input_data" in c._args else c.old.self.io._IO__data
    return d.member, d.vals


@register
class JacobiExecuteSequentially(_ExecuteSequentially):
    targets = (JACOBI + "._execute_disciplines_sequentially",)
    self_schema = JACOBI + "#c06"


def _sweep_point(c, uses_input):
    """MDAJacobi ignores its argument; BaseMDARoot executes on `input_data or self.io.data`."""
    d0, inp = c.old.self.io._IO__data, c.old.input_data
    if not uses_input:
        return d0.member, d0.vals
    return z3.If(inp.n == 0, d0.member, inp.member), z3.If(inp.n == 0, d0.vals, inp.vals)


def _jac_inv(c, k, uses_input, label="data-is-the-partial-sweep"):
    s0, s1 = c.old.self, c.new.self
    L, d0 = s0._ProcessDiscipline__disciplines, s0.io._IO__data
    a = (d0.member, d0.vals, *_sweep_point(c, uses_input))
    return [(label, data_is(s1.io._IO__data, jac_m(L.elems, k, *a), jac_v(L.elems, k, *a))),
            ("output-names-kept", s1.io.c06_output_names.member == s0.io.c06_output_names.member)]


def _sweep_loops(uses_input):
    return {0: LoopSpec(anchor="self.disciplines", inv=lambda c, k: _jac_inv(c, k, uses_input), modifies=("self.io",))}


class _JacobiSweep(Contract):
    """One Jacobi-type sweep (serial mode): every discipline is executed on the SAME data (the local data; for BaseMDARoot the given data
    when there are some), then the local data are updated with the outputs of the disciplines in list order."""

    prop = ("C06",)
    c06 = True
    c06_serial = True
    params = {"input_data": DATA}
    modifies = ("self.io", "ghost:c06_exec_m", "ghost:c06_exec_v")
    uses_input = False
    loops = _sweep_loops(False)

    def axioms(self, c):
        s = c.old.self
        L, d0 = s._ProcessDiscipline__disciplines.elems, s.io._IO__data
        if not self.uses_input:
            return jacobi_axioms(L, d0.member, d0.vals, d0.member, d0.vals)
        inp = c.old.input_data  # (two guarded instances: an `if` term cannot be a trigger)
        return [(f"{l}(no input data)", z3.Implies(inp.n == 0, f)) for l, f in jacobi_axioms(L, d0.member, d0.vals, d0.member, d0.vals)] + \
            [(f"{l}(input data)", z3.Implies(inp.n != 0, f)) for l, f in jacobi_axioms(L, d0.member, d0.vals, inp.member, inp.vals)]

    def ensures(self, c):
        return _jac_inv(c, c.old.self._ProcessDiscipline__disciplines.n, self.uses_input, "data-is-the-sweep") + [
            ("all-executed-on-the-same-point", executed_on(c, c.old.self._ProcessDiscipline__disciplines, c.old.self._ProcessDiscipline__disciplines.n,
                                                           *_sweep_point(c, self.uses_input), "js"))]


@register
class JacobiSweep(_JacobiSweep):
    targets = (JACOBI + "._execute_disciplines_and_update_local_data",)
    self_schema = JACOBI + "#c06"


def jacobi_sweep(L):
    return lambda D: (jac_m(L.elems, L.n, D.member, D.vals, D.member, D.vals), jac_v(L.elems, L.n, D.member, D.vals, D.member, D.vals))


@register
class JacobiExecute(_FixedPointExecute):
    """Jacobi MDA: same invariant and exit theorem as Gauss-Seidel with the Jacobi sweep (all disciplines executed on the same data)."""

    targets = (JACOBI + "._execute",)
    self_schema = JACOBI + "#c06"
    sweep = staticmethod(jacobi_sweep)
    loops = {0: LoopSpec(anchor="True", inv=lambda c, k: fixed_point_invariant(c, k, jacobi_sweep), modifies=_LOOP_MODIFIES,
                         local_types={"local_data_before_execution": DATA, "updated_couplings": TNd})}


# ============================================================================ (E) MDASequential
from pyvc.plug_c06 import c06_mda_normed, c06_mda_res_m, c06_mda_res_v  # noqa: E402

schema(SEQ + "#c06", {"settings": SETTINGS, "_scaling": TStr, "reset_history_each_run": TBool, "residual_history": TList(TReal), "io": TObj(IOCLS, schema_key=IOCLS + "#c06"),
                      "mda_sequence": DLIST})
sq_m = z3.Function("c06_sequence_member", _LS, I, I, DataM, DataV, DataM)  # (mdas, j, first epoch, start data): data returned by the j-th executed MDA
sq_v = z3.Function("c06_sequence_vals", _LS, I, I, DataM, DataV, DataV)


def sequence_axioms(L, e0, m0, v0):
    """F(0) = local data;  F(j+1) = data returned by L[j] executed (epoch e0+j+1) ON F(j): each MDA starts from the result of the previous one."""
    j = z3.Int("j!sq")
    fm, fv = sq_m(L, j, e0, m0, v0), sq_v(L, j, e0, m0, v0)
    return [("sequence-def:0", z3.And(sq_m(L, 0, e0, m0, v0) == m0, sq_v(L, 0, e0, m0, v0) == v0)),
            ("sequence-def:member", z3.ForAll([j], z3.Implies(j >= 0, sq_m(L, j + 1, e0, m0, v0) == c06_mda_res_m(L[j], e0 + j + 1, fm, fv)), patterns=[sq_m(L, j + 1, e0, m0, v0)])),
            ("sequence-def:vals", z3.ForAll([j], z3.Implies(j >= 0, sq_v(L, j + 1, e0, m0, v0) == c06_mda_res_v(L[j], e0 + j + 1, fm, fv)), patterns=[sq_v(L, j + 1, e0, m0, v0)]))]


def _sq_state(c, K):
    s0, s1 = c.old.self, c.new.self
    L, d0, tol = s0.mda_sequence, s0.io._IO__data, s0.settings.tolerance
    e0, e1 = c.old_ghost("c06_epoch", I), c.new_ghost("c06_epoch", I)
    j = z3.Int("j!ss")
    return [("executed-so-far", e1 == e0 + K),
            ("data-is-the-result-of-the-last-executed-mda", data_is(s1.io._IO__data, sq_m(L.elems, K, e0, d0.member, d0.vals), sq_v(L.elems, K, e0, d0.member, d0.vals))),
            ("settings-kept", s1.settings.term == s0.settings.term), ("sequence-kept", same_list(s1.mda_sequence, L))], L, e0, tol, j


@register
class SequentialExecute(Contract):
    """(without warm start) The MDAs are executed in order, the first on the local data and each next one on the data RETURNED by the
    previous one; the local data end up being the data returned by the last executed MDA; the chain stops after the first MDA whose
    normed residual is < the tolerance of the sequential MDA (strict, as coded) - no MDA before it was below the tolerance."""

    targets = (SEQ + "._execute",)
    prop = ("C06",)
    c06 = True
    c06_sequential = True
    self_schema = SEQ + "#c06"
    modifies = ("self", "self.io", "self.residual_history", "ghost:c06_epoch")
    loops = {0: LoopSpec(anchor="self.mda_sequence", inv=lambda c, k: _sq_inv(c, k), modifies=("self", "self.io", "self.residual_history", "ghost:c06_epoch"))}

    def requires(self, c):
        return [("no-warm-start", z3.Not(c.old.self.settings.warm_start))]

    def axioms(self, c):
        s = c.old.self
        return sequence_axioms(s.mda_sequence.elems, c.old_ghost("c06_epoch", I), s.io._IO__data.member, s.io._IO__data.vals)

    def ensures(self, c):
        K = c.new_ghost("c06_epoch", I) - c.old_ghost("c06_epoch", I)
        facts, L, e0, tol, j = _sq_state(c, K)
        small = lambda i: c06_mda_normed(L.elems[i], e0 + i + 1) < tol  # noqa: E731
        return facts + [("number-executed", z3.And(0 <= K, K <= L.n, z3.Implies(L.n > 0, K >= 1))),
                        ("stopped-early-only-after-a-converged-mda", z3.Implies(K < L.n, small(K - 1))),
                        ("no-earlier-mda-was-converged", z3.ForAll([j], z3.Implies(z3.And(0 <= j, j < K - 1), z3.Not(small(j))), patterns=[L.elems[j]]))]


def _sq_inv(c, k):
    facts, L, e0, tol, j = _sq_state(c, k)
    return facts + [("none-converged-so-far", z3.ForAll([j], z3.Implies(z3.And(0 <= j, j < k), z3.Not(c06_mda_normed(L.elems[j], e0 + j + 1) < tol)), patterns=[L.elems[j]]))]


# ============================================================================ (D4) the sweep of the Newton-type MDAs (BaseMDARoot), serial mode
schema(ROOT + "#c06", dict(_SOLVER_FIELDS))


@register
class RootExecuteSequentially(_ExecuteSequentially):
    targets = (ROOT + "._execute_disciplines_sequentially",)
    self_schema = ROOT + "#c06"
    params = {"input_data": DATA}


@register
class RootSweep(_JacobiSweep):
    """The sweep of MDANewtonRaphson / MDAQuasiNewton called without input data is a Jacobi sweep of the local data."""

    targets = (ROOT + "._execute_disciplines_and_update_local_data",)
    self_schema = ROOT + "#c06"
    uses_input = True
    loops = _sweep_loops(True)


# ============================================================================ (D5) Newton-Raphson loop
schema(NEWTON + "#c06", dict(_SOLVER_FIELDS))
LINE_S = z3.ArraySort(DiscS, B)
_LIN = ("ghost:c06_lin_m", "ghost:c06_lin_v", "ghost:c06_lin_exec")


def linearized_at(c, L, upto, m, v, e, tag):
    """The first `upto` disciplines of L were last linearized at the data (m, v) with execute = e (ghost maps of the opaque disciplines)."""
    lm, lv, le = c.new_ghost("c06_lin_m", EXM_S), c.new_ghost("c06_lin_v", EXV_S), c.new_ghost("c06_lin_exec", LINE_S)
    j = z3.Int(f"j!{tag}")
    return z3.ForAll([j], z3.Implies(z3.And(0 <= j, j < upto), z3.And(lm[L.elems[j]] == m, lv[L.elems[j]] == v, le[L.elems[j]] == e)), patterns=[L.elems[j]])


@register
class RootLinearizeSequentially(Contract):
    """Every discipline is linearized at the given data, with execute = settings.execute_before_linearizing; the data are not modified."""

    targets = (ROOT + "._linearize_disciplines_sequentially",)
    prop = ("C06",)
    c06 = True
    self_schema = ROOT + "#c06"
    params = {"input_data": DATA}
    modifies = _LIN
    loops = {0: LoopSpec(anchor="self.disciplines", inv=lambda c, k: [("linearized-so-far", _rl(c, k, "rli"))], modifies=_LIN)}

    def ensures(self, c):
        return [("all-linearized-at-the-given-data", _rl(c, c.old.self._ProcessDiscipline__disciplines.n, "rle"))]


def _rl(c, upto, tag):
    s, d = c.old.self, c.old.input_data
    return linearized_at(c, s._ProcessDiscipline__disciplines, upto, d.member, d.vals, s.settings.execute_before_linearizing, tag)


def names_term(L):
    return NAMES.dt.mk(L.n, L.elems)


def newton_step_term(c, s, m, v, Rv):
    """The step JacobianAssembly.compute_newton_step returns (C07) for the CURRENT linearization state of the disciplines, the data (m, v), the
    resolved variable names, the configured linear solver / matrix type / solver settings, the residual vector Rv and the resolved residual names."""
    from pyvc.values import val_of_str

    lm, lv, le = c.new_ghost("c06_lin_m", EXM_S), c.new_ghost("c06_lin_v", EXV_S), c.new_ghost("c06_lin_exec", LINE_S)
    return asm_step_fn()(s.assembly, lm, lv, le, m, v, names_term(s._BaseMDASolver__resolved_variable_names), s.settings.newton_linear_solver_name, val_of_str(s.matrix_type), Rv,
                         names_term(s._BaseMDASolver__resolved_residual_names), s.settings.newton_linear_solver_settings)


@register
class ComputeNewtonStep(Contract):
    """Delegation: every discipline is linearized at input_data (execute as configured), then the result is the step of
    JacobianAssembly.compute_newton_step (verified in C07: (dR/dy) step = -R) called with input_data, the resolved VARIABLE names as couplings,
    the configured linear solver, matrix type and solver settings, residuals = the current resolved RESIDUAL vector and the resolved
    residual names; the warning on a non-converged linear solver is a log message."""

    targets = (NEWTON + ".__compute_newton_step",)
    prop = ("C06",)
    c06 = True
    c06_serial = True
    self_schema = NEWTON + "#c06"
    params = {"input_data": DATA}
    returns = TNd
    modifies = (*_MAPS, *_LIN)

    def ensures(self, c):
        s0, s1, d = c.old.self, c.new.self, c.old.input_data
        empty = s0._BaseMDASolver__resolved_residual_names.n == 0
        return [(l, z3.Implies(z3.Not(empty), f)) for l, f in maps_are(s1, s0)] + [
            ("no-names-nothing-computed", z3.Implies(empty, maps_kept(s1, s0))),
            ("disciplines-linearized-at-the-input-data", linearized_at(c, s0._ProcessDiscipline__disciplines, s0._ProcessDiscipline__disciplines.n, d.member, d.vals,
                                                                       s0.settings.execute_before_linearizing, "cns")),
            ("step-of-the-assembly", c.result == newton_step_term(c, s0, d.member, d.vals, residual_vector(s0)))]


def newton_feed(s1, D, wm, wv, vm, Rv, c=None):
    """Newton: the transformer is fed (couplings the iteration started from + Newton step, Newton step)."""
    ns = newton_step_term(c, s1, D.member, D.vals, Rv)
    y = z3.If(s1._BaseMDASolver__resolved_variable_names.n == 0, EMPTY_VEC, pack(*vm, D.member, D.vals))
    return npf("op_Add", y, ns), ns


def newton_extra(c, s1, D):
    L = s1._ProcessDiscipline__disciplines
    return [("disciplines-linearized-at-the-start-data", linearized_at(c, L, L.n, D.member, D.vals, s1.settings.execute_before_linearizing, "nx"))]


@register
class NewtonRaphsonExecute(_FixedPointExecute):
    """Newton-Raphson MDA (serial mode): same exit theorem with the Jacobi-type sweep of BaseMDARoot; loop invariant: the local data
    after an iteration that started from D are sweep(D) (+ norm item) updated with unpack(T), T the output of the sequence transformer fed
    with (y(D) + step, step), y(D) the resolved variables of D and step the Newton step at D for the residual vector sweep(D) - D."""

    targets = (NEWTON + "._execute",)
    self_schema = NEWTON + "#c06"
    c06_serial = True
    sweep = staticmethod(jacobi_sweep)
    modifies = (*_LOOP_MODIFIES, *_LIN)
    loops = {0: LoopSpec(anchor="True", inv=lambda c, k: fixed_point_invariant(c, k, jacobi_sweep, newton_feed, newton_extra), modifies=(*_LOOP_MODIFIES, *_LIN),
                         local_types={"local_data_before_execution": DATA, "updated_couplings": TNd, "input_couplings": TNd, "newton_step": TNd})}


# ============================================================================ (F) the scaling setters: the representation invariant of the scaling data
CHAINMDA = "gemseo.mda.mda_chain.MDAChain"
SC_S, SD_S = z3.ArraySort(DiscS, StrS), z3.ArraySort(DiscS, ValS)
schema(MDA + "#c06set", {"_scaling": TStr, "_scaling_data": TVal})
schema(CHAINMDA + "#c06", {"_scaling": TStr, "inner_mdas": DLIST})


@register
class ScalingSetter(Contract):
    """The scaling method is set and the scaling data are RESET (fix 05f502e), so that whatever the previous method and its reference were,
    the invariant "scaling data are None or a reference of the current method" holds afterwards."""

    targets = (MDA + ".scaling",)
    setter = True
    prop = ("C06",)
    c06 = True
    self_schema = MDA + "#c06set"
    params = {"scaling": TStr}
    modifies = ("self",)

    def ensures(self, c):
        s1 = c.new.self
        return [("scaling-method-set", s1._scaling == c.old.scaling), ("scaling-data-reset", s1._scaling_data == val_none),
                ("inv:scaling-data-fit-the-current-method", scaling_invariant(s1._scaling, s1._scaling_data))]


def _inner_scaling(c, L, upto, tag):
    """The first `upto` inner MDAs have the new scaling method and no scaling data; every MDA that is not one of them is untouched."""
    sc0, sd0 = c.old_ghost("c06_mda_scaling", SC_S), c.old_ghost("c06_mda_scaling_data", SD_S)
    sc1, sd1 = c.new_ghost("c06_mda_scaling", SC_S), c.new_ghost("c06_mda_scaling_data", SD_S)
    j, d = z3.Int(f"j!{tag}"), z3.Const(f"d!{tag}", DiscS)
    new = c.old.scaling
    return [("propagated-and-reset", z3.ForAll([j], z3.Implies(z3.And(0 <= j, j < upto), z3.And(sc1[L.elems[j]] == new, sd1[L.elems[j]] == val_none,
                                                                                              scaling_invariant(sc1[L.elems[j]], sd1[L.elems[j]]))), patterns=[L.elems[j]])),
            ("other-mdas-untouched", z3.ForAll([d], z3.Or(z3.And(sc1[d] == sc0[d], sd1[d] == sd0[d]), z3.Exists([j], z3.And(0 <= j, j < upto, L.elems[j] == d))), patterns=[sc1[d]]))]


class _ComposedScalingSetter(Contract):
    """The scaling method is set on the composed MDA and PROPAGATED to every inner MDA through its own setter, which resets its scaling
    data: the invariant holds for every inner MDA afterwards."""

    setter = True
    prop = ("C06",)
    c06 = True
    params = {"scaling": TStr}
    modifies = ("self", "ghost:c06_mda_scaling", "ghost:c06_mda_scaling_data")
    inner = ""

    def ensures(self, c):
        L = getattr(c.old.self, self.inner)
        return [("scaling-method-set", c.new.self._scaling == c.old.scaling), ("inner-mdas-kept", same_list(getattr(c.new.self, self.inner), L))] + _inner_scaling(c, L, L.n, "cs")


def _css_inv(c, k, inner):
    L = getattr(c.old.self, inner)
    return [("scaling-method-set", c.new.self._scaling == c.old.scaling), ("inner-mdas-kept", same_list(getattr(c.new.self, inner), L))] + _inner_scaling(c, L, k, "ci")


@register
class SequentialScalingSetter(_ComposedScalingSetter):
    targets = (SEQ + ".scaling",)
    self_schema = SEQ + "#c06"
    inner = "mda_sequence"
    loops = {0: LoopSpec(anchor="self.mda_sequence", inv=lambda c, k: _css_inv(c, k, "mda_sequence"), modifies=("ghost:c06_mda_scaling", "ghost:c06_mda_scaling_data"))}


@register
class ChainScalingSetter(_ComposedScalingSetter):
    targets = (CHAINMDA + ".scaling",)
    self_schema = CHAINMDA + "#c06"
    inner = "inner_mdas"
    loops = {0: LoopSpec(anchor="self.inner_mdas", inv=lambda c, k: _css_inv(c, k, "inner_mdas"), modifies=("ghost:c06_mda_scaling", "ghost:c06_mda_scaling_data"))}


# ============================================================================ (D6) the residual function MDAQuasiNewton hands to scipy.optimize.root
QN = "gemseo.mda.quasi_newton.MDAQuasiNewton"
schema(QN + "#c06", {**_SOLVER_FIELDS, "current_iter": TInt})
from pyvc.plug_c06 import asm_residuals_fn  # noqa: E402


@register
class QuasiNewtonComputeResiduals(Contract):
    """The function handed to scipy.optimize.root (serial mode).  With Y = the local data updated with unpack(x_vect): every discipline is
    executed ON Y; the local data become the local data (NOT Y: a copy is restored first) updated with the disciplines' outputs in list order;
    the residuals of the resolved names are value(new local data) - value(Y); the result is JacobianAssembly.residuals(Y, resolved variable
    names) (C07: computed value - prescribed value per name) for disciplines executed on Y; current_iter is incremented."""

    targets = (QN + ".__compute_residuals",)
    prop = ("C06",)
    c06 = True
    c06_serial = True
    self_schema = QN + "#c06"
    params = {"x_vect": TNd}
    returns = TNd
    modifies = ("self", "self.io", "self._current_residuals", *_MAPS, "ghost:c06_exec_m", "ghost:c06_exec_v")

    def requires(self, c):
        return rep_invariant(c.old.self, "qr")[:2]

    def ensures(self, c):
        s0, s1 = c.old.self, c.new.self
        d0, L = s0.io._IO__data, s0._ProcessDiscipline__disciplines
        vm = _map_args(s0._BaseMDASolver__resolved_variable_names_to_slices)
        um, uv = unpacked(vm, c.old.x_vect)
        Y = c.locals["local_data_before_execution"]  # the mapping the disciplines are given
        ym, yv = Y.member, Y.vals
        pm, pv = z3.If(Y.n == 0, d0.member, ym), z3.If(Y.n == 0, d0.vals, yv)  # `input_data or self.io.data` (an empty Y: the restored local data)
        a = (d0.member, d0.vals, pm, pv)
        cached = s0._BaseMDASolver__resolved_variable_names_to_slices.n != 0
        out = [(f"Y-is-the-local-data-updated-with-the-data-x_vect-denotes:{l}", f) for l, f in data_updated(Y, d0, um, uv, array_level=True)] + [
               ("iteration-counted", s1.current_iter == s0.current_iter + 1),
               ("local-data-are-the-outputs-of-the-disciplines-executed-on-Y-merged-into-the-previous-local-data",
                data_is(s1.io._IO__data, jac_m(L.elems, L.n, *a), jac_v(L.elems, L.n, *a))),
               ("all-disciplines-executed-on-Y", executed_on(c, L, L.n, pm, pv, "qe")),
               ("result-is-the-assembly-residual-at-Y", c.result == asm_residuals_fn()(s0.assembly, c.new_ghost("c06_exec_m", EXM_S), c.new_ghost("c06_exec_v", EXV_S), ym, yv,
                                                                                      names_term(s0._BaseMDASolver__resolved_variable_names)))]
        for tag, guard, rm in (("cached", cached, s0._BaseMDASolver__resolved_residual_names_to_slices), ("computed", z3.Not(cached), s0.c06_residual_map)):
            out += [(f"{l}({tag})", z3.Implies(guard, f)) for l, f in residuals_are(s1._current_residuals, s0._current_residuals, _map_args(rm),
                                                                                 s0._BaseMDASolver__resolved_variable_names, s1.io._IO__data, Y, tag=f"q{tag[:2]}")][:1]
        return out + configuration_kept(s1, s0)


# ============================================================================ (B') INITIAL_SUBRESIDUAL_NORM: one (slice, reference) pair per resolved variable
PAIR = TTuple(TVal, TReal)
PAIRS = TList(PAIR)
OPT_PAIRS = TOpt(PAIRS)
P_SLICE, P_REF = PAIR.dt.accessor(0, 0), PAIR.dt.accessor(0, 1)
SL_POS = SLICES.acc(4)


def sub_norm(Rv, sl):
    """||R[slice]||_2"""
    return c06_norm(npf("getitem", Rv, sl))


def pair_of(vm_vals, cv, x, Rv):
    """(slice of the resolved variable x under converter cv, its initial sub-residual norm - 1.0 when that is exactly 0)"""
    sl = SL_VALS(vm_vals[cv])[x]
    nr = sub_norm(Rv, sl)
    return PAIR.dt.mk(sl, z3.If(nr != 0, nr, z3.RealVal(1)))


def pairs_are(Pn, Pe, vm, Rv, done=None, tag="pa"):
    """The list (Pn, Pe) holds exactly one pair per resolved variable (selected by `done`): (A) every one has its pair, (B) there is no other pair."""
    m_member, m_vals = vm[0], vm[1]
    cv, x, i = z3.Const(f"c!{tag}", ConvS), z3.Const(f"x!{tag}", StrS), z3.Int(f"i!{tag}")
    sel = z3.And(m_member[cv], SL_MEMBER(m_vals[cv])[x]) if done is None else z3.And(m_member[cv], SL_MEMBER(m_vals[cv])[x], done(cv, x))
    return [("every-resolved-variable-has-its-(slice,reference)-pair", forall_pat([cv, x], z3.Implies(sel, z3.Exists([i], z3.And(0 <= i, i < Pn, Pe[i] == pair_of(m_vals, cv, x, Rv)))),
                                                                                  SL_MEMBER(m_vals[cv])[x])),
            ("every-pair-belongs-to-a-resolved-variable", forall_pat([i], z3.Implies(z3.And(0 <= i, i < Pn), z3.Exists([cv, x], z3.And(sel, Pe[i] == pair_of(m_vals, cv, x, Rv)))),
                                                                    Pe[i])),
            ("references-are-not-zero", forall_pat([i], z3.Implies(z3.And(0 <= i, i < Pn), P_REF(Pe[i]) != 0), Pe[i]))]


def pairs_cover(Pn, Pe, vm, tag="pc"):
    """Representation invariant of a STORED reference: one pair per resolved variable (its slice), non-zero references, at least one pair."""
    m_member, m_vals = vm[0], vm[1]
    cv, x, i = z3.Const(f"c!{tag}", ConvS), z3.Const(f"x!{tag}", StrS), z3.Int(f"i!{tag}")
    sel = z3.And(m_member[cv], SL_MEMBER(m_vals[cv])[x])
    return [("every-resolved-variable-has-a-pair", forall_pat([cv, x], z3.Implies(sel, z3.Exists([i], z3.And(0 <= i, i < Pn, P_SLICE(Pe[i]) == SL_VALS(m_vals[cv])[x]))),
                                                             SL_MEMBER(m_vals[cv])[x])),
            ("references-are-not-zero", forall_pat([i], z3.Implies(z3.And(0 <= i, i < Pn), P_REF(Pe[i]) != 0), Pe[i])),
            ("at-least-one-pair", Pn >= 1)]


def stored_pairs(sd):
    """(is None, length, elements, term or None) of a `_scaling_data` view: an optional value, or the list object just stored"""
    if getattr(sd, "obj", None) is not None:
        return z3.BoolVal(False), sd.obj.n, sd.obj.elems, None
    P = OPT_PAIRS.dt.get(sd.term)
    return sd.is_none(), PAIRS.dt.accessor(0, 0)(P), PAIRS.dt.accessor(0, 1)(P), sd.term


def quotient(Rv, pair):
    return sub_norm(Rv, P_SLICE(pair)) / P_REF(pair)


def _sub_parts(c):
    """(residual vector, variable map AFTER the lazy computation as (member, vals, keys, n, pos) of the state in which the loops run)"""
    s0 = c.old.self
    return residual_vector(s0)


@register
class NormInitialSubresidualNorm(_NormVariant):
    """INITIAL_SUBRESIDUAL_NORM: max over ALL resolved variables v of ||R[slice_v]||_2 / ref_v; the reference is one (slice_v, ref_v) pair per
    resolved variable with ref_v = ||R_first[slice_v]||_2 (1.0 when that is exactly 0), fixed the first time and kept afterwards."""

    variant = "initial_subresidual_norm"
    member = "INITIAL_SUBRESIDUAL_NORM"
    self_schema = _variant_schema("initial_subresidual_norm", OPT_PAIRS)
    loops = {
        0: LoopSpec(anchor="self.__resolved_variable_names_to_slices.values()", inv=lambda c, k: _sub_inv0(c, k), modifies=("scaling_data",), local_types={"scaling_data": PAIRS}),
        1: LoopSpec(anchor="coupling_names_to_slices.values()", inv=lambda c, k: _sub_inv1(c, k), modifies=("scaling_data",), local_types={"scaling_data": PAIRS, "initial_norm": TReal}),
        2: LoopSpec(anchor="scaling_data", inv=lambda c, k: _sub_inv2(c, k), modifies=("normalized_norms",), local_types={"normalized_norms": TList(TReal)}),
    }

    def rep_invariant(self, c):
        s = c.old.self
        none0, Pn, Pe, _ = stored_pairs(s._scaling_data)
        vm = s._BaseMDASolver__resolved_variable_names_to_slices
        gv = s.c06_variable_map
        x, cv = z3.Const("x!sr", StrS), z3.Const("c!sr", ConvS)
        out = [(f"inv:stored-pairs:{l}", z3.Implies(z3.Not(none0), f)) for l, f in pairs_cover(Pn, Pe, (vm.member, vm.vals), "rq")]
        # coupled system: there is a resolved variable in the variable map (the cached one, or the one that will be computed)
        out += [("coupled:the-variable-map-names-a-variable", z3.And(
            z3.Implies(vm.n != 0, z3.Exists([cv, x], z3.And(vm.member[cv], SL_MEMBER(vm.vals[cv])[x]))),
            z3.Exists([cv, x], z3.And(gv.member[cv], SL_MEMBER(gv.vals[cv])[x])))),
            ("inv:a-stored-reference-means-the-maps-are-computed", z3.Implies(z3.Not(none0), vm.n != 0))]
        return out

    def table(self, c, Rv):
        s0, s1 = c.old.self, c.new.self
        none0, Pn0, Pe0, _ = stored_pairs(s0._scaling_data)
        none1, Pn, Pe, _ = stored_pairs(s1._scaling_data)
        vm1 = s1._BaseMDASolver__resolved_variable_names_to_slices
        vmt = (vm1.member, vm1.vals)
        N = s1.normed_residual
        i, cv, x = z3.Int("i!st"), z3.Const("c!st", ConvS), z3.Const("x!st", StrS)
        clauses = [("stored", z3.Not(none1)),
                   ("kept-when-already-fixed", z3.Implies(z3.Not(none0), z3.And(Pn == Pn0, forall_pat([i], z3.Implies(z3.And(0 <= i, i < Pn0), Pe[i] == Pe0[i]), Pe[i]))))]
        clauses += [(f"fixed-the-first-time:{l}", z3.Implies(none0, f)) for l, f in pairs_are(Pn, Pe, vmt, Rv, tag="t1")]
        clauses += [(f"inv:{l}", f) for l, f in pairs_cover(Pn, Pe, vmt, "t2")]
        clauses += [
            ("normed-residual-bounds-every-pair", forall_pat([i], z3.Implies(z3.And(0 <= i, i < Pn), quotient(Rv, Pe[i]) <= N), Pe[i])),
            ("normed-residual-is-attained", z3.Exists([i], z3.And(0 <= i, i < Pn, N == quotient(Rv, Pe[i])))),
            ("every-resolved-variable-is-monitored", forall_pat([cv, x], z3.Implies(z3.And(vm1.member[cv], SL_MEMBER(vm1.vals[cv])[x]),
                                                                                    z3.Exists([i], z3.And(0 <= i, i < Pn, P_SLICE(Pe[i]) == SL_VALS(vm1.vals[cv])[x], quotient(Rv, Pe[i]) <= N))),
                                                               SL_MEMBER(vm1.vals[cv])[x])),
        ]
        return N, clauses


def _sub_state(c):
    s0 = c.old.self
    s1 = c.locals["self"] if "self" in c.locals else c.new.self
    vm = s1._BaseMDASolver__resolved_variable_names_to_slices
    P = c.locals["scaling_data"]
    return s0, s1, vm, P, residual_vector(s0)


def _sub_inv0(c, k):
    s0, s1, vm, P, Rv = _sub_state(c)
    return pairs_are(P.n, P.elems, (vm.member, vm.vals), Rv, done=lambda q, x: vm.pos[q] < k, tag="s0")


def _current_converter(view):
    """The key under which the iterated dictionary value is stored: the local is the projection `vals[keys[k]]` of the outer iteration."""
    t = view.member
    while not (z3.is_select(t) and t.num_args() == 2 and t.arg(1).sort() == ConvS):
        if t.num_args() == 0:
            raise TypeError("cannot identify the converter of the iterated names-to-slices dictionary")
        t = t.arg(0)
    return t.arg(1)


def _sub_inv1(c, k):
    """Inner loop (names of the current converter).  P0 = the list when this loop was entered (constant during the loop): it holds exactly the pairs
    of the previous converters; the pairs of the first k names of the current converter follow, at the explicit indices len(P0) + position."""
    s0, s1, vm, P, Rv = _sub_state(c)
    cur = _current_converter(c.locals["coupling_names_to_slices"])
    P0 = c.pre_locals["scaling_data"]
    base = P0.n
    inner = vm.vals[cur]
    x, i = z3.Const("x!s1o", StrS), z3.Int("i!s1a")
    sl_keys, sl_n = SLICES.acc(3), SLICES.acc(2)
    return [(f"previous-converters:{l}", f) for l, f in pairs_are(P0.n, P0.elems, (vm.member, vm.vals), Rv, done=lambda q, y: vm.pos[q] < vm.pos[cur], tag="s1p")] + [
        ("exactly-one-pair-per-name-of-the-current-converter-so-far", P.n == base + k),
        ("pairs-of-the-previous-converters-kept", forall_pat([i], z3.Implies(z3.And(0 <= i, i < base), P.elems[i] == P0.elems[i]), P.elems[i], P0.elems[i])),
        ("every-resolved-variable-has-its-(slice,reference)-pair(current converter)",
         forall_pat([x], z3.Implies(z3.And(SL_MEMBER(inner)[x], SL_POS(inner)[x] < k), P.elems[base + SL_POS(inner)[x]] == pair_of(vm.vals, cur, x, Rv)), SL_MEMBER(inner)[x])),
        ("every-new-pair-belongs-to-a-name-of-the-current-converter",
         forall_pat([i], z3.Implies(z3.And(base <= i, i < base + k), P.elems[i] == pair_of(vm.vals, cur, sl_keys(inner)[i - base], Rv)), P.elems[i])),
        ("current-converter", z3.And(vm.member[cur], vm.pos[cur] >= 0, vm.keys[vm.pos[cur]] == cur)),
        # (helper: positions and keys of the iterated dictionary - its order view)
        ("names-of-the-current-converter-have-a-position", forall_pat([x], z3.Implies(SL_MEMBER(inner)[x], z3.And(0 <= SL_POS(inner)[x], SL_POS(inner)[x] < sl_n(inner),
                                                                                                          sl_keys(inner)[SL_POS(inner)[x]] == x)), SL_MEMBER(inner)[x])),
        ("positions-of-the-current-converter-have-a-name", forall_pat([i], z3.Implies(z3.And(0 <= i, i < sl_n(inner)), z3.And(SL_MEMBER(inner)[sl_keys(inner)[i]],
                                                                                                                      SL_POS(inner)[sl_keys(inner)[i]] == i)), sl_keys(inner)[i]))]


def _sub_inv2(c, k):
    s0, s1, vm, P, Rv = _sub_state(c)
    Q = c.locals["normalized_norms"]
    i = z3.Int("i!s2")
    return [("one-quotient-per-pair-so-far", z3.And(Q.n == k, forall_pat([i], z3.Implies(z3.And(0 <= i, i < k), Q.elems[i] == quotient(Rv, P.elems[i])), Q.elems[i], P.elems[i])))]
