"""C09 (numerical level) - the chain rule of MDOChain over an abstract matrix ring.

Jacobian blocks are references into the symbolic heap of arrays (identity / aliasing exact, as in MDOChain.copy_jacs); the content of an
array denotes a matrix of the abstract ring of pyvc/plug_np_c07.py (``m_mul`` / ``m_add`` uninterpreted).  The disciplines are opaque; their
Jacobians are the ghost dictionary ``self._c09n_disc_jacs`` (pyvc/plug_c09n.py).

(1) ``MDOChain.reverse_chain_rule`` (repaired source, 53b5901) - ONE step of the reverse accumulation, for any number of chain outputs, of entries
    of the running dictionary and of blocks of the discipline (three nested loop invariants).  With J the running dictionary at entry, D the
    Jacobian of the discipline, for every chain output o that J already holds and EVERY variable v:

        J'[o][v]  =  (J[o][v] unless the discipline produces v)  (+)  sum over the y in sorted(keys(J[o]) & keys(D)) with v in D[y] of  J[o][y] * D[y][v]

    ((+): an absent entry is a structural zero; the sum is the left fold ``c09n_g`` over the sorted enumeration, the products use the
    ENTRY value of J[o][y], which is popped from the row before the composition: overwritten and self-coupled variables are exact); a chain
    output that J does not hold and the discipline produces gets a fresh copy of D[o]; every other row and every array of the disciplines are
    unchanged (the in-place ``+=`` only ever hits blocks owned by the row).
(2) ``MDOChain.copy_jacs`` on one row (the flat-dictionary branch, called by (1)).
"""
from __future__ import annotations

import z3

from pyvc.contract import Contract, LoopSpec, register, schema
from pyvc.plug_c09n import ALLJ, ARR, JADDR, JROW, NSET, mat, sa, sn, sorted_facts, sp
from pyvc.plug_graph import DLIST, DiscS, TDisc
from pyvc.plug_np_c07 import MatrixS, madd, mmul
from pyvc.values import StrS, TStr, ValS

from contracts.c08_dependency import NAME_LIST

I = z3.IntSort()  # noqa: E741
B = z3.BoolSort()
CHAIN = "gemseo.core.chains.chain.MDOChain"


def FA(vs, body, patterns=None):
    """ForAll with explicit triggers; a trigger z3 rejects (a term of the current state containing an if-then-else, only met on the GOAL side,
    where the quantifier is skolemised anyway) is dropped."""
    qid = "c09n_" + "_".join(str(x) for x in vs)
    try:
        return z3.ForAll(vs, body, qid=qid, patterns=patterns or [])
    except z3.Z3Exception:
        return z3.ForAll(vs, body, qid=qid)


schema(CHAIN + "#c09num", {"_ProcessDiscipline__disciplines": DLIST, "jac": JADDR, "_c09n_disc_jacs": ALLJ})

MROW = z3.ArraySort(StrS, MatrixS)  # {variable: matrix}
AROW = z3.ArraySort(StrS, I)  # {variable: block reference}
HEAP = z3.ArraySort(I, ValS)
ROWS = z3.ArraySort(StrS, JROW.sort())
DRM = z3.ArraySort(StrS, NSET)
DRV = z3.ArraySort(StrS, MROW)


def S(n):
    return z3.Const(n, StrS)


wm = z3.Int("c09n_watermark")  # the arrays of the disciplines are allocated at or below it, the blocks of the running dictionary above it
inl = z3.Function("c09n_in_list", z3.ArraySort(I, StrS), I, StrS, B)  # the name is an element of the list (elems, n)

# the step fold, over the representation of the state at ENTRY: (keys of the row, block references of the row, heap of arrays, keys of the
# discipline's Jacobian, its rows); the heap is the entry heap for the row and for the discipline's blocks
_GA = (JROW.sort(), HEAP, JADDR.sort(), StrS, I)  # (the row, the heap, the discipline's Jacobian: dictionary VALUES, not their arrays)
gh = z3.Function("c09n_g_has", *_GA, B)  # has an entry after the first p common names
gv = z3.Function("c09n_g_val", *_GA, MatrixS)  # ... its value


trg = z3.Function("c09n_trg", I, B)  # always-true trigger function: names a block whose distinctness from the others is needed


trg2 = z3.Function("c09n_trg2", I, B)  # always-true trigger function: names a block that must be told apart from the block named by trg


def trg_axiom():
    a = z3.Int("a!trg")
    return [("trigger function (always true)", z3.ForAll([a], trg(a), patterns=[trg(a)])), ("second trigger function (always true)", z3.ForAll([a], trg2(a), patterns=[trg2(a)]))]


def rowmem(vals, o):
    return JROW.acc(0)(vals[o])


def rowvals(vals, o):
    return JROW.acc(1)(vals[o])


def g_axioms():
    """Definition of the step fold, by recursion on the number p of common names already composed (in sorted order):
    start = the entry itself unless the discipline produces (overwrites) the variable; each common name y with a block D[y][v] adds J[o][y] * D[y][v]."""
    R, h, D = z3.Const("R!g", JROW.sort()), z3.Const("h!g", HEAP), z3.Const("D!g", JADDR.sort())
    v, p, p2 = S("v!g"), z3.Int("p!g"), z3.Int("p2!g")
    a = (R, h, D)
    Rm, rv, Dm, Dv = JROW.acc(0)(R), JROW.acc(1)(R), JADDR.acc(0)(D), JADDR.acc(1)(D)
    y = sa(R, D, p)
    has = rowmem(Dv, y)[v]
    term = mmul(mat(h[rv[y]]), mat(h[rowvals(Dv, y)[v]]))
    return [
        ("definition of the step fold (start)", FA([*a, v], z3.And(gh(*a, v, 0) == z3.And(Rm[v], z3.Not(Dm[v])), gv(*a, v, 0) == mat(h[rv[v]])), patterns=[gv(*a, v, 0), gh(*a, v, 0)])),
        # (stated with an explicit successor p2 = p + 1 and a trigger naming both terms: no arithmetic inside the trigger)
        ("definition of the step fold (next common name)", FA([*a, v, p, p2], z3.Implies(z3.And(p >= 0, p2 == p + 1), z3.And(
            gh(*a, v, p2) == z3.Or(gh(*a, v, p), has),
            gv(*a, v, p2) == z3.If(has, z3.If(gh(*a, v, p), madd(gv(*a, v, p), term), term), gv(*a, v, p)))),
            patterns=[z3.MultiPattern(gv(*a, v, p2), gv(*a, v, p)), z3.MultiPattern(gh(*a, v, p2), gh(*a, v, p))])),
    ]


class JS:
    """A Jacobian dictionary held in the heap of arrays: (dict view or (member, vals) pair, heap)."""

    def __init__(self, jac, h):
        self.member, self.vals = (jac.member, jac.vals) if hasattr(jac, "member") else jac
        self.h = h

    def rowhas(self, o, v):
        return rowmem(self.vals, o)[v]

    def has(self, o, v):
        """the dictionary holds a block for (o, v)  [+ the always-true trigger atom naming that block: see `trg2`]"""
        return z3.And(self.member[o], rowmem(self.vals, o)[v], trg2(self.addr(o, v)))

    def rh2(self, o, v):
        return z3.And(rowmem(self.vals, o)[v], trg2(self.addr(o, v)))

    def addr(self, o, v):
        return rowvals(self.vals, o)[v]

    def M(self, o, v):
        return mat(self.h[self.addr(o, v)])

    def Rm(self, o):
        return rowmem(self.vals, o)

    def row(self, o):
        return self.vals[o]


class DJ:
    """The Jacobian dictionary of the discipline (slot of the ghost dictionary), with the heap its matrices are read in."""

    def __init__(self, allj, d, h):
        t = allj.vals[d]
        self.rec, self.m, self.vals, self.h = t, JADDR.acc(0)(t), JADDR.acc(1)(t), h

    def has(self, y, v):
        return rowmem(self.vals, y)[v]

    def M(self, y, v):
        return mat(self.h[rowvals(self.vals, y)[v]])


def g_at(js, o, dj, v, p):
    a = (js.row(o), js.h, dj.rec)
    return gh(*a, v, p), gv(*a, v, p)


def disc_blocks_below_watermark(allj, tag):
    d, y, v = z3.Const(f"d!{tag}", DiscS), S(f"y!{tag}"), S(f"v!{tag}")
    t = allj.vals[d]
    a = rowvals(JADDR.acc(1)(t), y)[v]
    return FA([d, y, v], z3.Implies(z3.And(JADDR.acc(0)(t)[y], rowmem(JADDR.acc(1)(t), y)[v]), a <= wm), patterns=[a])


def struct(js, ctr, tag):
    """The blocks of the running dictionary are allocated, above the watermark and pairwise distinct."""
    o, v, o2, v2 = S(f"o!{tag}"), S(f"v!{tag}"), S(f"o2!{tag}"), S(f"v2!{tag}")
    return [
        ("blocks-allocated-above-the-watermark", FA([o, v], z3.Implies(js.has(o, v), z3.And(js.addr(o, v) > wm, js.addr(o, v) <= ctr)), patterns=[js.addr(o, v)])),
        # (`trg` is the always-true trigger function: the clause IS pairwise distinctness; it is only instantiated for a block named by a trg(..) fact)
        ("blocks-pairwise-distinct", FA([o, v, o2, v2], z3.Implies(z3.And(trg(js.addr(o, v)), js.has(o, v), js.has(o2, v2), js.addr(o, v) == js.addr(o2, v2)), z3.And(o == o2, v == v2)),
                                        patterns=[z3.MultiPattern(trg(js.addr(o, v)), trg2(js.addr(o2, v2)))])),
    ]


def below_wm_kept(h0, h, tag):
    a = z3.Int(f"a!{tag}")
    return FA([a], z3.Implies(a <= wm, h[a] == h0[a]), patterns=[h[a]])


def in_list(L, o):
    return inl(L.elems, L.n, o)


def distinct_names(L, tag):
    j, j2 = z3.Int(f"j!{tag}"), z3.Int(f"j2!{tag}")
    return FA([j, j2], z3.Implies(z3.And(0 <= j, j < j2, j2 < L.n), L.elems[j] != L.elems[j2]), patterns=[z3.MultiPattern(L.elems[j], L.elems[j2])])


def inl_axiom():
    """`c09n_in_list` (o is an element of the list): only this direction is used (so that no position term is ever created from a name)."""
    E, n, j = z3.Const("E!il", z3.ArraySort(I, StrS)), z3.Int("n!il"), z3.Int("j!il")
    return [("elements of a list are in the list", z3.ForAll([E, n, j], z3.Implies(z3.And(0 <= j, j < n), inl(E, n, E[j])), patterns=[inl(E, n, E[j])]))]


def row_done(j0, j1, dj, o, tag):
    """Row o of the running dictionary after the step (j0: at entry, j1: now): for EVERY variable v."""
    v = S(f"v!{tag}")
    n = sn(j0.row(o), dj.rec)
    h_, v_ = g_at(j0, o, dj, v, n)
    return z3.And(
        z3.Implies(j0.member[o], z3.And(j1.member[o], FA([v], z3.And(j1.rowhas(o, v) == h_, z3.Implies(j1.rh2(o, v), j1.M(o, v) == v_)), patterns=[j1.rowhas(o, v)]))),
        z3.Implies(z3.And(z3.Not(j0.member[o]), dj.m[o]), z3.And(j1.member[o], FA([v], z3.And(j1.rowhas(o, v) == dj.has(o, v), z3.Implies(j1.rh2(o, v), j1.M(o, v) == dj.M(o, v))), patterns=[j1.rowhas(o, v)]))),
        z3.Implies(z3.And(z3.Not(j0.member[o]), z3.Not(dj.m[o])), z3.Not(j1.member[o])),
    )


def _states(c):
    s0, s1 = c.old.self, c.new.self
    h0, h1 = c.old_sym("arr", ValS), c.new_sym("arr", ValS)
    j0, j1 = JS(s0.jac, h0), JS(s1.jac, h1)
    dj = DJ(s0._c09n_disc_jacs, c.old.discipline, h0)
    return j0, j1, dj, h0, h1


def _rcr_spec(c, i):
    """State after the first i chain outputs."""
    j0, j1, dj, h0, h1 = _states(c)
    L = c.old.chain_outputs
    o, v = S("o!sp"), S("v!sp")
    j = z3.Int("j!sp")

    def kept(x):
        return z3.And(j1.member[x] == j0.member[x], j1.vals[x] == j0.vals[x],
                      FA([v], z3.Implies(j0.has(x, v), h1[j0.addr(x, v)] == h0[j0.addr(x, v)]), patterns=[h1[j0.addr(x, v)]]))

    return [
        ("rows-not-yet-reached-kept", FA([j], z3.Implies(z3.And(i <= j, j < L.n), kept(L.elems[j])), patterns=[L.elems[j]])),
        ("rows-of-other-names-kept:membership", FA([o], z3.Implies(z3.Not(in_list(L, o)), j1.member[o] == j0.member[o]), patterns=[j1.member[o]])),
        # (pointwise, see _inner_frame)
        ("rows-of-other-names-kept:entries", FA([o, v], z3.Implies(z3.Not(in_list(L, o)), z3.And(j1.rowhas(o, v) == j0.rowhas(o, v), j1.addr(o, v) == j0.addr(o, v))),
                                                # (also triggered by the ENTRY-state terms: the clauses on the contents name the blocks by their entry address)
                                                patterns=[j1.rowhas(o, v), j1.addr(o, v), j0.addr(o, v)])),
        ("rows-of-other-names-kept:contents", FA([o, v], z3.Implies(z3.And(z3.Not(in_list(L, o)), j0.has(o, v)), h1[j0.addr(o, v)] == h0[j0.addr(o, v)]), patterns=[h1[j0.addr(o, v)]])),
        ("frame:arrays-of-the-disciplines-untouched", below_wm_kept(h0, h1, "sp")),
        ("chained-rows", FA([j], z3.Implies(z3.And(0 <= j, j < i), row_done(j0, j1, dj, L.elems[j], "rd")), patterns=[L.elems[j]])),
        ("counter-monotonic", c.new_ctr >= c.old_ctr),
    ] + struct(j1, c.new_ctr, "st1")


@register
class CopyJacsRow(Contract):
    """copy_jacs on ONE row {input: block} (the call of reverse_chain_rule): same inputs, every block a FRESH array (allocated after entry,
    pairwise distinct) with the content of the source block; the argument and every existing array are untouched."""

    targets = (CHAIN + ".copy_jacs",)
    variant = "row"
    prop = ("C09",)
    params = {"jacobian": JROW}
    returns = JROW
    modifies = ("heap:arr",)
    c09_numeric = True
    loops = {0: LoopSpec(anchor="jacobian.items()", inv=lambda c, k: _cjr_inv(c, k), modifies=("jacobian_copy", "heap:arr"), local_types={"jacobian_copy": JROW})}

    def requires(self, c):
        J = c.old.jacobian
        x = S("x!cjr")
        return [("blocks-are-allocated", FA([x], z3.Implies(J.member[x], J.vals[x] <= c.old_ctr), patterns=[J.vals[x]]))]

    def ensures(self, c):
        return _cjr_spec(c, c.old.jacobian, c.result, lambda x: z3.BoolVal(True))


def _cjr_spec(c, J, R, done):
    h0, h = c.old_sym("arr", ValS), c.new_sym("arr", ValS)
    x, x2 = S("x!cj"), S("x2!cj")
    a = z3.Int("a!cj")
    return [
        ("same-inputs", FA([x], R.member[x] == z3.And(J.member[x], done(x)), patterns=[R.member[x]])),
        ("blocks-are-fresh-copies", FA([x], z3.Implies(R.member[x], z3.And(h[R.vals[x]] == h0[J.vals[x]], R.vals[x] > c.old_ctr, R.vals[x] <= c.new_ctr)), patterns=[R.vals[x]])),
        ("copies-pairwise-distinct", FA([x, x2], z3.Implies(z3.And(R.member[x], R.member[x2], R.vals[x] == R.vals[x2]), x == x2), patterns=[z3.MultiPattern(R.vals[x], R.vals[x2])])),
        ("existing-arrays-untouched", z3.And(c.new_ctr >= c.old_ctr, FA([a], z3.Implies(a <= c.old_ctr, h[a] == h0[a]), patterns=[h[a]]))),
    ]


def _cjr_inv(c, k):
    return _cjr_spec(c, c.old.jacobian, c.locals["jacobian_copy"], lambda x: c.seq.pos[x] < k)


@register
class ReverseChainRule(Contract):
    """One step of the reverse accumulation (see the module docstring), on the repaired source (53b5901): the entries of the variables the
    discipline produces are popped first (`curr_jacs`), then composed."""

    targets = (CHAIN + ".reverse_chain_rule",)
    prop = ("C09",)
    self_schema = CHAIN + "#c09num"
    params = {"chain_outputs": NAME_LIST, "discipline": TDisc}
    modifies = ("self.jac", "heap:arr")
    c09_numeric = True
    callee_variants = {CHAIN + ".copy_jacs": "row"}
    # the inner loops only modify the row through its local alias `output_jac` (written back to its slot of self.jac): the other rows are kept
    # structurally, and the invariant clause `only-this-row-of-the-dictionary-changes` states the frame of self.jac itself
    alias_modifies_slot_owner = True
    _inner = ("output_jac", "heap:arr")
    loops = {
        0: LoopSpec(anchor="chain_outputs", inv=lambda c, k: _rcr_spec(c, k), modifies=("self.jac", "heap:arr")),
        1: LoopSpec(anchor="curr_jacs.items()", inv=lambda c, k: _rcr_inv1(c, k), modifies=_inner),
        2: LoopSpec(anchor="discipline.jac[input_name].items()", inv=lambda c, k: _rcr_inv2(c, k), modifies=_inner),
    }

    def axioms(self, c):
        return g_axioms() + trg_axiom() + inl_axiom()

    def requires(self, c):
        j0, j1, dj, h0, h1 = _states(c)
        return [
            ("chain-outputs-pairwise-distinct", distinct_names(c.old.chain_outputs, "rq")),
            ("arrays-of-the-disciplines-at-or-below-the-watermark", disc_blocks_below_watermark(c.old.self._c09n_disc_jacs, "rq")),
            ("watermark-allocated", wm <= c.old_ctr),
        ] + struct(j0, c.old_ctr, "st0")

    def ensures(self, c):
        return _rcr_spec(c, c.old.chain_outputs.n)


def base_rows(vals, o_):
    """The rows of the dictionary apart from row o_ (the dictionary is `Store(rest, o_, row)` while the local alias of row o_ is alive)."""
    t = z3.simplify(vals)
    while z3.is_store(t) and t.arg(1).eq(o_):
        t = t.arg(0)
    return t


class Row:
    """The local alias `output_jac` of the current row (a dictionary {variable: block reference}) in a heap."""

    def __init__(self, view, h):
        self.m, self.v, self.h = view.member, view.vals, h

    def M(self, x):
        return mat(self.h[self.v[x]])

    def has2(self, x):
        return z3.And(self.m[x], trg2(self.v[x]))


def _inner_states(c):
    pre = c.pre_locals["self"]
    hp = pre._heap.sym.get("arr", c.old_sym("arr", ValS))
    h1 = c.new_sym("arr", ValS)
    o_ = c.locals["output_name"]
    jp, j1 = JS(pre.jac, hp), JS(c.new.self.jac, h1)
    return o_, jp, j1, hp, h1, pre._heap.ctr, Row(c.locals["output_jac"], h1), Row(c.pre_locals["output_jac"], hp), c.locals["curr_jacs"]


def _inner_frame(c, tag):
    """What both inner loops keep: the other rows and their blocks, the arrays of the disciplines, the popped blocks; the blocks of the
    current row are allocated above the watermark, pairwise distinct, distinct from the blocks of the other rows and from the popped ones."""
    o_, jp, j1, hp, h1, ctrp, row, rowp, CJ = _inner_states(c)
    B, Bp = base_rows(j1.vals, o_), base_rows(jp.vals, o_)  # the other rows: the SAME term in every state of the two inner loops
    o, v, v2, y = S(f"o!{tag}"), S(f"v!{tag}"), S(f"v2!{tag}"), S(f"y!{tag}")
    ob = rowvals(B, o)[v]  # a block of another row
    other = z3.And(o != o_, j1.member[o], rowmem(B, o)[v], trg2(ob))
    ctr = c.new_ctr
    return [
        ("row-present", j1.member[o_]),
        ("only-this-row-of-the-dictionary-changes", z3.And(j1.member == jp.member, B == Bp, c.new.self.jac.n == c.pre_locals["self"].jac.n)),
        ("arrays-of-the-disciplines-untouched", below_wm_kept(hp, h1, tag)),
        ("blocks-of-other-rows-untouched", FA([o, v], z3.Implies(other, h1[ob] == hp[ob]), patterns=[h1[ob]])),
        ("popped-blocks-untouched", FA([y], z3.Implies(CJ.member[y], h1[CJ.vals[y]] == hp[CJ.vals[y]]), patterns=[h1[CJ.vals[y]]])),
        ("counter-monotonic", ctr >= ctrp),
        ("row-blocks-allocated-above-the-watermark", FA([v], z3.Implies(row.m[v], z3.And(row.v[v] > wm, row.v[v] <= ctr)), patterns=[row.v[v]])),
        ("row-blocks-pairwise-distinct", FA([v, v2], z3.Implies(z3.And(trg(row.v[v]), row.m[v], row.has2(v2), row.v[v] == row.v[v2]), v == v2),
                                            patterns=[z3.MultiPattern(trg(row.v[v]), trg2(row.v[v2]))])),
        ("row-blocks-distinct-from-the-blocks-of-other-rows", FA([o, v, v2], z3.Implies(z3.And(other, trg(row.v[v2]), row.m[v2]), ob != row.v[v2]),
                                                                 patterns=[z3.MultiPattern(trg(row.v[v2]), trg2(ob))])),
        ("row-blocks-distinct-from-the-popped-blocks", FA([v, y], z3.Implies(z3.And(trg(row.v[v]), row.m[v], CJ.member[y]), row.v[v] != CJ.vals[y]),
                                                          patterns=[z3.MultiPattern(trg(row.v[v]), CJ.member[y])])),
    ]


def _rcr_inv1(c, p):
    j0, _, dj, h0, _ = _states(c)
    o_, jp, j1, hp, h1, ctrp, row, rowp, CJ = _inner_states(c)
    v, y = S("v!i1"), S("y!i1")
    t = z3.Int("t!i1")
    R0, D = j0.row(o_), dj.rec
    h_, v_ = g_at(j0, o_, dj, v, p)
    return _inner_frame(c, "f1") + [
        # the popped entries, in the vocabulary of the entry state (ground / single-trigger restatements of the facts known when `curr_jacs` was built)
        ("popped:names-in-sorted-order", FA([t], CJ.keys[t] == sa(R0, D, t), patterns=[CJ.keys[t]])),
        ("popped:count", CJ.n == sn(R0, D)),
        ("popped:are-the-common-names", FA([y], CJ.member[y] == z3.And(j0.rowhas(o_, y), dj.m[y]), patterns=[CJ.member[y]])),
        ("popped:are-the-entry-blocks", CJ.vals == rowvals(j0.vals, o_)),
        ("popped:allocated-at-entry", FA([y], z3.Implies(CJ.member[y], z3.And(CJ.vals[y] <= c.old_ctr, hp[CJ.vals[y]] == h0[CJ.vals[y]])), patterns=[CJ.vals[y]])),
        ("composed-so-far", FA([v], z3.And(row.m[v] == h_, z3.Implies(row.has2(v), row.M(v) == v_)), patterns=[row.m[v]])),
    ]


def _rcr_inv2(c, q):
    j0, _, dj, h0, _ = _states(c)
    o_, jq, j1, hq, h1, ctrq, row, rowq, CJ = _inner_states(c)
    y_, cj = c.locals["input_name"], c.locals["curr_jac"]
    v = S("v!i2")
    pos, keys, n = c.seq.pos, c.seq.keys, c.seq.n
    t_ = z3.Int("t!i2")

    def term(x):
        return mmul(mat(hq[cj]), dj.M(y_, x))

    def composed(x):
        return z3.And(row.m[x], z3.Implies(trg2(row.v[x]), row.M(x) == z3.If(rowq.m[x], madd(rowq.M(x), term(x)), term(x))))

    def untouched(x):
        return z3.And(row.m[x] == rowq.m[x], row.v[x] == rowq.v[x], z3.Implies(rowq.has2(x), h1[rowq.v[x]] == hq[rowq.v[x]]))

    done = z3.And(dj.has(y_, v), pos[v] < q)
    return _inner_frame(c, "f2") + [
        ("blocks-composed", FA([v], z3.Implies(done, composed(v)), patterns=[row.m[v]])),
        ("other-entries-untouched", FA([v], z3.Implies(z3.Not(done), untouched(v)), patterns=[row.m[v]])),
        ("trigger:block-to-update", z3.And(trg(row.v[keys[q]]), trg2(row.v[keys[q]]))),
    ]
