"""C05 (continued) - BaseDiscipline.execute and its cache protocol, for a discipline holding a SimpleCache
(the default policy).  The cache is seen through the SimpleCache contracts of c05_caches.py.

Assumed (contracts marked trusted): IO.prepare_input_data / initialize / finalize (no data processor),
grammar validation has no effect on the data, ``_execute_monitored`` (i.e. ``_run``) replaces the local data and
allocates arrays but does not modify existing arrays in place, counted by the ghost ``disc_runs``.
"""
from __future__ import annotations

import z3

from pyvc.contract import Contract, LoopSpec, register, schema
from pyvc.values import TBool, TObj, TSet, TStr, ValS, declare_ghost

from contracts.c05_caches import DATA, ENTRY, P, allocated, cont, content_eq, dict_term, heap_preserved, kq, sc, sc_hit, sc_wf, matches
from contracts.c05_full_cache import content_stable

DISC = "gemseo.core.discipline.base_discipline.BaseDiscipline"
IOC = "gemseo.core.discipline.io.IO"
GR = "gemseo.core.grammars.base_grammar.BaseGrammar"
SC = P + "simple_cache.SimpleCache"
schema(GR, {"_names": TSet(TStr)})  # model field: the names of the grammar elements
schema(IOC, {"_IO__data": DATA, "input_grammar": TObj(GR), "output_grammar": TObj(GR)})
schema(DISC, {"name": TStr, "cache": TObj(SC), "io": TObj(IOC)})
declare_ghost("disc_runs", z3.IntSort())
INT = z3.IntSort()

# the prepared input data are a function of the data passed by the caller (and of the grammar defaults)
_D = DATA.sort()
prep_m = z3.Function("prepared_member", _D, DATA.acc(0).range())
prep_v = z3.Function("prepared_vals", _D, DATA.acc(1).range())
prep_n = z3.Function("prepared_n", _D, INT)


class Prepared:
    """View-like access to prepare_input_data(d)."""

    def __init__(self, d):
        t = dict_term(d)
        self.member, self.vals, self.n = prep_m(t), prep_v(t), prep_n(t)

    def has(self, k):
        return self.member[k]

    def get(self, k):
        return self.vals[k]


def same_dict_obj(a, b):
    """Same names bound to the same arrays (a shallow copy)."""
    return z3.And(a.member == b.member, a.vals == b.vals, a.n == b.n)


def cache_same(c):
    cc = _Cview(c, None)
    i0, o0, j0 = sc(cc, "old")
    i1, o1, j1 = sc(cc, "new")
    return z3.And(same_dict_obj(i1, i0), same_dict_obj(o1, o0), same_dict_obj(j1, j0))


class _Cview:
    """``c.old/new.self`` of the discipline re-rooted at its cache, so that the SimpleCache spec functions apply."""

    def __init__(self, c, inp):
        self.c, self.inp = c, inp

    class _NS:
        def __init__(self, ns, inp):
            self._ns, self.input_data = ns, inp

        @property
        def self(self):
            return self._ns.self.cache

    @property
    def old(self):
        return _Cview._NS(self.c.old, self.inp)

    @property
    def new(self):
        return _Cview._NS(self.c.new, self.inp)

    def __getattr__(self, name):
        return getattr(self.c, name)


def hit_with_outputs(c, inp):
    """The lookup of ``inp`` in the discipline's cache returns outputs."""
    s = c.old.self.cache
    i, o = s._SimpleCache__inputs, s._SimpleCache__outputs
    return z3.And(i.n != 0, matches(c, inp, i, c.old_sym("arr", ValS), s._tolerance), o.n != 0)


# ------------------------------------------------------------------------------- assumed environment
@register
class PrepareInputData(Contract):
    targets = (IOC + ".prepare_input_data",)
    prop = ("C05",)
    params = {"data": DATA}
    returns = DATA
    trusted = True
    description = "assumed: returns a new dict holding (some of) the arrays of the data and of the grammar defaults; a function of the data passed in"

    def ensures(self, c):
        r, p = c.result, Prepared(c.old.data)
        return [("value", z3.And(r.member == p.member, r.vals == p.vals, r.n == p.n)), ("allocated", allocated(r, c.old_ctr))]


@register
class IOInitialize(Contract):
    targets = (IOC + ".initialize",)
    prop = ("C05",)
    params = {"input_data": DATA, "validate": TBool}
    modifies = ("self",)
    trusted = True
    description = "assumed (no data processor, validation without effect): the local data become a shallow copy of the input data"

    def ensures(self, c):
        return [("data", same_dict_obj(c.new.self._IO__data, c.old.input_data))]


@register
class IOFinalize(Contract):
    targets = (IOC + ".finalize",)
    prop = ("C05",)
    params = {"validate": TBool}
    trusted = True
    description = "assumed (no data processor): validation only, the local data are unchanged"


@register
class GrammarValidate(Contract):
    targets = (GR + ".validate",)
    prop = ("C05",)
    params = {"data": DATA}
    trusted = True
    description = "assumed: grammar validation does not change the data (an InvalidDataError aborts the execution: not modelled)"


@register
class ExecuteMonitored(Contract):
    targets = ("gemseo.core._base_monitored_process.BaseMonitoredProcess._execute_monitored",)
    prop = ("C05",)
    self_class = DISC
    modifies = ("self.io", "heap:arr", "ghost:disc_runs")
    trusted = True
    description = ("assumed: one run of the discipline body (_run): the local data are replaced by arbitrary allocated data, existing arrays are "
                   "not modified in place; counted by the ghost disc_runs")

    def ensures(self, c):
        return [("counted", c.new_ghost("disc_runs", INT) == c.old_ghost("disc_runs", INT) + 1),
                ("allocated", allocated(c.new.self.io._IO__data, c.new_ctr)), ("heap-preserved", heap_preserved(c)), ("content-stable", content_stable(c))]


@register
class CreateInputDataForCache(Contract):
    targets = (DISC + ".__create_input_data_for_cache",)
    prop = ("C05",)
    params = {"input_data": DATA}
    returns = DATA
    modifies = ("heap:arr",)
    loops = {0: LoopSpec(anchor="auto_coupled_names", modifies=("input_data_", "heap:arr"), inv=lambda c, k: _pristine_inv(c, k), local_types={"input_data_": DATA})}

    def requires(self, c):
        return [("allocated", allocated(c.old.input_data, c.old_ctr))]

    def ensures(self, c):
        r, d = c.result, c.old.input_data
        s = c.old.self
        h0, h1 = c.old_sym("arr", ValS), c.new_sym("arr", ValS)
        k = kq("k!pi")
        auto = lambda x: z3.And(s.io.input_grammar._names.member[x], s.io.output_grammar._names.member[x])  # noqa: E731
        return [
            ("a-new-dict-with-the-same-names", z3.And(r.n == d.n, z3.ForAll([k], r.has(k) == d.has(k)))),
            ("same-contents", z3.ForAll([k], z3.Implies(d.has(k), h1[r.get(k)] == h0[d.get(k)]))),
            ("same-content", cont(r, h1) == cont(d, h0)),
            # pristine: what the discipline may overwrite (inputs that are also outputs) is deep-copied
            ("auto-coupled-data-are-copied", z3.ForAll([k], z3.Implies(z3.And(d.has(k), auto(k)), z3.And(r.get(k) > c.old_ctr, r.get(k) <= c.new_ctr)))),
            ("others-are-shared", z3.ForAll([k], z3.Implies(z3.And(d.has(k), z3.Not(auto(k))), r.get(k) == d.get(k)))),
            ("allocated", allocated(r, c.new_ctr)),
            ("heap-preserved", heap_preserved(c)), ("content-stable", content_stable(c)),
        ]


def _pristine_inv(c, k):
    d, r = c.old.input_data, c.locals["input_data_"]
    h0, h1 = c.old_sym("arr", ValS), c.new_sym("arr", ValS)
    x = kq("k!pv")
    pos = c.seq.pos
    done = lambda y: z3.And(c.locals["auto_coupled_names"].member[y], pos[y] < k)  # noqa: E731
    return [
        ("names", z3.And(r.n == d.n, z3.ForAll([x], r.has(x) == d.has(x)))),
        ("contents", z3.ForAll([x], z3.Implies(d.has(x), h1[r.get(x)] == h0[d.get(x)]))),
        ("copied-so-far", z3.ForAll([x], z3.Implies(z3.And(d.has(x), done(x)), z3.And(r.get(x) > c.old_ctr, r.get(x) <= c.new_ctr)))),
        ("others-shared", z3.ForAll([x], z3.Implies(z3.And(d.has(x), z3.Not(done(x))), r.get(x) == d.get(x)))),
        ("heap", heap_preserved(c)), ("content-stable", content_stable(c)),
    ]


# ------------------------------------------------------------------------------- the cache protocol
@register
class SetDataFromCache(Contract):
    targets = (DISC + "._set_data_from_cache",)
    prop = ("C05",)
    params = {"cache_entry": ENTRY}
    modifies = ("self.io",)

    def ensures(self, c):
        e, d1 = c.old.cache_entry, c.new.self.io._IO__data
        k = kq("k!sd")
        return [("names", z3.ForAll([k], d1.has(k) == z3.Or(e.inputs.has(k), e.outputs.has(k)))),
                ("outputs-override-inputs", z3.ForAll([k], z3.Implies(d1.has(k), d1.get(k) == z3.If(e.outputs.has(k), e.outputs.get(k), e.inputs.get(k))))),
                ("entry-untouched", z3.And(same_dict_obj(c.new.cache_entry.inputs, e.inputs), same_dict_obj(c.new.cache_entry.outputs, e.outputs)))]


def merged(d1, inp, out, heap_d, heap_src):
    """d1 = the inputs merged with (overridden by) the outputs, on contents."""
    k = kq("k!mg")
    return z3.And(z3.ForAll([k], d1.has(k) == z3.Or(inp.has(k), out.has(k))),
                  z3.ForAll([k], z3.Implies(d1.has(k), heap_d[d1.get(k)] == z3.If(out.has(k), heap_src[out.get(k)], heap_src[inp.get(k)]))))


@register
class CanLoadCache(Contract):
    targets = (DISC + ".__can_load_cache",)
    prop = ("C05",)
    params = {"input_data": DATA}
    returns = TBool
    modifies = ("self.io",)

    def requires(self, c):
        cc = _Cview(c, c.old.input_data)
        return [("cache-wf", sc_wf(cc)), ("input-allocated", allocated(c.old.input_data, c.old_ctr))]

    def ensures(self, c):
        inp = c.old.input_data
        hit = hit_with_outputs(c, inp)
        _, o0, _ = sc(_Cview(c, inp))
        h = c.old_sym("arr", ValS)
        d0, d1 = c.old.self.io._IO__data, c.new.self.io._IO__data
        return [("value", c.result == hit),
                ("hit:local-data-are-the-inputs-merged-with-the-cached-outputs", z3.Implies(hit, merged(d1, inp, o0, h, h))),
                ("hit:allocated", z3.Implies(hit, allocated(d1, c.old_ctr))),
                ("miss:local-data-unchanged", z3.Implies(z3.Not(hit), same_dict_obj(d1, d0))),
                ("input-untouched", same_dict_obj(c.new.input_data, inp))]


def restricted(o1, data, names, h1, hd):
    """o1 = data restricted to the given names, on contents."""
    k = kq("k!rs")
    return z3.ForAll([k], z3.And(o1.has(k) == z3.And(data.has(k), names.member[k]), z3.Implies(o1.has(k), h1[o1.get(k)] == hd[data.get(k)])))


def stored_after(c, inp, h_inp, produced, h_prod):
    """SimpleCache state after cache_outputs(inp, produced restricted to the output names) (see SimpleCacheCacheOutputs)."""
    cc = _Cview(c, inp)
    i0, o0, j0 = sc(cc)
    i1, o1, j1 = sc(cc, "new")
    h0, h1 = c.old_sym("arr", ValS), c.new_sym("arr", ValS)
    s = c.old.self
    names = s.io.output_grammar._names
    hit = z3.And(i0.n != 0, matches(c, inp, i0, h0, s.cache._tolerance))
    return [
        ("no-output-grammar:cache-unchanged", z3.Implies(names.n == 0, cache_same(c))),
        ("hit-without-outputs:inputs-kept", z3.Implies(z3.And(names.n != 0, hit), content_eq(i1, i0, h1, h0))),
        ("hit-without-outputs:outputs-filled", z3.Implies(z3.And(names.n != 0, hit, o0.n == 0), restricted(o1, produced, names, h1, h_prod))),
        ("hit-with-outputs:outputs-kept", z3.Implies(z3.And(names.n != 0, hit, o0.n != 0), content_eq(o1, o0, h1, h0))),
        ("hit-without-outputs:jacobian-kept", z3.Implies(z3.And(names.n != 0, hit), content_eq(j1, j0, h1, h0))),
        ("miss:inputs-stored", z3.Implies(z3.And(names.n != 0, z3.Not(hit)), content_eq(i1, inp, h1, h_inp))),
        ("miss:outputs-stored", z3.Implies(z3.And(names.n != 0, z3.Not(hit)), restricted(o1, produced, names, h1, h_prod))),
        ("miss:jacobian-dropped", z3.Implies(z3.And(names.n != 0, z3.Not(hit)), j1.n == 0)),
        ("cache-wf", sc_wf(cc, "new")),
    ]


def _store_inv(c, k):
    """While removing the names that are not outputs: output_data = local data minus the removed names."""
    d, od = c.old.self.io._IO__data, c.locals["output_data"]
    names = c.old.self.io.output_grammar._names
    x = kq("k!st")
    pos, mem = c.seq.pos, c.seq_member
    return [("kept", z3.ForAll([x], od.has(x) == z3.And(d.has(x), z3.Or(names.member[x], pos[x] >= k)))),
            ("values", z3.ForAll([x], z3.Implies(od.has(x), od.get(x) == d.get(x))))]


@register
class StoreCache(Contract):
    targets = (DISC + "._store_cache",)
    prop = ("C05",)
    params = {"input_data": DATA}
    modifies = ("self.cache", "heap:arr")
    loops = {0: LoopSpec(anchor="output_data.keys() - output_grammar", modifies=("output_data",), inv=lambda c, k: _store_inv2(c, k))}

    def requires(self, c):
        cc = _Cview(c, c.old.input_data)
        return [("cache-wf", sc_wf(cc)), ("allocated", z3.And(allocated(c.old.input_data, c.old_ctr), allocated(c.old.self.io._IO__data, c.old_ctr)))]

    def ensures(self, c):
        h0 = c.old_sym("arr", ValS)
        return stored_after(c, c.old.input_data, h0, c.old.self.io._IO__data, h0) + [("heap-preserved", heap_preserved(c)), ("content-stable", content_stable(c))]


def _store_inv2(c, k):
    d, od = c.old.self.io._IO__data, c.locals["output_data"]
    names = c.old.self.io.output_grammar._names
    x = kq("k!st")
    pos = c.seq.pos
    # the iterated set is {x in local data, x not an output name}; its first k elements have been removed
    return [("kept", z3.ForAll([x], od.has(x) == z3.And(d.has(x), z3.Or(names.member[x], pos[x] >= k)))),
            ("values", z3.ForAll([x], z3.Implies(od.has(x), od.get(x) == d.get(x))))]


@register
class Execute(Contract):
    targets = (DISC + ".execute",)
    prop = ("C05",)
    params = {"input_data": DATA}
    returns = DATA
    modifies = ("self.io", "self.cache", "heap:arr", "ghost:disc_runs")

    def requires(self, c):
        cc = _Cview(c, c.old.input_data)
        return [("cache-wf", sc_wf(cc)), ("input-allocated", allocated(c.old.input_data, c.old_ctr))]

    def ensures(self, c):
        p = Prepared(c.old.input_data)
        hit = hit_with_outputs(c, p)
        _, o0, _ = sc(_Cview(c, p))
        h0, h1 = c.old_sym("arr", ValS), c.new_sym("arr", ValS)
        r = c.result
        runs0, runs1 = c.old_ghost("disc_runs", INT), c.new_ghost("disc_runs", INT)
        out = [
            # the body runs iff the lookup returned no outputs
            ("body-runs-iff-the-lookup-returned-no-outputs", runs1 == runs0 + z3.If(hit, 0, 1)),
            ("hit:returns-the-inputs-merged-with-the-cached-outputs", z3.Implies(hit, merged(r, p, o0, h1, h0))),
            ("hit:cache-unchanged", z3.Implies(hit, cache_same(c))),
            ("returns-the-local-data", same_dict_obj(r, c.new.self.io._IO__data)),
            ("heap-preserved", heap_preserved(c)),
        ]
        # miss: the pair stored is (the prepared inputs as they were at the call, the outputs in the returned data)
        out += [(f"miss:{l}", z3.Implies(z3.Not(hit), f)) for l, f in stored_after(c, p, h0, r, h1)]
        return out
