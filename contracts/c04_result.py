"""C04 - what is REPORTED for a problem (OptimizationResult, last point, Pareto front) is what is recorded for the selected point.

Builds on c04_optimum (feasibility, counting function, violation measure).  The statement of the property is turned into ONE list of
clauses over (design, objective, flag, constraint values, constraint gradients) - `solution_clauses` - that is used for
`OptimizationHistory.optimum` (typed summary variant, verified against the real code) and for
`OptimizationResult.from_optimization_problem` (through the sign restoration for maximisation problems).
"""
from __future__ import annotations

import z3

from pyvc import contract as C
from pyvc import gmodels as G
from pyvc.contract import Contract, LoopSpec, register, schema
from pyvc.npmodel import TArr
from pyvc.values import forall_pat, SV, RecV, Ref, TBool, TDict, TInt, TObj, TOpt, TReal, TRec, TStr, TStruct, TVal, str_lit

from contracts.c04_optimum import (A, CONS, CONSTRAINTS, COPT, F1, HNd, OF1, OH, POINT, _copt_inv, _opt_inv, arr_term, cnt_axioms, cnt_feas, feasible,
                                   grad_name, hist, le_ext, obj_of, recorded_values_ok, viol_of)

DB = A + "database.Database"
OP = A + "optimization_problem.OptimizationProblem"
DS = A + "design_space.DesignSpace"
RES = A + "optimization_result.OptimizationResult"
MORES = A + "multiobjective_optimization_result.MultiObjectiveOptimizationResult"
HND_CLS = A + "hashable_ndarray.HashableNdarray"
OREAL = TOpt(TReal)
OINT = TOpt(TInt)

G.RECORD_CLASSES[HND_CLS] = (HNd, lambda ex, args, kwargs: HNd.mk(ex.st, wrapped_array=args[0] if args else kwargs["array"]))

OBJECTIVE = TRec("ObjectiveFnC04", {"name": TStr, "original_name": TStr, "n_calls": TInt, "dim": TInt}, cls="gemseo.core.mdo_functions.mdo_function.MDOFunction")


class _HistoryOfProblem(TObj):
    """The history of a problem shares the problem's database and constraints (OptimizationProblem.__init__)."""

    def fresh_in(self, st, hint, owner_ref):
        ref = TObj.fresh(self, st, hint)
        o, owner = st.heap[ref.id], st.heap[owner_ref.id]
        for f in ("_OptimizationHistory__database", "_OptimizationHistory__constraints"):
            st.heap.pop(o.fields[f].id, None)
        o.fields["_OptimizationHistory__database"] = owner.fields["database"]
        o.fields["_OptimizationHistory__constraints"] = owner.fields["_OptimizationProblem__constraints"]
        return ref


schema(DS + "#c04", {})
schema(OP + "#c04", {
    "database": TObj(DB, schema_key=DB + "#c04"),
    "_OptimizationProblem__constraints": TObj(CONSTRAINTS),
    "history": _HistoryOfProblem(OH),
    "_objective": OBJECTIVE,
    "_OptimizationProblem__minimize_objective": TBool,
    "use_standardized_objective": TBool,
    "design_space": TObj(DS, schema_key=DS + "#c04"),
})
PROBLEM = TObj(OP, schema_key=OP + "#c04")


def db_of(view):
    return view._Database__data


def key_of(design):
    """Database key of a reported design vector (content of the array)."""
    return HNd.dt.mk(arr_term(design))


# ---------------------------------------------------------------------------- Database look-ups by iteration
@register
class GetIteration(Contract):
    """1-based position of a recorded point; KeyError exactly for a point that is not recorded."""

    targets = (DB + ".get_iteration",)
    prop = ("C04",)
    numpy = "precise"
    c04r = True
    self_schema = DB + "#c04"
    params = {"x_vect": F1}
    returns = TInt
    raises = {"KeyError": lambda c: z3.Not(db_of(c.old.self).member[key_of(c.old.x_vect)])}
    loops = {0: LoopSpec(anchor="enumerate(self.__data.keys())", local_types={"index": TInt, "key": HNd},
                         inv=lambda c, k: _not_found_so_far(c, k))}

    def ensures(self, c):
        D = db_of(c.old.self)
        key = key_of(c.old.x_vect)
        return [("position-of-the-point", c.result == D.pos[key] + 1),
                ("in-range", z3.And(1 <= c.result, c.result <= D.n))]


def _not_found_so_far(c, k):
    D = db_of(c.old.self)
    key = key_of(c.old.x_vect)
    j = z3.Int("j!gi")
    return [("not-among-the-first-k", z3.ForAll([j], z3.Implies(z3.And(0 <= j, j < k), D.keys[j] != key), patterns=[D.keys[j]]))]


@register
class GetXVect(Contract):
    """The input value recorded at a (1-based, possibly negative) iteration."""

    targets = (DB + ".get_x_vect",)
    prop = ("C04",)
    numpy = "precise"
    c04r = True
    self_schema = DB + "#c04"
    params = {"iteration": TInt}
    returns = F1
    raises = {"ValueError": lambda c: z3.Or(c.old.iteration == 0, c.old.iteration > db_of(c.old.self).n, c.old.iteration < -db_of(c.old.self).n)}

    def ensures(self, c):
        D = db_of(c.old.self)
        it = c.old.iteration
        idx = z3.If(it > 0, it - 1, D.n + it)
        return [("wrapped-array-of-the-key-at-that-position", arr_term(c.result) == HNd.accessor("wrapped_array")(D.keys[idx]))]


# ---------------------------------------------------------------------------- the property statement as clauses over a reported solution
SOLUTION = TStruct(OH + ".Solution", {"objective": OREAL, "design": F1, "is_feasible": TBool, "constraints": COPT, "constraint_jacobian": COPT})


def _bool(v):
    return v if z3.is_expr(v) else z3.BoolVal(bool(v))


def _naming(k, p):
    """The formula p, written so that the terms of the (irrelevant) formula k are present in the proof obligation: (k => p) and (not k => p).
    (Names the position-m key of a report, so that the facts about the comprehension that built it are instantiated at m.)"""
    return z3.And(z3.Implies(k, p), z3.Implies(z3.Not(k), p))


def some_feasible(c):
    """Some recorded point is feasible (with the instances of the order view / counting function the provers need, as in c04_optimum)."""
    D, cons = hist(c)
    p = z3.Const("p!sf", HNd.sort())
    return z3.Exists([p], z3.And(D.member[p], feasible(cons, D.vals[p]), D.pos[p] >= 0, cnt_feas(D.pos[p] + 1) >= 1))


def solution_clauses(c, design, objective, flag, c_opt, c_grad, negated=None):
    """C04 for one reported solution.  `objective`: term of sort Optional[Real]; `negated`: Bool term, the reported objective is the
    opposite of the recorded one (original objective of a maximisation problem)."""
    D, cons = hist(c)
    key = key_of(design)
    pt = D.vals[key]
    has, val = obj_of(c, pt)
    F = cons._functions
    m = z3.Int("m!sc")
    nm = CONS.accessor("name")(F.elems[m])
    mem, vals = POINT.acc(0)(pt), POINT.acc(1)(pt)
    lookup = lambda name: z3.If(mem[name], OF1.dt.some(vals[name]), OF1.dt.none)  # noqa: E731
    flag = _bool(flag)
    reported = val if negated is None else z3.If(negated, -val, val)
    p = z3.Const("p!best", HNd.sort())
    has_p, val_p = obj_of(c, D.vals[p])
    return [
        ("flagged-feasible-iff-some-recorded-point-is-feasible", flag == some_feasible(c)),
        ("is-a-recorded-point", D.member[key]),
        ("objective-is-the-recorded-one", objective == z3.If(has, OREAL.dt.some(reported), OREAL.dt.none)),
        ("constraint-values-are-the-recorded-ones", z3.ForAll([m], z3.Implies(z3.And(0 <= m, m < F.n),
                                                                              _naming(c_opt.keys[m] == nm, z3.And(c_opt.has(nm), c_opt.vals[nm] == lookup(nm)))))),
        ("constraint-gradients-are-the-recorded-ones", z3.ForAll([m], z3.Implies(z3.And(0 <= m, m < F.n),
                                                                                 _naming(c_grad.keys[m] == nm, z3.And(c_grad.has(nm), c_grad.vals[nm] == lookup(grad_name(nm))))))),
        ("feasible-when-flagged", z3.Implies(flag, feasible(cons, pt))),
        ("no-better-feasible-point", z3.Implies(flag, z3.ForAll([p], z3.Implies(
            z3.And(D.member[p], feasible(cons, D.vals[p]), has_p, D.pos[p] >= 0, cnt_feas(D.pos[p] + 1) >= 1, cnt_feas(D.pos[p]) >= 0), z3.And(has, val <= val_p))))),
        ("minimal-violation-when-flagged-infeasible", z3.Implies(z3.Not(flag), z3.ForAll([p], z3.Implies(z3.And(D.member[p], D.pos[p] >= 0),
                                                                                                                le_ext(viol_of(pt), viol_of(D.vals[p])))))),
    ]


def history_requires(c):
    F = hist(c)[1]._functions
    a, b = z3.Int("a!dn"), z3.Int("b!dn")
    nm = lambda t: CONS.accessor("name")(F.elems[t])  # noqa: E731
    return [("recorded-objective-values-are-finite-scalars", recorded_values_ok(c)),
            ("constraint-names-distinct", z3.ForAll([a, b], z3.Implies(z3.And(0 <= a, a < b, b < F.n), nm(a) != nm(b))))]


@register
class OptimumSummary(Contract):
    """`OptimizationHistory.optimum` against the whole statement of C04 (both the feasible and the least-infeasible case), with a typed
    result so that it can be used at call sites (problem.optimum, OptimizationResult.from_optimization_problem)."""

    targets = (OH + ".optimum",)
    variant = "summary"
    prop = ("C04",)
    numpy = "precise"
    returns = SOLUTION
    raises = {"ValueError": lambda c: hist(c)[0].n == 0}
    loops = {
        0: LoopSpec(anchor="enumerate(feas_f)", modifies=("c_opt", "c_opt_grad"), inv=_opt_inv,
                    local_types={"c_opt": COPT, "c_opt_grad": COPT, "f_opt": [float("inf"), F1], "x_opt": F1, "obj_value": OF1, "c_name": TStr, "c_key": TStr,
                                 "constraint": CONS, "has_objective_value": TBool}),
        1: LoopSpec(anchor="constraints", modifies=("c_opt", "c_opt_grad"), inv=_copt_inv, local_types={"c_name": TStr, "c_key": TStr}),
    }

    def axioms(self, c):
        return cnt_axioms(c)

    def requires(self, c):
        return history_requires(c)

    def ensures(self, c):
        r = c.result
        return solution_clauses(c, r.design, r.objective.term, r.is_feasible, r.constraints, r.constraint_jacobian)


# ---------------------------------------------------------------------------- OptimizationResult.from_optimization_problem
FIELDS = TDict(TStr, TVal, ordered=True)
XDICT = TDict(TStr, F1)
x_as_dict = z3.Function("c04_design_array_as_dict", F1.sort(), XDICT.sort())


@register
class ConvertArrayToDict(Contract):
    targets = (DS + ".convert_array_to_dict",)
    prop = ("C04",)
    numpy = "precise"
    self_schema = DS + "#c04"
    params = {"x_array": F1}
    returns = XDICT
    trusted = True
    description = ("assumed (outside C04; the array <-> dict conversions of the design space belong to C02's not-covered list): a deterministic function "
                   "of the design space and of the array content, without effect on the verified state, no exception for an array of the design space's dimension")

    def ensures(self, c):
        r = c.result
        return [("deterministic", XDICT.dt.mk(r.member, r.vals, r.n) == x_as_dict(arr_term(c.old.x_array)))]


def phist(c):
    """(database view, constraints view) of the problem (shared with its history)."""
    p = c.old.problem
    return db_of(p.database), p._OptimizationProblem__constraints


class _HistCtx:
    """Adapter: the clauses of c04_optimum are written over `c.old.self` = the history; here the history is problem.history."""

    def __init__(self, c):
        self._c = c

    @property
    def old(self):
        c = self._c

        class _NS:
            self = c.old.problem.history

        return _NS


def extra_field_is(c, res, name, default_term):
    """Field `name` (not passed explicitly) of the result equals the entry of the **fields_ mapping, the dataclass default when absent."""
    v = res._v if isinstance(res, C.View) else res
    d = c._new_heap[v.vals["__extra__"].id]
    F = c.old.fields_
    k = str_lit(name)
    return z3.And(d.member[k] == F.has(k), z3.Implies(F.has(k), d.vals[k] == F.get(k)))


def _opt_real(v):
    """Term of sort Optional[Real] of a reported objective (None | real | Optional[Real])."""
    if v is None:
        return OREAL.dt.none
    if isinstance(v, C.View):
        v = v._v
    if isinstance(v, SV) and v.ty == OREAL:
        return v.term
    if isinstance(v, SV) and v.ty == TReal:
        return OREAL.dt.some(v.term)
    if z3.is_expr(v) and v.sort() == z3.RealSort():
        return OREAL.dt.some(v)
    if z3.is_expr(v):
        return v
    raise TypeError(f"objective of unexpected shape {v!r}")


class _FromProblem(Contract):
    prop = ("C04",)
    numpy = "precise"
    c04r = True
    params = {"problem": PROBLEM, "fields_": FIELDS}
    raises = {}
    callee_variants = {OH + ".optimum": "summary"}
    # (the **fields_ dictionary is a fresh object of the call - CPython builds it from the keywords -, typed here so that the contract can name its
    # entries; the function adds "objective_name" to it, which no caller can observe)
    modifies = ("fields_",)

    def axioms(self, c):
        return cnt_axioms(_HistCtx(c))

    def requires(self, c):
        F = c.old.fields_
        k = z3.Const("k!fl", TStr.sort())
        allowed = ("message", "status", "optimizer_name")
        return [(l, f) for l, f in history_requires(_HistCtx(c))] + [
            # BaseDriverLibrary._get_result (the call site with keywords) passes message, status and optimizer_name; BiLevelScenarioResult passes nothing
            ("fields-are-message-status-optimizer-name", z3.ForAll([k], z3.Implies(F.has(k), z3.Or(*[k == str_lit(a) for a in allowed])))),
        ]

    def ensures(self, c):
        res = c.result_value
        if not isinstance(res, RecV):
            return [("is-a-result-object", z3.BoolVal(False))]
        D, cons = phist(c)
        p = c.old.problem
        h = _HistCtx(c)
        ex = res.vals["__explicit__"]
        out = [("is-a-result-object", z3.BoolVal(True))]
        for name in ("message", "status", "optimizer_name"):
            out.append((f"{name}-is-the-given-one", extra_field_is(c, res, name, None)))
        if "x_opt" not in ex:
            # the empty-history result
            n = ex.get("n_obj_call")
            out += [("only-for-an-empty-history", D.n == 0),
                    ("no-objective-call-reported", z3.BoolVal(n == 0) if isinstance(n, int) else n == 0),
                    ("nothing-else-is-reported", z3.BoolVal(set(ex) == {"n_obj_call"}))]
            return out
        V = lambda v: C.View(c._new_heap, v, c.st)  # noqa: E731
        flip = z3.And(z3.Not(p._OptimizationProblem__minimize_objective), z3.Not(p.use_standardized_objective))
        design = V(ex["x_opt"])
        key = key_of(design)
        has, _ = obj_of(h, D.vals[key])
        out.append(("only-for-a-non-empty-history", D.n >= 1))
        out += [(f"optimum:{l}", f) for l, f in solution_clauses(h, design, _opt_real(ex["f_opt"]), ex["is_feasible"] if not isinstance(ex["is_feasible"], SV) else ex["is_feasible"].term,
                                                                  V(ex["constraint_values"]), V(ex["constraints_grad"]), negated=flip)]
        idx = ex["optimum_index"]
        idx = OINT.dt.none if idx is None else (idx.term if isinstance(idx, SV) and idx.ty == OINT else OINT.dt.some(idx.term))
        oname = ex_field(c, res, "objective_name")
        out += [
            ("optimum-index-is-the-position-of-the-reported-point", idx == OINT.dt.some(D.pos[key])),
            ("objective-name", oname == TVal.embed(c.st, SV(z3.If(z3.And(has, flip), p._objective.original_name, p._objective.name), TStr))),
            ("initial-point-is-the-first-recorded-point", arr_term(V(ex["x_0"])) == HNd.accessor("wrapped_array")(D.keys[0])),
            ("number-of-objective-calls", (ex["n_obj_call"].term if isinstance(ex["n_obj_call"], SV) else ex["n_obj_call"]) == p._objective.n_calls),
            ("x-opt-as-dict-is-the-conversion-of-x-opt", _xdict_term(c, ex["x_opt_as_dict"]) == x_as_dict(arr_term(design))),
            ("x-0-as-dict-is-the-conversion-of-x-0", _xdict_term(c, ex["x_0_as_dict"]) == x_as_dict(arr_term(V(ex["x_0"])))),
        ]
        return out


def ex_field(c, res, name):
    """Value (Val term) of a field that reaches the constructor through the **fields_ mapping."""
    d = c._new_heap[res.vals["__extra__"].id]
    return d.vals[str_lit(name)]


def _xdict_term(c, ref):
    o = c._new_heap[ref.id]
    return XDICT.dt.mk(o.member, o.vals, o.n)


@register
class FromOptimizationProblem(_FromProblem):
    """The reported x_opt / f_opt / is_feasible / constraint values / gradients / optimum_index are those of the optimum of the recorded history
    (C04 clauses), the objective sign is restored exactly for a maximisation problem reporting its original objective; no exception."""

    targets = (RES + ".from_optimization_problem",)


@register
class ProblemOptimum(Contract):
    """`OptimizationProblem.optimum` is the optimum of the problem's history (same clauses)."""

    targets = (OP + ".optimum",)
    prop = ("C04",)
    numpy = "precise"
    c04r = True
    self_schema = OP + "#c04"
    returns = SOLUTION
    raises = {"ValueError": lambda c: db_of(c.old.self.database).n == 0}
    callee_variants = {OH + ".optimum": "summary"}

    class _H:
        def __init__(self, c):
            class _NS:
                self = c.old.self.history

            self.old = _NS

    def axioms(self, c):
        return cnt_axioms(self._H(c))

    def requires(self, c):
        return history_requires(self._H(c))

    def ensures(self, c):
        r = c.result
        return solution_clauses(self._H(c), r.design, r.objective.term, r.is_feasible, r.constraints, r.constraint_jacobian)


# ---------------------------------------------------------------------------- OptimizationHistory.last_point
def _opt_arr(v):
    """Term of sort Optional[array] of a reported value (None | array | Optional[array])."""
    if v is None:
        return OF1.dt.none
    if isinstance(v, C.View) and isinstance(v._v, Ref):
        return OF1.dt.some(arr_term(v))
    return v.term


@register
class LastPoint(Contract):
    """The last recorded point with what is recorded for it; flagged feasible iff it is feasible."""

    targets = (OH + ".last_point",)
    prop = ("C04",)
    numpy = "precise"
    c04r = True
    raises = {"ValueError": lambda c: hist(c)[0].n == 0}

    def requires(self, c):
        return history_requires(c)[1:]  # distinct constraint names (as for `optimum`)

    def ensures(self, c):
        D, cons = hist(c)
        r = c.result
        key = D.keys[D.n - 1]
        pt = D.vals[key]
        F = cons._functions
        m = z3.Int("m!lp")
        nm = CONS.accessor("name")(F.elems[m])
        mem, vals = POINT.acc(0)(pt), POINT.acc(1)(pt)
        lookup = lambda name: z3.If(mem[name], OF1.dt.some(vals[name]), OF1.dt.none)  # noqa: E731
        obj = _opt_arr(r.objective)
        c_opt, c_grad = r.constraints, r.constraint_jacobian
        return [
            ("design-is-the-last-recorded-one", arr_term(r.design) == HNd.accessor("wrapped_array")(key)),
            ("objective-is-the-recorded-one", obj == lookup(c.old.self.objective_name)),
            ("flagged-feasible-iff-feasible", _bool(r.is_feasible) == feasible(cons, pt)),
            ("constraint-values-are-the-recorded-ones", z3.ForAll([m], z3.Implies(z3.And(0 <= m, m < F.n),
                                                                                  _naming(c_opt.keys[m] == nm, z3.And(c_opt.has(nm), c_opt.vals[nm] == lookup(nm)))))),
            ("constraint-gradients-are-the-recorded-ones", z3.ForAll([m], z3.Implies(z3.And(0 <= m, m < F.n),
                                                                                     _naming(c_grad.keys[m] == nm, z3.And(c_grad.has(nm), c_grad.vals[nm] == lookup(grad_name(nm))))))),
        ]


# ---------------------------------------------------------------------------- Pareto filter (pareto/utils.py)
PARETO = A + "pareto.utils.compute_pareto_optimal_points"
F2 = TArr("f", 2)
B1 = TArr("b", 1)
I_ = z3.IntSort()
cnt_pf = z3.Function("cnt_pareto_feasible", I_, I_)  # number of feasible samples among the first i samples


def _mask_feas(c):
    """i -> 'sample i is feasible' for the feasibility argument of compute_pareto_optimal_points (float 0/1 array, boolean array, or None)."""
    fp = c.old.feasible_points
    if fp is None:
        return lambda i: z3.BoolVal(True)
    o = fp.obj
    if o.kind == "b":
        return lambda i: o.elems[i]
    return lambda i: o.elems[i] != 0  # truth value of a number


from pyvc.plug_c04r import list_entry_marker as entry_mark  # noqa: E402

pos_mark = z3.Function("pareto_position_marker", I_, z3.BoolSort())  # only a trigger (see `complete`)
mono_mark = z3.Function("pareto_monotone_marker", I_, I_, z3.BoolSort())  # only a trigger: cnt-monotone is instantiated at (a, b) where a proof names mono_mark(a, b)


def _pf_axioms(c, n):
    feas = _mask_feas(c)
    i = z3.Int("i!pc")
    return [("cnt-zero", cnt_pf(0) == 0),
            ("cnt-step", z3.ForAll([i], z3.Implies(z3.And(0 <= i, i < n), cnt_pf(i + 1) == cnt_pf(i) + z3.If(feas(i), 1, 0)),
                                   # (both terms must be present: an instance then creates no new cnt term - no chain i, i - 1, i - 2, ...)
                                   patterns=[z3.MultiPattern(cnt_pf(i + 1), cnt_pf(i))])),
            # consequence of the recursive definition, proved by induction in ParetoCntLemmas
            ("cnt-bounds", z3.ForAll([i], z3.Implies(z3.And(0 <= i, i <= n), z3.And(0 <= cnt_pf(i), cnt_pf(i) <= i)), patterns=[cnt_pf(i)])),
            ("cnt-monotone", _pf_monotone(n))]


def _pf_monotone(n, upto=None, marked=True):
    a, b = z3.Int("a!pm"), z3.Int("b!pm")
    top = n if upto is None else upto
    # (as a hypothesis the fact is triggered by the marker alone: the two-term trigger (cnt(a), cnt(b)) multiplies instances quadratically)
    ca, cb = cnt_pf(a), cnt_pf(b)
    body = z3.Implies(z3.And(0 <= a, a <= b, b <= top), ca <= cb)
    if marked:
        return z3.ForAll([a, b], body, patterns=[mono_mark(a, b)])
    return z3.ForAll([a, b], body, patterns=[z3.MultiPattern(ca, cb)])


@register
class ParetoCntLemmas(Contract):
    """Induction (base + step) for the two consequences of the recursive definition of cnt_pareto_feasible that are used as axioms."""

    targets = ()
    prop = ("C04",)
    lemma = True

    def lemmas(self):
        n, m, i = z3.Ints("n m i")
        inc = z3.Function("cnt_pf_inc", I_, I_)
        defn = z3.And(cnt_pf(0) == 0, z3.ForAll([i], z3.Implies(z3.And(0 <= i, i < n), z3.And(cnt_pf(i + 1) == cnt_pf(i) + inc(i), 0 <= inc(i), inc(i) <= 1))))
        bounds = lambda t: z3.ForAll([i], z3.Implies(z3.And(0 <= i, i <= t), z3.And(0 <= cnt_pf(i), cnt_pf(i) <= i)))  # noqa: E731
        return [
            ("bounds:base", z3.Implies(defn, bounds(z3.IntVal(0)))),
            ("bounds:step", z3.Implies(z3.And(defn, 0 <= m, m < n, bounds(m)), bounds(m + 1))),
            ("monotone:base", z3.Implies(defn, _pf_monotone(n, z3.IntVal(0), marked=False))),
            ("monotone:step", z3.Implies(z3.And(defn, 0 <= m, m < n, _pf_monotone(n, m, marked=False)), _pf_monotone(n, m + 1, marked=False))),
        ]


def _pf_listing(c, L, k):
    """L lists exactly the feasible samples among the first k, in increasing order."""
    feas = _mask_feas(c)
    i, j = z3.Int("i!pl"), z3.Int("j!pl")
    return [
        ("length", L.n == cnt_pf(k)),
        # (triggered by a marker alone - the clause names it itself, so a proof of the clause for k + 1 instantiates the hypothesis for k at the same i;
        # a trigger made of list / cnt terms is matched through the equalities cnt(L[j]) == j and chains along the list)
        ("complete", z3.ForAll([i], z3.Implies(z3.And(0 <= i, i < k, feas(i)), _naming(z3.And(mono_mark(i + 1, k), pos_mark(i)),
                                                                                      z3.And(cnt_pf(i + 1) == cnt_pf(i) + 1, L.elems[cnt_pf(i)] == i))),
                               patterns=[pos_mark(i)])),
        # (triggered by the marker of the j-th list entry alone, named by the clause itself and by the clauses of the second loop that need it)
        ("sound", z3.ForAll([j], z3.Implies(z3.And(0 <= j, j < L.n), _naming(entry_mark(j), z3.And(0 <= L.elems[j], L.elems[j] < k, feas(L.elems[j]), cnt_pf(L.elems[j]) == j))),
                            patterns=[entry_mark(j)])),
    ]


def _strictly_worse_somewhere(O, q, p):
    """Sample q is strictly worse than sample p in at least one objective (the criterion of the code)."""
    col = z3.Int("col!sw")
    return z3.Exists([col], z3.And(0 <= col, col < O.shape[1], O.at(q, col) > O.at(p, col)))


def _dominates(O, q, p):
    """q dominates p: not worse in any objective, strictly better in one."""
    a, b = z3.Int("col!da"), z3.Int("col!db")
    d = O.shape[1]
    return z3.And(z3.ForAll([a], z3.Implies(z3.And(0 <= a, a < d), O.at(q, a) <= O.at(p, a))),
                  z3.Exists([b], z3.And(0 <= b, b < d, O.at(q, b) < O.at(p, b))))


def _pareto_inv0(c, k):
    O = c.old.obj_values.obj
    n = O.shape[0]
    feas = _mask_feas(c)
    M = c.locals["pareto_optimal"].obj
    L = c.locals["feasible_indexes"]
    i = z3.Int("i!p0")
    return _pf_listing(c, L, k) + [
        ("mask-shape", M.shape[0] == n),
        ("mask-of-the-visited-samples", z3.ForAll([i], z3.Implies(z3.And(0 <= i, i < k), M.elems[i] == feas(i)))),
        ("mask-of-the-other-samples", z3.ForAll([i], z3.Implies(z3.And(k <= i, i < n), M.elems[i]))),
    ]


def _criterion(O, L, j):
    """Every other feasible sample is strictly worse than the j-th feasible sample in some objective."""
    t = z3.Int("t!cr")
    return z3.ForAll([t], z3.Implies(z3.And(0 <= t, t < L.n, t != j), _strictly_worse_somewhere(O, L.elems[t], L.elems[j])))


def _criterion_as_coded(O, L, j):
    """The same criterion in the shape the code evaluates it: the feasible samples listed before the j-th one, then those listed after it
    (row r of the slice `obj_values_filtered[j + 1:]` is the feasible sample number r + j + 1)."""
    t, r = z3.Int("t!cc"), z3.Int("r!cc")
    return z3.And(z3.ForAll([t], z3.Implies(z3.And(0 <= t, t < j), _strictly_worse_somewhere(O, L.elems[t], L.elems[j])), patterns=[L.elems[t]]),
                  z3.ForAll([r], z3.Implies(z3.And(0 <= r, r < L.n - j - 1), _strictly_worse_somewhere(O, L.elems[r + j + 1], L.elems[j])), patterns=[L.elems[r + j + 1]]))


pareto_mark = z3.Function("pareto_marker", I_, z3.BoolSort())  # defined as True: only a trigger


def _marker_definition():
    j = z3.Int("j!mk")
    return [("def:marker", z3.ForAll([j], pareto_mark(j), patterns=[pareto_mark(j)]))]


pareto_criterion = z3.Function("pareto_criterion", z3.ArraySort(I_, I_), I_, I_, z3.BoolSort())


def _criterion_definition_if(c):
    """Assumed when the first loop is left (the list of feasible samples is then final): one half of the DEFINITION of the new symbol
    pareto_criterion(list, j) - whatever satisfies the as-coded criterion has it (conservative: satisfied by the formula itself)."""
    O = c.old.obj_values.obj
    L = c.locals["feasible_indexes"]
    j = z3.Int("j!pd")
    pc = pareto_criterion(L.elems, L.n, j)
    return [("def:pareto-criterion(if)", z3.ForAll([j], z3.Implies(_criterion_as_coded(O, L, j), pc), patterns=[z3.MultiPattern(pc, pareto_mark(j))]))]


def _criterion_split(c):
    """Cited when the second loop is left (change of variable t = r + j + 1; proved for an arbitrary relation in ParetoSplitLemma)."""
    O = c.old.obj_values.obj
    L = c.locals["feasible_indexes"]
    M = c.locals["pareto_optimal"].obj
    j = z3.Int("j!cs")
    pc = pareto_criterion(L.elems, L.n, j)
    # the other half of the definition (pareto_criterion only holds where the as-coded criterion does), through the change of variable of ParetoSplitLemma
    return [("def:pareto-criterion(only-if)+split", z3.ForAll([j], z3.Implies(z3.And(0 <= j, j < L.n, pc), _criterion(O, L, j)), patterns=[pc]))]


@register
class ParetoSplitLemma(Contract):
    """For any relation W and 0 <= j < n:  (all t < j: W(t, j)) and (all 0 <= r < n - j - 1: W(r + j + 1, j))  <=>  all t < n, t != j: W(t, j)."""

    targets = ()
    prop = ("C04",)
    lemma = True

    def lemmas(self):
        W = z3.Function("pareto_W", I_, I_, z3.BoolSort())
        n, j, t, r = z3.Ints("n j t r")
        crit = z3.ForAll([t], z3.Implies(z3.And(0 <= t, t < n, t != j), W(t, j)))
        coded = z3.And(z3.ForAll([t], z3.Implies(z3.And(0 <= t, t < j), W(t, j))), z3.ForAll([r], z3.Implies(z3.And(0 <= r, r < n - j - 1), W(r + j + 1, j))))
        return [("split:coded-implies-criterion", z3.Implies(z3.And(0 <= j, j < n, coded), crit)),
                ("split:criterion-implies-coded", z3.Implies(z3.And(0 <= j, j < n, crit), coded))]


def _pareto_inv1(c, k):
    O = c.old.obj_values.obj
    n = O.shape[0]
    feas = _mask_feas(c)
    M = c.locals["pareto_optimal"].obj
    L = c.locals["feasible_indexes"]
    i, j = z3.Int("i!p1"), z3.Int("j!p1")
    # trigger = the mask read at a listed sample (NOT feasible_indexes[j] alone: the skolemised criterion mentions feasible_indexes[t(j)], which
    # would trigger the same clause again - a matching loop)
    rd = lambda t: M.elems[L.elems[t]]  # noqa: E731
    return [
        ("mask-shape", M.shape[0] == n),
        # (quantifier-free instance of `sound` at the current position: the subscripts with feasible_indexes[k] are known to be in range)
        ("current-sample-in-range", z3.Implies(k < L.n, z3.And(0 <= L.elems[k], L.elems[k] < n, cnt_pf(L.elems[k]) == k))),
        ("infeasible-samples-stay-excluded", z3.ForAll([i], z3.Implies(z3.And(0 <= i, i < n, z3.Not(feas(i))), z3.Not(M.elems[i])))),
        ("decided-samples-reported-only-if", forall_pat([j], z3.Implies(z3.And(0 <= j, j < k, M.elems[L.elems[j]]), _naming(entry_mark(j), pareto_criterion(L.elems, L.n, j))), rd(j))),
        # (names the marker that lets the definition of pareto_criterion be unfolded at the current position, and only there)
        ("unfold-current", pareto_mark(k)),
        ("undecided-samples", forall_pat([j], z3.Implies(z3.And(k <= j, j < L.n), _naming(entry_mark(j), M.elems[L.elems[j]])), rd(j))),
    ]


class _Pareto(Contract):
    prop = ("C04",)
    numpy = "precise"
    c04r = True
    returns = B1
    raises = {}
    TLIST = None

    def axioms(self, c):
        return _pf_axioms(c, c.old.obj_values.obj.shape[0]) + _marker_definition()

    def requires(self, c):
        fp = c.old.feasible_points
        if fp is None:
            return []
        # one feasibility flag per sample (ParetoFront.__get_optima: zeros(n_iter); generate_pareto_plots: ~non_feasible_samples of size n_samples)
        return [("one-flag-per-sample", fp.obj.shape[0] == c.old.obj_values.obj.shape[0])]

    def ensures(self, c):
        O = c.old.obj_values.obj
        n = O.shape[0]
        feas = _mask_feas(c)
        M = c.result.obj
        p, q = z3.Int("p!pa"), z3.Int("q!pa")
        rng = lambda t: z3.And(0 <= t, t < n)  # noqa: E731
        # (cnt_pf(p), cnt_pf(q): positions of p and q in the list of feasible samples - named so that the loop invariants are instantiated there)
        # (markers of the facts a proof needs: position of p and q in the list of feasible samples, the two list entries, the two instances of
        # cnt-monotone that separate the positions; `_naming` keeps the clause logically unchanged)
        marks = z3.And(pos_mark(p), pos_mark(q), entry_mark(cnt_pf(p)), entry_mark(cnt_pf(q)), mono_mark(p + 1, q), mono_mark(q + 1, p))
        return [
            ("one-flag-per-sample", M.shape[0] == n),
            ("reported-samples-are-feasible", z3.ForAll([p], z3.Implies(z3.And(rng(p), M.elems[p]), feas(p)))),
            ("no-reported-sample-is-dominated-by-a-feasible-one",
             z3.ForAll([p, q], z3.Implies(z3.And(rng(p), rng(q), M.elems[p], feas(q), q != p), _naming(marks, z3.Not(_dominates(O, q, p)))))),
        ]


_PLOOPS = {
    1: LoopSpec(anchor="enumerate(feasible_indexes)", modifies=("pareto_optimal",), inv=_pareto_inv1,
                local_types={"i": TInt, "feasible_index": TInt, "obj": F1, "before_are_worse": TBool, "after_are_worse": TBool}, lemmas=_criterion_split),
}


def _ploops(kind):
    from pyvc.values import TList

    l0 = LoopSpec(anchor="enumerate(feasible_points)", modifies=("pareto_optimal", "feasible_indexes"), inv=_pareto_inv0,
                  local_types={"feasible_indexes": TList(TInt), "i": TInt, "feasible_point": kind}, lemmas=_criterion_definition_if)
    return {0: l0, 1: _PLOOPS[1]}


@register
class ParetoOptimalPoints(_Pareto):
    """compute_pareto_optimal_points with the 0./1. feasibility array ParetoFront.__get_optima passes."""

    targets = (PARETO,)
    params = {"obj_values": F2, "feasible_points": F1}
    loops = _ploops(TReal)


# ---------------------------------------------------------------------------- MultiObjectiveOptimizationResult
PF = A + "pareto.pareto_front.ParetoFront"
from pyvc.values import ValS, val_none  # noqa: E402

@register
class ParetoFrontFromProblem(Contract):
    targets = (PF + ".from_optimization_problem",)
    prop = ("C04",)
    numpy = "precise"
    params = {"problem": PROBLEM}
    returns = TVal
    trusted = True
    description = ("assumed (pandas / dataset code around ParetoFront.__get_optima): returns a ParetoFront object that is a deterministic function of the problem "
                   "(its recorded history, objective and constraints), reading the problem only.  The non-dominated filtering it relies on "
                   "(compute_pareto_optimal_points) is verified; the assembly of the objective / design histories in __get_optima is not covered")

    def ensures(self, c):
        return [("deterministic", c.result == pareto_front_token(c.old.problem))]


_pf_token = z3.Function("c04_pareto_front_token", I_, ValS)


def pareto_front_token(problem_view):
    """An opaque, non-None value standing for ParetoFront.from_optimization_problem(problem) (one token per problem object)."""
    return _pf_token(z3.IntVal(problem_view.ref.id))


@register
class MultiObjectiveFromProblem(_FromProblem):
    """Same clauses as for OptimizationResult (the method is inherited); the additional field `pareto_front` is the Pareto front of the problem
    exactly when the reported solution is feasible, None otherwise."""

    targets = (RES + ".from_optimization_problem",)
    variant = "multiobjective"
    self_class = MORES

    def axioms(self, c):
        k = z3.Int("k!tk")
        return super().axioms(c) + [("pareto-front-objects-are-not-None", z3.ForAll([k], _pf_token(k) != val_none, patterns=[_pf_token(k)]))]

    def ensures(self, c):
        out = super().ensures(c)
        res = c.result_value
        if not isinstance(res, RecV) or "x_opt" not in res.vals["__explicit__"]:
            return out
        flag = res.vals["__explicit__"]["is_feasible"]
        flag = flag.term if isinstance(flag, SV) else _bool(flag)
        d = c._new_heap[res.vals["__extra__"].id]
        k = str_lit("pareto_front")
        out += [("pareto-front-field-is-set", d.member[k]),
                ("pareto-front-iff-feasible", d.vals[k] == z3.If(flag, pareto_front_token(c.old.problem), val_none))]
        return out
