"""C08 (MDAChain) - the chain of processes built from the execution sequence, and (C09) the Jacobian of an MDAChain.

Over the execution sequence proved valid by DependencyGraph.get_execution_sequence (``schedule_is_valid``):
for every group of every parallel stage an inner MDA is created IFF the group has more than one discipline or its single
discipline is self-coupled (and is not itself an MDA: the exemption coded in ``__requires_mda``); a group that needs none
contributes its discipline itself; the chain lists the stages in sequence order (a parallel chain for a stage with several
tasks when ``mdachain_parallelize_tasks``, else a sequential one).  The process constructors are abstract: see pyvc/plug_mdachain.py.
"""
from __future__ import annotations

import z3

from pyvc import contract as C
from pyvc import plug_mdachain as PM
from pyvc.contract import Contract, LoopSpec, register, schema
from pyvc.plug_graph import DIFF_S, DLIST, DiscS, TDisc, le, ln
from pyvc.plug_mdachain import (INNER_SETTINGS, ITER, KIND_CHAIN, KIND_MDA, KIND_PARALLEL, SETTINGS, inner_settings_f, is_base_mda, proc_class, proc_items, proc_kind,
                                proc_name, proc_settings, proc_sub)
from pyvc.values import StrS, TBool, TDict, TInt, TList, TObj, TStr, TVal, ValS, declare_ghost, str_lit, val_none

from contracts.c08_dependency import CS, FA, GROUP, NAME_LIST, SEQ, STAGE, D, IsSelfCoupled, ghosts, schedule_is_valid, self_coupled, self_coupled_definition, seq_at  # noqa: F401

I = z3.IntSort()  # noqa: E741
MDAC = "gemseo.mda.mda_chain.MDAChain"

schema(SETTINGS, PM.SETTINGS_FIELDS)
schema(ITER, PM.ITER_FIELDS)
schema(INNER_SETTINGS, PM.INNER_SETTINGS_FIELDS)
schema(MDAC + "#c08", {
    "_ProcessDiscipline__disciplines": DLIST,
    "coupling_structure": TObj(CS),
    "settings": TObj(SETTINGS),
    "inner_mdas": DLIST,
    "_MDAChain__inner_mda_class": TVal,
    "_MDAChain__sub_coupling_structures_iterator": TObj(ITER),
})


def needs_mda(g):
    """The group (a list term) must be wrapped in an inner MDA."""
    return z3.Or(ln(g) > 1, z3.And(ln(g) == 1, self_coupled(le(g, 0)), z3.Not(is_base_mda(le(g, 0)))))


class _MdaChainContract(Contract):
    prop = ("C08",)
    self_schema = MDAC + "#c08"
    mdachain = True

    def axioms(self, c):
        return self_coupled_definition() + task_ok_definition()


# ============================================================================ __requires_mda
@register
class RequiresMda(_MdaChainContract):
    """An inner MDA is needed iff the group has several disciplines, or one self-coupled discipline that is not an MDA itself.
    Only the disciplines of the group matter (not the order in which the MDAChain's disciplines were listed)."""

    targets = (MDAC + ".__requires_mda",)
    params = {"disciplines": GROUP}
    returns = TBool

    def ensures(self, c):
        g = c.old.disciplines
        return [("value", c.result == needs_mda(DLIST.dt.mk(g.n, g.elems)))]


# ============================================================================ helpers of the specifications
def LT(v):
    """list view -> list term"""
    return DLIST.dt.mk(v.n, v.elems)


def wrapped(L, items, g, tag):
    """`items` lists exactly the disciplines of the group g (that the MDAChain knows), in the order of the MDAChain's list L."""
    i, j, q, a, b = z3.Ints(f"i!{tag} j!{tag} q!{tag} a!{tag} b!{tag}")
    return z3.And(
        FA([i], z3.Implies(z3.And(0 <= i, i < ln(items)), z3.Exists([q], z3.And(0 <= q, q < ln(g), le(g, q) == le(items, i)))), le(items, i)),
        FA([q, a], z3.Implies(z3.And(0 <= q, q < ln(g), 0 <= a, a < L.n, L.elems[a] == le(g, q)), z3.Exists([i], z3.And(0 <= i, i < ln(items), le(items, i) == le(g, q)))),
           z3.MultiPattern(le(g, q), L.elems[a])),
        FA([i, j], z3.Implies(z3.And(0 <= i, i < j, j < ln(items)), z3.Exists([a, b], z3.And(0 <= a, a < b, b < L.n, L.elems[a] == le(items, i), L.elems[b] == le(items, j)))),
           z3.MultiPattern(le(items, i), le(items, j))),
    )


task_ok_p = z3.Function("c08m_task_ok", I, z3.ArraySort(I, DiscS), ValS, ValS, DiscS, DLIST.sort(), z3.BoolSort())
"""task_ok_p(|L|, L, inner class, inner settings, p, g): the process p stands for the group g of an MDAChain over the disciplines L: an inner MDA
(of that class, with those settings) over exactly the disciplines of g in the order of L iff g needs one, else the discipline of g itself.
Defined by task_ok_definition()."""


class _LV:
    def __init__(self, n, elems):
        self.n, self.elems = n, elems


def task_ok_definition():
    n = z3.Int("n!tkd")
    el = z3.Const("el!tkd", z3.ArraySort(I, DiscS))
    cls, base = z3.Consts("cls!tkd base!tkd", ValS)
    p = D("p!tkd")
    g = z3.Const("g!tkd", DLIST.sort())
    body = z3.If(needs_mda(g),
                 z3.And(proc_kind(p) == KIND_MDA, proc_class(p) == cls, proc_settings(p) == base, wrapped(_LV(n, el), proc_items(p), g, "tkd")),
                 p == le(g, 0))
    return [("definition-of-task-ok", z3.ForAll([n, el, cls, base, p, g], task_ok_p(n, el, cls, base, p, g) == body, patterns=[task_ok_p(n, el, cls, base, p, g)]))]


def task_ok(s, p, g, tag="tk"):
    """The process p stands for the group g: an inner MDA over the group iff one is needed, else the discipline itself."""
    base = inner_settings_f(s.settings.inner_mda_settings, s.settings.rest, s._MDAChain__inner_mda_class)
    L = s._ProcessDiscipline__disciplines
    return task_ok_p(L.n, L.elems, s._MDAChain__inner_mda_class, base, p, g)


def tasks_ok(s, procs_n, procs_el, pt, upto, tag="ts"):
    t = z3.Int(f"t!{tag}")
    return [("one-process-per-group", procs_n == upto),
            ("inner-mda-iff-needed", FA([t], z3.Implies(z3.And(0 <= t, t < upto), task_ok(s, procs_el[t], pt.elems[t], tag)), procs_el[t]))]


def stage_ok(s, p, stage, tag="sg"):
    """The process p stands for the stage (a list term of groups)."""
    t = z3.Int(f"t!{tag}")
    items = proc_items(p)
    par = s.settings.mdachain_parallelize_tasks
    return z3.If(ln(stage) == 1, task_ok(s, p, le(stage, 0), tag + "1"),
                 z3.And(proc_kind(p) == z3.If(par, KIND_PARALLEL, KIND_CHAIN), ln(items) == ln(stage),
                        z3.Implies(par, proc_settings(p) == s.settings.mdachain_parallel_settings),
                        z3.Implies(z3.Not(par), proc_name(p) == str_lit("")),
                        FA([t], z3.Implies(z3.And(0 <= t, t < ln(stage)), task_ok(s, le(items, t), le(stage, t), tag + "n")), le(items, t))))


def bookkeeping(s0, s1, it0, it1, n_base, tag="bk"):
    """inner_mdas only grows, by inner MDAs, the j-th new one having received the j-th sub coupling structure; the iterator advanced accordingly;
    nothing else of the MDAChain changed."""
    j = z3.Int(f"j!{tag}")
    im0, im1 = s0.inner_mdas, s1.inner_mdas
    items = it1.items
    endless = it1.endless_none
    L0, L1 = s0._ProcessDiscipline__disciplines, s1._ProcessDiscipline__disciplines
    return [
        ("inner-mdas-kept", z3.And(im1.n >= im0.n, FA([j], z3.Implies(z3.And(0 <= j, j < im0.n), im1.elems[j] == im0.elems[j]), im1.elems[j]))),
        ("new-inner-mdas", FA([j], z3.Implies(z3.And(n_base <= j, j < im1.n), z3.And(proc_kind(im1.elems[j]) == KIND_MDA,
                                                                                   proc_sub(im1.elems[j]) == z3.If(endless, val_none, items.elems[j - n_base]))), im1.elems[j])),
        ("iterator", z3.And(it1.endless_none == it0.endless_none, it1.items.n == it0.items.n, it1.items.elems == it0.items.elems,
                            it1.pos == z3.If(endless, it0.pos, im1.n - n_base), it1.pos >= it0.pos)),
        ("chain-kept", z3.And(L1.n == L0.n, L1.elems == L0.elems, s1._MDAChain__inner_mda_class == s0._MDAChain__inner_mda_class)),
        ("settings-kept", z3.And(*[getattr(s1.settings, f) == getattr(s0.settings, f) for f in ("chain_linearize", "mdachain_parallelize_tasks", "mdachain_parallel_settings", "inner_mda_settings", "rest")])),
    ]


def it_of(s):
    return s._MDAChain__sub_coupling_structures_iterator


declare_ghost("c08m_n_base", I)  # number of inner MDAs when the iterator of sub coupling structures was created (never modified)


def NB(c):
    return c.old_ghost("c08m_n_base", I)


def it_wf(s, n_base):
    """The iterator hands out the sub coupling structures in step with the creation of the inner MDAs."""
    it = it_of(s)
    j = z3.Int("j!iw")
    im = s.inner_mdas
    return [("iterator-in-step", z3.And(it.pos >= 0, z3.Implies(z3.Not(it.endless_none), it.pos == im.n - n_base), 0 <= n_base, n_base <= im.n)),
            ("earlier-inner-mdas", FA([j], z3.Implies(z3.And(n_base <= j, j < im.n), z3.And(proc_kind(im.elems[j]) == KIND_MDA,
                                                                                         proc_sub(im.elems[j]) == z3.If(it.endless_none, val_none, it.items.elems[j - n_base]))), im.elems[j]))]


def groups_not_empty(pt, tag="ne"):
    t = z3.Int(f"t!{tag}")
    return [("no-empty-group", FA([t], z3.Implies(z3.And(0 <= t, t < pt.n), ln(pt.elems[t]) >= 1), pt.elems[t]))]


MOD = ("self", "self.settings", "self._MDAChain__sub_coupling_structures_iterator")


# ============================================================================ __create_inner_mda_settings (assumed)
@register
class CreateInnerMdaSettings(_MdaChainContract):
    targets = (MDAC + ".__create_inner_mda_settings",)
    returns = TObj(INNER_SETTINGS)
    trusted = True
    description = ("assumed (pydantic): the settings model of an inner MDA is a deterministic function of (inner_mda_settings, the other settings of the MDAChain, the "
                   "inner MDA class); no effect on the MDAChain")

    def ensures(self, c):
        s = c.old.self
        return [("value", c.result.base == inner_settings_f(s.settings.inner_mda_settings, s.settings.rest, s._MDAChain__inner_mda_class))]


# ============================================================================ __compute_parallel_disciplines
class _Builder(_MdaChainContract):
    modifies = MOD
    raises = {"StopIteration": lambda c: z3.Not(it_of(c.old.self).endless_none)}  # fewer sub coupling structures than inner MDAs
    raises_exact = False

    def requires(self, c):
        return it_wf(c.old.self, NB(c)) + groups_not_empty(c.old.parallel_tasks)


@register
class ComputeParallelDisciplines(_Builder):
    """One process per group of the stage: an inner MDA iff the group needs one, else the discipline of the group itself."""

    targets = (MDAC + ".__compute_parallel_disciplines",)
    params = {"parallel_tasks": STAGE}
    returns = DLIST
    loops = {0: LoopSpec(anchor="parallel_tasks", inv=lambda c, k: _cpd_inv(c, k), modifies=("parallel_disciplines",) + MOD, local_types={"parallel_disciplines": DLIST})}

    def ensures(self, c):
        s0, s1, r = c.old.self, c.new.self, c.result
        i = z3.Int("i!sm")
        sub = s1.settings._sub_mdas
        return tasks_ok(s0, r.n, r.elems, c.old.parallel_tasks, c.old.parallel_tasks.n) + bookkeeping(s0, s1, it_of(s0), it_of(s1), NB(c)) + [
            ("sub-mdas-are-the-inner-mdas", z3.And(sub.n == s1.inner_mdas.n, FA([i], z3.Implies(z3.And(0 <= i, i < sub.n), sub.elems[i] == s1.inner_mdas.elems[i]), sub.elems[i])))]


def _cpd_inv(c, k):
    s0, s1 = c.old.self, c.new.self
    pd = c.locals["parallel_disciplines"]
    return tasks_ok(s0, pd.n, pd.elems, c.old.parallel_tasks, k) + bookkeeping(s0, s1, it_of(s0), it_of(s1), NB(c))


# ============================================================================ __create_process_from_disciplines
@register
class CreateProcessFromDisciplines(_Builder):
    """The process of a stage: the process of its only group, or a parallel chain (when mdachain_parallelize_tasks) /
    sequential chain of the processes of its groups, in the order of the stage."""

    targets = (MDAC + ".__create_process_from_disciplines",)
    params = {"parallel_tasks": STAGE}
    returns = TDisc

    def ensures(self, c):
        s0, s1 = c.old.self, c.new.self
        pt = c.old.parallel_tasks
        return [("process-of-the-stage", stage_ok(s0, c.result, STAGE.dt.mk(pt.n, pt.elems)))] + bookkeeping(s0, s1, it_of(s0), it_of(s1), NB(c))


# ============================================================================ _create_mdo_chain
class WM:
    """The coupling structure of the MDAChain: graph, valid sequence, ghost locations."""

    def __init__(self, c):
        cs = c.old.self.coupling_structure
        g = cs.graph._DependencyGraph__graph
        self.N, self.E, self.seq = g._nodes, g.edge, cs.sequence
        self.st, self.sl, self.ix = ghosts(c, "old")

    def requires(self):
        return [(f"sequence-is-a-valid-schedule:{l}", f) for l, f in schedule_is_valid(self.N, self.E, self.seq, self.st, self.sl, self.ix) if l != "exactly-once-and-nothing-else"]

    def group(self, d):
        return seq_at(self.seq, self.st[d], self.sl[d])


def _iterator_is_over_settings(s0, it):
    scs = s0.settings.sub_coupling_structures
    return ("iterator-over-the-sub-coupling-structures", z3.And(it.endless_none == (scs.n == 0), z3.Implies(z3.Not(it.endless_none), z3.And(it.items.n == scs.n, it.items.elems == scs.elems))))


def _chain_spec(s0, seq, n, el, upto, tag):
    si = z3.Int(f"s!{tag}")
    return [("one-process-per-stage", n == upto),
            ("stages-in-sequence-order", FA([si], z3.Implies(z3.And(0 <= si, si < upto), stage_ok(s0, el[si], seq.elems[si], tag)), el[si]))]


def _mdo_common(c, s1, it1):
    s0 = c.old.self
    j = z3.Int("j!mc")
    im0, im1 = s0.inner_mdas, s1.inner_mdas
    bk = dict(bookkeeping(s0, s1, it1, it1, NB(c)))
    return [_iterator_is_over_settings(s0, it1)] + it_wf(s1, NB(c)) + [(l, bk[l]) for l in ("inner-mdas-kept", "chain-kept", "settings-kept")]


@register
class CreateMdoChain(_MdaChainContract):
    """The MDO chain of an MDAChain: one process per stage of the execution sequence, in sequence order; inside a stage one process
    per group: an inner MDA iff the group needs one (several disciplines, or a self-coupled one), else the discipline itself."""

    targets = (MDAC + "._create_mdo_chain",)
    returns = TDisc
    modifies = MOD
    raises = {"StopIteration": lambda c: c.old.self.settings.sub_coupling_structures.n != 0}
    raises_exact = False
    loops = {0: LoopSpec(anchor="self.coupling_structure.sequence", inv=lambda c, k: _mdo_inv(c, k), modifies=("chained_disciplines",) + MOD, local_types={"chained_disciplines": DLIST})}

    def requires(self, c):
        return WM(c).requires() + [("iterator-created-now", NB(c) == c.old.self.inner_mdas.n)]

    def ensures(self, c):
        s0, s1, r = c.old.self, c.new.self, c.result
        w = WM(c)
        items = proc_items(r)
        d = D("d!mdo")
        j = z3.Int("j!mdo")
        P = le(items, w.st[d])
        T = z3.If(ln(seq_at(w.seq, w.st[d])) == 1, P, le(proc_items(P), w.sl[d]))
        scs = s0.settings.sub_coupling_structures
        im1 = s1.inner_mdas
        return [("a-chain-named-MDA-chain", z3.And(proc_kind(r) == KIND_CHAIN, proc_name(r) == str_lit("MDA chain")))] + \
            _chain_spec(s0, w.seq, ln(items), PM.LS.accessor(0, 1)(items), w.seq.n, "mdo") + [
            ("every-discipline-has-its-process", FA([d], z3.Implies(w.N.member[d], task_ok(s0, T, w.group(d), "loc")), w.st[d])),
            ("new-inner-mdas", FA([j], z3.Implies(z3.And(s0.inner_mdas.n <= j, j < im1.n), z3.And(proc_kind(im1.elems[j]) == KIND_MDA,
                                                                                                 proc_sub(im1.elems[j]) == z3.If(scs.n == 0, val_none, scs.elems[j - s0.inner_mdas.n]))), im1.elems[j])),
        ] + _mdo_common(c, s1, it_of(s1))[2:]


def _mdo_inv(c, k):
    s0, s1 = c.old.self, c.new.self
    w = WM(c)
    cd = c.locals["chained_disciplines"]
    return _chain_spec(s0, w.seq, cd.n, cd.elems, k, "mdi") + _mdo_common(c, s1, it_of(s1))
