"""C09 (set level) - the differentiated inputs/outputs selected for a composite process.

Functions: gemseo.core.derivatives.chain_rule (graph traversal selecting, per discipline, the inputs and
outputs to differentiate) and Discipline.add_differentiated_inputs/outputs (monotonic).
A mapping ``{discipline: (input names, output names)}`` is a dict of pairs of lists; only the *sets* of
names matter.  The graph model and the ASSUMED contract of networkx.edge_bfs are in pyvc/plug_graph.py.
"""
from __future__ import annotations

import z3

from pyvc import contract as C
from pyvc import plug_graph as PG
from pyvc.contract import Contract, LoopSpec, register, schema
from pyvc.plug_graph import (DIFF_S, DLIST, NAMES, NXG, DiscS, TDisc, TDiscIO, in_names, is_continuous, le, ln, out_names, reach, reach_axioms, set_member)
from pyvc.values import StrS, TBool, TDict, TInt, TList, TObj, TSet, TStr, TTuple

from contracts.c08_dependency import FA, D, NAME_LIST, graph_is_dependency_graph, in_name_list  # noqa: F401  (also registers the graph schemas)

I = z3.IntSort()  # noqa: E741
CR = "gemseo.core.derivatives.chain_rule."
DISC = "gemseo.core.discipline.discipline.Discipline"
PAIR = TTuple(NAME_LIST, NAME_LIST)
DIO = TDict(TDisc, PAIR, ordered=True)

schema(DISC, {"name": TStr, "io": TDiscIO, "_differentiated_input_names": NAME_LIST, "_differentiated_output_names": NAME_LIST})


def S(name):
    return z3.Const(name, StrS)


def lst_has(t, k, tag="lh"):
    """name k occurs in the embedded list term t  (PG.lset is *defined* by PG.lset_definition(): exists i < len. t[i] = k)"""
    return PG.lset(t)[k]


LSET_DEF = [("definition-of-lset", PG.lset_definition())]


def ins(m, d):
    return PAIR.dt.accessor(0, 0)(m.vals[d])


def outs(m, d):
    return PAIR.dt.accessor(0, 1)(m.vals[d])


# ============================================================================ Discipline.add_differentiated_*
class _AddDifferentiated(Contract):
    """Monotonic: the names already selected stay selected; the continuous ones among the given names
    (all the grammar names when none is given) are added; nothing else.  ValueError iff a given name is unknown."""

    prop = ("C09",)
    modifies = ("self",)
    inputs = True

    @property
    def params(self):
        return {"input_names" if self.inputs else "output_names": NAME_LIST}

    def _parts(self, c):
        s0, s1 = c.old.self, c.new.self
        d = s0.io.term if hasattr(s0.io, "term") else s0.io
        given = c.old.input_names if self.inputs else c.old.output_names
        f = "_differentiated_input_names" if self.inputs else "_differentiated_output_names"
        return d, given, getattr(s0, f), getattr(s1, f), (in_names if self.inputs else out_names)(d)

    @property
    def raises(self):
        def cond(c):
            d, given, _, _, names = self._parts(c)
            i = z3.Int("i!adr")
            return z3.And(given.n != 0, z3.Exists([i], z3.And(0 <= i, i < given.n, z3.Not(names[given.elems[i]]))))

        return {"ValueError": cond}

    def ensures(self, c):
        d, given, old, new, names = self._parts(c)
        k = S("k!ad")
        p = z3.Int("p!ad")
        sel = lambda x: z3.If(given.n != 0, in_name_list(given, x, "adg"), names[x])  # noqa: E731
        added = lambda x: z3.And(sel(x), is_continuous(d, z3.BoolVal(self.inputs), x))  # noqa: E731
        s0, s1 = c.old.self, c.new.self
        other = "_differentiated_output_names" if self.inputs else "_differentiated_input_names"
        o0, o1 = getattr(s0, other), getattr(s1, other)
        return [
            ("monotonic", z3.ForAll([k], z3.Implies(in_name_list(old, k, "ado"), in_name_list(new, k, "adn")))),
            ("added", z3.ForAll([k], z3.Implies(added(k), in_name_list(new, k, "adn")))),
            ("nothing-else", FA([p], z3.Implies(z3.And(0 <= p, p < new.n), z3.Or(in_name_list(old, new.elems[p], "ado"), added(new.elems[p]))), new.elems[p])),
            ("other-list-kept", z3.And(o0.n == o1.n, z3.ForAll([p], z3.Implies(z3.And(0 <= p, p < o0.n), o0.elems[p] == o1.elems[p])))),
        ]


@register
class AddDifferentiatedInputs(_AddDifferentiated):
    targets = (DISC + ".add_differentiated_inputs",)


@register
class AddDifferentiatedOutputs(_AddDifferentiated):
    targets = (DISC + ".add_differentiated_outputs",)
    inputs = False


# ============================================================================ _apply_diff_ios
def bad_names(m, d):
    """Some selected input (output) name of d is not a name of its input (output) grammar."""
    i = z3.Int("i!bn")
    return z3.Or(z3.Exists([i], z3.And(0 <= i, i < ln(ins(m, d)), z3.Not(in_names(d)[le(ins(m, d), i)]))),
                 z3.Exists([i], z3.And(0 <= i, i < ln(outs(m, d)), z3.Not(out_names(d)[le(outs(m, d), i)]))))


def applied(c, m, done):
    """The ghost maps of differentiated names after applying the selection `m` to the disciplines satisfying `done`."""
    d, k = D("d!ap"), S("k!ap")
    i0, o0 = c.old_ghost("c09_diff_in", DIFF_S), c.old_ghost("c09_diff_out", DIFF_S)
    i1, o1 = c.new_ghost("c09_diff_in", DIFF_S), c.new_ghost("c09_diff_out", DIFF_S)
    return [
        ("inputs", FA([d, k], i1[d][k] == z3.Or(i0[d][k], z3.And(m.member[d], done(d), lst_has(ins(m, d), k, "api"), is_continuous(d, z3.BoolVal(True), k))), i1[d][k])),
        ("outputs", FA([d, k], o1[d][k] == z3.Or(o0[d][k], z3.And(m.member[d], done(d), lst_has(outs(m, d), k, "apo"), is_continuous(d, z3.BoolVal(False), k))), o1[d][k])),
    ]


@register
class ApplyDiffIos(Contract):
    """Every discipline of the mapping gets its selected (continuous) names *added* to its differentiated inputs/outputs;
    nothing is ever removed, other disciplines are untouched."""

    targets = (CR + "_apply_diff_ios",)
    prop = ("C09",)
    params = {"diff_ios": DIO}
    modifies = ("ghost:c09_diff_in", "ghost:c09_diff_out")
    raises = {"ValueError": lambda c: z3.Exists([D("d!apr")], z3.And(c.old.diff_ios.member[D("d!apr")], bad_names(c.old.diff_ios, D("d!apr"))))}
    loops = {0: LoopSpec(anchor="diff_ios.items()", modifies=("ghost:c09_diff_in", "ghost:c09_diff_out"), inv=lambda c, k: _ap_inv(c, k))}

    def requires(self, c):
        return LSET_DEF

    def ensures(self, c):
        return applied(c, c.old.diff_ios, lambda d: z3.BoolVal(True))


def _ap_inv(c, k):
    m = c.old.diff_ios
    d = D("d!api")
    return applied(c, m, lambda x: m.pos[x] < k) + [("no-unknown-name-so-far", FA([d], z3.Implies(z3.And(m.member[d], m.pos[d] < k), z3.Not(bad_names(m, d))), m.pos[d]))]


# ============================================================================ _bfs_one_way_diff_io
def covers(m, p, c, io):
    """The coupling names carried by the edge p -> c are differentiated outputs of p and differentiated inputs of c."""
    k = S("k!cv")
    return z3.And(m.member[p], m.member[c],
                  FA([k], z3.Implies(set_member(io[p][c])[k], z3.And(lst_has(outs(m, p), k, "cvo"), lst_has(ins(m, c), k, "cvi"))), set_member(io[p][c])[k]))


def extends(m0, m1, tag="ex"):
    """m1 selects at least what m0 selects (same disciplines or more, names only added)."""
    d, k = D(f"d!{tag}"), S(f"k!{tag}")
    return [
        ("keeps-disciplines", FA([d], z3.Implies(m0.member[d], m1.member[d]), m0.member[d])),
        ("keeps-inputs", z3.ForAll([d, k], z3.Implies(z3.And(m0.member[d], lst_has(ins(m0, d), k, tag + "a")), lst_has(ins(m1, d), k, tag + "b")))),
        ("keeps-outputs", z3.ForAll([d, k], z3.Implies(z3.And(m0.member[d], lst_has(outs(m0, d), k, tag + "c")), lst_has(outs(m1, d), k, tag + "d")))),
    ]


def reached_from(E, srcs, x, reverse, upto=None, tag="rf"):
    """x is reachable from one of the sources (forward), resp. reaches one of them (reverse)."""
    i = z3.Int(f"i!{tag}")
    s = srcs.elems[i]
    return z3.Exists([i], z3.And(0 <= i, i < (srcs.n if upto is None else upto), z3.If(reverse, reach(E, x, s), reach(E, s, x))))


def bfs_coverage(g, m, srcs, reverse, upto=None):
    p, c = D("p!bc"), D("c!bc")
    N, E = g._nodes, g.edge
    anchor = z3.If(reverse, reached_from(E, srcs, c, z3.BoolVal(True), upto, "rfr"), reached_from(E, srcs, p, z3.BoolVal(False), upto, "rff"))
    return FA([p, c], z3.Implies(z3.And(N.member[p], N.member[c], E[p][c], anchor), covers(m, p, c, g.io)), E[p][c])


@register
class BfsOneWayDiffIo(Contract):
    """Forward: every edge p -> c whose producer p is reachable from a source is covered (its coupling names are
    differentiated outputs of p and differentiated inputs of c).  Reverse: every edge whose consumer c reaches a source."""

    targets = (CR + "_bfs_one_way_diff_io",)
    prop = ("C09",)
    params = {"graph": TObj(NXG), "source_disciplines": DLIST, "reverse": TBool}
    returns = DIO
    loops = {
        0: LoopSpec(anchor="source_disciplines", inv=lambda c, k: _bfs_inv0(c, k), modifies=("diff_io",), local_types={"diff_io": DIO}),
        1: LoopSpec(anchor="edge_bfs(graph, source=source_disc)", inv=lambda c, k: _bfs_inv1(c, k), modifies=("diff_io",), local_types={"diff_io": DIO}),
    }

    def requires(self, c):
        return LSET_DEF + [(f"reach-closure{i}", a) for i, a in enumerate(reach_axioms(c.old.graph.edge))]

    def ensures(self, c):
        return [("coverage", bfs_coverage(c.old.graph, c.result, c.old.source_disciplines, c.old.reverse))]


def _bfs_inv0(c, k):
    return [("coverage-of-the-first-sources", bfs_coverage(c.old.graph, c.locals["diff_io"], c.old.source_disciplines, c.old.reverse, k))]


def _bfs_inv1(c, k):
    g, m, m0 = c.old.graph, c.locals["diff_io"], c.pre_locals["diff_io"]
    t = z3.Int("t!b1")
    eu, ev = c.seq.eu, c.seq.ev
    # an enumerated pair (a, b) is the edge a -> b of the traversed graph: in the reversed view it is the edge b -> a of G
    prod = z3.If(c.old.reverse, ev[t], eu[t])
    cons = z3.If(c.old.reverse, eu[t], ev[t])
    return extends(m0, m) + [("enumerated-edges-covered", FA([t], z3.Implies(z3.And(0 <= t, t < k), covers(m, prod, cons, g.io)), eu[t]))]


# ============================================================================ _initialize_add_diff_io
def name_in(lst, k, tag=""):
    """k is an element of the list of names (a view): lset of the list, i.e. (LSET_DEF) exists i < len. lst[i] = k"""
    return PG.lset(NAME_LIST.dt.mk(lst.n, lst.elems))[k]


def requested(names, grammar_names, d, tag):
    """Some requested name is a name of the grammar of d."""
    k = S(f"k!{tag}")
    return z3.Exists([k], z3.And(name_in(names, k), grammar_names(d)[k]))


def _init_spec(N, X, O, IS, OS, DI, done):
    d, k = D("d!in"), S("k!in")
    j = z3.Int("j!in")
    si = lambda x: z3.And(N.member[x], done(x), requested(X, in_names, x, "rqi"))  # noqa: E731
    so = lambda x: z3.And(N.member[x], done(x), requested(O, out_names, x, "rqo"))  # noqa: E731
    return [
        ("input-sources-only", FA([j], z3.Implies(z3.And(0 <= j, j < IS.n), si(IS.elems[j])), IS.elems[j])),
        ("input-sources-all", z3.ForAll([d], z3.Implies(si(d), z3.Exists([j], z3.And(0 <= j, j < IS.n, IS.elems[j] == d))))),
        ("output-sources-only", FA([j], z3.Implies(z3.And(0 <= j, j < OS.n), so(OS.elems[j])), OS.elems[j])),
        ("output-sources-all", z3.ForAll([d], z3.Implies(so(d), z3.Exists([j], z3.And(0 <= j, j < OS.n, OS.elems[j] == d))))),
        ("selected-disciplines", FA([d], DI.member[d] == z3.Or(si(d), so(d)), DI.member[d])),
        ("selected-inputs", FA([d, k], z3.Implies(DI.member[d], lst_has(ins(DI, d), k) == z3.And(name_in(X, k), in_names(d)[k])), lst_has(ins(DI, d), k))),
        ("selected-outputs", FA([d, k], z3.Implies(DI.member[d], lst_has(outs(DI, d), k) == z3.And(name_in(O, k), out_names(d)[k])), lst_has(outs(DI, d), k))),
    ]


@register
class InitializeAddDiffIo(Contract):
    """The sources are the disciplines having a requested input (output); the initial selection of a discipline is exactly
    its requested inputs and its requested outputs."""

    targets = (CR + "_initialize_add_diff_io",)
    prop = ("C09",)
    params = {"graph": TObj(NXG), "input_names": NAME_LIST, "output_names": NAME_LIST}
    returns = TTuple(DLIST, DLIST, DIO)
    set_of_list_via_lset = True  # set(list of names) is described through lset (see LSET_DEF) rather than by a lambda term
    loops = {0: LoopSpec(anchor="graph.nodes", inv=lambda c, k: _init_inv(c, k), modifies=("input_sources", "output_sources", "diff_ios"),
                         local_types={"input_sources": DLIST, "output_sources": DLIST, "diff_ios": DIO})}

    def requires(self, c):
        return LSET_DEF

    def ensures(self, c):
        r = c.result_value
        IS, OS, DI = (C.View(c._new_heap, x, c.st) for x in r)
        return _init_spec(c.old.graph._nodes, c.old.input_names, c.old.output_names, IS, OS, DI, lambda x: z3.BoolVal(True))


def _init_inv(c, k):
    N = c.old.graph._nodes
    return _init_spec(N, c.old.input_names, c.old.output_names, c.locals["input_sources"], c.locals["output_sources"], c.locals["diff_ios"], lambda x: N.pos[x] < k)


# ============================================================================ _merge_diff_io_special
def includes(m_small, m_big, d, tag="inc"):
    k = S(f"k!{tag}")
    return z3.And(m_big.member[d],
                  FA([k], z3.Implies(lst_has(ins(m_small, d), k), lst_has(ins(m_big, d), k)), lst_has(ins(m_small, d), k)),
                  FA([k], z3.Implies(lst_has(outs(m_small, d), k), lst_has(outs(m_big, d), k)), lst_has(outs(m_small, d), k)))


def in_disc_list(lst, d, tag="dl"):
    i = z3.Int(f"i!{tag}")
    return z3.Exists([i], z3.And(0 <= i, i < lst.n, lst.elems[i] == d))


@register
class MergeDiffIoSpecial(Contract):
    """Every discipline that is both an input source and an output source gets (at least) its whole initial selection;
    nothing already selected is lost."""

    targets = (CR + "_merge_diff_io_special",)
    prop = ("C09",)
    params = {"source_input_disc": DLIST, "source_output_disc": DLIST, "init_diff_ios": DIO, "diff_ios_merged": DIO}
    modifies = ("diff_ios_merged",)
    loops = {0: LoopSpec(anchor="set(source_input_disc).intersection(source_output_disc)", inv=lambda c, k: _ms_inv(c, k), modifies=("diff_ios_merged",))}

    def requires(self, c):
        d = D("d!msr")
        both = z3.And(in_disc_list(c.old.source_input_disc, d, "msa"), in_disc_list(c.old.source_output_disc, d, "msb"))
        return LSET_DEF + [("sources-have-an-initial-selection", z3.ForAll([d], z3.Implies(both, c.old.init_diff_ios.member[d])))]

    def ensures(self, c):
        return _ms_spec(c, lambda d: z3.BoolVal(True))


def _ms_spec(c, done):
    d = D("d!ms")
    both = z3.And(in_disc_list(c.old.source_input_disc, d, "msa"), in_disc_list(c.old.source_output_disc, d, "msb"))
    return extends(c.old.diff_ios_merged, c.new.diff_ios_merged, "mse") + [
        ("sources-fully-selected", z3.ForAll([d], z3.Implies(z3.And(both, done(d)), includes(c.old.init_diff_ios, c.new.diff_ios_merged, d))))]


def _ms_inv(c, k):
    return _ms_spec(c, lambda d: c.seq.pos[d] < k)


# ============================================================================ _merge_diff_ios
def _merged_ok(m1, m2, init, mg, d):
    """What the merged selection of d must contain, given the two one-way selections and the initial one."""
    k = S("k!mo")
    both_in = lambda x: z3.And(lst_has(ins(m1, d), x), lst_has(ins(m2, d), x))  # noqa: E731
    both_out = lambda x: z3.And(lst_has(outs(m1, d), x), lst_has(outs(m2, d), x))  # noqa: E731
    k2 = S("k2!mo")
    return z3.And(
        mg.member[d],
        FA([k], z3.Implies(both_in(k), lst_has(ins(mg, d), k)), lst_has(ins(m1, d), k)),
        FA([k], z3.Implies(both_out(k), lst_has(outs(mg, d), k)), lst_has(outs(m1, d), k)),
        # a discipline with a differentiated output keeps its requested inputs, and vice versa
        z3.Implies(z3.And(init.member[d], z3.Exists([k2], both_out(k2))), FA([k], z3.Implies(lst_has(ins(init, d), k), lst_has(ins(mg, d), k)), lst_has(ins(init, d), k))),
        z3.Implies(z3.And(init.member[d], z3.Exists([k2], both_in(k2))), FA([k], z3.Implies(lst_has(outs(init, d), k), lst_has(outs(mg, d), k)), lst_has(outs(init, d), k))),
    )


@register
class MergeDiffIos(Contract):
    """For every discipline met by both traversals: the names selected by both are kept, and its requested inputs
    (outputs) are added as soon as it has a differentiated output (input)."""

    targets = (CR + "_merge_diff_ios",)
    prop = ("C09",)
    params = {"diff_io_direct": DIO, "diff_io_reverse": DIO, "diff_io_init": DIO}
    returns = DIO
    loops = {0: LoopSpec(anchor="diff_io_1.items()", inv=lambda c, k: _mg_inv(c, k), modifies=("diff_ios_merged",), local_types={"diff_ios_merged": DIO})}

    def requires(self, c):
        return LSET_DEF

    def ensures(self, c):
        d = D("d!mg")
        a, b = c.old.diff_io_direct, c.old.diff_io_reverse
        return [("merged", FA([d], z3.Implies(z3.And(a.member[d], b.member[d]), _merged_ok(a, b, c.old.diff_io_init, c.result, d)), a.member[d]))]


def _mg_inv(c, k):
    d = D("d!mgi")
    m1, m2, mg = c.locals["diff_io_1"], c.locals["diff_io_2"], c.locals["diff_ios_merged"]
    return [("merged-so-far", FA([d], z3.Implies(z3.And(m1.member[d], m1.pos[d] < k, m2.member[d]), _merged_ok(m1, m2, c.old.diff_io_init, mg, d)), m1.pos[d]))]


# ============================================================================ traverse_add_diff_io
@register
class TraverseAddDiffIo(Contract):
    """Soundness of pruning, edge level: every edge p -> c of the dependency graph that lies on a path from a discipline with
    a requested input to a discipline with a requested output is covered by the returned selection (its coupling names are
    differentiated outputs of p and differentiated inputs of c)."""

    targets = (CR + "traverse_add_diff_io",)
    prop = ("C09",)
    params = {"graph": TObj(NXG), "input_names": NAME_LIST, "output_names": NAME_LIST, "add_differentiated_ios": TBool}
    returns = DIO
    modifies = ("ghost:c09_diff_in", "ghost:c09_diff_out")
    raises = {"ValueError": None}  # a selected name that is not a grammar name (see ApplyDiffIos)

    def requires(self, c):
        return LSET_DEF + [(f"reach-closure{i}", a) for i, a in enumerate(reach_axioms(c.old.graph.edge))]

    def ensures(self, c):
        g, X, O, r = c.old.graph, c.old.input_names, c.old.output_names, c.result
        N, E = g._nodes, g.edge
        p, q, d1, dk = D("p!tr"), D("q!tr"), D("d1!tr"), D("dk!tr")
        on_path = z3.And(N.member[p], N.member[q], E[p][q], N.member[d1], requested(X, in_names, d1, "tri"), reach(E, d1, p), N.member[dk], requested(O, out_names, dk, "tro"), reach(E, q, dk))
        d, k = D("d!tr"), S("k!tr")
        return [
            ("edges-on-requested-paths-are-covered", z3.ForAll([p, q, d1, dk], z3.Implies(on_path, covers(r, p, q, g.io)))),
            # path of length 0: a discipline with a requested input and a requested output keeps all of them
            ("requested-names-of-a-single-discipline", z3.ForAll([d], z3.Implies(
                z3.And(N.member[d], requested(X, in_names, d, "trs"), requested(O, out_names, d, "trt")),
                z3.And(r.member[d], z3.ForAll([k], z3.And(z3.Implies(z3.And(name_in(X, k), in_names(d)[k]), lst_has(ins(r, d), k)),
                                                          z3.Implies(z3.And(name_in(O, k), out_names(d)[k]), lst_has(outs(r, d), k)))))))),
        ] + [(f"selection-applied-to-the-disciplines:{lb}", f) for lb, f in applied(c, r, lambda x: _as_bool(c.old.add_differentiated_ios))]


def _as_bool(v):
    return z3.BoolVal(v) if isinstance(v, bool) else v
