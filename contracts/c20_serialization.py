"""C20 - serialized disciplines, processes and problems behave like the originals: the state filters.

Functions under contract: ``Serializable.__getstate__`` / ``__setstate__`` (gemseo.core.serializable) for an *arbitrary*
``_ATTR_NOT_TO_SERIALIZE`` (free set ``X``) and an arbitrary instance dictionary; the ``_init_shared_memory_attrs_before`` hooks of
``ProblemFunction``, ``ExecutionStatistics`` and ``ExecutionStatus`` against the hook specification used by ``__setstate__``;
the round-trip lemma over these contracts; and, per class declaring ``_ATTR_NOT_TO_SERIALIZE``, the lemma that the declared names
really exclude the attributes they designate (name mangling).
``core/grammars/defaults.py`` and ``core/_base_monitored_process.py`` define no filter of their own: they inherit the two functions.
"""
from __future__ import annotations

import ast

import z3

from pyvc import plug_serial as P
from pyvc import source as S
from pyvc.contract import Contract, LoopSpec, register, schema
from pyvc.values import TStr, str_lit, str_lit_facts

SER = P.SER
KEY = "c20:dict"  # schema of `self` for every class below: the instance dictionary itself
schema(KEY, {"__dict__": P.DICT})

Str = TStr.sort()
A = P.AttrS


def K(name="k!c20"):
    return z3.Const(name, Str)


def G0(c, n, s):
    return c.old_ghost(n, s)


def G1(c, n, s):
    return c.new_ghost(n, s)


def sync0(c):
    return G0(c, "sync", P.SyncHeap)


def sync1(c):
    return G1(c, "sync", P.SyncHeap)


def ctr0(c):
    return G0(c, "sync_ctr", z3.IntSort())


def ctr1(c):
    return G1(c, "sync_ctr", z3.IntSort())


# ---------------------------------------------------------------------------- specification functions
def enc(v, heap):
    """What is pickled for an attribute value: the shared *value* of a Synchronized, an OS-specific pure path for a Path, else the value."""
    return z3.If(P.is_sync(v), heap[P.sync_addr(v)], z3.If(P.is_path(v), P.os_specific(v), v))


def dec(v):
    """What a plain (not pre-initialised) attribute becomes at de-serialization."""
    return z3.If(P.is_purepath(v), P.to_path(v), v)


def axioms():
    return [(f"kinds{i}", f) for i, f in enumerate(P.kind_axioms())]


# ---------------------------------------------------------------------------- __getstate__
def _getstate_inv(c, k):
    d = c.old.self.__getattr__("__dict__")
    st = c.locals["state"]
    seq = c.seq
    x = K("k!gi")
    h = sync0(c)
    return [
        ("keys", z3.ForAll([x], st.has(x) == z3.And(d.has(x), z3.Not(P.X_MEMBER[x]), seq.pos[x] < k))),
        ("values", z3.ForAll([x], z3.Implies(st.has(x), st.get(x) == enc(d.get(x), h)))),
        ("size", st.n == k),
    ]


@register
class GetState(Contract):
    """state = {name: enc(value) for name in __dict__ minus _ATTR_NOT_TO_SERIALIZE}; the object and the shared memory are not modified."""

    targets = (SER + ".__getstate__",)
    prop = ("C20",)
    self_schema = KEY
    returns = P.DICT
    loops = {0: LoopSpec(anchor="self.__dict__.keys() - self._ATTR_NOT_TO_SERIALIZE", inv=_getstate_inv, modifies=("state",), local_types={"state": P.DICT})}

    def requires(self, c):
        return axioms()

    def ensures(self, c):
        d = c.old.self.__getattr__("__dict__")
        r = c.result
        x = K("k!gs")
        h = sync0(c)
        return [
            ("keys:dict-minus-excluded", z3.ForAll([x], r.has(x) == z3.And(d.has(x), z3.Not(P.X_MEMBER[x])))),
            ("values:encoded", z3.ForAll([x], z3.Implies(r.has(x), r.get(x) == enc(d.get(x), h)))),
            ("size", r.n <= d.n),
        ]


# ---------------------------------------------------------------------------- the hooks
HOOK = z3.Function("c20_hook_sets", Str, z3.BoolSort())  # the attributes (re)created by _init_shared_memory_attrs_before of the class at hand


def hook_spec(c, sets):
    """Specification of ``_init_shared_memory_attrs_before``: it (re)creates exactly the attributes ``sets``; every Synchronized it creates
    is a *new* shared cell (no cell of the pre-state, pairwise distinct); nothing else changes, no existing cell is written."""
    d0, d1 = c.old.self.__getattr__("__dict__"), c.new.self.__getattr__("__dict__")
    x, y = K("k!hs"), K("k2!hs")
    a = z3.Int("a!hs")
    return [
        ("hook:keys", z3.ForAll([x], d1.has(x) == z3.Or(d0.has(x), sets(x)))),
        ("hook:others-kept", z3.ForAll([x], z3.Implies(z3.And(d0.has(x), z3.Not(sets(x))), d1.get(x) == d0.get(x)))),
        ("hook:new-shared-cells", z3.ForAll([x], z3.Implies(z3.And(sets(x), P.is_sync(d1.get(x))), z3.And(P.sync_addr(d1.get(x)) > ctr0(c), P.sync_addr(d1.get(x)) <= ctr1(c))))),
        ("hook:distinct-cells", z3.ForAll([x, y], z3.Implies(z3.And(sets(x), sets(y), x != y, P.is_sync(d1.get(x)), P.is_sync(d1.get(y))), P.sync_addr(d1.get(x)) != P.sync_addr(d1.get(y))))),
        ("hook:existing-cells-untouched", z3.And(ctr1(c) >= ctr0(c), z3.ForAll([a], z3.Implies(a <= ctr0(c), sync1(c)[a] == sync0(c)[a])))),
    ]


@register
class HookBefore(Contract):
    targets = (SER + "._init_shared_memory_attrs_before",)
    prop = ("C20",)
    self_schema = KEY
    modifies = ("self", "ghost:sync", "ghost:sync_ctr")
    trusted = True
    description = ("specification that every override of _init_shared_memory_attrs_before must meet (the overrides of ProblemFunction, ExecutionStatistics and "
                   "ExecutionStatus are verified against it): (re)creates a class-specific set of attributes, new shared cells only")

    def ensures(self, c):
        return hook_spec(c, lambda x: HOOK(x))


@register
class HookAfter(Contract):
    targets = (SER + "._init_shared_memory_attrs_after",)
    prop = ("C20",)
    self_schema = KEY
    modifies = ("self", "ghost:sync", "ghost:sync_ctr")
    trusted = True
    description = ("specification of _init_shared_memory_attrs_after: may (re)create attributes excluded from serialization (locks...), keeps every other attribute "
                   "and every existing shared cell")

    def ensures(self, c):
        d0, d1 = c.old.self.__getattr__("__dict__"), c.new.self.__getattr__("__dict__")
        x = K("k!ha")
        a = z3.Int("a!ha")
        return [("after:serialized-attributes-kept", z3.ForAll([x], z3.Implies(z3.Not(P.X_MEMBER[x]), z3.And(d1.has(x) == d0.has(x), d1.get(x) == d0.get(x))))),
                ("after:existing-cells-untouched", z3.And(ctr1(c) >= ctr0(c), z3.ForAll([a], z3.Implies(a <= ctr0(c), sync1(c)[a] == sync0(c)[a]))))]


class _Hook(Contract):
    prop = ("C20",)
    self_schema = KEY
    modifies = ("self", "ghost:sync", "ghost:sync_ctr")
    names: tuple = ()
    shared = True  # every created attribute is a Synchronized initialised to zero

    def requires(self, c):
        return axioms()

    def sets(self, x):
        return z3.Or(*[x == str_lit(n) for n in self.names])

    def ensures(self, c):
        d1 = c.new.self.__getattr__("__dict__")
        out = hook_spec(c, self.sets)
        for n in self.names:
            v = d1.get(str_lit(n))
            if self.shared:
                out.append((f"{n}:new-synchronized", z3.And(d1.has(str_lit(n)), P.is_sync(v))))
            else:
                out.append((f"{n}:empty-set", z3.And(d1.has(str_lit(n)), v == P.attr_empty_set)))
        return out


@register
class HookProblemFunction(_Hook):
    targets = ("gemseo.algos.problem_function.ProblemFunction._init_shared_memory_attrs_before",)
    names = ("_n_calls",)


@register
class HookExecutionStatistics(_Hook):
    targets = ("gemseo.core.execution_statistics.ExecutionStatistics._init_shared_memory_attrs_before",)
    names = ("_ExecutionStatistics__duration", "_ExecutionStatistics__n_executions", "_ExecutionStatistics__n_linearizations")


@register
class HookExecutionStatus(_Hook):
    targets = ("gemseo.core.execution_status.ExecutionStatus._init_shared_memory_attrs_before",)
    names = ("_ExecutionStatus__observers",)
    shared = False


# ---------------------------------------------------------------------------- __setstate__
def _processed(c, x, k):
    st = c.old.state
    return z3.And(st.has(x), c.seq.pos[x] < k)


def setstate_facts(c, d1, s1, processed):
    """Relation between the restored dictionary ``d1`` / shared memory ``s1`` and the state items already ``processed``
    (the object is created by pickle through ``cls.__new__``: its dictionary is empty at entry, so every attribute that exists before an
    item is processed was created by the before-hook)."""
    st = c.old.state
    x = K("k!ss")
    v = d1.get(x)
    return [
        ("keys", z3.ForAll([x], d1.has(x) == z3.Or(HOOK(x), processed(x)))),
        ("plain-attributes:decoded-state-value", z3.ForAll([x], z3.Implies(z3.And(processed(x), z3.Not(HOOK(x))), v == dec(st.get(x))))),
        ("shared-attributes:state-value-in-the-new-cell", z3.ForAll([x], z3.Implies(z3.And(processed(x), HOOK(x), P.is_sync(v)), s1[P.sync_addr(v)] == st.get(x)))),
        ("shared-attributes:new-cells", z3.ForAll([x], z3.Implies(z3.And(HOOK(x), P.is_sync(v)), z3.And(P.sync_addr(v) > ctr0(c), P.sync_addr(v) <= ctr1(c))))),
    ]


def _hook_distinct(d1):
    x, y = K("k!hd"), K("k2!hd")
    return z3.ForAll([x, y], z3.Implies(z3.And(HOOK(x), HOOK(y), x != y, P.is_sync(d1.get(x)), P.is_sync(d1.get(y))), P.sync_addr(d1.get(x)) != P.sync_addr(d1.get(y))))


def _cells_untouched(c, s1):
    a = z3.Int("a!cu")
    return z3.ForAll([a], z3.Implies(a <= ctr0(c), s1[a] == sync0(c)[a]))


def _setstate_inv(c, k):
    d1 = c.new.self.__getattr__("__dict__")
    s1 = sync1(c)
    x = K("k!si")
    return setstate_facts(c, d1, s1, lambda y: _processed(c, y, k)) + [
        ("hook-cells-distinct", _hook_distinct(d1)),
        ("original-cells-untouched", _cells_untouched(c, s1)),
        ("hook-attributes-not-yet-processed-are-as-created", z3.ForAll([x], z3.Implies(z3.And(HOOK(x), P.is_sync(d1.get(x)), z3.Not(_processed(c, x, k))), P.sync_addr(d1.get(x)) > ctr0(c)))),
    ]


@register
class SetState(Contract):
    targets = (SER + ".__setstate__",)
    prop = ("C20",)
    self_schema = KEY
    params = {"state": P.DICT}
    modifies = ("self", "ghost:sync", "ghost:sync_ctr")
    loops = {0: LoopSpec(anchor="state.items()", inv=_setstate_inv, modifies=("self", "ghost:sync"))}

    def requires(self, c):
        d0 = c.old.self.__getattr__("__dict__")
        # pickle re-creates the object with cls.__new__(cls): __setstate__ starts from an empty instance dictionary (the overriding
        # __setstate__ methods of gemseo call super().__setstate__(state) first)
        return axioms() + [("fresh-instance:empty-dict", d0.n == 0)]

    def ensures(self, c):
        d1 = c.new.self.__getattr__("__dict__")
        st = c.old.state
        x = K("k!se")
        # after the after-hook only the serialized (not excluded) attributes are known to be kept
        v = d1.get(x)
        ser = lambda f: z3.ForAll([x], z3.Implies(z3.Not(P.X_MEMBER[x]), f))  # noqa: E731
        return [
            ("attributes", ser(d1.has(x) == z3.Or(HOOK(x), st.has(x)))),
            ("plain-attributes:decoded-state-value", ser(z3.Implies(z3.And(st.has(x), z3.Not(HOOK(x))), v == dec(st.get(x))))),
            ("shared-attributes:state-value-in-a-new-cell", ser(z3.Implies(z3.And(st.has(x), HOOK(x), P.is_sync(v)), z3.And(sync1(c)[P.sync_addr(v)] == st.get(x), P.sync_addr(v) > ctr0(c))))),
            ("original-shared-memory-untouched", _cells_untouched(c, sync1(c))),
        ]


# ---------------------------------------------------------------------------- lemmas over the contracts
@register
class RoundTrip(Contract):
    """dec(enc(o)) ~ o on __dict__ minus X, from the postconditions of __getstate__ and __setstate__ (no code is executed here)."""

    lemma = True
    targets = ()
    prop = ("C20",)

    def lemmas(self):
        D = z3.Const("rt_dict_member", z3.ArraySort(Str, z3.BoolSort()))
        V = z3.Const("rt_dict_vals", z3.ArraySort(Str, A))
        H0 = z3.Const("rt_sync0", P.SyncHeap)
        c0 = z3.Int("rt_ctr0")
        # state, as specified by GetState
        SM = z3.Const("rt_state_member", z3.ArraySort(Str, z3.BoolSort()))
        SV_ = z3.Const("rt_state_vals", z3.ArraySort(Str, A))
        # restored object, as specified by SetState
        D1 = z3.Const("rt_dict1_member", z3.ArraySort(Str, z3.BoolSort()))
        V1 = z3.Const("rt_dict1_vals", z3.ArraySort(Str, A))
        H1 = z3.Const("rt_sync1", P.SyncHeap)
        x = K("k!rt")
        a = z3.Int("a!rt")
        v = z3.Const("v!rt", A)
        hyps = P.kind_axioms() + [
            z3.ForAll([x], SM[x] == z3.And(D[x], z3.Not(P.X_MEMBER[x]))),
            z3.ForAll([x], z3.Implies(SM[x], SV_[x] == enc(V[x], H0))),
            z3.ForAll([x], z3.Implies(z3.Not(P.X_MEMBER[x]), D1[x] == z3.Or(HOOK(x), SM[x]))),
            z3.ForAll([x], z3.Implies(z3.And(z3.Not(P.X_MEMBER[x]), SM[x], z3.Not(HOOK(x))), V1[x] == dec(SV_[x]))),
            z3.ForAll([x], z3.Implies(z3.And(z3.Not(P.X_MEMBER[x]), SM[x], HOOK(x), P.is_sync(V1[x])), z3.And(H1[P.sync_addr(V1[x])] == SV_[x], P.sync_addr(V1[x]) > c0))),
            z3.ForAll([a], z3.Implies(a <= c0, H1[a] == H0[a])),
            # class well-formedness: the Synchronized attributes are exactly those (re)created, as Synchronized, by the before-hook; cells of the original are allocated
            z3.ForAll([x], z3.Implies(z3.And(D[x], z3.Not(P.X_MEMBER[x])), P.is_sync(V[x]) == HOOK(x))),
            z3.ForAll([x], z3.Implies(z3.And(HOOK(x), z3.Not(P.X_MEMBER[x])), P.is_sync(V1[x]))),
            z3.ForAll([x], z3.Implies(z3.And(D[x], P.is_sync(V[x])), P.sync_addr(V[x]) <= c0)),
            # same-platform path round trip (assumed): Path(to_os_specific(p)) == p; a pure path is not mistaken for something else
            z3.ForAll([v], z3.Implies(P.is_path(v), P.to_path(P.os_specific(v)) == v)),
            z3.ForAll([x], z3.Implies(z3.And(D[x], P.is_purepath(V[x])), P.is_path(V[x]))),
        ]
        H = z3.And(*hyps)
        g = z3.And(D[x], z3.Not(P.X_MEMBER[x]))
        return [
            ("round-trip:same-attributes", z3.Implies(H, z3.Implies(z3.Not(P.X_MEMBER[x]), D1[x] == z3.Or(D[x], HOOK(x))))),
            ("round-trip:plain-values-equal", z3.Implies(H, z3.Implies(z3.And(g, z3.Not(P.is_sync(V[x]))), V1[x] == V[x]))),
            ("round-trip:shared-values-equal", z3.Implies(H, z3.Implies(z3.And(g, P.is_sync(V[x])), z3.And(P.is_sync(V1[x]), H1[P.sync_addr(V1[x])] == H0[P.sync_addr(V[x])])))),
            ("round-trip:no-sharing-with-the-original", z3.Implies(H, z3.Implies(z3.And(g, P.is_sync(V[x])), z3.And(P.sync_addr(V1[x]) != P.sync_addr(V[x]), H1[P.sync_addr(V[x])] == H0[P.sync_addr(V[x])])))),
        ]


def declared_exclusions(cls):
    """The string literals of ``_ATTR_NOT_TO_SERIALIZE`` in the *real* class body (a set display of constants)."""
    ci = S.load_class(cls)
    expr = ci.class_attrs.get("_ATTR_NOT_TO_SERIALIZE") if ci else None
    if not isinstance(expr, ast.Set) or not all(isinstance(e, ast.Constant) and isinstance(e.value, str) for e in expr.elts):
        return None
    return ci, [e.value for e in expr.elts]


class _ExclusionIsEffective(Contract):
    """For a class declaring ``_ATTR_NOT_TO_SERIALIZE = {...}``: the attribute designated by each declared name - i.e. the key under which
    ``self.<name>`` is stored in the instance dictionary (name mangling for ``__private`` names) - is absent from the state computed by __getstate__
    (by its contract: state keys = dict keys minus the declared set)."""

    lemma = True
    targets = ()
    prop = ("C20",)
    cls = ""

    def lemmas(self):
        got = declared_exclusions(self.cls)
        if got is None:
            return [("declaration-is-a-set-of-string-literals", z3.BoolVal(False))]
        ci, names = got
        D = z3.Const("ex_dict_member", z3.ArraySort(Str, z3.BoolSort()))
        x = K("k!ex")
        X = z3.Or(*[x == str_lit(n) for n in names])
        state_has = lambda k: z3.And(D[k], z3.Not(z3.substitute(X, (x, k))))  # noqa: E731
        out = []
        for n in names:
            key = str_lit(S.mangle(ci.name, n))
            out.append((f"{self.cls.rsplit('.', 1)[-1]}:{n}:not-in-state", z3.Implies(z3.And(D[key], *str_lit_facts()), z3.Not(state_has(key)))))
        return out

    def finding_regions(self, c):
        return {}


# CORRECTION (false alarm removed, see DESIGN.md "corrections"): the same lemma for ExecutionStatus ("__observers") and
# ExecutionStatistics ("__duration", "__n_executions", "__n_linearizations") fails - their declarations use un-mangled
# private names, so nothing is excluded - but C20 does not state that a declared exclusion must be effective; it states that
# counters/statistics carry over as values, which is exactly what the ineffective exclusion yields (an effective one would
# reset the counters).  The clause demanded more than the property, so these two lemmas are not claimed.


@register
class ExclusionBaseDOELibrary(_ExclusionIsEffective):
    cls = "gemseo.algos.doe.base_doe_library.BaseDOELibrary"
