"""C08 (continued) - the strong / weak coupling sets of CouplingStructure are the ones implied by the graph.

Representation invariant assumed by every function here: ``self.sequence`` is a valid schedule of the
dependency graph ``self.graph`` (what DependencyGraph.get_execution_sequence guarantees: see
``schedule_is_valid`` in c08_dependency), with the ghost locations c08_stage / c08_slot / c08_idx.

Vocabulary: group(d) = the group (tuple) of the sequence holding d;  d is *strongly coupled* (an MDA is needed)
iff |group(d)| > 1 or d is self-coupled;  *weakly coupled* otherwise.
"""
from __future__ import annotations

import z3

from pyvc import contract as C
from pyvc import plug_graph as PG
from pyvc.contract import Contract, LoopSpec, register
from pyvc.plug_graph import DLIST, NAMES, in_names, le, ln, out_names
from pyvc.values import StrS, TBool, TList

from contracts.c08_dependency import (CS, FA, GROUP, NAME_LIST, SEQ, D, _cs_kept, ghosts, list_is_set, schedule_is_valid, self_coupled, seq_at)

GROUPS = TList(GROUP)


def S(name):
    return z3.Const(name, StrS)


class W:
    """The well-formed coupling structure seen by a specification: graph, sequence and ghost locations."""

    def __init__(self, c):
        s = c.old.self
        g = s.graph._DependencyGraph__graph
        self.N, self.E, self.seq = g._nodes, g.edge, s.sequence
        self.st, self.sl, self.ix = ghosts(c, "old")

    def requires(self):
        # (every clause is a proved postcondition of get_execution_sequence; "exactly-once-and-nothing-else" is left out: it follows from
        #  the located + distinct-positions clauses and, as a hypothesis, it feeds a matching loop with "every-discipline-is-scheduled")
        return [(f"sequence-is-a-valid-schedule:{l}", f) for l, f in schedule_is_valid(self.N, self.E, self.seq, self.st, self.sl, self.ix) if l != "exactly-once-and-nothing-else"]

    def group(self, d):
        return seq_at(self.seq, self.st[d], self.sl[d])

    def same_group(self, u, v):
        return z3.And(self.st[u] == self.st[v], self.sl[u] == self.sl[v])

    def strong(self, d, add_self_coupled=True):
        a = z3.BoolVal(add_self_coupled) if isinstance(add_self_coupled, bool) else add_self_coupled
        return z3.Or(ln(self.group(d)) > 1, z3.And(a, self_coupled(d)))

    def weak(self, d):
        return z3.And(ln(self.group(d)) == 1, z3.Not(self_coupled(d)))


# ============================================================================ get_strongly_coupled_disciplines
def _proc0(w, k):
    return lambda d: w.st[d] < k


def _proc1(w, c, k2):
    pt = c.locals["parallel_tasks"]
    s = w.st[le(pt.elems[0], 0)]  # the stage being visited = the stage of its first discipline
    return lambda d: z3.Or(w.st[d] < s, z3.And(w.st[d] == s, w.sl[d] < k2))


def _proc2(w, c, k3):
    d0 = c.locals["component"].elems[0]
    return lambda d: z3.Or(w.st[d] < w.st[d0], z3.And(w.st[d] == w.st[d0], z3.Or(w.sl[d] < w.sl[d0], z3.And(w.sl[d] == w.sl[d0], w.ix[d] < k3))))


def flat_spec(w, R, a, proc):
    """R lists exactly the strongly coupled disciplines among the processed ones, each once."""
    j, j2 = z3.Ints("j!fs j2!fs")
    d = D("d!fs")
    x = R.elems[j]
    return [
        ("only-strongly-coupled", FA([j], z3.Implies(z3.And(0 <= j, j < R.n), z3.And(w.N.member[x], w.strong(x, a), proc(x))), R.elems[j])),
        ("all-strongly-coupled", FA([d], z3.Implies(z3.And(w.N.member[d], w.strong(d, a), proc(d)), z3.Exists([j], z3.And(0 <= j, j < R.n, R.elems[j] == d))), w.st[d])),
        ("each-once", z3.ForAll([j, j2], z3.Implies(z3.And(0 <= j, j < j2, j2 < R.n), R.elems[j] != R.elems[j2]))),
    ]


def group_spec(w, R, a, proc):
    """R lists exactly the groups of the sequence that need an MDA among the processed ones, each once.
    A group is identified by its first discipline."""
    j, j2, p = z3.Ints("j!gs j2!gs p!gs")
    d = D("d!gs")
    g = R.elems[j]
    d0 = le(g, 0)
    return [
        ("groups-of-the-sequence", FA([j], z3.Implies(z3.And(0 <= j, j < R.n), z3.And(
            ln(g) >= 1, w.N.member[d0], w.ix[d0] == 0, ln(g) == ln(w.group(d0)), w.strong(d0, a), proc(d0),
            z3.ForAll([p], z3.Implies(z3.And(0 <= p, p < ln(g)), le(g, p) == le(w.group(d0), p))))), R.elems[j])),
        ("all-strongly-coupled-groups", FA([d], z3.Implies(z3.And(w.N.member[d], w.strong(d, a), proc(d)),
                                                          z3.Exists([j], z3.And(0 <= j, j < R.n, le(R.elems[j], 0) == le(w.group(d), 0)))), w.st[d])),
        ("each-group-once", z3.ForAll([j, j2], z3.Implies(z3.And(0 <= j, j < j2, j2 < R.n), le(R.elems[j], 0) != le(R.elems[j2], 0)))),
    ]


def group_bridges(w, R, a):
    """Consequences of group_spec + the schedule invariant, in the form the callers use (discipline level)."""
    j, p = z3.Ints("j!gb p!gb")
    u = D("u!gb")
    g = R.elems[j]
    x = le(g, p)
    gu = w.group(u)
    return [
        ("members-of-listed-groups", FA([j, p], z3.Implies(z3.And(0 <= j, j < R.n, 0 <= p, p < ln(g)),
                                                           z3.And(w.N.member[x], w.st[x] == w.st[le(g, 0)], w.sl[x] == w.sl[le(g, 0)], w.ix[x] == p, w.strong(x, a), ln(w.group(x)) == ln(g))), x)),
        ("group-of-each-strongly-coupled-discipline", FA([u], z3.Implies(z3.And(w.N.member[u], w.strong(u, a)),
                                                                        z3.Exists([j], z3.And(0 <= j, j < R.n, ln(g) == ln(gu), z3.ForAll([p], z3.Implies(z3.And(0 <= p, p < ln(gu)), le(g, p) == le(gu, p)))))), w.st[u])),
    ]


class _StronglyCoupled(Contract):
    prop = ("C08",)
    params = {"add_self_coupled": TBool, "by_group": TBool}
    by_group = False

    @property
    def returns(self):
        return GROUPS if self.by_group else DLIST

    @property
    def loops(self):
        ty = self.returns
        mk = lambda anchor, inv: LoopSpec(anchor=anchor, inv=inv, modifies=("strong_disciplines",), local_types={"strong_disciplines": ty})  # noqa: E731
        return {
            0: mk("self.sequence", lambda c, k: self.spec(W(c), c.locals["strong_disciplines"], c.old.add_self_coupled, _proc0(W(c), k))),
            1: mk("parallel_tasks", lambda c, k: self.spec(W(c), c.locals["strong_disciplines"], c.old.add_self_coupled, _proc1(W(c), c, k))),
            2: mk("component", lambda c, k: self.spec(W(c), c.locals["strong_disciplines"], c.old.add_self_coupled, _proc2(W(c), c, k))),
        }

    def spec(self, w, R, a, proc):
        return (group_spec if self.by_group else flat_spec)(w, R, a, proc)

    def requires(self, c):
        return W(c).requires() + [("shape", c.old.by_group == z3.BoolVal(self.by_group))]

    def ensures(self, c):
        out = self.spec(W(c), c.result, c.old.add_self_coupled, lambda d: z3.BoolVal(True))
        if self.by_group:
            out = out + group_bridges(W(c), c.result, c.old.add_self_coupled)
        return out


@register
class StronglyCoupledByGroup(_StronglyCoupled):
    """by_group=True (the contract seen by the callers: _compute_strong_couplings): the groups needing an MDA."""

    targets = (CS + ".get_strongly_coupled_disciplines",)
    by_group = True


@register
class StronglyCoupledFlat(_StronglyCoupled):
    """by_group=False: the strongly coupled disciplines, each once."""

    targets = (CS + ".get_strongly_coupled_disciplines",)
    variant = "flat"
    by_group = False


# ============================================================================ _compute_strong_couplings
_GH = z3.ArraySort(PG.DiscS, z3.IntSort())
strong_coupling_p = z3.Function("strong_coupling", SEQ.sort(), _GH, _GH, z3.ArraySort(PG.DiscS, z3.BoolSort()), StrS, z3.BoolSort())


def strong_coupling(w, x):
    """x is an input and an output of one and the same group needing an MDA (a predicate of the sequence, the ghost locations,
    the node set and the name; *defined* by strong_coupling_definition)."""
    return strong_coupling_p(SEQ.dt.mk(w.seq.n, w.seq.elems), w.st, w.sl, w.N.member, x)


def strong_coupling_definition(w):
    u, v = D("u!sg"), D("v!sg")
    x = S("x!sgd")
    body = z3.Exists([u, v], z3.And(w.N.member[u], w.N.member[v], w.same_group(u, v), w.strong(u), in_names(u)[x], out_names(v)[x]),
                     patterns=[z3.MultiPattern(in_names(u)[x], out_names(v)[x])])
    return [("definition-of-strong-coupling", z3.ForAll([x], strong_coupling(w, x) == body, patterns=[strong_coupling(w, x)]))]


def _grp(c, j):
    """(length, elements) of the j-th item of the list being iterated (a list of groups)."""
    o = c.st.heap[c.seq.elem(j).id]
    return o.n, o.elems


def _in_of_first_groups(c, x, k):
    j, p, q = z3.Ints("j!sgi p!sgi q!sgi")
    n, el = _grp(c, j)
    return z3.Exists([j], z3.And(0 <= j, j < k, z3.Exists([p], z3.And(0 <= p, p < n, in_names(el[p])[x])), z3.Exists([q], z3.And(0 <= q, q < n, out_names(el[q])[x]))))


@register
class ComputeStrongCouplings(Contract):
    """_strong_couplings = union, over the groups needing an MDA (size > 1, or a self-coupled discipline), of
    inputs(group) & outputs(group) - per group: a variable going from one group to another one is not a strong coupling."""

    targets = (CS + "._compute_strong_couplings",)
    prop = ("C08",)
    modifies = ("self",)
    loops = {0: LoopSpec(anchor="self.get_strongly_coupled_disciplines(by_group=True)", inv=lambda c, k: _sc_inv(c, k), modifies=("strong_couplings",),
                         local_types={"strong_couplings": NAMES})}

    def axioms(self, c):
        return strong_coupling_definition(W(c))

    def requires(self, c):
        return W(c).requires()

    def ensures(self, c):
        w = W(c)
        r = c.new.self._strong_couplings
        return list_is_set(r.n, r.elems, lambda x: strong_coupling(w, x), "scp") + _cs_kept(c.old.self, c.new.self, "_strong_couplings")


def _sc_inv(c, k):
    x = S("x!sci")
    sc = c.locals["strong_couplings"]
    j, p, q = z3.Ints("j!sc2 p!sc2 q!sc2")
    n, el = _grp(c, j)
    return [
        ("only-strong-couplings", FA([x], z3.Implies(sc.member[x], strong_coupling(W(c), x)), sc.member[x])),
        ("all-couplings-of-the-first-groups", FA([j, p, q, x], z3.Implies(z3.And(0 <= j, j < k, 0 <= p, p < n, 0 <= q, q < n, in_names(el[p])[x], out_names(el[q])[x]), sc.member[x]),
                                                 z3.MultiPattern(in_names(el[p])[x], out_names(el[q])[x]))),
    ]


# ============================================================================ _compute_weakly_coupled / _compute_weak_couplings
def weak_spec(w, R, proc):
    """R lists exactly the weakly coupled disciplines among the processed ones, each once."""
    j, j2 = z3.Ints("j!ws j2!ws")
    d = D("d!ws")
    x = R.elems[j]
    return [
        ("only-weakly-coupled", FA([j], z3.Implies(z3.And(0 <= j, j < R.n), z3.And(w.N.member[x], w.weak(x), proc(x))), R.elems[j])),
        ("all-weakly-coupled", FA([d], z3.Implies(z3.And(w.N.member[d], w.weak(d), proc(d)), z3.Exists([j], z3.And(0 <= j, j < R.n, R.elems[j] == d))), w.st[d])),
        ("each-once", z3.ForAll([j, j2], z3.Implies(z3.And(0 <= j, j < j2, j2 < R.n), R.elems[j] != R.elems[j2]))),
    ]


@register
class ComputeWeaklyCoupled(Contract):
    """_weakly_coupled_disc = the disciplines that are alone in their group and not self-coupled, each once;
    every discipline is either strongly or weakly coupled, never both."""

    targets = (CS + "._compute_weakly_coupled",)
    prop = ("C08",)
    modifies = ("self",)
    loops = {
        0: LoopSpec(anchor="self.sequence", inv=lambda c, k: weak_spec(W(c), c.locals["weak_disciplines"], _proc0(W(c), k)), modifies=("weak_disciplines",), local_types={"weak_disciplines": DLIST}),
        1: LoopSpec(anchor="parallel_tasks", inv=lambda c, k: weak_spec(W(c), c.locals["weak_disciplines"], _proc1(W(c), c, k)), modifies=("weak_disciplines",), local_types={"weak_disciplines": DLIST}),
    }

    def requires(self, c):
        return W(c).requires()

    def ensures(self, c):
        w = W(c)
        d = D("d!wx")
        return weak_spec(w, c.new.self._weakly_coupled_disc, lambda x: z3.BoolVal(True)) + [
            ("strongly-xor-weakly-coupled", FA([d], z3.Implies(w.N.member[d], w.weak(d) == z3.Not(w.strong(d))), w.st[d])),
        ] + _cs_kept(c.old.self, c.new.self, "_weakly_coupled_disc")


def _out_of_first(lst, x, k, tag="wo"):
    i = z3.Int(f"i!{tag}")
    return z3.Exists([i], z3.And(0 <= i, i < k, out_names(lst.elems[i])[x]))


@register
class ComputeWeakCouplings(Contract):
    """_weak_couplings = the outputs of the weakly coupled disciplines (the list computed by _compute_weakly_coupled, read as cached)."""

    targets = (CS + "._compute_weak_couplings",)
    prop = ("C08",)
    modifies = ("self",)
    loops = {0: LoopSpec(anchor="self.weakly_coupled_disciplines", inv=lambda c, k: _wc_inv(c, k), modifies=("weak_couplings",), local_types={"weak_couplings": NAMES})}

    def ensures(self, c):
        s0, s1 = c.old.self, c.new.self
        L, r = s0._weakly_coupled_disc, s1._weak_couplings
        return list_is_set(r.n, r.elems, lambda x: _out_of_first(L, x, L.n), "wcp") + _cs_kept(s0, s1, "_weak_couplings")


def _wc_inv(c, k):
    L = c.old.self._weakly_coupled_disc
    x = S("x!wci")
    i = z3.Int("i!wci")
    wc = c.locals["weak_couplings"]
    return [
        ("only-outputs-of-the-first-ones", FA([x], z3.Implies(wc.member[x], _out_of_first(L, x, k)), wc.member[x])),
        ("all-outputs-of-the-first-ones", FA([i, x], z3.Implies(z3.And(0 <= i, i < k, out_names(L.elems[i])[x]), wc.member[x]), out_names(L.elems[i])[x])),
    ]
