"""C05 (continued) - BaseDiscipline.execute with a FULL cache (MemoryFullCache / HDF5Cache: the data-converter branches).

Variants ``@full`` of ``__create_input_data_for_cache``, ``_store_cache`` and ``execute``, next to ``__can_load_cache@full``
(contracts/c05_more.py).  The cache is seen through the VERIFIED contracts of BaseFullCache (contracts/c05_full_cache.py: ``cache_outputs``
stores copies - clause ``no-alias`` - and never modifies a group an entry already has), hence through its abstract view: entries
1..max_index, ``cin[i]`` the input content filed under i, optional outputs.

Data converters (assumed): ``convert_value_to_array(name, value)`` is a function ``conv_array`` of the name and of the content of the value;
``convert_array_to_value`` likewise (``conv_value``, c05_more).  A non-array grammar value (float, str) is an opaque content of the array heap.

What is stated for ``execute`` (exact matching):
* the lookup key is the content of the PREPARED input data; on a hit (an entry with that input content has outputs) the body does not run
  (ghost ``disc_runs`` unchanged), the returned data are the prepared inputs merged with the converted stored outputs, and NOTHING of the
  cache changes (no dictionary handed out by the cache is written to either: ghost ``fc_entry_written``);
* on a miss the body runs exactly once, and afterwards the cache holds, under the CURRENT input data (the prepared inputs as they were at
  the call, converted to arrays), the outputs in the returned data (converted to arrays, restricted to the output names), stored as copies;
* every entry that already had outputs keeps them (a stored entry is never modified), whatever happens.
"""
from __future__ import annotations

import z3

from pyvc.contract import Contract, LoopSpec, register, schema
from pyvc.values import StrS, TBool, TObj, TStr, ValS, forall_pat as FA

from contracts.c05_caches import ARR, DATA, OV, allocated, cont, heap_preserved, kq
from contracts.c05_discipline import DISC, GR, INT, IOC, Prepared, _pristine_inv, _store_inv2, same_dict_obj
from contracts.c05_full_cache import (BFC, FC, G_IN, G_OUT, buckets_same, content_stable, ghosts_same, group_same, no_alias, preserved, ri, store_same)
from contracts.c05_more import CONV, WRITTEN, conv_value  # noqa: F401  (schemas GR#conv, the converter class)

schema(IOC + "#fx", {"_IO__data": DATA, "input_grammar": TObj(GR, schema_key=GR + "#conv"), "output_grammar": TObj(GR, schema_key=GR + "#conv")})
schema(DISC + "#fx", {"name": TStr, "cache": TObj(BFC), "io": TObj(IOC, schema_key=IOC + "#fx")})
conv_array = z3.Function("convert_value_to_array", StrS, ValS, ValS)  # the array a grammar value is cached as (per name)
BOOL = z3.BoolSort()
CAN_LOAD, CREATE, STORE = DISC + ".__can_load_cache", DISC + ".__create_input_data_for_cache", DISC + "._store_cache"
CACHE_PATHS = ("self.cache._hashes_to_indices", "self.cache._max_index", "self.cache._last_accessed_index", "self.cache._store")
SOME, NONE = OV.dt.some, OV.dt.none


@register
class ConvertValueToArray(Contract):
    targets = (CONV + ".convert_value_to_array",)
    prop = ("C05",)
    params = {"name": TStr, "value": ARR}
    returns = ARR
    modifies = ("heap:arr",)
    trusted = True
    description = ("assumed (data converters): the array a grammar value is cached as is a function of the name and of the content of the value "
                   "(the array itself for array types, array([value]) for float/int/str types); the given value is not modified")

    def ensures(self, c):
        h0, h1 = c.old_sym("arr", ValS), c.new_sym("arr", ValS)
        nm = c.old.name
        return [("value", h1[c.result] == conv_array(nm, h0[c.old.value])), ("allocated", z3.And(c.result > 0, c.result <= c.new_ctr)),
                ("heap-preserved", heap_preserved(c))]


def cache_view(c, which="old"):
    """The abstract view (c05_full_cache.FC) of the cache of the discipline."""

    class _Re:
        def __init__(self, ns):
            self.self = ns.self.cache

    class _C:
        old, new = _Re(c.old), _Re(c.new)
        old_sym, new_sym, old_ctr, new_ctr, old_ghost, new_ghost = c.old_sym, c.new_sym, c.old_ctr, c.new_ctr, c.old_ghost, c.new_ghost

    return FC(_C, which)


def converted(d, heap, s, only=None):
    """Pointwise content of `d` converted to arrays (restricted to the names `only`)."""
    cond = d.has(s) if only is None else z3.And(d.has(s), only.member[s])
    return z3.If(cond, SOME(conv_array(s, heap[d.get(s)])), NONE)


class _Full(Contract):
    prop = ("C05",)
    self_schema = DISC + "#fx"


# ------------------------------------------------------------------------------- __create_input_data_for_cache
def _to_array_inv(local, src_of, restrict=False):
    """Invariant of a pass ``for name, value in X.items(): X[name] = to_array(name, value)`` over the local dict `local`: the first k names
    hold the converted value, the others what they held when the pass began; names unchanged."""

    def inv(c, k):
        x = c.locals[local]
        pre = c.pre_locals[local]
        h1 = c.new_sym("arr", ValS)
        hpre = c.st.ex._loop_pre[0].sym.get("arr", c.old_sym("arr", ValS))
        cpre = c.st.ex._loop_pre[0].ctr
        s, a = kq("k!ta"), z3.Int("a!ta")
        pos = c.seq.pos
        return [("names", z3.And(x.n == pre.n, FA([s], x.member[s] == pre.member[s], x.member[s]))),
                ("converted-so-far", FA([s], z3.Implies(z3.And(pre.member[s], pos[s] < k), z3.And(h1[x.vals[s]] == conv_array(s, hpre[pre.vals[s]]), x.vals[s] > 0, x.vals[s] <= c.new_ctr)), x.vals[s])),
                ("not-yet-converted", FA([s], z3.Implies(z3.And(pre.member[s], pos[s] >= k), x.vals[s] == pre.vals[s]), x.vals[s])),
                ("values-allocated-when-the-pass-began", FA([s], z3.Implies(pre.member[s], z3.And(pre.vals[s] > 0, pre.vals[s] <= cpre)), pre.vals[s])),
                ("heap-since-the-pass-began", z3.And(c.new_ctr >= cpre, z3.ForAll([a], z3.Implies(a <= cpre, h1[a] == hpre[a])))),
                ("heap", heap_preserved(c)), ("content-stable", content_stable(c))]

    return inv


@register
class CreateInputDataForCacheFull(_Full):
    """The data to file the entry under: a new dict with the names of the input data, every value converted to an array from its content AT
    THE CALL (auto-coupled values deep-copied first)."""

    targets = (CREATE,)
    variant = "full"
    params = {"input_data": DATA}
    returns = DATA
    modifies = ("heap:arr",)
    loops = {0: LoopSpec(anchor="auto_coupled_names", modifies=("input_data_", "heap:arr"), inv=lambda c, k: _pristine_inv(c, k), local_types={"input_data_": DATA}),
             1: LoopSpec(anchor="input_data_.items()", modifies=("input_data_", "heap:arr"), inv=_to_array_inv("input_data_", None), local_types={"input_name": TStr, "value": ARR})}

    def requires(self, c):
        return [("allocated", allocated(c.old.input_data, c.old_ctr))]

    def ensures(self, c):
        r, d = c.result, c.old.input_data
        h0, h1 = c.old_sym("arr", ValS), c.new_sym("arr", ValS)
        s = kq("k!cf")
        return [("a-new-dict-with-the-same-names", z3.And(r.n == d.n, z3.ForAll([s], r.has(s) == d.has(s)))),
                ("converted-contents-at-the-call", FA([s], z3.Implies(d.has(s), h1[r.get(s)] == conv_array(s, h0[d.get(s)])), r.get(s))),
                ("allocated", allocated(r, c.new_ctr)), ("input-untouched", same_dict_obj(c.new.input_data, d)), *preserved(c)]


# ------------------------------------------------------------------------------- _store_cache
def stored_spec(c, v0, v1, key_at, out_at, prefix=""):
    """The cache after ``cache_outputs(key, outputs)``: ``key_at(s)`` / ``out_at(s)`` are the pointwise contents (name -> optional content) of the
    key and of the outputs handed over.  (Re-export of the verified contract BfcCacheOutputs, pointwise.)"""
    i, s, g = z3.Int("i!ss"), kq("k!ss"), z3.Const("g!ss", StrS)
    e = v1.L
    new = v1.M != v0.M
    had = z3.And(v0.inR(e), v0.has(e, G_OUT))
    return [
        (prefix + "size", z3.Or(v1.M == v0.M, v1.M == v0.M + 1)),
        (prefix + "filed-under-the-current-input-data", z3.And(v1.inR(e), z3.ForAll([s], v1.cin[e][s] == key_at(s)))),
        (prefix + "new-entry-is-the-last", z3.Implies(new, e == v0.M + 1)),
        (prefix + "known-entry", z3.Implies(z3.Not(new), z3.And(v0.inR(e), v0.cin[e] == v1.cin[e]))),
        (prefix + "outputs-stored", z3.Implies(z3.Not(had), z3.And(v1.has(e, G_OUT), z3.ForAll([s], v1.content(e, G_OUT)[s] == out_at(s))))),
        # a stored entry is never modified: every group an entry had is kept (content and size), the filed inputs too
        (prefix + "stored-outputs-never-modified", FA([i], z3.Implies(z3.And(v0.inR(i), v0.has(i, G_OUT)), group_same(v0, v1, i, G_OUT)), v0.cin[i])),
        (prefix + "other-groups-kept", z3.ForAll([i, g], z3.Implies(z3.And(v0.inR(i), g != G_OUT), group_same(v0, v1, i, g)))),
        (prefix + "filed-inputs-kept", FA([i], z3.Implies(v0.inR(i), v1.cin[i] == v0.cin[i]), v0.cin[i])),
        (prefix + "stored-as-copies", no_alias(v0, v1)),
    ] + [(prefix + l, f) for l, f in ri(v1)]


def cache_same(v0, v1):
    return z3.And(store_same(v0, v1), buckets_same(v0, v1), ghosts_same(v0, v1), v1.M == v0.M, v1.L == v0.L)


def _store_conv_inv(c, k):
    """The conversion pass of _store_cache, relative to the local data at the call."""
    d = c.old.self.io._IO__data
    names = c.old.self.io.output_grammar._names
    h0 = c.old_sym("arr", ValS)
    od = c.locals["output_data"]
    h1 = c.new_sym("arr", ValS)
    s = kq("k!sc")
    pos = c.seq.pos
    return [("names", FA([s], od.member[s] == z3.And(d.has(s), names.member[s]), od.member[s])),
            ("converted-so-far", FA([s], z3.Implies(z3.And(od.member[s], pos[s] < k), z3.And(h1[od.vals[s]] == conv_array(s, h0[d.get(s)]), od.vals[s] > 0, od.vals[s] <= c.new_ctr)), od.vals[s])),
            ("not-yet-converted", FA([s], z3.Implies(z3.And(od.member[s], pos[s] >= k), od.vals[s] == d.get(s)), od.vals[s])),
            ("heap", heap_preserved(c)), ("content-stable", content_stable(c))]


@register
class StoreCacheFull(_Full):
    """``_store_cache`` with a full cache: the local data restricted to the output names and converted to arrays are stored (as copies) for the
    entry of ``input_data`` unless it has outputs already; no other stored data change.  Nothing happens without output names."""

    targets = (STORE,)
    variant = "full"
    params = {"input_data": DATA}
    modifies = (*CACHE_PATHS, "heap:arr", "ghost:fc_slot", "ghost:fc_cin")
    loops = {0: LoopSpec(anchor="output_data.keys() - output_grammar", modifies=("output_data",), inv=lambda c, k: _store_inv2(c, k)),
             1: LoopSpec(anchor="output_data.items()", modifies=("output_data", "heap:arr"), inv=_store_conv_inv, local_types={"name": TStr, "value": ARR})}

    def requires(self, c):
        return ri(cache_view(c)) + [("allocated", z3.And(allocated(c.old.input_data, c.old_ctr), allocated(c.old.self.io._IO__data, c.old_ctr)))]

    def ensures(self, c):
        v0, v1 = cache_view(c), cache_view(c, "new")
        d, inp = c.old.self.io._IO__data, c.old.input_data
        names = c.old.self.io.output_grammar._names
        h0 = c.old_sym("arr", ValS)
        key_at = lambda s: z3.If(inp.has(s), SOME(h0[inp.get(s)]), NONE)  # noqa: E731
        out_at = lambda s: converted(d, h0, s, names)  # noqa: E731
        some = names.n != 0
        return [("no-output-name:cache-unchanged", z3.Implies(z3.Not(some), cache_same(v0, v1)))] + \
               [(l, z3.Implies(some, f)) for l, f in stored_spec(c, v0, v1, key_at, out_at)] + \
               [("tolerance-kept", v1.tol == v0.tol), ("local-data-untouched", same_dict_obj(c.new.self.io._IO__data, d)), *preserved(c)]


# ------------------------------------------------------------------------------- execute
@register
class ExecuteFull(_Full):
    """``BaseDiscipline.execute`` of a discipline holding a full cache (exact matching, no data processor): see the module docstring."""

    targets = (DISC + ".execute",)
    variant = "full"
    params = {"input_data": DATA}
    returns = DATA
    modifies = ("self.io", *CACHE_PATHS, "heap:arr", "ghost:disc_runs", "ghost:fc_slot", "ghost:fc_cin")
    callee_variants = {CAN_LOAD: "full", CREATE: "full", STORE: "full"}

    def requires(self, c):
        v0 = cache_view(c)
        return ri(v0) + [("exact-matching", v0.tol == 0), ("input-allocated", allocated(c.old.input_data, c.old_ctr)),
                         ("no-cache-dictionary-written-so-far", z3.Not(c.old_ghost(WRITTEN, BOOL)))]

    def ensures(self, c):
        v0, v1 = cache_view(c), cache_view(c, "new")
        p = Prepared(c.old.input_data)
        h0, h1 = c.old_sym("arr", ValS), c.new_sym("arr", ValS)
        r = c.result
        names = c.old.self.io.output_grammar._names
        runs0, runs1 = c.old_ghost("disc_runs", INT), c.new_ghost("disc_runs", INT)
        i, s = z3.Int("i!xf"), kq("k!xf")
        k = kq("k!lam")
        ci = z3.Lambda([k], z3.If(p.member[k], SOME(h0[p.vals[k]]), NONE))  # the content of the prepared input data (the lookup key)
        hit = lambda x: z3.And(v0.inR(x), v0.cin[x] == ci, v0.nonempty(x, G_OUT))  # noqa: E731
        miss = z3.ForAll([i], z3.Not(hit(i)))
        key_at = lambda t: z3.If(p.member[t], SOME(conv_array(t, h0[p.vals[t]])), NONE)  # noqa: E731
        out_at = lambda t: z3.If(z3.And(r.has(t), names.member[t]), SOME(conv_array(t, h1[r.get(t)])), NONE)  # noqa: E731
        some = names.n != 0
        out = [
            ("returns-the-local-data", same_dict_obj(r, c.new.self.io._IO__data)),
            ("hit:the-body-does-not-run", FA([i], z3.Implies(hit(i), runs1 == runs0), v0.cin[i])),
            ("hit:cache-unchanged", FA([i], z3.Implies(hit(i), cache_same(v0, v1)), v0.cin[i])),
            ("hit:returns-the-inputs-merged-with-the-converted-stored-outputs",
             FA([i], z3.Implies(hit(i), z3.ForAll([s], z3.And(
                 r.has(s) == z3.Or(p.member[s], v0.dmem(i, G_OUT)[s]),
                 z3.Implies(r.has(s), h1[r.get(s)] == z3.If(v0.dmem(i, G_OUT)[s], conv_value(s, v0.heap[v0.dvals(i, G_OUT)[s]]), h0[p.vals[s]]))))), v0.cin[i])),
            ("miss:the-body-runs-once", z3.Implies(miss, runs1 == runs0 + 1)),
            ("miss:no-output-name:cache-unchanged", z3.Implies(z3.And(miss, z3.Not(some)), cache_same(v0, v1))),
            ("no-cache-dictionary-written", z3.Not(c.new_ghost(WRITTEN, BOOL))),
            ("tolerance-kept", v1.tol == v0.tol),
            ("heap-preserved", heap_preserved(c)),
        ]
        out += [("miss:" + l, z3.Implies(z3.And(miss, some), f)) for l, f in stored_spec(c, v0, v1, key_at, out_at)]
        # whatever happens: an entry that had outputs keeps them
        out += [("stored-outputs-never-modified", FA([i], z3.Implies(z3.And(v0.inR(i), v0.has(i, G_OUT)), group_same(v0, v1, i, G_OUT)), v0.cin[i]))]
        return out
