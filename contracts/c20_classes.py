"""C20 - the state protocol class by class: what is dropped at pickling is exactly what is re-created at restore.

The generic filters ``Serializable.__getstate__`` / ``__setstate__`` are verified in ``contracts/c20_serialization.py`` for an ARBITRARY exclusion set and
arbitrary hooks; ``HDF5Cache`` and ``JSONGrammar`` in ``contracts/c20_state.py``.  This module closes the gap between these parametric proofs and the concrete
classes of gemseo:

1. **Hierarchy lemmas** (``contracts/c20_hierarchy.py`` parses every file of ``src/gemseo`` on each run): every definition of ``__getstate__``, ``__setstate__``,
   ``__reduce__``, ``__reduce_ex__``, ``__getnewargs__[_ex]``, ``__deepcopy__``, ``__copy__``, ``_init_shared_memory_attrs_before/after`` or ``_ATTR_NOT_TO_SERIALIZE``
   found in the real source is under a contract (``OverridesUnderContract``: a NEW override makes the check fail instead of being silently uncovered); every class
   whose state handling is only inherited is listed with the class it inherits each method from (``Inherited...``: the expectation is re-computed from the real
   MRO, so that an override appearing in between flips the obligation); no ``Serializable`` class uses ``__slots__``; every attribute that holds a
   multiprocessing / threading lock is excluded from the state (``LocksAreExcluded``).
2. **Function contracts** on the real source of the remaining overrides: the no-op hooks of ``Serializable`` itself, ``BaseDOELibrary`` / ``DirectoryCreator``
   ``_init_shared_memory_attrs_after``, ``AnalyticDiscipline`` / ``SobieskiDiscipline.__setstate__``, ``CustomTqdmProgressBar`` / ``DisciplineData`` /
   ``PydanticGrammar.__getstate__`` / ``__setstate__``.
3. **Per-class lemmas** over these contracts (no code executed): for every ``Serializable`` class, with the exclusion set read from the real class body
   and the hooks resolved along the real MRO: (a) every excluded name is (re)created on restore, every other attribute of the state is restored,
   (b) what is re-created is new (locks, shared cells) while the shared counters carry over as values, (c) round trip.
"""
from __future__ import annotations

import ast

import z3

from contracts import c20_hierarchy as H
from contracts import c20_serialization as B
from contracts import c20_state
from pyvc import contract as C
from pyvc import plug_c20b as Q
from pyvc import plug_serial as P
from pyvc import source as S
from pyvc.contract import Contract, register
from pyvc.values import TInt, TStr, str_lit, str_lit_facts

SER = P.SER
KEY = B.KEY
Str = TStr.sort()
A = P.AttrS
BEFORE, AFTER = "_init_shared_memory_attrs_before", "_init_shared_memory_attrs_after"


def K(name):
    return z3.Const(name, Str)


def lit(s):
    return str_lit(s)


def member(x, names):
    return z3.Or(*[x == lit(n) for n in names]) if names else z3.BoolVal(False)


def dict0(c):
    return c.old.self.__getattr__("__dict__")


def dict1(c):
    return c.new.self.__getattr__("__dict__")


def lock_ctr0(c):
    return c.old_ghost("lock_ctr", z3.IntSort())


def axioms():
    return B.axioms() + [(f"kinds-b{i}", f) for i, f in enumerate(Q.kind_axioms())]


def kept_except(c, names, label="others-kept"):
    """Every attribute but ``names`` is kept (presence and value)."""
    d0, d1 = dict0(c), dict1(c)
    x = K("k!ke")
    return (label, z3.ForAll([x], z3.Implies(z3.Not(member(x, names)), z3.And(d1.has(x) == d0.has(x), d1.get(x) == d0.get(x)))))


def shared_memory_untouched(c):
    return ("shared-memory-untouched", z3.And(B.ctr1(c) == B.ctr0(c), B.sync1(c) == B.sync0(c)))


# ============================================================================ 2. function contracts
# ---------------------------------------------------------------------------- the two hooks of Serializable itself do nothing
class _Noop(Contract):
    prop = ("C20",)
    self_schema = KEY
    variant = "noop"
    modifies = ("self",)
    creates: tuple = ()

    def ensures(self, c):
        return [kept_except(c, (), "nothing-changes"), ("size", dict1(c).n == dict0(c).n)]


@register
class BaseHookBeforeIsNoop(_Noop):
    """The hook of ``Serializable`` itself creates nothing: for a class that does not override it, HOOK = {} in the generic __setstate__ contract."""

    targets = (SER + "." + BEFORE,)


@register
class BaseHookAfterIsNoop(_Noop):
    targets = (SER + "." + AFTER,)


# ---------------------------------------------------------------------------- BaseDOELibrary: the lock
DOE = "gemseo.algos.doe.base_doe_library.BaseDOELibrary"


def new_lock(c, d1, name):
    v = d1.get(lit(name))
    return (f"{name}:a-new-lock", z3.And(d1.has(lit(name)), Q.is_lock(v), Q.lock_id(v) > lock_ctr0(c)))


@register
class DOEHookAfter(Contract):
    """``lock`` - the only excluded attribute - is re-created as a NEW lock; nothing else changes (in particular no serialized attribute: the generic
    specification of the after-hook, c20_serialization.HookAfter)."""

    targets = (DOE + "." + AFTER,)
    prop = ("C20",)
    self_schema = KEY
    c20b = True
    modifies = ("self", "ghost:lock_ctr")
    creates = ("lock",)

    def requires(self, c):
        return axioms()

    def ensures(self, c):
        return [new_lock(c, dict1(c), "lock"), kept_except(c, self.creates)]


# ---------------------------------------------------------------------------- DirectoryCreator
DC = "gemseo.utils.directory_creator.DirectoryCreator"
DC_METHOD, DC_LOCK, DC_COUNTER = "_DirectoryCreator__directory_naming_method", "_DirectoryCreator__lock", "_DirectoryCreator__counter"
dc_initial_counter = z3.Function("c20_initial_counter", A, z3.IntSort())  # max of the digit-named sub-directories of the root directory (file system, at call time)


@register
class DCInitialCounter(Contract):
    targets = (DC + ".__get_initial_counter",)
    prop = ("C20",)
    self_schema = KEY
    returns = TInt
    trusted = True
    description = "assumed (file system): __get_initial_counter returns an int read from the listing of the root directory; the object is not modified"

    def ensures(self, c):
        return []


@register
class DCHookAfter(Contract):
    """NUMBERED: a NEW lock and a NEW shared counter initialised from the directory listing; otherwise the counter is the constant 1.  Nothing else changes.
    ``__lock`` is excluded from the state (a94ccfa; lemmas LocksAreExcluded and DirectoryCreatorLock); ``__counter`` is not, but the hook re-binds it: the counter of a
    restored NUMBERED creator is re-read from the directory listing, not carried over."""

    targets = (DC + "." + AFTER,)
    prop = ("C20",)
    self_schema = KEY
    c20b = True
    modifies = ("self", "ghost:lock_ctr", "ghost:sync", "ghost:sync_ctr")
    raises = {"AttributeError": lambda c: z3.Not(dict0(c).has(lit(DC_METHOD)))}
    creates = (DC_COUNTER,)
    # created only under a condition on restored attributes; the class lemma named here shows that the original holds the attribute only under the same condition
    creates_when = {DC_LOCK: "DirectoryCreatorLock"}

    def requires(self, c):
        return axioms()

    def ensures(self, c):
        d0, d1 = dict0(c), dict1(c)
        numbered = d0.get(lit(DC_METHOD)) == Q.attr_of_str(lit("NUMBERED"))
        cnt = d1.get(lit(DC_COUNTER))
        a = z3.Int("a!dc")
        return [
            ("numbered:new-lock", z3.Implies(numbered, new_lock(c, d1, DC_LOCK)[1])),
            ("numbered:new-shared-counter", z3.Implies(numbered, z3.And(d1.has(lit(DC_COUNTER)), P.is_sync(cnt), P.sync_addr(cnt) > B.ctr0(c)))),
            ("not-numbered:counter-is-1", z3.Implies(z3.Not(numbered), z3.And(d1.has(lit(DC_COUNTER)), cnt == P.attr_of_int(z3.IntVal(1))))),
            ("not-numbered:no-lock-created", z3.Implies(z3.Not(numbered), z3.And(d1.has(lit(DC_LOCK)) == d0.has(lit(DC_LOCK)), d1.get(lit(DC_LOCK)) == d0.get(lit(DC_LOCK))))),
            kept_except(c, (DC_LOCK, DC_COUNTER)),
            ("existing-cells-untouched", z3.ForAll([a], z3.Implies(a <= B.ctr0(c), B.sync1(c)[a] == B.sync0(c)[a]))),
        ]


# ---------------------------------------------------------------------------- overriding __setstate__ methods: super().__setstate__(state) + re-creation
class _ClassAxioms:
    """Instantiation of the parametric symbols of c20_serialization for one class, READ FROM THE REAL SOURCE at every run:
    ``c20_not_to_serialize`` is the value of ``_ATTR_NOT_TO_SERIALIZE`` seen by the class (c20_hierarchy.exclusions) and ``c20_hook_sets`` the attributes
    created by the before-hook the class resolves to (the ``creates`` of the contract verified for that hook; {} for the no-op of Serializable)."""

    cls = ""

    def class_axioms(self):
        x = K("k!ca")
        X = H.exclusions(self.cls)
        hook = before_creates(self.cls)
        out = []
        if X is not None:
            out.append(("class:exclusions-as-declared", z3.ForAll([x], P.X_MEMBER[x] == member(x, sorted(X)))))
        if hook is not None:
            out.append(("class:before-hook-creates", z3.ForAll([x], B.HOOK(x) == member(x, hook))))
        return out


def hook_contract(cls, hook):
    """The contract verified for the hook ``cls`` resolves to along its real MRO (``None``: not under contract)."""
    p = H.provider(cls, hook)
    if p is None:
        return None
    key = f"{p}.{hook}" + ("@noop" if p == SER else "")
    ct = C.all_contracts().get(key)
    return ct if ct is not None and "C20" in ct.prop and not getattr(ct, "trusted", False) else None


def before_creates(cls):
    ct = hook_contract(cls, BEFORE)
    if ct is None:
        return None
    return tuple(getattr(ct, "names", getattr(ct, "creates", ())))


def after_creates(cls):
    ct = hook_contract(cls, AFTER)
    return None if ct is None else tuple(getattr(ct, "creates", ()))


def state_has(c, names):
    return [(f"state-of-a-constructed-object:{n}", c.old.state.has(lit(n))) for n in names]


def restored(c, X, recomputed=()):
    """Post-state of an overriding ``__setstate__`` in terms of the pickled state: every excluded name exists again, the other attributes are those of the state
    (decoded), except the ``recomputed`` ones (re-derived from restored attributes); the shared memory of the original is not written."""
    d1, st = dict1(c), c.old.state
    x = K("k!rs")
    other = z3.And(z3.Not(member(x, X)), z3.Not(member(x, recomputed)))
    return [
        ("no-attribute-lost:every-excluded-name-is-re-created", z3.ForAll([x], z3.Implies(member(x, X), d1.has(x)))),
        ("serialized-attributes:same-names", z3.ForAll([x], z3.Implies(other, d1.has(x) == st.has(x)))),
        ("serialized-attributes:decoded-state-values", z3.ForAll([x], z3.Implies(z3.And(other, st.has(x)), d1.get(x) == B.dec(st.get(x))))),
        ("original-shared-memory-untouched", B._cells_untouched(c, B.sync1(c))),
    ]


AD = "gemseo.disciplines.analytic.AnalyticDiscipline"
AD_X = ("_sympy_funcs", "_sympy_jac_funcs")
AD_READ = ("expressions", "_sympy_exprs", "_sympy_jac_exprs", "output_names_to_symbols")  # attributes _init_expressions reads / fills in place
AD_ATTR_STORES = ("input_names", "_AnalyticDiscipline__real_symbols")  # attributes _init_expressions (re)binds
AD_ITEM_STORES = ("_sympy_exprs", "_sympy_jac_exprs", "output_names_to_symbols", "_sympy_funcs", "_sympy_jac_funcs")  # dictionaries it fills in place


@register
class AnalyticInitExpressions(Contract):
    targets = (AD + "._init_expressions",)
    prop = ("C20",)
    self_schema = KEY
    modifies = ("self",)
    trusted = True
    description = ("assumed (sympy): _init_expressions / _lambdify_expressions need the attributes expressions, _sympy_exprs, _sympy_jac_exprs, output_names_to_symbols, "
                   "_sympy_funcs, _sympy_jac_funcs (precondition, PROVED at the call in __setstate__), re-bind input_names and __real_symbols and fill the five dictionaries "
                   "in place as deterministic functions of `expressions`; the sets of bound / filled attributes are checked against the real source (lemma AnalyticFrame)")

    def requires(self, c):
        return [(f"attribute-exists:{n}", dict0(c).has(lit(n))) for n in AD_READ + AD_X]

    def ensures(self, c):
        d0, d1 = dict0(c), dict1(c)
        x = K("k!ie")
        return [("attributes", z3.ForAll([x], d1.has(x) == z3.Or(d0.has(x), member(x, AD_ATTR_STORES)))),
                ("others-kept", z3.ForAll([x], z3.Implies(z3.Not(member(x, AD_ATTR_STORES + AD_ITEM_STORES)), d1.get(x) == d0.get(x))))]


class _OverridingSetState(_ClassAxioms, Contract):
    prop = ("C20",)
    self_schema = KEY
    c20b = True
    params = {"state": P.DICT}
    modifies = ("self", "ghost:sync", "ghost:sync_ctr")
    needs: tuple = ()  # attributes of the state the re-creation reads

    def axioms(self, c):
        return self.class_axioms()

    def requires(self, c):
        # pickle re-creates the object with cls.__new__(cls) (empty dictionary); the state is the one of a constructed object
        return axioms() + [("fresh-instance:empty-dict", dict0(c).n == 0)] + state_has(c, self.needs)


@register
class AnalyticSetState(_OverridingSetState):
    """The two excluded dictionaries of lambdified functions exist again (new, then refilled by _init_expressions); every other attribute comes from the state,
    `input_names` and `__real_symbols` being re-derived from the restored expressions."""

    targets = (AD + ".__setstate__",)
    cls = AD
    needs = AD_READ
    creates = AD_X

    def ensures(self, c):
        return restored(c, AD_X, AD_ATTR_STORES + AD_ITEM_STORES)


SD = "gemseo.problems.mdo.sobieski.disciplines.SobieskiDiscipline"


@register
class SobieskiSetState(_OverridingSetState):
    """`sobieski_problem` - the only excluded attribute - is re-built from the restored `dtype`; every other attribute comes from the state."""

    targets = (SD + ".__setstate__",)
    cls = SD
    needs = ("dtype",)
    creates = ("sobieski_problem",)
    c20b_constructors = ("SobieskiProblem",)

    def ensures(self, c):
        d1, st = dict1(c), c.old.state
        return restored(c, self.creates) + [
            ("sobieski_problem:rebuilt-from-the-restored-dtype", d1.get(lit("sobieski_problem")) == Q.attr_construct(lit("SobieskiProblem"), B.dec(st.get(lit("dtype")))))]


# ============================================================================ source-derived helpers for frames of trusted contracts
def self_stores(qualname, seen=None):
    """(attribute names bound by ``self.X = ...``, attribute names filled by ``self.X[...] = ...``) in the real source of a method and of the
    methods of ``self`` it calls (names mangled)."""
    seen = set() if seen is None else seen
    if qualname in seen:
        return set(), set()
    seen.add(qualname)
    fi = S.load_function(qualname)
    cname = fi.cls.name
    bound, filled = set(), set()
    for node in ast.walk(fi.node):
        targets = []
        if isinstance(node, ast.Assign):
            targets = node.targets
        elif isinstance(node, (ast.AugAssign, ast.AnnAssign)):
            targets = [node.target]
        for t in targets:
            if isinstance(t, ast.Attribute) and isinstance(t.value, ast.Name) and t.value.id == "self":
                bound.add(S.mangle(cname, t.attr))
            if isinstance(t, ast.Subscript) and isinstance(t.value, ast.Attribute) and isinstance(t.value.value, ast.Name) and t.value.value.id == "self":
                filled.add(S.mangle(cname, t.value.attr))
        if isinstance(node, ast.Call) and isinstance(node.func, ast.Attribute) and isinstance(node.func.value, ast.Name) and node.func.value.id == "self":
            m = S.find_method(fi.cls.qualname, S.mangle(cname, node.func.attr))
            if m is not None and m.kind in ("method",):
                b, f = self_stores(m.qualname, seen)
                bound |= b
                filled |= f
    return bound, filled


@register
class AnalyticFrame(Contract):
    """The frame assumed for AnalyticDiscipline._init_expressions is the one of the real source (direct stores, _lambdify_expressions followed)."""

    lemma = True
    targets = ()
    prop = ("C20",)

    def lemmas(self):
        bound, filled = self_stores(AD + "._init_expressions")
        return [("_init_expressions:bound-attributes-as-assumed", z3.BoolVal(bound == set(AD_ATTR_STORES))),
                ("_init_expressions:filled-dictionaries-as-assumed", z3.BoolVal(filled == set(AD_ITEM_STORES)))]


# ---------------------------------------------------------------------------- XLSDiscipline (Excel + xlwings: assumed)
XLS = "gemseo.disciplines.wrappers.xls_discipline.XLSDiscipline"


@register
class XLSSetState(Contract):
    targets = (XLS + ".__setstate__",)
    prop = ("C20",)
    self_schema = KEY
    params = {"state": P.DICT}
    modifies = ("self", "ghost:sync", "ghost:sync_ctr")
    trusted = True
    creates = ()  # nothing is re-created UNCONDITIONALLY (see the real source: `_xls_app` / `_book` only `if self._copy_xls_at_setstate and not self._recreate_book_at_run`)
    description = ("assumed (Excel / xlwings / file copies out of reach): XLSDiscipline.__setstate__ = Serializable.__setstate__ followed, only when copy_xls_at_setstate and not "
                   "recreate_book_at_run, by a copy of the workbook and the re-creation of _xls_app / _book; the set of attributes it re-creates unconditionally (none) "
                   "is checked against the real source (lemma XLSFrame)")

    def ensures(self, c):
        return []


def unconditional_self_stores(qualname):
    """Attributes bound by a top-level statement ``self.X = ...`` of the body of a method (not nested in if / for / try), mangled."""
    fi = S.load_function(qualname)
    out = set()
    for stmt in fi.node.body:
        if isinstance(stmt, ast.Assign):
            for t in stmt.targets:
                if isinstance(t, ast.Attribute) and isinstance(t.value, ast.Name) and t.value.id == "self":
                    out.add(S.mangle(fi.cls.name, t.attr))
    return out


@register
class XLSFrame(Contract):
    lemma = True
    targets = ()
    prop = ("C20",)

    def lemmas(self):
        fi = S.load_function(XLS + ".__setstate__")
        first = fi.node.body[0]
        calls_super_first = isinstance(first, ast.Expr) and ast.unparse(first.value) == "super().__setstate__(state)"
        return [("__setstate__:starts-with-the-inherited-restore", z3.BoolVal(calls_super_first)),
                ("__setstate__:unconditionally-re-created-attributes-as-assumed", z3.BoolVal(unconditional_self_stores(XLS + ".__setstate__") == set(XLSSetState.creates)))]


# ============================================================================ 1. hierarchy lemmas
def _c20_contract(key, verified_only=False):
    for k, ct in C.all_contracts().items():
        if k.split("@")[0] == key and "C20" in ct.prop and not (verified_only and getattr(ct, "trusted", False)):
            return ct
    return None


# overrides whose contract lives under another property (checked: the contract is registered there)
DELEGATED = {
    ("gemseo.core.grammars.base_grammar.BaseGrammar", "__copy__"): ("C15", "contracts.c15_grammars"),
    ("gemseo.core.grammars.defaults.Defaults", "__copy__"): ("C15", "contracts.c15_grammars"),
}


def _delegated_ok(q, name):
    import importlib

    prop, module = DELEGATED[(q, name)]
    importlib.import_module(module)
    ct = C.all_contracts().get(f"{q}.{name}")
    return ct is not None and prop in ct.prop


def _short(q):
    return q.rsplit(".", 1)[-1]


def _label(q):
    """A label-safe, unambiguous class name: the last three components of the qualified name."""
    return "/".join(q.split(".")[-3:])


@register
class OverridesUnderContract(Contract):
    """EVERY definition of a state-protocol member found in the real source is under a contract: a new override (or a new `_ATTR_NOT_TO_SERIALIZE`) appearing in any
    class of src/gemseo makes this lemma fail until a contract is written for it."""

    lemma = True
    targets = ()
    prop = ("C20",)

    def lemmas(self):
        classes = H.scan()
        out = []
        for q, c in sorted(classes.items()):
            for name in sorted(c.defines):
                if (q, name) in DELEGATED:
                    ok = _delegated_ok(q, name)
                else:
                    ok = isinstance(c.defines[name], (ast.FunctionDef,)) and _c20_contract(f"{q}.{name}") is not None
                out.append((f"override:{_label(q)}.{name}:under-contract", z3.BoolVal(bool(ok))))
            if c.exclusion_expr is not None:
                ok = H.is_serializable(q, classes) and H.exclusions(q, classes) is not None
                out.append((f"declaration:{_label(q)}._ATTR_NOT_TO_SERIALIZE:read-by-the-class-lemmas", z3.BoolVal(bool(ok))))
        out.append(("the-scan-sees-the-known-overrides", z3.BoolVal(SER in classes and len(classes[SER].defines) == 4)))
        return out


# classes named by the property / the task whose state handling is ONLY inherited: (root class, expected provider of __getstate__/__setstate__ and of the two hooks)
SERIALIZABLE_ROOTS = (
    "gemseo.core._base_monitored_process.BaseMonitoredProcess", "gemseo.core.discipline.base_discipline.BaseDiscipline", "gemseo.core.discipline.discipline.Discipline",
    "gemseo.core.process_discipline.ProcessDiscipline", "gemseo.mda.base_mda.BaseMDA", "gemseo.mda.base_mda_solver.BaseMDASolver", "gemseo.mda.base_mda_root.BaseMDARoot",
    "gemseo.mda.gauss_seidel.MDAGaussSeidel", "gemseo.mda.jacobi.MDAJacobi", "gemseo.mda.newton_raphson.MDANewtonRaphson", "gemseo.mda.quasi_newton.MDAQuasiNewton",
    "gemseo.mda.gs_newton.MDAGSNewton", "gemseo.mda.sequential_mda.MDASequential", "gemseo.mda.mda_chain.MDAChain",
    "gemseo.core.chains.chain.MDOChain", "gemseo.core.chains.parallel_chain.MDOParallelChain", "gemseo.core.chains.additive_chain.MDOAdditiveChain",
    "gemseo.core.chains.warm_started_chain.MDOWarmStartedChain", "gemseo.core.chains.initialization_chain.MDOInitializationChain",
    "gemseo.scenarios.base_scenario.BaseScenario", "gemseo.scenarios.mdo_scenario.MDOScenario", "gemseo.scenarios.doe_scenario.DOEScenario",
    "gemseo.disciplines.scenario_adapters.mdo_scenario_adapter.MDOScenarioAdapter", "gemseo.disciplines.auto_py.AutoPyDiscipline",
    "gemseo.disciplines.surrogate.SurrogateDiscipline", "gemseo.disciplines.remapping.RemappingDiscipline", "gemseo.core.grammars.defaults.Defaults",
)
# classes outside Serializable: no class of their MRO defines any member of the state protocol, i.e. pickle / copy use the default protocol of `object`
# (state = the instance dictionary itself: nothing is dropped, nothing has to be re-created); every subclass found in the source is included
PLAIN_ROOTS = (
    "gemseo.formulations.base_formulation.BaseFormulation", "gemseo.core.mdo_functions.mdo_function.MDOFunction", "gemseo.algos.design_space.DesignSpace",
    "gemseo.algos.base_problem.BaseProblem", "gemseo.algos.database.Database", "gemseo.algos.evaluation_counter.EvaluationCounter",
    "gemseo.algos.optimization_result.OptimizationResult", "gemseo.caches.simple_cache.SimpleCache", "gemseo.core.grammars.simple_grammar.SimpleGrammar",
    "gemseo.core.grammars.required_names.RequiredNames", "gemseo.core.discipline.io.IO", "gemseo.core.base_factory.BaseFactory",
    "gemseo.algos.base_algorithm_library.BaseAlgorithmLibrary", "gemseo.algos.sequence_transformer.sequence_transformer.SequenceTransformer",
    "gemseo.mlearning.transformers.base_transformer.BaseTransformer", "gemseo.core.coupling_structure.CouplingStructure",
    "gemseo.core.derivatives.jacobian_assembly.JacobianAssembly", "gemseo.mda.base_parallel_mda_settings.BaseParallelMDASettings",
)
# Serializable classes met below these roots are handled by RestoreRecreatesWhatIsDropped
PLAIN_ALLOWED = {("gemseo.algos.doe.base_doe_library.BaseDOELibrary", "*"), ("gemseo.algos.problem_function.ProblemFunction", "*"),
                 ("gemseo.core.grammars.base_grammar.BaseGrammar", "__copy__")}


@register
class InheritedStateProtocol(Contract):
    """Classes whose state handling is only inherited, with the class each member is inherited from RE-COMPUTED from the real MRO."""

    lemma = True
    targets = ()
    prop = ("C20",)

    def lemmas(self):
        classes = H.scan()
        out = []
        four = ("__getstate__", "__setstate__", BEFORE, AFTER)
        others = tuple(n for n in H.PROTOCOL if n not in four)
        for q in SERIALIZABLE_ROOTS:
            ok = q in classes and all(H.provider(q, n, classes) == SER for n in four) and H.exclusions(q, classes) == frozenset() and H.exclusion_declarer(q, classes) == SER
            ok = ok and all(H.provider(q, n, classes) in (None, q if q.endswith(".Defaults") else None) for n in others)
            out.append((f"{_label(q)}:state-protocol-inherited-from-Serializable-with-an-empty-exclusion-set", z3.BoolVal(bool(ok))))
        for root in PLAIN_ROOTS:
            subs = H.subclasses(root, classes) if root in classes else []
            bad = []
            for s in subs:
                if H.is_serializable(s, classes):
                    if not any(a in H.mro(s, classes) for a, _ in PLAIN_ALLOWED if _ == "*"):
                        bad.append(s)
                    continue
                for n in H.PROTOCOL:
                    p = H.provider(s, n, classes)
                    if p is not None and (p, n) not in PLAIN_ALLOWED:
                        bad.append(f"{s}.{n}")
            out.append((f"{_label(root)}:and-its-subclasses:default-state-protocol", z3.BoolVal(bool(subs) and not bad)))
        sers = H.subclasses(SER, classes)
        out.append(("no-Serializable-class-uses-slots", z3.BoolVal(not any(classes[b].slots for q in sers for b in H.mro(q, classes) if b in classes))))
        return out


def instance_attributes(q, classes=None):
    """The keys the instance dictionary of a ``q`` object can get from the code of the repository: the (mangled) names bound by ``self.X = ...`` (plain,
    annotated or augmented assignment, ``with ... as self.X``, ``for self.X in``) in any method of a class of the MRO."""
    classes = classes or H.scan()
    out = set()
    for b in H.mro(q, classes):
        c = classes.get(b)
        if c is None:
            continue
        for node in ast.walk(c.node):
            if isinstance(node, ast.Attribute) and isinstance(node.ctx, ast.Store) and isinstance(node.value, ast.Name) and node.value.id == "self":
                out.add(S.mangle(c.name, node.attr))
    return out


def _facts(hyps, goal):
    return z3.Implies(z3.And(*(list(hyps) + str_lit_facts())), goal)


@register
class RestoreRecreatesWhatIsDropped(Contract):
    """For EVERY subclass of Serializable found in the source, with the exclusion set read from the real class body and the four members resolved along the real MRO:
    the members are under verified contracts, every excluded name is created again at restore (by a hook or by the overriding __setstate__: `creates` of their
    verified contracts), and the shared counters created by the before-hook are NOT excluded (they carry over as values, c20_serialization.RoundTrip)."""

    lemma = True
    targets = ()
    prop = ("C20",)

    def lemmas(self):
        classes = H.scan()
        out = []
        D1 = z3.Const("rc_dict1_member", z3.ArraySort(Str, z3.BoolSort()))
        x = K("k!rc")
        plain = []
        for q in H.subclasses(SER, classes):
            gs, ss = H.provider(q, "__getstate__", classes), H.provider(q, "__setstate__", classes)
            hb, ha = H.provider(q, BEFORE, classes), H.provider(q, AFTER, classes)
            X = H.exclusions(q, classes)
            if (gs, ss, hb, ha) == (SER,) * 4 and X == frozenset():
                plain.append(q)
                continue
            L = _label(q)
            out.append((f"{L}:__getstate__:the-verified-filter-of-Serializable", z3.BoolVal(gs == SER)))
            own = None
            if ss != SER:
                own = _c20_contract(f"{ss}.__setstate__")
                out.append((f"{L}:__setstate__:under-contract", z3.BoolVal(own is not None)))
            bc, ac = hook_contract(q, BEFORE), hook_contract(q, AFTER)
            out.append((f"{L}:hooks:under-verified-contracts", z3.BoolVal(bc is not None and ac is not None)))
            out.append((f"{L}:exclusion-set:readable", z3.BoolVal(X is not None)))
            created = tuple(before_creates(q) or ()) + tuple(after_creates(q) or ()) + tuple(getattr(own, "creates", ()) if own is not None else ())
            hyps = [D1[lit(n)] for n in created]
            attrs = instance_attributes(q, classes)
            conditional = {}
            for ct in (bc, ac, own):
                conditional.update(getattr(ct, "creates_when", {}) if ct is not None else {})
            for n in sorted(X or ()):
                if n in conditional and n not in created:
                    # re-created exactly when the original holds it: shown by a dedicated class lemma over the hook's verified contract
                    out.append((f"{L}:{n}:dropped-at-pickling:re-created-at-restore-whenever-the-original-holds-it",
                                z3.BoolVal(f"lemma:{__name__}.{conditional[n]}" in C.all_contracts())))
                    continue
                if n not in attrs:
                    # a declared name that is no attribute of the instances (e.g. an un-mangled private name): nothing is dropped under it, so nothing has to be
                    # re-created (C20 does not state that a declared exclusion must be effective, see the correction note in c20_serialization.py)
                    continue
                out.append((f"{L}:{n}:dropped-at-pickling:re-created-at-restore", _facts(hyps, D1[lit(n)])))
            if bc is not None and getattr(bc, "shared", False):
                xm = z3.ForAll([x], P.X_MEMBER[x] == member(x, sorted(X or ())))
                for n in before_creates(q):
                    out.append((f"{L}:{n}:shared-counter-carried-over-as-a-value:not-excluded", _facts([xm], z3.Not(P.X_MEMBER[lit(n)]))))
        out.append(("classes-with-the-plain-inherited-protocol:counted", z3.BoolVal(len(plain) >= 1)))
        self.plain = plain
        return out


# attributes bound to a lock by `self.X = Lock()` / `RLock()` (multiprocessing or threading): a lock cannot be pickled, so it must not be in the state
LOCK_OUT_OF_SCOPE = {
    "gemseo.caches._hdf5_file_singleton.HDF5FileSingleton": "never part of a pickled state: HDF5Cache.__getstate__ keeps four scalar entries (c20_state.GetState, clause `keys`)",
    "gemseo.utils.xdsmizer.XDSMizer": "a rendering tool, none of the objects C20 quantifies over",
}


# overriding __getstate__ methods whose verified contract pins the key set of the state (clause `keys`)
EXPLICIT_STATE_KEYS = {"gemseo.caches.hdf5_cache.HDF5Cache.__getstate__": c20_state.KEYS}


def lock_attributes(classes=None):
    """[(class, mangled attribute, factory)] for every `self.X = <lock factory>()` in a method of a class of the repository."""
    classes = classes or H.scan()
    out = []
    for q, c in sorted(classes.items()):
        mi = S.load_module(c.module)
        if mi is None:
            continue
        for node in ast.walk(c.node):
            if isinstance(node, ast.Assign) and isinstance(node.value, ast.Call) and isinstance(node.value.func, ast.Name) and not node.value.args:
                f = mi.imports.get(node.value.func.id, "")
                if f in Q.LOCK_FACTORIES:
                    for t in node.targets:
                        if isinstance(t, ast.Attribute) and isinstance(t.value, ast.Name) and t.value.id == "self":
                            out.append((q, S.mangle(c.name, t.attr), f))
    return sorted(set(out))


@register
class LocksAreExcluded(Contract):
    """pickle.dumps raises RuntimeError on a multiprocessing lock (and TypeError on a threading lock): for every class that binds an attribute to a lock and every
    subclass of it, the attribute is excluded from the state - by `_ATTR_NOT_TO_SERIALIZE` of a Serializable class or by an overriding __getstate__ under contract."""

    lemma = True
    targets = ()
    prop = ("C20",)

    def lemmas(self):
        classes = H.scan()
        out = []
        found = lock_attributes(classes)
        for q, attr, _f in found:
            if q in LOCK_OUT_OF_SCOPE:
                continue
            for s in H.subclasses(q, classes):
                if _is_abstract(classes[s]):
                    continue
                gs = H.provider(s, "__getstate__", classes)
                X = H.exclusions(s, classes)
                if gs == SER:
                    ok = X is not None and attr in X
                elif gs is not None:
                    ct = _c20_contract(f"{gs}.__getstate__", verified_only=True)
                    ok = ct is not None and attr not in EXPLICIT_STATE_KEYS.get(f"{gs}.__getstate__", (attr,))
                else:
                    ok = False
                out.append((f"{_label(s)}:{attr}:lock-not-in-the-pickled-state", z3.BoolVal(bool(ok))))
        out.append(("out-of-scope-classes-exist", z3.BoolVal(all(q in classes for q in LOCK_OUT_OF_SCOPE))))
        return out


def _is_abstract(c):
    """A class declaring an abstract method itself (cannot be instantiated)."""
    for item in c.node.body:
        if isinstance(item, ast.FunctionDef) and any(ast.unparse(d).endswith("abstractmethod") for d in item.decorator_list):
            return True
    return False


# ============================================================================ classes outside Serializable with their own state filters
# ---------------------------------------------------------------------------- CustomTqdmProgressBar: the file-like stream
PB = "gemseo.algos._progress_bars.custom_tqdm_progress_bar.CustomTqdmProgressBar"


class _PB(Contract):
    prop = ("C20",)
    self_schema = KEY
    c20b = True

    def requires(self, c):
        return axioms()


@register
class ProgressBarGetState(_PB):
    """state = a NEW dictionary with every attribute but the stream `fp`; the progress bar itself is not modified."""

    targets = (PB + ".__getstate__",)
    returns = P.DICT
    raises = {"KeyError": lambda c: z3.Not(dict0(c).has(lit("fp")))}
    drops = ("fp",)

    def ensures(self, c):
        d, r = dict0(c), c.result
        x = K("k!pg")
        return [("keys:all-attributes-but-the-stream", z3.ForAll([x], r.has(x) == z3.And(d.has(x), x != lit("fp")))),
                ("values:the-attributes", z3.ForAll([x], z3.Implies(r.has(x), r.get(x) == d.get(x)))),
                ("object-not-modified", z3.And(dict1(c).n == d.n, kept_except(c, ())[1]))]


@register
class ProgressBarSetState(_PB):
    """Every entry of the state becomes an attribute and the stream `fp` - the only attribute dropped by __getstate__ - is re-created as a NEW stream."""

    targets = (PB + ".__setstate__",)
    params = {"state": P.DICT}
    modifies = ("self",)
    creates = ("fp",)
    c20b_opaque_calls = ("tqdm.utils.DisableOnWriteError", "io.StringIO")
    c20b_opaque_facts = {"tqdm.utils.DisableOnWriteError": (lambda v: Q.is_stream(v),)}

    def ensures(self, c):
        d0, d1, st = dict0(c), dict1(c), c.old.state
        x = K("k!ps")
        return [("attributes", z3.ForAll([x], d1.has(x) == z3.Or(d0.has(x), st.has(x), x == lit("fp")))),
                ("attributes:from-the-state", z3.ForAll([x], z3.Implies(z3.And(st.has(x), x != lit("fp")), d1.get(x) == st.get(x)))),
                ("fp:re-created-as-a-stream", z3.And(d1.has(lit("fp")), Q.is_stream(d1.get(lit("fp")))))]


@register
class ProgressBarRoundTrip(Contract):
    """What __getstate__ drops is exactly what __setstate__ re-creates, every other attribute is restored (from the two contracts; restore starts from the empty
    dictionary of cls.__new__)."""

    lemma = True
    targets = ()
    prop = ("C20",)

    def lemmas(self):
        Bs, As = z3.ArraySort(Str, z3.BoolSort()), z3.ArraySort(Str, A)
        D, V, SM, SV_, D1, V1 = z3.Const("pb_d", Bs), z3.Const("pb_v", As), z3.Const("pb_sm", Bs), z3.Const("pb_sv", As), z3.Const("pb_d1", Bs), z3.Const("pb_v1", As)
        x = K("k!pr")
        fp = lit("fp")
        hyps = [z3.ForAll([x], SM[x] == z3.And(D[x], x != fp)), z3.ForAll([x], z3.Implies(SM[x], SV_[x] == V[x])),
                z3.ForAll([x], D1[x] == z3.Or(SM[x], x == fp)), z3.ForAll([x], z3.Implies(z3.And(SM[x], x != fp), V1[x] == SV_[x])), D[fp]]
        return [("round-trip:same-attributes", _facts(hyps, D1[x] == D[x])),
                ("round-trip:same-values-but-the-stream", _facts(hyps, z3.Implies(z3.And(D[x], x != fp), V1[x] == V[x]))),
                ("dropped-names-are-the-re-created-names", z3.BoolVal(set(ProgressBarGetState.drops) == set(ProgressBarSetState.creates)))]


# ---------------------------------------------------------------------------- DisciplineData: a dict subclass; paths are made OS-specific
DD = "gemseo.core.discipline.discipline_data.DisciplineData"
DDKEY = "c20:dict-subclass"  # the instance IS a dictionary: its content is the field `__items__` (pyvc/plug_c20b.py)
C.schema(DDKEY, {"__items__": P.DICT})


def items0(c):
    return c.old.self.__getattr__("__items__")


def items1(c):
    return c.new.self.__getattr__("__items__")


def enc_path(v):
    """What is pickled for an item: an OS-specific pure path for a Path, else the value (no Synchronized handling here)."""
    return z3.If(P.is_path(v), P.os_specific(v), v)


def _dd_getstate_inv(c, k):
    d, st = items0(c), c.locals["state"]
    x = K("k!dgi")
    return [("keys", z3.ForAll([x], st.has(x) == d.has(x))), ("size", st.n == d.n),
            ("values", z3.ForAll([x], z3.Implies(d.has(x), st.get(x) == z3.If(c.seq.pos[x] < k, enc_path(d.get(x)), d.get(x)))))]


class _DD(Contract):
    prop = ("C20",)
    self_schema = DDKEY
    c20b = True

    def requires(self, c):
        return axioms()


@register
class DisciplineDataGetState(_DD):
    """state = a NEW dictionary with the same keys, every Path replaced by its OS-specific pure path; the data themselves are not modified."""

    targets = (DD + ".__getstate__",)
    returns = P.DICT
    loops = {0: B.LoopSpec(anchor="self.items()", inv=_dd_getstate_inv, modifies=("state",), local_types={"state": P.DICT})}

    def ensures(self, c):
        d, r = items0(c), c.result
        x = K("k!dg")
        return [("keys:same", z3.ForAll([x], r.has(x) == d.has(x))), ("size", r.n == d.n),
                ("values:encoded", z3.ForAll([x], z3.Implies(d.has(x), r.get(x) == enc_path(d.get(x))))),
                ("data-not-modified", z3.And(items1(c).n == d.n, z3.ForAll([x], z3.And(items1(c).has(x) == d.has(x), items1(c).get(x) == d.get(x)))))]


def _dd_setstate_inv(c, k):
    d0, d1, st = items0(c), items1(c), c.old.state
    x = K("k!dsi")
    return [("keys", z3.ForAll([x], d1.has(x) == z3.Or(d0.has(x), st.has(x)))),
            ("values:state", z3.ForAll([x], z3.Implies(st.has(x), d1.get(x) == z3.If(c.seq.pos[x] < k, B.dec(st.get(x)), st.get(x))))),
            ("values:others", z3.ForAll([x], z3.Implies(z3.And(d0.has(x), z3.Not(st.has(x))), d1.get(x) == d0.get(x))))]


@register
class DisciplineDataSetState(_DD):
    """Every item of the state is an item of the restored data, pure paths being turned into Paths again; the state is not modified."""

    targets = (DD + ".__setstate__",)
    params = {"state": P.DICT}
    modifies = ("self",)
    loops = {0: B.LoopSpec(anchor="state.items()", inv=_dd_setstate_inv, modifies=("self",))}

    def ensures(self, c):
        d0, d1, st = items0(c), items1(c), c.old.state
        x = K("k!ds")
        return [("keys", z3.ForAll([x], d1.has(x) == z3.Or(d0.has(x), st.has(x)))),
                ("values:decoded-state", z3.ForAll([x], z3.Implies(st.has(x), d1.get(x) == B.dec(st.get(x))))),
                ("values:others-kept", z3.ForAll([x], z3.Implies(z3.And(d0.has(x), z3.Not(st.has(x))), d1.get(x) == d0.get(x))))]


@register
class DisciplineDataRoundTrip(Contract):
    """dec(enc(data)) == data item by item (same-platform path round trip assumed, as in c20_serialization.RoundTrip).  pickle restores a dict subclass by
    setting its items first and calling __setstate__ afterwards: both from the empty data and from the already re-filled data the result is the original."""

    lemma = True
    targets = ()
    prop = ("C20",)

    def lemmas(self):
        Bs, As = z3.ArraySort(Str, z3.BoolSort()), z3.ArraySort(Str, A)
        D, V, SM, SV_, D0, V0, D1, V1 = (z3.Const(n, s) for n, s in (("dd_d", Bs), ("dd_v", As), ("dd_sm", Bs), ("dd_sv", As), ("dd_d0", Bs), ("dd_v0", As), ("dd_d1", Bs), ("dd_v1", As)))
        x = K("k!dr")
        v = z3.Const("v!dr", A)
        hyps = P.kind_axioms() + [
            z3.ForAll([x], SM[x] == D[x]), z3.ForAll([x], z3.Implies(D[x], SV_[x] == enc_path(V[x]))),  # DisciplineDataGetState
            z3.ForAll([x], D1[x] == z3.Or(D0[x], SM[x])), z3.ForAll([x], z3.Implies(SM[x], V1[x] == B.dec(SV_[x]))),  # DisciplineDataSetState
            z3.ForAll([x], z3.Implies(D0[x], D[x])),  # the data __setstate__ starts from: empty, or the pickled items (a subset of the original keys)
            z3.ForAll([v], z3.Implies(P.is_path(v), P.to_path(P.os_specific(v)) == v)),
            z3.ForAll([x], z3.Implies(z3.And(D[x], P.is_purepath(V[x])), P.is_path(V[x]))),
        ]
        return [("round-trip:same-keys", z3.Implies(z3.And(*hyps), D1[x] == D[x])),
                ("round-trip:same-values", z3.Implies(z3.And(*hyps), z3.Implies(D[x], V1[x] == V[x])))]


# ---------------------------------------------------------------------------- PydanticGrammar: a model class created at run time is pickled as its fields
PG = "gemseo.core.grammars.pydantic_grammar.PydanticGrammar"
PG_MODEL, PG_FLAG = "_PydanticGrammar__model", "_PydanticGrammar__model_needs_rebuild"


def fields0(c):
    return c.old_ghost("pg_fields", Q.FieldsHeap)


def fields1(c):
    return c.new_ghost("pg_fields", Q.FieldsHeap)


class _PG(Contract):
    prop = ("C20",)
    self_schema = KEY
    self_class = PG
    c20b = True

    def requires(self, c):
        return axioms()


@register
class PGRebuildModel(_PG):
    targets = (PG + ".__rebuild_model",)
    modifies = ("self",)
    trusted = True
    description = ("assumed (pydantic): __rebuild_model needs the attributes __model and __model_needs_rebuild, rebuilds the model class IN PLACE (same class object, same "
                   "model_fields) and only re-binds the flag __model_needs_rebuild")

    def requires(self, c):
        return [(f"attribute-exists:{n}", dict0(c).has(lit(n))) for n in (PG_MODEL, PG_FLAG)]

    def ensures(self, c):
        return [kept_except(c, (PG_FLAG,)), ("flag-exists", dict1(c).has(lit(PG_FLAG))), ("size", dict1(c).n == dict0(c).n)]


@register
class PGClear(_PG):
    targets = (PG + "._clear",)
    modifies = ("self", "ghost:pg_fields")
    trusted = True
    description = ("assumed (pydantic create_model): _clear binds __model to a NEW model class created at run time (marked __internal__) and __model_needs_rebuild to False; "
                   "no other attribute and no field mapping of an existing model changes")

    def ensures(self, c):
        d1 = dict1(c)
        m = d1.get(lit(PG_MODEL))
        v = z3.Const("v!pc", A)
        return [kept_except(c, (PG_MODEL, PG_FLAG)), ("model:new-runtime-class", z3.And(d1.has(lit(PG_MODEL)), d1.has(lit(PG_FLAG)), Q.pg_is_class(m), Q.pg_runtime(m))),
                ("fields-of-other-models-kept", z3.ForAll([v], z3.Implies(v != m, fields1(c)[v] == fields0(c)[v])))]


@register
class PGGetState(_PG):
    """state = a NEW dictionary with every attribute; a model class created at run time (not picklable) is replaced by its fields; only the rebuild flag of the grammar may change."""

    targets = (PG + ".__getstate__",)
    returns = P.DICT
    modifies = ("self",)

    def requires(self, c):
        return axioms() + [(f"constructed:{n}", dict0(c).has(lit(n))) for n in (PG_MODEL, PG_FLAG)]

    def ensures(self, c):
        d0, d1, r = dict0(c), dict1(c), c.result
        x = K("k!pgg")
        m = d0.get(lit(PG_MODEL))
        return [("keys:every-attribute", z3.ForAll([x], r.has(x) == d0.has(x))),
                ("values:the-current-attributes", z3.ForAll([x], z3.Implies(z3.And(r.has(x), x != lit(PG_MODEL)), r.get(x) == d1.get(x)))),
                ("model:runtime-class-replaced-by-its-fields", r.get(lit(PG_MODEL)) == z3.If(Q.pg_runtime(m), fields0(c)[m], m)),
                ("object:only-the-rebuild-flag-may-change", kept_except(c, (PG_FLAG,))[1]),
                ("fields-unchanged", fields1(c) == fields0(c))]


@register
class PGSetState(_PG):
    """Every entry of the state becomes an attribute; when the model entry is a fields mapping, a NEW run-time model class with exactly these fields is created."""

    targets = (PG + ".__setstate__",)
    params = {"state": P.DICT}
    modifies = ("self", "ghost:pg_fields")
    raises = {"AttributeError": lambda c: z3.And(z3.Not(dict0(c).has(lit(PG_MODEL))), z3.Not(c.old.state.has(lit(PG_MODEL))))}

    def ensures(self, c):
        d0, d1, st = dict0(c), dict1(c), c.old.state
        x = K("k!pgs")
        sm = z3.If(st.has(lit(PG_MODEL)), st.get(lit(PG_MODEL)), d0.get(lit(PG_MODEL)))
        m1 = d1.get(lit(PG_MODEL))
        special = z3.Or(x == lit(PG_MODEL), x == lit(PG_FLAG))
        return [("attributes", z3.ForAll([x], z3.Implies(z3.Not(special), d1.has(x) == z3.Or(d0.has(x), st.has(x))))),
                ("attributes:from-the-state", z3.ForAll([x], z3.Implies(z3.And(st.has(x), z3.Not(special)), d1.get(x) == st.get(x)))),
                ("model:a-pickled-class-is-kept", z3.Implies(Q.pg_is_class(sm), m1 == sm)),
                ("model:rebuilt-from-the-pickled-fields", z3.Implies(z3.Not(Q.pg_is_class(sm)), z3.And(d1.has(lit(PG_MODEL)), Q.pg_is_class(m1), Q.pg_runtime(m1), fields1(c)[m1] == sm)))]


@register
class PGRoundTrip(Contract):
    """The restored grammar has the original's attributes, the same model class when it is an importable one, else a new run-time model with the original's fields.
    Class invariant used: `__model` is a model class and a fields mapping is no model class.  `f"_{self.__class__.__name__}__model"` is the mangled attribute name only
    for PydanticGrammar itself: no class of the repository derives from it (checked)."""

    lemma = True
    targets = ()
    prop = ("C20",)

    def lemmas(self):
        m0, sm, m1 = z3.Const("pg_m0", A), z3.Const("pg_sm", A), z3.Const("pg_m1", A)
        F0, F1 = z3.Const("pg_f0", Q.FieldsHeap), z3.Const("pg_f1", Q.FieldsHeap)
        hyps = [sm == z3.If(Q.pg_runtime(m0), F0[m0], m0),  # PGGetState
                z3.Implies(Q.pg_is_class(sm), m1 == sm), z3.Implies(z3.Not(Q.pg_is_class(sm)), z3.And(Q.pg_is_class(m1), Q.pg_runtime(m1), F1[m1] == sm)),  # PGSetState
                Q.pg_is_class(m0), z3.Not(Q.pg_is_class(F0[m0]))]  # class invariant
        H_ = z3.And(*hyps)
        return [("round-trip:importable-model-kept", z3.Implies(H_, z3.Implies(z3.Not(Q.pg_runtime(m0)), m1 == m0))),
                ("round-trip:runtime-model-rebuilt-with-the-same-fields", z3.Implies(H_, z3.Implies(Q.pg_runtime(m0), z3.And(Q.pg_is_class(m1), Q.pg_runtime(m1), F1[m1] == F0[m0])))),
                ("no-subclass-in-the-repository", z3.BoolVal(H.subclasses(PG) == [PG]))]


def shared_cell_attributes(q, classes=None):
    """(mangled) attributes bound to ``multiprocessing.Value(...)`` (possibly through ``cast(type, Value(...))``) in a method of a class of the MRO of ``q``."""
    classes = classes or H.scan()
    out = set()
    for b in H.mro(q, classes):
        c = classes.get(b)
        mi = S.load_module(c.module) if c is not None else None
        if mi is None:
            continue
        for node in ast.walk(c.node):
            if not isinstance(node, ast.Assign):
                continue
            v = node.value
            if isinstance(v, ast.Call) and isinstance(v.func, ast.Name) and v.func.id == "cast" and len(v.args) == 2:
                v = v.args[1]
            if isinstance(v, ast.Call) and isinstance(v.func, ast.Name) and mi.imports.get(v.func.id) == "multiprocessing.Value":
                for t in node.targets:
                    if isinstance(t, ast.Attribute) and isinstance(t.value, ast.Name) and t.value.id == "self":
                        out.add(S.mangle(c.name, t.attr))
    return out


@register
class SharedCellsAreRecreated(Contract):
    """Class well-formedness assumed by c20_serialization.RoundTrip, checked class by class on the real source: every attribute a Serializable class binds to a
    multiprocessing.Value is (re)created by one of its hooks (so that the restored object gets its OWN shared cell holding the pickled value)."""

    lemma = True
    targets = ()
    prop = ("C20",)

    def lemmas(self):
        classes = H.scan()
        out = []
        for q in H.subclasses(SER, classes):
            cells = shared_cell_attributes(q, classes)
            if not cells:
                continue
            created = set(before_creates(q) or ()) | set(after_creates(q) or ())
            for n in sorted(cells):
                out.append((f"{_label(q)}:{n}:shared-cell-re-created-by-a-hook", z3.BoolVal(n in created)))
        out.append(("the-scan-sees-the-known-shared-cells", z3.BoolVal("_n_calls" in shared_cell_attributes("gemseo.algos.problem_function.ProblemFunction", classes))))
        return out


def stores_of(cls, attr):
    """The methods of ``cls`` (real source) that bind ``self.<attr>`` (mangled name)."""
    ci = S.load_class(cls)
    out = set()
    for name, nodes in ci.methods.items():
        for fn in nodes:
            for node in ast.walk(fn):
                if isinstance(node, ast.Attribute) and isinstance(node.ctx, ast.Store) and isinstance(node.value, ast.Name) and node.value.id == "self" \
                        and S.mangle(ci.name, node.attr) == attr:
                    out.add(name)
    return out


@register
class DirectoryCreatorLock(Contract):
    """(a94ccfa) `__lock` - the only excluded attribute - is re-created at restore whenever the original holds it.  Class invariant, from the real source: `__lock` is
    only bound by _init_shared_memory_attrs_after (NUMBERED branch, contract DCHookAfter), which __init__ calls after binding `__directory_naming_method`, the latter
    being bound nowhere else: an object holding a lock has the NUMBERED naming method.  The naming method is not excluded, so the restored object has the same one
    (c20_serialization.SetState) when the hook runs, and DCHookAfter then gives a NEW lock."""

    lemma = True
    targets = ()
    prop = ("C20",)

    def lemmas(self):
        Bs, As = z3.ArraySort(Str, z3.BoolSort()), z3.ArraySort(Str, A)
        D, V, DS, VS, D1, V1 = (z3.Const(n, s) for n, s in (("dl_d", Bs), ("dl_v", As), ("dl_ds", Bs), ("dl_vs", As), ("dl_d1", Bs), ("dl_v1", As)))
        ctr0 = z3.Int("dl_lock_ctr0")
        method, lock = lit(DC_METHOD), lit(DC_LOCK)
        numbered = lambda v: v == Q.attr_of_str(lit("NUMBERED"))  # noqa: E731
        X = H.exclusions(DC)
        fi = S.load_function(DC + ".__init__")
        body = [ast.unparse(st) for st in fi.node.body]
        i_m = next((i for i, t in enumerate(body) if t.startswith("self.__directory_naming_method =")), None)
        i_h = next((i for i, t in enumerate(body) if t == f"self.{AFTER}()"), None)
        hyps = Q.kind_axioms() + P.kind_axioms() + [
            z3.Implies(D[lock], z3.And(D[method], numbered(V[method]))),  # class invariant of the original
            z3.And(DS[method] == D[method], VS[method] == B.dec(B.enc(V[method], z3.Const("dl_sync", P.SyncHeap)))),  # the naming method goes through the state (not excluded)
            z3.Implies(z3.And(DS[method], numbered(VS[method])), z3.And(D1[lock], Q.is_lock(V1[lock]), Q.lock_id(V1[lock]) > ctr0)),  # DCHookAfter on the restored attributes
            z3.Implies(z3.And(D[lock], Q.is_lock(V[lock])), Q.lock_id(V[lock]) <= ctr0),  # the locks of the original exist before the restore
        ]
        return [
            ("exclusion-set:the-lock-only", z3.BoolVal(X == frozenset({DC_LOCK}))),
            ("invariant:the-lock-is-only-bound-by-the-after-hook", z3.BoolVal(stores_of(DC, DC_LOCK) == {AFTER})),
            ("invariant:the-naming-method-is-only-bound-by-__init__-before-the-hook-call", z3.BoolVal(stores_of(DC, DC_METHOD) == {"__init__"} and i_m is not None and i_h is not None and i_m < i_h)),
            ("lock:re-created-whenever-the-original-holds-one", _facts(hyps, z3.Implies(D[lock], D1[lock]))),
            ("lock:the-restored-lock-is-not-the-original-one", _facts(hyps, z3.Implies(z3.And(D[lock], Q.is_lock(V[lock])), V1[lock] != V[lock]))),
        ]
