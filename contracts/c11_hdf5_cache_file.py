"""C05 / C11 - the HDF5 cache file returns what was written to it (gemseo.caches._hdf5_file_singleton.HDF5FileSingleton).

Abstract model (pyvc/plug_hdf.py, second part): an *entry group* of the cache file is a map from names to datasets; a dataset
has a content and attributes (assumed h5py contracts A4, A16).  A SciPy sparse array is modelled abstractly by
(format tag, data, indices, indptr, shape); ``mat(v)`` is the matrix it denotes, whatever its format.  ASSUMED contract on scipy
(S1-S4 in the plugin, validated natively by tools/validate_h5py_model.py):
  S1 ``v.tocsr()`` is a CSR array denoting the same matrix;  S2 a CSR array denotes ``csr_den(data, indices, indptr, shape)``;
  S3 ``csr_array((data, indices, indptr), shape)`` is the CSR array with these components;  S4 ``hasattr(v, "indptr")`` depends on
  the format only and holds for CSR (and for CSC/BSR).

The file stores a sparse value as a CSR triple (``__read_sparse_array`` rebuilds ``csr_array((data, indices, indptr), shape)``), hence
the WRITER must store the CSR triple **of the matrix**: ``csr_den(stored data, indices, indptr, shape) == mat(value)`` for a value
of ANY format.  Round trip (``SparseRoundTrip``): the value read back denotes the same matrix as the value written.
"""
from __future__ import annotations

import z3

from pyvc import plug_hdf as H
from pyvc.contract import Contract, LoopSpec, register, schema
from pyvc.plug_hdf import ATTRS, EAT, EDS, GROUP, TDsetHandle
from pyvc.values import StrS, TObj, TStr, TVal, ValS, str_lit

SING = "gemseo.caches._hdf5_file_singleton.HDF5FileSingleton"
schema(SING + "#c11", {})
schema(GROUP + "#e", {"ds": EDS, "attrs": EAT})
GE = TObj(GROUP, schema_key=GROUP + "#e")
A_SPARSE, A_INDICES, A_INDPTR, A_SHAPE = (str_lit(s) for s in ("sparse", "indices", "indptr", "shape"))


def attr_has(at, name, key):
    return ATTRS.acc(0)(at.get(name))[key]


def attr_val(at, name, key):
    return ATTRS.acc(1)(at.get(name))[key]


def stored_matrix(ds, at, name):
    """The matrix denoted by the CSR triple stored under ``name`` (what __read_sparse_array rebuilds)."""
    return H.csr_den(ds.get(name), attr_val(at, name, A_INDICES), attr_val(at, name, A_INDPTR), attr_val(at, name, A_SHAPE))


def is_sparse_dataset(ds, at, name):
    return z3.And(ds.has(name), attr_has(at, name, A_SPARSE), H.val_truthy(attr_val(at, name, A_SPARSE)),
                  attr_has(at, name, A_INDICES), attr_has(at, name, A_INDPTR), attr_has(at, name, A_SHAPE))


@register
class WriteSparseArray(Contract):
    """The dataset ``dataset_name`` is created, flagged sparse, and holds the CSR triple OF THE MATRIX denoted by ``value`` -
    for a value of any sparse format; every other dataset (content and attributes) is unchanged; ValueError iff the name exists."""

    targets = (SING + ".__write_sparse_array",)
    prop = ("C05", "C11")
    self_schema = SING + "#c11"
    params = {"group": GE, "dataset_name": TStr, "value": TVal}
    modifies = ("group",)
    raises = {"ValueError": lambda c: c.old.group.ds.has(c.old.dataset_name)}

    def requires(self, c):
        # call site (write_data): isinstance(value, sparse_classes)
        return [("value-is-a-sparse-array", H.is_sparse(c.old.value))]

    def ensures(self, c):
        g0, g1 = c.old.group, c.new.group
        nm, v = c.old.dataset_name, c.old.value
        s = z3.Const("s!ws", StrS)
        return [
            ("stored-as-sparse-dataset", is_sparse_dataset(g1.ds, g1.attrs, nm)),
            # the clause a format-dependent shortcut breaks: the stored triple must be the CSR triple of the matrix
            ("stored-triple-is-the-csr-triple-of-the-matrix", stored_matrix(g1.ds, g1.attrs, nm) == H.sp_mat(v)),
            ("datasets", z3.ForAll([s], g1.ds.has(s) == z3.Or(g0.ds.has(s), s == nm))),
            ("other-datasets-unchanged", z3.ForAll([s], z3.Implies(s != nm, z3.And(g1.ds.get(s) == g0.ds.get(s), g1.attrs.get(s) == g0.attrs.get(s))))),
        ]


@register
class ReadSparseArray(Contract):
    """Returns the CSR array built from the stored components: it denotes ``csr_den(content, indices, indptr, shape)``; the file is
    not modified.  (TypeError when a component attribute is missing: not a dataset written by __write_sparse_array.)"""

    targets = (SING + ".__read_sparse_array",)
    prop = ("C05", "C11")
    self_schema = SING + "#c11"
    params = {"dataset": TDsetHandle}
    returns = TVal

    def _where(self, c):
        h = c.old.dataset.obj
        grp = C_view(c, h.parent)
        return grp.ds, grp.attrs, h.name

    def requires(self, c):
        ds, at, nm = self._where(c)
        # call site (read_data): the `sparse` flag is set, i.e. the dataset was written by __write_sparse_array
        return [("written-as-sparse-dataset", is_sparse_dataset(ds, at, nm))]

    def ensures(self, c):
        ds, at, nm = self._where(c)
        r = c.result
        return [("is-a-csr-array", z3.And(H.is_sparse(r), H.sp_fmt(r) == H.FMT_CSR)),
                ("denotes-the-stored-matrix", H.sp_mat(r) == stored_matrix(ds, at, nm))]


def C_view(c, ref):
    from pyvc import contract as C

    return C.View(c._old_heap, ref, c.st)


@register
class SparseRoundTrip(Contract):
    """Lemma over the two contracts: what __read_sparse_array returns for a dataset written by __write_sparse_array denotes the
    matrix that was written (equality AS MATRICES), whatever the format of the written value."""

    targets = ()
    prop = ("C05", "C11")
    lemma = True

    def lemmas(self):
        v, r, d, i, p, s = (z3.Const(n, ValS) for n in ("v", "r", "d", "i", "p", "s"))
        write_post = H.csr_den(d, i, p, s) == H.sp_mat(v)
        read_post = z3.And(H.is_sparse(r), H.sp_fmt(r) == H.FMT_CSR, H.sp_mat(r) == H.csr_den(d, i, p, s))
        return [("read(write(v))-is-the-same-matrix", z3.Implies(z3.And(write_post, read_post), H.sp_mat(r) == H.sp_mat(v)))]
