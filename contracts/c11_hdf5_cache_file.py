"""C05 / C11 - the HDF5 cache file returns what was written to it (gemseo.caches._hdf5_file_singleton.HDF5FileSingleton).

Abstract model (pyvc/plug_hdf.py, second part): an *entry group* of the cache file is a map from names to datasets; a dataset
has a content and attributes (assumed h5py contracts A4, A16).  A SciPy sparse array is modelled abstractly by
(format tag, data, indices, indptr, shape); ``mat(v)`` is the matrix it denotes, whatever its format.  ASSUMED contract on scipy
(S1-S4 in the plugin, validated natively by tools/validate_h5py_model.py):
  S1 ``v.tocsr()`` is a CSR array denoting the same matrix;  S2 a CSR array denotes ``csr_den(data, indices, indptr, shape)``;
  S3 ``csr_array((data, indices, indptr), shape)`` is the CSR array with these components;  S4 ``hasattr(v, "indptr")`` depends on
  the format only and holds for CSR (and for CSC/BSR).

The file stores a sparse value as a CSR triple (``__read_sparse_array`` rebuilds ``csr_array((data, indices, indptr), shape)``), hence
the WRITER must store the CSR triple **of the matrix**: ``csr_den(stored data, indices, indptr, shape) == mat(value)`` for a value
of ANY format.  Round trip (``SparseRoundTrip``): the value read back denotes the same matrix as the value written.
"""
from __future__ import annotations

import z3

from pyvc import plug_hdf as H
from pyvc.contract import Contract, LoopSpec, register, schema
from pyvc.plug_hdf import ATTRS, EAT, EDS, GROUP, TDsetHandle
from pyvc.values import StrS, TAddr, TObj, TStr, TVal, ValS, str_lit

SING = "gemseo.caches._hdf5_file_singleton.HDF5FileSingleton"
schema(SING + "#c11", {})
schema(GROUP + "#e", {"ds": EDS, "attrs": EAT})
GE = TObj(GROUP, schema_key=GROUP + "#e")
A_SPARSE, A_INDICES, A_INDPTR, A_SHAPE = (str_lit(s) for s in ("sparse", "indices", "indptr", "shape"))


def attr_has(at, name, key):
    return ATTRS.acc(0)(at.get(name))[key]


def attr_val(at, name, key):
    return ATTRS.acc(1)(at.get(name))[key]


def stored_matrix(ds, at, name):
    """The matrix denoted by the CSR triple stored under ``name`` (what __read_sparse_array rebuilds)."""
    return H.csr_den(ds.get(name), attr_val(at, name, A_INDICES), attr_val(at, name, A_INDPTR), attr_val(at, name, A_SHAPE))


def is_sparse_dataset(ds, at, name):
    return z3.And(ds.has(name), attr_has(at, name, A_SPARSE), H.val_truthy(attr_val(at, name, A_SPARSE)),
                  attr_has(at, name, A_INDICES), attr_has(at, name, A_INDPTR), attr_has(at, name, A_SHAPE))


@register
class WriteSparseArray(Contract):
    """The dataset ``dataset_name`` is created, flagged sparse, and holds the CSR triple OF THE MATRIX denoted by ``value`` -
    for a value of any sparse format; every other dataset (content and attributes) is unchanged; ValueError iff the name exists."""

    targets = (SING + ".__write_sparse_array",)
    prop = ("C05", "C11")
    self_schema = SING + "#c11"
    params = {"group": GE, "dataset_name": TStr, "value": TVal}
    modifies = ("group",)
    raises = {"ValueError": lambda c: c.old.group.ds.has(c.old.dataset_name)}

    def requires(self, c):
        # call site (write_data): isinstance(value, sparse_classes)
        return [("value-is-a-sparse-array", H.is_sparse(c.old.value))]

    def ensures(self, c):
        g0, g1 = c.old.group, c.new.group
        nm, v = c.old.dataset_name, c.old.value
        s = z3.Const("s!ws", StrS)
        return [
            ("stored-as-sparse-dataset", is_sparse_dataset(g1.ds, g1.attrs, nm)),
            # the clause a format-dependent shortcut breaks: the stored triple must be the CSR triple of the matrix
            ("stored-triple-is-the-csr-triple-of-the-matrix", stored_matrix(g1.ds, g1.attrs, nm) == H.sp_mat(v)),
            ("datasets", z3.ForAll([s], g1.ds.has(s) == z3.Or(g0.ds.has(s), s == nm))),
            ("one-more-dataset", g1.ds.n == g0.ds.n + 1),
            ("other-datasets-unchanged", z3.ForAll([s], z3.Implies(s != nm, z3.And(g1.ds.get(s) == g0.ds.get(s), g1.attrs.get(s) == g0.attrs.get(s))))),
        ]


@register
class ReadSparseArray(Contract):
    """Returns the CSR array built from the stored components: it denotes ``csr_den(content, indices, indptr, shape)``; the file is
    not modified.  (TypeError when a component attribute is missing: not a dataset written by __write_sparse_array.)"""

    targets = (SING + ".__read_sparse_array",)
    prop = ("C05", "C11")
    self_schema = SING + "#c11"
    params = {"dataset": TDsetHandle}
    returns = TAddr("arr", TVal)
    modifies = ("heap:arr",)

    def _where(self, c):
        h = c.old.dataset.obj
        grp = C_view(c, h.parent)
        return grp.ds, grp.attrs, h.name

    def requires(self, c):
        ds, at, nm = self._where(c)
        # call site (read_data): the `sparse` flag is set, i.e. the dataset was written by __write_sparse_array
        return [("dataset-exists", ds.has(nm)),
                ("flagged-sparse", z3.And(attr_has(at, nm, A_SPARSE), H.val_truthy(attr_val(at, nm, A_SPARSE)))),
                ("csr-components-present", z3.And(attr_has(at, nm, A_INDICES), attr_has(at, nm, A_INDPTR), attr_has(at, nm, A_SHAPE)))]

    def ensures(self, c):
        ds, at, nm = self._where(c)
        h0, h1 = c.old_sym("arr", ValS), c.new_sym("arr", ValS)
        a = z3.Int("a!rs")
        r = h1[c.result]
        return [("is-a-new-csr-array", z3.And(c.result > c.old_ctr, c.result <= c.new_ctr, H.is_sparse(r), H.sp_fmt(r) == H.FMT_CSR,
                                              z3.Not(H.np_dtype_is_bytes(r)), z3.Not(H.np_dtype_is_str(r)))),
                ("denotes-the-stored-matrix", H.sp_mat(r) == stored_matrix(ds, at, nm)),
                ("has-the-stored-shape", H.sp_shape(r) == attr_val(at, nm, A_SHAPE)),
                ("heap-preserved", z3.And(c.new_ctr >= c.old_ctr, z3.ForAll([a], z3.Implies(a <= c.old_ctr, h1[a] == h0[a]))))]


def C_view(c, ref):
    from pyvc import contract as C

    return C.View(c._old_heap, ref, c.st)


@register
class SparseRoundTrip(Contract):
    """Lemma over the two contracts: what __read_sparse_array returns for a dataset written by __write_sparse_array denotes the
    matrix that was written (equality AS MATRICES), whatever the format of the written value."""

    targets = ()
    prop = ("C05", "C11")
    lemma = True

    def lemmas(self):
        v, r, d, i, p, s = (z3.Const(n, ValS) for n in ("v", "r", "d", "i", "p", "s"))
        write_post = H.csr_den(d, i, p, s) == H.sp_mat(v)
        read_post = z3.And(H.is_sparse(r), H.sp_fmt(r) == H.FMT_CSR, H.sp_mat(r) == H.csr_den(d, i, p, s))
        return [("read(write(v))-is-the-same-matrix", z3.Implies(z3.And(write_post, read_post), H.sp_mat(r) == H.sp_mat(v)))]


# =============================================================================== write_data / read_data over the whole cache file
from pyvc import contract as C  # noqa: E402
from pyvc.plug_hdf import CFILE_SCHEMA, sidx  # noqa: E402
from pyvc.values import TBool, TInt, forall_pat as FA  # noqa: E402

from contracts.c05_caches import ARR, DATA, allocated, cont, hashf, heap_preserved, kq  # noqa: E402
from contracts import c05_full_cache as _FC  # noqa: E402,F401  (HashData: the assumed contract of hash_data used at the call site)

schema(GROUP + "#cfile", CFILE_SCHEMA)
CFILE = TObj(GROUP, schema_key=GROUP + "#cfile")
schema(SING + "#file", {"_HDF5FileSingleton__file": CFILE, "hdf_file_path": TStr})
FILE_F = "_HDF5FileSingleton__file"


class CF:
    """Specification view of the cache file in the entry (old) or exit/current (new) state."""

    def __init__(self, c, which="old"):
        f = getattr(getattr(c, which).self, FILE_F)
        self.f = f
        self.node, self.nmem = f.node, f.nmem
        self.ents, self.hashes, self.grps, self.gds, self.gat = f.ents, f.hashes, f.grps, f.gds, f.gat
        self.heap = c.old_sym("arr", ValS) if which == "old" else c.new_sym("arr", ValS)

    def has_grp(self, p):
        return self.grps.member[p]

    def ds_mem(self, p):
        return EDS.acc(0)(self.gds.vals[p])

    def ds_val(self, p):
        return EDS.acc(1)(self.gds.vals[p])

    def ds_n(self, p):
        return EDS.acc(2)(self.gds.vals[p])

    def at(self, p, name):
        return EAT.acc(1)(self.gat.vals[p])[name]

    def a_has(self, p, name, key):
        return ATTRS.acc(0)(self.at(p, name))[key]

    def a_val(self, p, name, key):
        return ATTRS.acc(1)(self.at(p, name))[key]

    def flagged(self, p, name):
        """What read_data tests: ``dataset.attrs.get("sparse")`` is truthy."""
        return z3.And(self.a_has(p, name, A_SPARSE), H.val_truthy(self.a_val(p, name, A_SPARSE)))

    def sparse_ok(self, p, name):
        return z3.And(self.flagged(p, name), self.a_has(p, name, A_INDICES), self.a_has(p, name, A_INDPTR), self.a_has(p, name, A_SHAPE))

    def matrix(self, p, name):
        return H.csr_den(self.ds_val(p)[name], self.a_val(p, name, A_INDICES), self.a_val(p, name, A_INDPTR), self.a_val(p, name, A_SHAPE))


def encodes(F: CF, p, name, content):
    """The dataset ``name`` of the entry group p encodes the array ``content`` (what write_data must establish):
    str arrays as bytes, sparse arrays as the CSR triple of their matrix (flagged), anything else as is (not flagged)."""
    d = F.ds_val(p)[name]
    return z3.If(H.np_dtype_is_str(content), z3.And(d == H.np_to_bytes(content), z3.Not(F.flagged(p, name))),
                 z3.If(H.is_sparse(content), z3.And(F.sparse_ok(p, name), F.matrix(p, name) == H.sp_mat(content)),
                       z3.And(d == content, z3.Not(F.flagged(p, name)))))


def decodes(F: CF, p, name, content):
    """``content`` is what read_data returns for the dataset: the CSR array of the stored triple if flagged, else the stored array,
    converted to str if it is a bytes array."""
    d = F.ds_val(p)[name]
    return z3.If(F.flagged(p, name), z3.And(H.is_sparse(content), H.sp_fmt(content) == H.FMT_CSR, H.sp_mat(content) == F.matrix(p, name)),
                 z3.If(H.np_dtype_is_bytes(d), content == H.np_to_str(d), content == d))


def file_wf(F: CF):
    """Well-formedness of a file written by write_data: a dataset flagged sparse carries the three CSR component attributes;
    groups belong to entries."""
    p, s = z3.Const("p!fw", StrS), z3.Const("s!fw", StrS)
    return [("wf:flagged-datasets-carry-the-csr-components", FA([p, s], z3.Implies(z3.And(F.has_grp(p), F.ds_mem(p)[s], F.flagged(p, s)), F.sparse_ok(p, s)), F.ds_mem(p)[s])),
            ("wf:groups-belong-to-entries", FA([p], z3.Implies(F.has_grp(p), F.ents.member[H.h5_path_e(p)]), F.grps.member[p])),
            ("wf:node", z3.Implies(z3.Not(F.node), z3.ForAll([s], z3.Not(F.ents.member[s]))))]


def _cpath(c):
    return H.h5_path(sidx(c.old.index), sterm(c.old.group))


def sterm(x):
    return str_lit(x) if isinstance(x, str) else x


def others_kept(F0: CF, F1: CF, p):
    q = z3.Const("q!ok", StrS)
    return z3.ForAll([q], z3.Implies(q != p, z3.And(F1.has_grp(q) == F0.has_grp(q), F1.gds.vals[q] == F0.gds.vals[q], F1.gat.vals[q] == F0.gat.vals[q])))


def _entry_facts(c, F0, F1):
    """Effect of the prelude of write_data on the entries and their hash datasets."""
    me = sidx(c.old.index)
    s = z3.Const("s!ef", StrS)
    return [
        ("entries", z3.ForAll([s], F1.ents.member[s] == z3.Or(F0.ents.member[s], s == me))),
        ("hash", z3.If(F0.hashes.has(me), F1.hashes.get(me) == F0.hashes.get(me),
                       z3.And(F1.hashes.has(me), F1.hashes.get(me) == H.hash_bytes(hashf(cont(c.old.data, F0.heap)))))),
        ("other-hashes-kept", z3.ForAll([s], z3.Implies(s != me, z3.And(F1.hashes.has(s) == F0.hashes.has(s), F1.hashes.get(s) == F0.hashes.get(s))))),
        ("hash-present", F1.hashes.has(me)),
    ]


def _write_inv(c, k):
    """After the first k names of ``data``: each is a dataset of the entry group encoding its array; nothing else was touched."""
    F0, F1 = CF(c), CF(c, "new")
    p = _cpath(c)
    data = c.old.data
    h0 = F0.heap
    i, s = z3.Int("i!wi"), z3.Const("s!wi", StrS)
    keys, pos = c.seq.keys, c.seq.pos
    was = lambda t: z3.And(F0.has_grp(p), F0.ds_mem(p)[t])  # noqa: E731
    return [
        ("group-exists", z3.And(F1.has_grp(p), F1.ents.member[sidx(c.old.index)], F1.node)),
        ("written", FA([i], z3.Implies(z3.And(0 <= i, i < k), z3.And(F1.ds_mem(p)[keys[i]], encodes(F1, p, keys[i], h0[data.vals[keys[i]]]))), keys[i])),
        ("datasets", FA([s], F1.ds_mem(p)[s] == z3.Or(was(s), z3.And(data.member[s], pos[s] < k)), F1.ds_mem(p)[s])),
        ("old-datasets-kept", FA([s], z3.Implies(was(s), z3.And(F1.ds_val(p)[s] == F0.ds_val(p)[s], F1.at(p, s) == F0.at(p, s))), F0.ds_mem(p)[s])),
        ("other-groups-kept", others_kept(F0, F1, p)),
        ("heap", c.new_sym("arr", ValS) == h0),
        ("no-clash-so-far", FA([s], z3.Implies(z3.And(data.member[s], pos[s] < k), z3.Not(was(s))), data.member[s])),
        ("size", F1.ds_n(p) == z3.If(F0.has_grp(p), F0.ds_n(p), 0) + k), ("type:members", F1.nmem >= 0),
    ] + _entry_facts(c, F0, F1) + file_wf(F1)[1:2]


class _Sing(Contract):
    prop = ("C05", "C11")
    self_schema = SING + "#file"


@register
class WriteData(_Sing):
    """Every array of ``data`` becomes a dataset of the entry group root/<index>/<group> ENCODING it (str arrays as bytes, sparse
    arrays of any format as the CSR triple of their matrix, other arrays as is); the entry gets the hash of the data if it had none;
    every other group and entry is unchanged.  RuntimeError iff a name of ``data`` is already a dataset of the group."""

    targets = (SING + ".write_data",)
    params = {"data": DATA, "group": TStr, "index": TInt, "hdf_node_path": TStr}
    modifies = ("self." + FILE_F,)
    loops = {0: LoopSpec(anchor="data.items()", modifies=("self." + FILE_F, "entry_group"), inv=_write_inv, local_types={"name": TStr, "value": ARR})}

    def clash(self, c):
        F0 = CF(c)
        p = _cpath(c)
        k = kq("k!cl")
        return z3.Not(z3.ForAll([k], z3.Implies(c.old.data.has(k), z3.Not(z3.And(F0.has_grp(p), F0.ds_mem(p)[k])))))

    @property
    def raises(self):
        return {"RuntimeError": self.clash}

    def requires(self, c):
        F0 = CF(c)
        k = kq("k!wr")
        h0 = F0.heap
        return [("data-allocated", allocated(c.old.data, c.old_ctr)), ("type:members", F0.nmem >= 0),
                # call sites (BaseFullCache): input/output data are numeric or str arrays, Jacobians numeric dense or sparse arrays
                ("str-arrays-are-dense", z3.ForAll([k], z3.Implies(c.old.data.has(k), z3.Not(z3.And(H.np_dtype_is_str(h0[c.old.data.get(k)]), H.is_sparse(h0[c.old.data.get(k)]))))))] + file_wf(F0)

    def ensures(self, c):
        F0, F1 = CF(c), CF(c, "new")
        p = _cpath(c)
        data = c.old.data
        h0 = F0.heap
        me = sidx(c.old.index)
        k, s = kq("k!wd"), z3.Const("s!wd", StrS)
        was = lambda t: z3.And(F0.has_grp(p), F0.ds_mem(p)[t])  # noqa: E731
        return [
            ("group-exists", z3.And(F1.node, F1.ents.member[me], F1.has_grp(p))),
            ("every-array-is-encoded", z3.ForAll([k], z3.Implies(data.has(k), z3.And(F1.ds_mem(p)[k], encodes(F1, p, k, h0[data.get(k)]))))),
            ("datasets", z3.ForAll([s], F1.ds_mem(p)[s] == z3.Or(was(s), data.has(s)))),
            ("old-datasets-kept", z3.ForAll([s], z3.Implies(was(s), z3.And(F1.ds_val(p)[s] == F0.ds_val(p)[s], F1.at(p, s) == F0.at(p, s))))),
            ("other-groups-kept", others_kept(F0, F1, p)),
            ("size", F1.ds_n(p) == z3.If(F0.has_grp(p), F0.ds_n(p), 0) + data.n),
            ("type:members", F1.nmem >= 0),
        ] + _entry_facts(c, F0, F1) + file_wf(F1)


@register
class SingHasGroup(_Sing):
    targets = (SING + "._has_group",)
    params = {"index": TInt, "group": TStr, "hdf_node_path": TStr}
    returns = TBool
    raises = {"KeyError": lambda c: z3.Not(CF(c).node)}

    def requires(self, c):
        return file_wf(CF(c))

    def ensures(self, c):
        F0 = CF(c)
        return [("value", c.result == z3.And(F0.ents.member[sidx(c.old.index)], F0.has_grp(_cpath(c))))]


def _read_inv1(c, k):
    """After k datasets of the group: ``data`` holds the decoded value of each (before the bytes -> str pass)."""
    F0 = CF(c)
    p = _cpath(c)
    data = c.locals["data"]
    h1 = c.new_sym("arr", ValS)
    i, s = z3.Int("i!r1"), z3.Const("s!r1", StrS)
    keys, pos = c.seq.keys, c.seq.pos
    d = lambda t: F0.ds_val(p)[t]  # noqa: E731
    val = lambda t: h1[data.vals[t]]  # noqa: E731
    return [
        ("read", z3.ForAll([i], z3.Implies(z3.And(0 <= i, i < k), z3.And(data.member[keys[i]], data.vals[keys[i]] > 0, data.vals[keys[i]] <= c.new_ctr,
                                                                           z3.If(F0.flagged(p, keys[i]),
                                                                                 z3.And(H.is_sparse(val(keys[i])), H.sp_fmt(val(keys[i])) == H.FMT_CSR, z3.Not(H.np_dtype_is_bytes(val(keys[i]))), H.sp_mat(val(keys[i])) == F0.matrix(p, keys[i])),
                                                                                 val(keys[i]) == d(keys[i])))), patterns=[keys[i]])),
        ("names", FA([s], data.member[s] == z3.And(F0.ds_mem(p)[s], pos[s] < k), data.member[s])),
        ("size", data.n == k),
        ("heap", heap_preserved(c)),
    ]


def _pre_loop(c):
    """State at the entry of the loop being verified: (locals, array heap, allocation counter)."""
    heap0 = c.st.ex._loop_pre[0]
    return c.pre_locals, heap0.sym.get("arr", c.old_sym("arr", ValS)), heap0.ctr


def _read_inv2(c, k):
    """bytes -> str pass: the first k names hold a (new) str array if they held a bytes array, everything else is as before the pass."""
    data = c.locals["data"]
    pre, hpre, cpre = _pre_loop(c)
    pdata = pre["data"]
    h1 = c.new_sym("arr", ValS)
    s, a = z3.Const("s!r2", StrS), z3.Int("a!r2")
    pos = c.seq.pos
    before = lambda t: hpre[pdata.vals[t]]  # noqa: E731
    return [
        ("names", FA([s], data.member[s] == pdata.member[s], data.member[s])),
        ("size", data.n == pdata.n),
        ("not-yet-visited:unchanged", FA([s], z3.Implies(z3.And(pdata.member[s], pos[s] >= k), data.vals[s] == pdata.vals[s]), data.vals[s])),
        ("visited:converted", FA([s], z3.Implies(z3.And(pdata.member[s], pos[s] < k),
                                                 z3.And(data.vals[s] > 0, data.vals[s] <= c.new_ctr,
                                                        h1[data.vals[s]] == z3.If(H.np_dtype_is_bytes(before(s)), H.np_to_str(before(s)), before(s)))), data.vals[s])),
        ("heap-since-the-pass-began", z3.And(c.new_ctr >= cpre, z3.ForAll([a], z3.Implies(a <= cpre, h1[a] == hpre[a])))),
        ("heap", heap_preserved(c)),
    ]


@register
class ReadData(_Sing):
    """Returns, for every dataset of the entry group root/<index>/<group>, the array it DECODES to (fresh arrays): the CSR array
    of the stored triple for a dataset flagged sparse, the stored array otherwise (bytes converted back to str); ``{}`` when the
    entry or the group does not exist; the file is not modified.  KeyError iff the node does not exist."""

    targets = (SING + ".read_data",)
    params = {"index": TInt, "group": TStr, "hdf_node_path": TStr}
    returns = DATA
    modifies = ("heap:arr",)
    raises = {"KeyError": lambda c: z3.Not(CF(c).node)}
    loops = {0: LoopSpec(anchor="entry[group].items()", modifies=("data", "heap:arr"), inv=_read_inv1, local_types={"data": DATA, "key": TStr}),
             1: LoopSpec(anchor="data.items()", modifies=("data", "heap:arr"), inv=_read_inv2, local_types={"name": TStr, "value": ARR})}

    def requires(self, c):
        return file_wf(CF(c))

    def ensures(self, c):
        F0 = CF(c)
        p = _cpath(c)
        r = c.result
        h1 = c.new_sym("arr", ValS)
        s = z3.Const("s!rd", StrS)
        present = z3.And(F0.ents.member[sidx(c.old.index)], F0.has_grp(p))
        return [
            ("absent:empty", z3.Implies(z3.Not(present), r.n == 0)),
            ("names", z3.Implies(present, z3.ForAll([s], r.has(s) == F0.ds_mem(p)[s]))),
            ("size", z3.Implies(present, r.n == F0.ds_n(p))),
            ("values-decode-the-datasets", z3.Implies(present, z3.ForAll([s], z3.Implies(r.has(s), decodes(F0, p, s, h1[r.get(s)]))))),
            ("result-allocated", allocated(r, c.new_ctr)),
            ("heap-preserved", heap_preserved(c)),
        ]


@register
class CacheFileRoundTrip(Contract):
    """Lemmas over the contracts of write_data and read_data: a dataset that ENCODES an array DECODES to an equal array - dense
    arrays equal (str arrays through bytes), sparse arrays equal AS MATRICES - under the assumed numpy/scipy facts named in the
    hypotheses (a str array converted to bytes is a bytes array and converts back; numeric and sparse arrays are not bytes arrays)."""

    targets = ()
    prop = ("C05", "C11")
    lemma = True

    def lemmas(self):
        c, r, d, i, p, s, fl = (z3.Const(n, ValS) for n in ("c", "r", "d", "i", "p", "s", "flag"))
        flagged = z3.Bool("flagged")
        stored_m = H.csr_den(d, i, p, s)
        enc = z3.If(H.np_dtype_is_str(c), z3.And(d == H.np_to_bytes(c), z3.Not(flagged)),
                    z3.If(H.is_sparse(c), z3.And(flagged, stored_m == H.sp_mat(c)), z3.And(d == c, z3.Not(flagged))))
        dec = z3.If(flagged, z3.And(H.is_sparse(r), H.sp_fmt(r) == H.FMT_CSR, H.sp_mat(r) == stored_m), z3.If(H.np_dtype_is_bytes(d), r == H.np_to_str(d), r == d))
        facts = z3.And(*H.astype_facts(c), z3.Implies(z3.Not(H.np_dtype_is_str(c)), z3.Not(H.np_dtype_is_bytes(c))))  # (data are str, numeric or sparse arrays: never bytes arrays)
        same = z3.If(H.is_sparse(c), z3.And(H.is_sparse(r), H.sp_mat(r) == H.sp_mat(c)), r == c)
        return [("decode(encode(array))-is-an-equal-array", z3.Implies(z3.And(enc, dec, facts, z3.Not(z3.And(H.np_dtype_is_str(c), H.is_sparse(c)))), same))]
