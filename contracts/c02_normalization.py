"""C02 (numerical part) - normalisation is an exact affine bijection, gradient scaling, rounding.

Precise numpy model (pyvc/npmodel.py): arrays are mutable heap objects with real/int/bool elements.
The cached normalisation data of the design space are typed precisely here (schema variant "num").
"""
from __future__ import annotations

import z3

from pyvc import contract as C
from pyvc.contract import Contract, register, schema
from pyvc.npmodel import DTYPE, TArr, np_round
from pyvc.values import TBool, TInt, TReal, TStr, str_lit

DS = "gemseo.algos.design_space.DesignSpace"
F1, I1, B1 = TArr("f", 1), TArr("i", 1), TArr("b", 1)

schema(DS + "#num", {
    "dimension": TInt,
    "_DesignSpace__norm_data_is_computed": TBool,
    "_DesignSpace__lower_bounds_array": F1,
    "_DesignSpace__upper_bounds_array": F1,
    "_norm_factor": F1,
    "_norm_factor_inv": F1,
    "_DesignSpace__norm_inds": I1,
    "_DesignSpace__integer_components": B1,
    "_DesignSpace__no_integer": TBool,
    "_DesignSpace__common_dtype": DTYPE,
    "_DesignSpace__bound_tol": TReal,
})


def S(s):
    """Shorthand accessors of the cached normalisation data."""
    class _:  # noqa: N801
        dim = s.dimension
        lb, ub = s._DesignSpace__lower_bounds_array, s._DesignSpace__upper_bounds_array
        nf, nfi = s._norm_factor, s._norm_factor_inv
        ni = s._DesignSpace__norm_inds
        ic = s._DesignSpace__integer_components
        no_int = s._DesignSpace__no_integer
        kind = s._DesignSpace__common_dtype.kind
    return _


def el(a, i):
    return a.obj.elems[i]


def ln(a):
    return a.obj.shape[0]


def wfnum(s):
    """Validity of the cached normalisation data (what __update_normalization_vars establishes)."""
    d = S(s)
    i, j = z3.Int("i!wn"), z3.Int("j!wn")
    m = ln(d.ni)
    return [
        ("computed", s._DesignSpace__norm_data_is_computed),
        ("lengths", z3.And(d.dim >= 0, ln(d.lb) == d.dim, ln(d.ub) == d.dim, ln(d.nf) == d.dim, ln(d.nfi) == d.dim, ln(d.ic) == d.dim, m >= 0, m <= d.dim)),
        ("norm-factor", z3.ForAll([i], z3.Implies(z3.And(0 <= i, i < d.dim), el(d.nf, i) == el(d.ub, i) - el(d.lb, i)), patterns=[el(d.nf, i)])),
        ("norm-factor-inv", z3.ForAll([i], z3.Implies(z3.And(0 <= i, i < d.dim), el(d.nfi, i) == z3.If(el(d.nf, i) == 0, z3.RealVal(1), 1 / el(d.nf, i))), patterns=[el(d.nfi, i)])),
        ("norm-inds-in-range", z3.ForAll([j], z3.Implies(z3.And(0 <= j, j < m), z3.And(0 <= el(d.ni, j), el(d.ni, j) < d.dim)), patterns=[el(d.ni, j)])),
        ("norm-inds-increasing", z3.ForAll([j], z3.Implies(z3.And(0 <= j, j < m - 1), el(d.ni, j) < el(d.ni, j + 1)), patterns=[el(d.ni, j)])),
        ("no-integer-flag", d.no_int == z3.Not(z3.Exists([i], z3.And(0 <= i, i < d.dim, el(d.ic, i))))),
        ("dtype", z3.Or(d.kind == str_lit("f"), d.kind == str_lit("i"))),
    ]


def increasing_implies_distinct(d):
    """Lemma instance handed to the solver: strictly increasing => pairwise distinct (by monotonicity)."""
    j1, j2 = z3.Int("j1!mono"), z3.Int("j2!mono")
    m = ln(d.ni)
    return z3.ForAll([j1, j2], z3.Implies(z3.And(0 <= j1, j1 < j2, j2 < m), el(d.ni, j1) < el(d.ni, j2)))


def not_normalized(d, i):
    j = z3.Int("j!nn")
    return z3.ForAll([j], z3.Implies(z3.And(0 <= j, j < ln(d.ni)), el(d.ni, j) != i))


class _Norm(Contract):
    prop = ("C02",)
    self_schema = DS + "#num"
    numpy = "precise"
    params = {"x_vect": F1, "minus_lb": TBool}
    returns = F1

    def requires(self, c):
        s = c.old.self
        d = S(s)
        return wfnum(s) + [("vector-length", ln(c.old.x_vect) == d.dim), ("monotone-lemma", increasing_implies_distinct(d)),
                           ("out-is-none", c.arg("out") is None)]


@register
class NormalizeVect(_Norm):
    """r[i] = (x[i] - lb[i]) / (ub[i] - lb[i]) on normalised components with lb < ub, x[i] - lb[i] where lb = ub, x[i] elsewhere."""

    targets = (DS + ".normalize_vect",)

    def ensures(self, c):
        d = S(c.old.self)
        x, r = c.old.x_vect, c.result
        j, i = z3.Int("j!nv"), z3.Int("i!nv")
        mlb = c.old.minus_lb
        mlb = z3.BoolVal(mlb) if isinstance(mlb, bool) else mlb
        at = lambda a: el(a, el(d.ni, j))  # noqa: E731
        shift = z3.If(mlb, at(d.lb), z3.RealVal(0))
        return [
            ("length", ln(r) == d.dim),
            ("normalized-components", z3.ForAll([j], z3.Implies(z3.And(0 <= j, j < ln(d.ni)),
                                                               el(r, el(d.ni, j)) == z3.If(at(d.ub) == at(d.lb), at(x) - shift, (at(x) - shift) / (at(d.ub) - at(d.lb)))))),
            ("other-components-unchanged", z3.ForAll([i], z3.Implies(z3.And(0 <= i, i < d.dim, not_normalized(d, i)), el(r, i) == el(x, i)))),
            ("fresh-result", z3.BoolVal(c.result.ref.id != c.old.x_vect.ref.id)),
        ]


@register
class UnnormalizeVectNoInteger(_Norm):
    """x[i] = u[i] (ub[i] - lb[i]) + lb[i] on normalised components, u[i] elsewhere (no integer variable)."""

    targets = (DS + ".unnormalize_vect",)
    params = {"x_vect": F1, "minus_lb": TBool, "no_check": TBool}

    def requires(self, c):
        return super().requires(c) + [("no-integer-variable", c.old.self._DesignSpace__no_integer)]

    def ensures(self, c):
        d = S(c.old.self)
        x, r = c.old.x_vect, c.result
        j, i = z3.Int("j!uv"), z3.Int("i!uv")
        mlb = c.old.minus_lb
        mlb = z3.BoolVal(mlb) if isinstance(mlb, bool) else mlb
        at = lambda a: el(a, el(d.ni, j))  # noqa: E731
        shift = z3.If(mlb, at(d.lb), z3.RealVal(0))
        return [
            ("length", ln(r) == d.dim),
            ("normalized-components", z3.ForAll([j], z3.Implies(z3.And(0 <= j, j < ln(d.ni)), el(r, el(d.ni, j)) == at(x) * (at(d.ub) - at(d.lb)) + shift))),
            ("other-components-unchanged", z3.ForAll([i], z3.Implies(z3.And(0 <= i, i < d.dim, not_normalized(d, i)), el(r, i) == el(x, i)))),
            ("fresh-result", z3.BoolVal(c.result.ref.id != c.old.x_vect.ref.id)),
        ]


@register
class RoundVect(Contract):
    """Integer components are rounded (numpy.round), the others are kept; with copy the argument is untouched."""

    targets = (DS + ".round_vect",)
    prop = ("C02",)
    self_schema = DS + "#num"
    numpy = "precise"
    params = {"x_vect": F1}
    returns = F1

    def requires(self, c):
        s = c.old.self
        return wfnum(s) + [("vector-length", ln(c.old.x_vect) == S(s).dim)]

    def ensures(self, c):
        d = S(c.old.self)
        x, r = c.old.x_vect, c.result
        i = z3.Int("i!rv")
        return [("length", ln(r) == d.dim),
                ("rounded", z3.ForAll([i], z3.Implies(z3.And(0 <= i, i < d.dim), el(r, i) == z3.If(el(d.ic, i), np_round(el(x, i)), el(x, i)))))]


# ---------------------------------------------------------------------------- lemmas over the contracts
@register
class BijectionLemmas(Contract):
    """Consequences of the two postconditions (pure real arithmetic, per component)."""

    targets = ()
    prop = ("C02",)
    lemma = True

    def lemmas(self):
        x, u, lb, ub, g = z3.Reals("x u lb ub g")
        N = lambda t: z3.If(ub == lb, t - lb, (t - lb) / (ub - lb))  # noqa: E731,N806
        U = lambda t: t * (ub - lb) + lb  # noqa: E731,N806
        Ng = lambda t: t * (ub - lb)  # normalize_grad = unnormalize_vect(minus_lb=False)  # noqa: E731,N806
        Ug = lambda t: z3.If(ub == lb, t, t / (ub - lb))  # unnormalize_grad = normalize_vect(minus_lb=False)  # noqa: E731,N806
        return [
            ("unnormalize-inverts-normalize", z3.Implies(lb <= ub, z3.Implies(lb < ub, U(N(x)) == x))),
            ("normalize-inverts-unnormalize", z3.Implies(lb < ub, N(U(u)) == u)),
            ("unit-interval-onto-bounds", z3.Implies(z3.And(lb < ub, 0 <= u, u <= 1), z3.And(lb <= U(u), U(u) <= ub))),
            ("bounds-onto-unit-interval", z3.Implies(z3.And(lb < ub, lb <= x, x <= ub), z3.And(0 <= N(x), N(x) <= 1))),
            ("affine-endpoints", z3.Implies(lb < ub, z3.And(N(lb) == 0, N(ub) == 1))),
            ("equal-bounds-inert", z3.Implies(lb == ub, z3.And(U(u) == lb, N(lb) == 0, Ng(g) == 0))),
            ("gradient-scalings-inverse", z3.Implies(lb < ub, z3.And(Ng(Ug(g)) == g, Ug(Ng(g)) == g))),
            ("chain-rule", z3.Implies(lb < ub, Ng(g) * (N(x + 1) - N(x)) == g)),
        ]
