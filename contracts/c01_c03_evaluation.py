"""C01 / C03 - database lookup / compute / store protocol and the evaluation budget.

Functions under contract: EvaluationCounter, Database (store, get_function_value, listener
notification), ProblemFunction (_compute_output[_db[_norm]], _compute_jacobian[_db[_norm]],
check_function_output_includes_nan).  Arrays are opaque contents (``Nd``); a database key is the
content of the wrapped array (HashableNdarray.__eq__/__hash__ : equal iff same content - assumed).
"""
from __future__ import annotations

import z3

from pyvc import contract as C
from pyvc import gmodels as G
from pyvc.contract import Contract, LoopSpec, register, schema
from pyvc.values import (SV, TBool, TCallable, TDict, TFun, TInt, TList, TNd, TObj, TReal, TRec, TStr, TVal, ValS, val_none)

A = "gemseo.algos."
HNd = TRec("HashableNdarray", {"wrapped_array": TNd}, cls=A + "hashable_ndarray.HashableNdarray")
OUTS = TDict(TStr, TVal)
DATA = TDict(HNd, OUTS, ordered=True)
LOGS = z3.ArraySort(z3.IntSort(), G.CallRec)

G.RECORD_CLASSES[A + "hashable_ndarray.HashableNdarray"] = (HNd, lambda ex, args, kwargs: HNd.mk(ex.st, wrapped_array=args[0] if args else kwargs["array"]))
G.RECORD_METHODS[(A + "hashable_ndarray.HashableNdarray", "copy_wrapped_array")] = lambda ex, recv, args, kwargs: None

schema(A + "evaluation_counter.EvaluationCounter", {"current": TInt, "maximum": TInt})
schema(A + "_hdf_database.HDFDatabase", {})
schema(A + "database.Database", {
    "name": TStr,
    "_Database__data": DATA,
    "_Database__store_listeners": TList(TCallable),
    "_Database__new_iter_listeners": TList(TCallable),
    "_Database__hdf_database": TObj(A + "_hdf_database.HDFDatabase"),
})
schema(A + "problem_function.ProblemFunction", {
    "name": TStr,
    "_gradient_name": TStr,
    "stop_if_nan": TBool,
    "_database": TObj(A + "database.Database"),
    "_evaluation_counter": TObj(A + "evaluation_counter.EvaluationCounter"),
    "_output_evaluation_sequence": TList(TCallable),
    "_jacobian_evaluation_sequence": TList(TCallable),
    "_ProblemFunction__store_jacobian": TBool,
    "_unnormalize_vect": TFun("unnormalize_vect", [TNd], TNd),
    "_normalize_grad": TFun("normalize_grad", [TNd], TNd),
    "_unnormalize_grad": TFun("unnormalize_grad", [TNd], TNd),
})

# ---------------------------------------------------------------------------- spec functions
fold = z3.Function("fold", z3.ArraySort(z3.IntSort(), ValS), z3.IntSort(), ValS, ValS)
unnormalize_vect = z3.Function("unnormalize_vect", ValS, ValS)
normalize_grad = z3.Function("normalize_grad", ValS, ValS)
unnormalize_grad = z3.Function("unnormalize_grad", ValS, ValS)


def fold_axioms():
    s = z3.Const("s!fold", z3.ArraySort(z3.IntSort(), ValS))
    k = z3.Int("k!fold")
    x = z3.Const("x!fold", ValS)
    return [z3.ForAll([s, x], fold(s, 0, x) == x, patterns=[fold(s, 0, x)]),
            z3.ForAll([s, k, x], z3.Implies(k >= 0, fold(s, k + 1, x) == G.apply1(s[k], fold(s, k, x))), patterns=[fold(s, k + 1, x)])]


def Fseq(seq, x):
    """Value computed by an evaluation sequence = left fold of its callables."""
    return fold(seq.elems, seq.n, x)


def key_of(x):
    return HNd.dt.mk(x)


def o_member(rec):
    return OUTS.acc(0)(rec)


def o_vals(rec):
    return OUTS.acc(1)(rec)


def o_n(rec):
    return OUTS.acc(2)(rec)


def entry_usable(D, p):
    """The point has a non-empty entry."""
    return z3.And(D.has(p), o_n(D.get(p)) != 0)


def recorded(D, p, name):
    return z3.And(entry_usable(D, p), o_member(D.get(p))[name], o_vals(D.get(p))[name] != val_none)


def db_wf(D):
    """Type invariant of the two-level mapping (every inner dict is a well-formed dict)."""
    p = z3.Const("p!wf", HNd.sort())
    nm = z3.Const("nm!wf", TStr.sort())
    return z3.ForAll([p, nm], z3.Implies(z3.And(D.has(p), o_member(D.get(p))[nm]), o_n(D.get(p)) >= 1))


def data_after_store(D0, D1, x, outs_member, outs_vals, outs_n):
    """D1 = D0[x -> D0(x) U outs], order of existing keys kept, a new key appended last."""
    p = z3.Const("p!st", HNd.sort())
    nm = z3.Const("nm!st", TStr.sort())
    e1 = D1.get(x)
    e0 = D0.get(x)
    return [
        ("keys", z3.ForAll([p], D1.has(p) == z3.Or(D0.has(p), p == x))),
        ("others-unchanged", z3.ForAll([p], z3.Implies(z3.And(D0.has(p), p != x), D1.get(p) == D0.get(p)))),
        ("entry-names", z3.ForAll([nm], o_member(e1)[nm] == z3.Or(z3.And(D0.has(x), o_member(e0)[nm]), outs_member[nm]))),
        ("entry-values", z3.ForAll([nm], z3.Implies(o_member(e1)[nm], o_vals(e1)[nm] == z3.If(outs_member[nm], outs_vals[nm], o_vals(e0)[nm])))),
        ("order-kept", z3.ForAll([p], z3.Implies(D0.has(p), D1.pos[p] == D0.pos[p]))),
        ("appended-last", z3.Implies(z3.Not(D0.has(x)), D1.pos[x] == D0.n)),
        ("size", D1.n == z3.If(D0.has(x), D0.n, D0.n + 1)),
    ]


def log_appended(c, n_expected, rec_at):
    """The ghost call log grew by exactly n_expected records rec_at(j), earlier records kept."""
    l0, l1 = c.old_ghost("calllog", LOGS), c.new_ghost("calllog", LOGS)
    n0, n1 = c.old_ghost("calllog_n", z3.IntSort()), c.new_ghost("calllog_n", z3.IntSort())
    j = z3.Int("j!log")
    out = [("calls-count", n1 == n0 + n_expected), ("calls-prefix-kept", z3.ForAll([j], z3.Implies(j < n0, l1[j] == l0[j])))]
    if rec_at is not None:
        # absolute indices: the trigger l1[j] matches every read of the new log
        out.append(("calls-records", z3.ForAll([j], z3.Implies(z3.And(n0 <= j, j < n0 + n_expected), l1[j] == rec_at(j - n0)))))
    return out


def log_unchanged(c):
    return [("no-call", z3.And(c.new_ghost("calllog_n", z3.IntSort()) == c.old_ghost("calllog_n", z3.IntSort()),
                               c.new_ghost("calllog", LOGS) == c.old_ghost("calllog", LOGS)))]


# ---------------------------------------------------------------------------- EvaluationCounter
@register
class MaximumIsReached(Contract):
    targets = (A + "evaluation_counter.EvaluationCounter.maximum_is_reached",)
    prop = ("C03",)
    returns = TBool

    def ensures(self, c):
        s = c.old.self
        return [("value", c.result == z3.And(s.maximum != 0, s.current >= s.maximum))]


@register
class CounterPostInit(Contract):
    targets = (A + "evaluation_counter.EvaluationCounter.__post_init__",)
    prop = ("C03",)
    raises = {"ValueError": lambda c: c.old.self.current > c.old.self.maximum}


# ---------------------------------------------------------------------------- Database
@register
class HDFAddPendingArray(Contract):
    targets = (A + "_hdf_database.HDFDatabase.add_pending_array",)
    prop = ("C01", "C03")
    params = {"data": HNd}
    modifies = ("self",)
    trusted = True
    description = "assumed here (verified under C11): records the array for later export, no effect on the database content"


@register
class NotifyListeners(Contract):
    """Every listener is called exactly once, in order, with the (unwrapped) input value."""

    targets = (A + "database.Database.__notify_listeners",)
    prop = ("C03",)
    params = {"listeners": TList(TCallable), "x_vect": HNd}
    modifies = ("ghost:calllog", "ghost:calllog_n")
    loops = {0: LoopSpec(anchor="listeners", modifies=("ghost:calllog", "ghost:calllog_n"),
                         inv=lambda c, k: log_appended(c, k, lambda j: G.CallRec.mk(c.old.listeners.elems[j], c.old.x_vect.wrapped_array)))}

    def ensures(self, c):
        L = c.old.listeners
        return log_appended(c, L.n, lambda j: G.CallRec.mk(L.elems[j], c.old.x_vect.wrapped_array))


class _NotifyWrapper(Contract):
    prop = ("C03",)
    params = {"x_vect": HNd}
    modifies = ("ghost:calllog", "ghost:calllog_n")
    field = ""

    def ensures(self, c):
        L = getattr(c.old.self, self.field)
        return log_appended(c, L.n, lambda j: G.CallRec.mk(L.elems[j], c.old.x_vect.wrapped_array))


@register
class NotifyStore(_NotifyWrapper):
    targets = (A + "database.Database.notify_store_listeners",)
    field = "_Database__store_listeners"


@register
class NotifyNewIter(_NotifyWrapper):
    targets = (A + "database.Database.notify_new_iter_listeners",)
    field = "_Database__new_iter_listeners"


@register
class DatabaseGetFunctionValue(Contract):
    targets = (A + "database.Database.get_function_value",)
    prop = ("C01", "C03")
    params = {"function_name": TStr, "x_vect_or_iteration": HNd}
    returns = TVal

    def requires(self, c):
        return [("db-wf", db_wf(c.old.self._Database__data))]

    def ensures(self, c):
        D = c.old.self._Database__data
        p, nm = c.old.x_vect_or_iteration.term, c.old.function_name
        present = z3.And(entry_usable(D, p), o_member(D.get(p))[nm])
        return [("value", c.result == z3.If(present, o_vals(D.get(p))[nm], val_none))]


@register
class DatabaseStore(Contract):
    targets = (A + "database.Database.store",)
    prop = ("C01", "C03")
    params = {"x_vect": HNd, "outputs": OUTS}
    modifies = ("self", "self._Database__hdf_database", "ghost:calllog", "ghost:calllog_n")

    def requires(self, c):
        return [("db-wf", db_wf(c.old.self._Database__data))]

    def ensures(self, c):
        s0, s1 = c.old.self, c.new.self
        D0, D1 = s0._Database__data, s1._Database__data
        x = c.old.x_vect.term
        outs = c.old.outputs
        SL, NL = s0._Database__store_listeners, s0._Database__new_iter_listeners
        new_iteration = z3.And(outs.n != 0, z3.Not(entry_usable(D0, x)))
        n_store = SL.n
        n_new = z3.If(new_iteration, NL.n, 0)
        xa = c.old.x_vect.wrapped_array
        rec = lambda j: z3.If(j < n_store, G.CallRec.mk(SL.elems[j], xa), G.CallRec.mk(NL.elems[j - n_store], xa))  # noqa: E731
        return (data_after_store(D0, D1, x, outs.member, outs.vals, outs.n)
                + [("db-wf", db_wf(D1)),
                   ("listeners-kept", z3.And(s1._Database__store_listeners.n == SL.n, s1._Database__store_listeners.elems == SL.elems,
                                             s1._Database__new_iter_listeners.n == NL.n, s1._Database__new_iter_listeners.elems == NL.elems))]
                + log_appended(c, n_store + n_new, rec))


# ---------------------------------------------------------------------------- ProblemFunction
@register
class CheckNan(Contract):
    targets = (A + "problem_function.ProblemFunction.check_function_output_includes_nan",)
    prop = ("C01", "C03")
    params = {"value": TNd, "stop_if_nan": TBool, "function_name": TStr, "xu_vect": TNd}
    raises = {
        "FunctionIsNan": lambda c: z3.And(c.old.stop_if_nan, G.has_nan(c.old.value), G_nonempty(c.old.function_name)),
        "DesvarIsNan": lambda c: z3.And(c.old.stop_if_nan, G.has_nan(c.old.value), z3.Not(G_nonempty(c.old.function_name))),
    }


def G_nonempty(s):
    from pyvc.models import str_nonempty_f
    from pyvc.values import TStr as _T

    if isinstance(s, str):
        return z3.BoolVal(bool(s))
    return str_nonempty_f(s)


class _ComputeSeq(Contract):
    """result = left fold of the evaluation sequence; each callable is called once, in order."""

    prop = ("C01", "C03")
    params = {"input_value": TNd}
    returns = TNd
    modifies = ("ghost:calllog", "ghost:calllog_n")
    field = ""

    def _seq(self, c):
        return getattr(c.old.self, self.field)

    def requires(self, c):
        return [(f"fold-axiom{i}", a) for i, a in enumerate(fold_axioms())]

    def ensures(self, c):
        seq = self._seq(c)
        x = c.old.input_value
        return [("value", c.result == Fseq(seq, x))] + log_appended(c, seq.n, lambda j: G.CallRec.mk(seq.elems[j], fold(seq.elems, j, x)))


def _seq_inv(field):
    def inv(c, k):
        seq = getattr(c.old.self, field)
        x0 = c.old.input_value
        return [("folded", c.locals["input_value"] == fold(seq.elems, k, x0))] + log_appended(c, k, lambda j: G.CallRec.mk(seq.elems[j], fold(seq.elems, j, x0)))

    return inv


@register
class ComputeOutput(_ComputeSeq):
    targets = (A + "problem_function.ProblemFunction._compute_output",)
    field = "_output_evaluation_sequence"
    loops = {0: LoopSpec(anchor="self._output_evaluation_sequence", modifies=("ghost:calllog", "ghost:calllog_n"), inv=_seq_inv("_output_evaluation_sequence"))}


@register
class ComputeJacobian(_ComputeSeq):
    targets = (A + "problem_function.ProblemFunction._compute_jacobian",)
    field = "_jacobian_evaluation_sequence"
    loops = {0: LoopSpec(anchor="self._jacobian_evaluation_sequence", modifies=("ghost:calllog", "ghost:calllog_n"), inv=_seq_inv("_jacobian_evaluation_sequence"))}


class _ComputeDb(Contract):
    """Database-assisted evaluation: memoisation, recording under the physical point, budget."""

    prop = ("C01", "C03")
    params = {"input_value": TNd}
    returns = TNd
    modifies = ("self._database", "self._database._Database__hdf_database", "ghost:calllog", "ghost:calllog_n")
    jacobian = False
    normalized = False

    # -- the pieces of the specification
    def name(self, c):
        return c.old.self._gradient_name if self.jacobian else c.old.self.name

    def seq(self, c):
        return c.old.self._jacobian_evaluation_sequence if self.jacobian else c.old.self._output_evaluation_sequence

    def point(self, c):
        x = c.old.input_value
        return unnormalize_vect(x) if self.normalized else x

    def computed(self, c):
        """What the evaluation sequence returns for the caller's input."""
        return Fseq(self.seq(c), c.old.input_value)

    def to_store(self, c):
        v = self.computed(c)
        return unnormalize_grad(v) if (self.jacobian and self.normalized) else v

    def returned_on_hit(self, c, stored):
        return normalize_grad(stored) if (self.jacobian and self.normalized) else stored

    def stores(self, c):
        return c.old.self._ProblemFunction__store_jacobian if self.jacobian else z3.BoolVal(True)

    def hit(self, c):
        return recorded(c.old.self._database._Database__data, key_of(self.point(c)), self.name(c))

    def budget_exhausted(self, c):
        cnt = c.old.self._evaluation_counter
        D = c.old.self._database._Database__data
        return z3.And(z3.Not(entry_usable(D, key_of(self.point(c)))), cnt.maximum != 0, cnt.current >= cnt.maximum)

    def requires(self, c):
        return [("db-wf", db_wf(c.old.self._database._Database__data)),
                ("function-names-non-empty", z3.And(G_nonempty(c.old.self.name), G_nonempty(c.old.self._gradient_name)))] + \
               [(f"fold-axiom{i}", a) for i, a in enumerate(fold_axioms())]

    @property
    def raises(self):
        nan_in = lambda c: G.has_nan(c.old.input_value)  # noqa: E731
        return {
            "DesvarIsNan": nan_in,
            "MaxIterReachedException": lambda c: z3.And(z3.Not(nan_in(c)), z3.Not(self.hit(c)), self.budget_exhausted(c)),
            "FunctionIsNan": lambda c: z3.And(z3.Not(nan_in(c)), z3.Not(self.hit(c)), z3.Not(self.budget_exhausted(c)), c.old.self.stop_if_nan,
                                              G.has_nan(self.to_store(c))),
        }

    def ensures(self, c):
        D0, D1 = c.old.self._database._Database__data, c.new.self._database._Database__data
        p = key_of(self.point(c))
        nm = self.name(c)
        hit = self.hit(c)
        stored = o_vals(D0.get(p))[nm]
        out = [
            ("hit:value-is-the-recorded-one", z3.Implies(hit, c.result == self.returned_on_hit(c, stored))),
            ("miss:value-is-computed", z3.Implies(z3.Not(hit), c.result == self.computed(c))),
        ]
        # memoisation: nothing is called, nothing changes
        for label, f in log_unchanged(c):
            out.append((f"hit:{label}", z3.Implies(hit, f)))
        k = z3.Const("p!db", HNd.sort())
        out.append(("hit:database-unchanged", z3.Implies(hit, z3.And(D1.n == D0.n, z3.ForAll([k], z3.And(D1.has(k) == D0.has(k), z3.Implies(D0.has(k), D1.get(k) == D0.get(k))))))))
        # miss: recorded under the physical point, exactly this name, nothing else touched
        nmq = z3.Const("nm!one", TStr.sort())
        one_m = z3.Lambda([nmq], nmq == nm)
        one_v = z3.K(TStr.sort(), self.to_store(c))
        miss_store = z3.And(z3.Not(hit), self.stores(c))
        for label, f in data_after_store(D0, D1, p, one_m, one_v, z3.IntVal(1)):
            out.append((f"miss:recorded:{label}", z3.Implies(miss_store, f)))
        out.append(("miss-nostore:database-unchanged", z3.Implies(z3.And(z3.Not(hit), z3.Not(self.stores(c))),
                                                                  z3.And(D1.n == D0.n, z3.ForAll([k], z3.And(D1.has(k) == D0.has(k), z3.Implies(D0.has(k), D1.get(k) == D0.get(k))))))))
        # budget: a *new* non-empty entry is created only while the counter is below its maximum
        cnt = c.old.self._evaluation_counter
        created = z3.And(z3.Not(entry_usable(D0, p)), entry_usable(D1, p))
        out.append(("budget:new-entry-only-below-maximum", z3.Implies(created, z3.Or(cnt.maximum == 0, cnt.current < cnt.maximum))))
        out.append(("budget:at-most-this-entry", z3.ForAll([k], z3.Implies(z3.And(k != p, entry_usable(D1, k)), entry_usable(D0, k)))))
        out.append(("db-wf", db_wf(D1)))
        return out


@register
class ComputeOutputDb(_ComputeDb):
    targets = (A + "problem_function.ProblemFunction._compute_output_db",)


@register
class ComputeJacobianDb(_ComputeDb):
    targets = (A + "problem_function.ProblemFunction._compute_jacobian_db",)
    jacobian = True


@register
class ComputeOutputDbNorm(_ComputeDb):
    targets = (A + "problem_function.ProblemFunction._compute_output_db_norm",)
    normalized = True


@register
class ComputeJacobianDbNorm(_ComputeDb):
    targets = (A + "problem_function.ProblemFunction._compute_jacobian_db_norm",)
    jacobian = True
    normalized = True


# ---------------------------------------------------------------------------- driver side of the budget
DRV = A + "base_driver_library.BaseDriverLibrary"
PB = "gemseo.algos._progress_bars.base_progress_bar.BaseProgressBar"
schema(PB, {})
schema(A + "evaluation_problem.EvaluationProblem#counter", {"evaluation_counter": TObj(A + "evaluation_counter.EvaluationCounter")})
schema(DRV, {
    "_BaseDriverLibrary__progress_bar": TObj(PB),
    "_problem": TObj(A + "evaluation_problem.EvaluationProblem", schema_key=A + "evaluation_problem.EvaluationProblem#counter"),
    "_BaseDriverLibrary__max_time": TReal,
    "_BaseDriverLibrary__start_time": TReal,
})


@register
class ProgressBarSetObjective(Contract):
    targets = (PB + ".set_objective_value",)
    prop = ("C03",)
    params = {"x_vect": TVal}
    modifies = ("self",)
    trusted = True
    description = "assumed: progress bars only touch their own state (DESIGN §2.2)"


@register
class NewIterationCallback(Contract):
    """The callback registered as new-iteration listener counts exactly one evaluation per notification
    (also when it raises MaxTimeReached), and touches nothing else."""

    targets = (DRV + "._new_iteration_callback",)
    prop = ("C03",)
    params = {"x_vect": TNd}
    modifies = ("self._problem.evaluation_counter", "self._BaseDriverLibrary__progress_bar")
    raises = {"MaxTimeReached": lambda c: c.old.self._BaseDriverLibrary__max_time > 0}
    raises_exact = False  # whether the time limit is exceeded depends on the wall clock

    def _count(self, c):
        k0, k1 = c.old.self._problem.evaluation_counter, c.new.self._problem.evaluation_counter
        return [("counted-once", k1.current == k0.current + 1), ("maximum-kept", k1.maximum == k0.maximum)]

    def ensures(self, c):
        return self._count(c)

    def raise_ensures(self, c, exc):
        return self._count(c)


@register
class BudgetLemmas(Contract):
    """Induction step of the budget invariant over ANY sequence of problem-function calls (= any algorithm).

    State: cur (evaluation counter), created (database entries that went from absent/empty to non-empty since the
    counter value c0).  One call of a _compute_*_db* function changes the state as allowed by its postconditions:
      new in {0,1}                                   ('budget:at-most-this-entry')
      new = 1  =>  maximum = 0 or cur < maximum      ('budget:new-entry-only-below-maximum')
      the new-iteration listeners are notified iff new = 1 (Database.store 'calls-count'/'calls-records'),
      the driver callback is one of them exactly once (Database.__add_listener keeps listeners duplicate-free),
      each notification adds one to the counter       (NewIterationCallback 'counted-once').
    """

    targets = ()
    prop = ("C03",)
    lemma = True

    def lemmas(self):
        cur, cur1, created, created1, c0, mx, new = z3.Ints("cur cur1 created created1 c0 mx new")
        inv = lambda cu, cr: z3.And(cr >= 0, cu == c0 + cr, z3.Or(mx == 0, cr == 0, cu <= mx))  # noqa: E731
        step = z3.And(z3.Or(new == 0, new == 1), z3.Implies(new == 1, z3.Or(mx == 0, cur < mx)), cur1 == cur + new, created1 == created + new)
        return [
            ("budget-invariant-initially", inv(c0, z3.IntVal(0))),
            ("budget-invariant-preserved", z3.Implies(z3.And(inv(cur, created), step), inv(cur1, created1))),
            ("at-most-N-new-entries", z3.Implies(z3.And(inv(cur, created), mx > 0), created <= z3.If(mx - c0 > 0, mx - c0, 0))),
            ("with-counter-reset-at-most-N", z3.Implies(z3.And(inv(cur, created), mx > 0, c0 == 0), created <= mx)),
        ]
