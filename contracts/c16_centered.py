"""C16 - centered differences with a design space: bound safety of the perturbed points.

The forward point of a component is x + h unless x + h would exceed its upper bound (then it is x itself), the backward point x - h
unless it would go below its lower bound; the comparisons use the bounds OF THE DIFFERENTIATED COMPONENTS, in the coordinates the
approximator works in (physical, or normalised).

History: until 04a9b48 the code compared the n selected components with the FULL bound vectors (ValueError for any strict subset of
components, another component's bound for a permutation) and only tested x >= ub / x <= lb (ub = 10, x = 10 - 5e-7, step = 1e-6 was
evaluated at 10.0000005); found with this contract, repaired (FirstOrderFD had the same defects, fixed in 5c282a6).
"""
from __future__ import annotations

import z3

from contracts import c02_normalization as N2
from contracts.c16_derivatives import DS, F1, F2, FP, el, idx_ok, ln
from pyvc import contract as C
from pyvc.contract import Contract, register, schema
from pyvc.values import TBool, TInt, TList, TObj, TReal, TTuple

CD = "gemseo.utils.derivatives.centered_differences.CenteredDifferences"
schema(CD + "#ds", {"f_pointer": FP, "_step": TReal, "_normalize": TBool, "_parallel": TBool, "_design_space": TObj(DS, schema_key=DS + "#fd")})


@register
class GetLowerBoundsComputed(Contract):
    targets = (DS + ".get_lower_bounds",)
    prop = ("C16",)
    self_schema = DS + "#num"
    returns = F1
    trusted = True
    description = "assumed: get_lower_bounds() returns the cached array of all lower bounds when the normalisation data are up to date"

    def requires(self, c):
        return N2.wfnum(c.old.self) + [("all-variables", c.arg("variable_names") == ()), ("as-array", c.arg("as_dict") is False)]

    def ensures(self, c):
        d = N2.S(c.old.self)
        i = z3.Int("i!glb")
        return [("length", ln(c.result) == d.dim), ("values", z3.ForAll([i], z3.Implies(z3.And(0 <= i, i < d.dim), el(c.result, i) == N2.el(d.lb, i))))]


def _ds(c):
    return N2.S(c.old.self._design_space)


@register
class CenteredGeneratePerturbationsWithDesignSpace(Contract):
    """Forward points x + s_k e_{I_k} with s_k in {0, h}, backward points x + s'_k e_{I_k} with s'_k in {0, -h}; no forward point exceeds its
    upper bound, no backward point goes below its lower bound (h > 0, x within bounds)."""

    targets = (CD + "._generate_perturbations",)
    variant = "ds"
    prop = ("C16",)
    self_schema = CD + "#ds"
    numpy = "precise"
    params = {"input_values": F1, "input_indices": TList(TInt), "step": TReal}
    returns = TTuple(F2, F1)

    def requires(self, c):
        ds = c.old.self._design_space
        d = N2.S(ds)
        x = c.old.input_values
        return (idx_ok(c.old.input_indices, ln(x)) + N2.wfnum(ds)
                + [("monotone-lemma", N2.increasing_implies_distinct(d)), ("dimension", ln(x) == d.dim), ("positive-step", c.old.step > 0)])

    def axioms(self, c):
        # instances of the real-arithmetic identity t != 0 => t / t == 1 (proved below: DivisionLemma) at the ranges of the normalised components
        d = _ds(c)
        j = z3.Int("j!dl")
        t = N2.el(d.ub, N2.el(d.ni, j)) - N2.el(d.lb, N2.el(d.ni, j))
        return [("t != 0 => t / t == 1 at t = ub - lb of the normalised components", z3.ForAll([j], z3.Implies(t != 0, z3.And(t / t == 1, z3.RealVal(0) / t == 0)), patterns=[N2.el(d.ni, j)]))]

    def ensures(self, c):
        from pyvc.state import Undecided

        sf = c.old.self
        d = _ds(c)
        x, idx, h = c.old.input_values, c.old.input_indices, c.old.step
        P, steps = c.result_value
        Pv, Sv = C.View(c._new_heap, P, c.st), C.View(c._new_heap, steps, c.st)
        if "upper_bounds" not in c.locals or "lower_bounds" not in c.locals:
            raise Undecided("the locals 'upper_bounds' / 'lower_bounds' (bounds the perturbed points are compared with) no longer exist")
        UB, LB = c.locals["upper_bounds"], c.locals["lower_bounds"]
        i, k, j = z3.Int("i!gp"), z3.Int("k!gp"), z3.Int("j!gp")
        n = idx.n
        rng = z3.And(0 <= i, i < ln(x), 0 <= k, k < n)
        ik = idx.elems[k]
        ubn = lambda t: N2.el(d.ub, t)  # noqa: E731
        lbn = lambda t: N2.el(d.lb, t)  # noqa: E731
        nij = N2.el(d.ni, j)
        phys = z3.Not(sf._normalize)
        comp = z3.And(0 <= i, i < d.dim)
        return [
            ("shape", z3.And(ln(Pv, 0) == ln(x), ln(Pv, 1) == 2 * n, ln(Sv) == 2 * n)),
            ("forward-steps-are-0-or-h", z3.ForAll([k], z3.Implies(z3.And(0 <= k, k < n), z3.Or(el(Sv, k) == 0, el(Sv, k) == h)))),
            ("backward-steps-are-0-or-minus-h", z3.ForAll([k], z3.Implies(z3.And(0 <= k, k < n), z3.Or(el(Sv, n + k) == 0, el(Sv, n + k) == -h)))),
            ("forward-columns", z3.ForAll([i, k], z3.Implies(rng, el(Pv, i, k) == el(x, i) + z3.If(i == ik, el(Sv, k), z3.RealVal(0))))),
            ("backward-columns", z3.ForAll([i, k], z3.Implies(rng, el(Pv, i, n + k) == el(x, i) + z3.If(i == ik, el(Sv, n + k), z3.RealVal(0))))),
            # the bounds used are the design space's bounds in the coordinates the approximator works in
            ("bounds-used:length", z3.And(ln(UB) == d.dim, ln(LB) == d.dim)),
            ("bounds-used:physical", z3.Implies(phys, z3.ForAll([i], z3.Implies(comp, z3.And(el(UB, i) == ubn(i), el(LB, i) == lbn(i)))))),
            ("bounds-used:normalized-upper", z3.Implies(sf._normalize, z3.ForAll([j], z3.Implies(z3.And(0 <= j, j < N2.ln(d.ni)),
                                                                                                 el(UB, nij) == z3.If(ubn(nij) == lbn(nij), z3.RealVal(0), z3.RealVal(1)))))),
            ("bounds-used:normalized-lower", z3.Implies(sf._normalize, z3.ForAll([j], z3.Implies(z3.And(0 <= j, j < N2.ln(d.ni)), el(LB, nij) == 0)))),
            ("bounds-used:not-normalized-components", z3.Implies(sf._normalize, z3.ForAll([i], z3.Implies(z3.And(comp, N2.not_normalized(d, i)),
                                                                                                         z3.And(el(UB, i) == ubn(i), el(LB, i) == lbn(i)))))),
            # a step is only dropped when it would leave the bounds
            ("forward-step-taken-when-it-fits", z3.ForAll([k], z3.Implies(z3.And(0 <= k, k < n, el(x, ik) + h <= el(UB, ik)), el(Sv, k) == h))),
            ("backward-step-taken-when-it-fits", z3.ForAll([k], z3.Implies(z3.And(0 <= k, k < n, el(x, ik) - h >= el(LB, ik)), el(Sv, n + k) == -h))),
            # no perturbed component leaves its bounds
            ("upper-bound-safety", z3.ForAll([k], z3.Implies(z3.And(0 <= k, k < n, el(x, ik) <= el(UB, ik)), el(Pv, ik, k) <= el(UB, ik)))),
            ("lower-bound-safety", z3.ForAll([k], z3.Implies(z3.And(0 <= k, k < n, el(LB, ik) <= el(x, ik)), el(LB, ik) <= el(Pv, ik, n + k)))),
        ]


@register
class DivisionLemma(Contract):
    targets = ()
    prop = ("C16",)
    lemma = True

    def lemmas(self):
        t = z3.Real("t")
        return [("t != 0 => t / t == 1", z3.Implies(t != 0, t / t == 1)), ("t != 0 => 0 / t == 0", z3.Implies(t != 0, z3.RealVal(0) / t == 0))]
