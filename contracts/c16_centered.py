"""C16 - centered differences with a design space: bound safety of the perturbed points.

NOT yet listed in PROPS["C16"]["modules"]: on the current gemseo two clauses fail (genuine defects, reported; see `finding_regions`):

1. ``CenteredDifferences._generate_perturbations`` compares the n selected components with the FULL bound vectors
   (``input_perturbations[input_indices, range(n_indices)] >= upper_bounds`` instead of ``upper_bounds[input_indices]``):
   ValueError (broadcasting) for any strict subset of components, e.g. ``CenteredDifferences(f, design_space=ds).f_gradient(x, x_indices=[1])``
   with a 3-dimensional space; for a permutation of all the components the bound of another component is used.
2. The forward point exceeds the upper bound when ``ub - step < x < ub`` (only ``x >= ub`` is tested, not ``x + step > ub``):
   ub = 10, x = 10 - 5e-7, step = 1e-6 is evaluated at 10.0000005; symmetrically below the lower bound.
   (FirstOrderFD had the same two defects, fixed in 5c282a6.)
"""
from __future__ import annotations

import z3

from contracts import c02_normalization as N2
from contracts.c16_derivatives import DS, F1, F2, FP, el, idx_ok, ln
from pyvc import contract as C
from pyvc.contract import Contract, register, schema
from pyvc.values import TBool, TInt, TList, TObj, TReal, TTuple

CD = "gemseo.utils.derivatives.centered_differences.CenteredDifferences"
schema(CD + "#ds", {"f_pointer": FP, "_step": TReal, "_normalize": TBool, "_parallel": TBool, "_design_space": TObj(DS, schema_key=DS + "#fd")})


@register
class GetLowerBoundsComputed(Contract):
    targets = (DS + ".get_lower_bounds",)
    prop = ("C16",)
    self_schema = DS + "#num"
    returns = F1
    trusted = True
    description = "assumed: get_lower_bounds() returns the cached array of all lower bounds when the normalisation data are up to date"

    def requires(self, c):
        return N2.wfnum(c.old.self) + [("all-variables", c.arg("variable_names") == ()), ("as-array", c.arg("as_dict") is False)]

    def ensures(self, c):
        d = N2.S(c.old.self)
        i = z3.Int("i!glb")
        return [("length", ln(c.result) == d.dim), ("values", z3.ForAll([i], z3.Implies(z3.And(0 <= i, i < d.dim), el(c.result, i) == N2.el(d.lb, i))))]


def _ds(c):
    return N2.S(c.old.self._design_space)


@register
class CenteredGeneratePerturbationsWithDesignSpace(Contract):
    """Forward points x + s_k e_{I_k} with s_k in {0, h}, backward points x + s'_k e_{I_k} with s'_k in {0, -h}; no forward point exceeds its
    upper bound, no backward point goes below its lower bound (h > 0, x within bounds)."""

    targets = (CD + "._generate_perturbations",)
    variant = "ds"
    prop = ("C16",)
    self_schema = CD + "#ds"
    numpy = "precise"
    params = {"input_values": F1, "input_indices": TList(TInt), "step": TReal}
    returns = TTuple(F2, F1)

    def requires(self, c):
        ds = c.old.self._design_space
        d = N2.S(ds)
        x = c.old.input_values
        return (idx_ok(c.old.input_indices, ln(x)) + N2.wfnum(ds)
                + [("monotone-lemma", N2.increasing_implies_distinct(d)), ("dimension", ln(x) == d.dim), ("positive-step", c.old.step > 0),
                   ("physical-coordinates", z3.Not(c.old.self._normalize))])

    def finding_regions(self, c):
        d = _ds(c)
        x, idx, h = c.old.input_values, c.old.input_indices, c.old.step
        k = z3.Int("k!fr")
        xk, ub, lb = el(x, idx.elems[k]), N2.el(d.ub, idx.elems[k]), N2.el(d.lb, idx.elems[k])
        return {
            "strict-subset-of-components": idx.n != ln(x),
            "reordered-components-or-within-a-step-of-a-bound": z3.Exists([k], z3.And(0 <= k, k < idx.n, z3.Or(
                idx.elems[k] != k, z3.And(ub - h < xk, xk < ub), z3.And(lb < xk, xk < lb + h)))),
        }

    def ensures(self, c):
        d = _ds(c)
        x, idx, h = c.old.input_values, c.old.input_indices, c.old.step
        P, steps = c.result_value
        Pv, Sv = C.View(c._new_heap, P, c.st), C.View(c._new_heap, steps, c.st)
        i, k = z3.Int("i!gp"), z3.Int("k!gp")
        n = idx.n
        rng = z3.And(0 <= i, i < ln(x), 0 <= k, k < n)
        ik = idx.elems[k]
        ub, lb = N2.el(d.ub, ik), N2.el(d.lb, ik)
        return [
            ("shape", z3.And(ln(Pv, 0) == ln(x), ln(Pv, 1) == 2 * n, ln(Sv) == 2 * n)),
            ("forward-steps-are-0-or-h", z3.ForAll([k], z3.Implies(z3.And(0 <= k, k < n), z3.Or(el(Sv, k) == 0, el(Sv, k) == h)))),
            ("backward-steps-are-0-or-minus-h", z3.ForAll([k], z3.Implies(z3.And(0 <= k, k < n), z3.Or(el(Sv, n + k) == 0, el(Sv, n + k) == -h)))),
            ("forward-columns", z3.ForAll([i, k], z3.Implies(rng, el(Pv, i, k) == el(x, i) + z3.If(i == ik, el(Sv, k), z3.RealVal(0))))),
            ("backward-columns", z3.ForAll([i, k], z3.Implies(rng, el(Pv, i, n + k) == el(x, i) + z3.If(i == ik, el(Sv, n + k), z3.RealVal(0))))),
            ("upper-bound-safety", z3.ForAll([k], z3.Implies(z3.And(0 <= k, k < n, el(x, ik) <= ub), el(Pv, ik, k) <= ub))),
            ("lower-bound-safety", z3.ForAll([k], z3.Implies(z3.And(0 <= k, k < n, lb <= el(x, ik)), lb <= el(Pv, ik, n + k)))),
        ]
