"""C17 - the IDF consistency constraint as an object: construction and Jacobian.

* ``ConsistencyConstraint.__init__`` (the REAL ``MDOFunction.__init__`` is executed too): the coupling function is a new
  FunctionFromDiscipline built from exactly (the given output couplings, the given formulation) and nothing else; when the formulation
  normalises its constraints the factor is the array returned by ``formulation._get_normalization_factor`` (contract of c17_idf_norm.py,
  whose precondition "the couplings are design variables" is checked at this call site: it is the precondition of this constructor, checked
  in turn where ``IDF._build_constraints`` builds the constraint) - finite and non-zero, the precondition of the value contract -, else 1.0;
  the MDOFunction part wraps ``_func_to_wrap`` / ``_jac_to_wrap`` of the very object, has type EQ and the name / input names / output names
  of the coupling function.
* ``ConsistencyConstraint._jac_to_wrap``: see below.
"""
from __future__ import annotations

import z3

from contracts import c17_idf_norm as N17
from pyvc import contract as C
from pyvc.contract import Contract, LoopSpec, register, schema
from pyvc.npmodel import TArr
from pyvc.plug_c17b import TRaw
from pyvc.values import BoundMethod, PyObj, Ref, TBool, TDict, TInt, TList, TObj, TStr

CCLS = "gemseo.core.mdo_functions.consistency_constraint.ConsistencyConstraint"
FFD = "gemseo.core.mdo_functions.function_from_discipline.FunctionFromDiscipline"
IDFC = "gemseo.formulations.idf.IDF"
DSC = "gemseo.algos.design_space.DesignSpace"
CP_ = "_ConsistencyConstraint__"
F1 = TArr("f", 1)
NAMES = TList(TStr)
INT = z3.IntSort()
STR = TStr.sort()

# the coupling function as the constructor sees it: an opaque new MDO function with a name, input names and output names
schema(FFD + "#ccinit", {"name": TStr, "_input_names": NAMES, "_output_names": NAMES})
schema(IDFC + "#ccinit", {"all_couplings": NAMES, "normalize_constraints": TBool, "optimization_problem": TObj(N17.OP, schema_key=N17.OP + "#bounds")})
_MDOF_FIELDS = {"_MDOFunction__original_name": TStr, "name": TStr, "_func": TRaw, "_jac": TRaw, "f_type": TStr, "expr": TStr, "_input_names": NAMES,
                "dim": TInt, "_output_names": NAMES, "last_eval": TRaw, "force_real": TBool, "special_repr": TStr, "has_default_name": TBool,
                "_MDOFunction__expects_normalized_inputs": TBool, "original": TRaw}
schema(CCLS + "#init", {**_MDOF_FIELDS, CP_ + "formulation": TRaw, CP_ + "output_couplings": TRaw, CP_ + "coupl_func": TRaw,
                        CP_ + "dv_names_of_disc": TRaw, CP_ + "norm_fact": TRaw, CP_ + "dv_len": TRaw})


@register
class VariableSizesAbstract(Contract):
    targets = (DSC + ".variable_sizes",)
    variant = "c17cc"
    prop = ("C17",)
    returns = TDict(TStr, TInt)
    trusted = True
    description = "assumed: DesignSpace.variable_sizes returns a new dictionary (name -> size), without any effect"


def raw(view, field):
    return view.obj.fields[field]


def couplings_are_design_variables(oc, variables):
    j = z3.Int("j!cci")
    return z3.ForAll([j], z3.Implies(z3.And(0 <= j, j < oc.n), variables.member[oc.elems[j]]), patterns=[oc.elems[j]])


def _is_method_of(v, recv, qualname):
    return isinstance(v, BoundMethod) and v.finfo is not None and v.finfo.qualname == qualname and isinstance(v.recv, Ref) and v.recv.id == recv.id


@register
class ConsistencyInit(Contract):
    targets = (CCLS + ".__init__",)
    prop = ("C17",)
    self_schema = CCLS + "#init"
    numpy = "precise"
    c17b_capture = {FFD: FFD + "#ccinit"}
    callee_variants = {DSC + ".variable_sizes": "c17cc"}
    params = {"output_couplings": NAMES, "formulation": TObj(IDFC, schema_key=IDFC + "#ccinit")}
    modifies = ("self",)
    loops = {0: LoopSpec(anchor="self.__output_couplings", inv=lambda c, k: [], local_types={"out_c": TStr})}

    @staticmethod
    def construction_requires(c):
        """The part of the precondition checked where IDF._build_constraints constructs the constraint (pyvc/plug_c17b.py)."""
        return [("output-couplings-are-design-variables",
                 couplings_are_design_variables(c.old.output_couplings, c.old.formulation.optimization_problem.design_space._variables))]

    def requires(self, c):
        V = c.old.formulation.optimization_problem.design_space._variables
        oc = c.old.output_couplings
        j = z3.Int("j!ccb")
        lb, ub = N17.VARB.accessor("lower_bound"), N17.VARB.accessor("upper_bound")
        return self.construction_requires(c) + [
            # DesignSpace invariant (C02): the two bounds of a variable have its size
            ("bounds-have-the-same-size", z3.ForAll([j], z3.Implies(z3.And(0 <= j, j < oc.n), F1.dim(lb(V.vals[oc.elems[j]])) == F1.dim(ub(V.vals[oc.elems[j]]))),
                                                    patterns=[oc.elems[j]]))]

    def ensures(self, c):
        s1 = c.new.self
        me, oc, form = c.arg("self"), c.arg("output_couplings"), c.arg("formulation")
        cf = raw(s1, CP_ + "coupl_func")
        out = [("formulation-is-the-given-one", z3.BoolVal(raw(s1, CP_ + "formulation") == form)),
               ("output-couplings-are-the-given-ones", z3.BoolVal(raw(s1, CP_ + "output_couplings") == oc))]
        heap = c._new_heap
        is_new_ffd = isinstance(cf, Ref) and isinstance(heap.get(cf.id), PyObj) and heap[cf.id].cls == FFD and cf.id not in c._old_heap
        out.append(("coupling-function-is-a-new-function-from-discipline", z3.BoolVal(is_new_ffd)))
        if not is_new_ffd:
            return out
        ctor = heap[cf.id].fields.get("c17_ctor")
        out.append(("coupling-function-of-exactly-these-couplings-for-this-formulation", z3.BoolVal(ctor == ((oc, form), ()))))
        cfv = C.View(heap, cf, c.st)
        nf = raw(s1, CP_ + "norm_fact")
        norm = c.old.formulation.normalize_constraints
        i = z3.Int("i!ccn")
        if isinstance(nf, Ref):
            a = heap[nf.id]
            good = z3.ForAll([i], z3.Implies(z3.And(0 <= i, i < a.shape[0]), N17._good(a.elems[i])))
            out += [("normalised:factor-is-finite-and-non-zero", good), ("array-factor-only-when-normalising", norm)]
        else:
            out += [("not-normalised:factor-is-one", z3.And(z3.Not(norm), z3.BoolVal(isinstance(nf, float) and nf == 1.0)))]
        dv = raw(s1, CP_ + "dv_names_of_disc")
        out += [
            ("input-names-of-the-discipline-are-those-of-the-coupling-function", z3.BoolVal(isinstance(dv, Ref) and dv == raw(cfv, "_input_names"))),
            ("wraps-its-own-value-function", z3.BoolVal(_is_method_of(raw(s1, "_func"), me, CCLS + "._func_to_wrap"))),
            ("wraps-its-own-jacobian-function", z3.BoolVal(_is_method_of(raw(s1, "_jac"), me, CCLS + "._jac_to_wrap"))),
            ("type-is-equality", z3.BoolVal(raw(s1, "f_type") == "eq")),
            ("name-of-the-coupling-function", s1.name == cfv.name),
            ("input-names-of-the-coupling-function", z3.And(s1._input_names.n == cfv._input_names.n, s1._input_names.elems == cfv._input_names.elems)),
            ("output-names-of-the-coupling-function", z3.And(s1._output_names.n == cfv._output_names.n, s1._output_names.elems == cfv._output_names.elems)),
            ("output-dimension-left-to-the-first-evaluation", s1.dim == 0),
            ("original-is-itself", z3.BoolVal(raw(s1, "original") == me)),
        ]
        return out


# ============================================================================ ConsistencyConstraint._jac_to_wrap (matrix Jacobian)
from contracts import c17_formulations as F  # noqa: E402
from pyvc.values import TFun, forall_pat  # noqa: E402

F2 = TArr("f", 2)
BF = F.BF
COUPLING_J = TFun("c17_coupling_jacobian", [F1], F2)
coupling_j = z3.Function("c17_coupling_jacobian", F1.sort(), F2.sort())
schema(FFD + "#asjac", {"_jac": COUPLING_J})
schema(CCLS + "#jac2", {CP_ + "formulation": TObj(BF, schema_key=BF + "#idf"), CP_ + "output_couplings": NAMES,
                        CP_ + "coupl_func": TObj(FFD, schema_key=FFD + "#asjac"), CP_ + "norm_fact": F1, CP_ + "dv_len": TDict(TStr, TInt)})


class _J:
    """Spec view of the constraint: names, sizes, offsets."""

    def __init__(self, s):
        self.form = getattr(s, CP_ + "formulation")
        oc = getattr(s, CP_ + "output_couplings")
        self.m = F.Seq(oc.n, oc.elems)
        self.d = self.form.optimization_problem.design_space._variables
        self.a = F.Seq(self.d.n, self.d.keys)
        self.vs = self.form.variable_sizes
        self.sz = self.vs.vals
        self.nf = getattr(s, CP_ + "norm_fact")
        self.dv = getattr(s, CP_ + "dv_len")
        self.normalize = self.form.normalize_constraints
        self.total = F.off(self.m.a, self.sz, self.m.n)  # number of coupling components = rows
        self.N = F.off(self.a.a, self.sz, self.a.n)  # number of design components = columns

    def om(self, k):
        return F.off(self.m.a, self.sz, k)

    def target_col(self, name, i, row0):
        """Column of the coupling target of row i, for a row of the block (starting at row0) of the output coupling `name`."""
        return F.off(self.a.a, self.sz, self.d.pos[name]) + (i - row0)


def _ind(cond):
    return z3.If(cond, z3.RealVal(1), z3.RealVal(0))


def _blocks_done(X, j, upto):
    """Rows of the first `upto` output couplings: 1 at the column of the coupling target of the row, 0 elsewhere."""
    k, i, p = z3.Int("k!jb"), z3.Int("i!jb"), z3.Int("p!jb")
    nm = j.m.a[k]
    e = F.at(X.obj.elems, i, p)
    return F.fa_multi([k, i, p], z3.Implies(z3.And(0 <= k, k < upto, j.om(k) <= i, i < j.om(k) + j.sz[nm], 0 <= p, p < j.N),
                                            e == _ind(p == j.target_col(nm, i, j.om(k)))), j.m.a[k], e)


def _rows_zero_from(X, j, row0):
    i, p = z3.Int("i!jz"), z3.Int("p!jz")
    e = F.at(X.obj.elems, i, p)
    return F.fa_multi([i, p], z3.Implies(z3.And(row0 <= i, i < j.total, 0 <= p, p < j.N), e == 0), e)


def _jac_outer_inv(c, k):
    j = _J(c.old.self)
    X = c.locals["x_jac_2d"]
    return [("o_min", c.locals["o_min"] == j.om(k)), ("o_max", c.locals["o_max"] == j.om(k)), ("nonneg", j.om(k) >= 0),
            ("prefix-below", F.prefix_below(j.m, j.sz, k)),
            ("shape", z3.And(F.ln(X, 0) == j.total, F.ln(X, 1) == j.N)),
            ("blocks-done", _blocks_done(X, j, k)), ("rest-zero", _rows_zero_from(X, j, j.om(k)))]


def _jac_inner_inv(c, l):
    """While scanning the design variables for the current output coupling `out` (rows [o_min, o_max)): the identity block is in place
    iff the variable `out` was passed; the other rows are as they were when the scan started."""
    j = _J(c.old.self)
    X, X0 = c.locals["x_jac_2d"], c.pre_locals["x_jac_2d"]
    out, o_min, o_max = c.locals["out"], c.locals["o_min"], c.locals["o_max"]
    i, p = z3.Int("i!ji"), z3.Int("p!ji")
    e, e0 = F.at(X.obj.elems, i, p), F.at(X0.obj.elems, i, p)
    inrow = z3.And(o_min <= i, i < o_max)
    return [("i_min", c.locals["i_min"] == F.off(j.a.a, j.sz, l)), ("i_max", c.locals["i_max"] == F.off(j.a.a, j.sz, l)),
            ("nonneg", F.off(j.a.a, j.sz, l) >= 0),
            ("shape", z3.And(F.ln(X, 0) == j.total, F.ln(X, 1) == j.N)),
            ("block", F.fa_multi([i, p], z3.Implies(z3.And(inrow, 0 <= p, p < j.N),
                                                    e == _ind(z3.And(j.d.pos[out] < l, p == j.target_col(out, i, o_min)))), e)),
            ("other-rows-untouched", F.fa_multi([i, p], z3.Implies(z3.And(0 <= i, i < j.total, z3.Not(inrow), 0 <= p, p < j.N), e == e0), e))]


@register
class ConsistencyJacobian(Contract):
    """Jacobian of (y(x) - y_copy)/norm for a matrix coupling Jacobian: entry (i, p) = (dy_i/dx_p - [p is the column of the coupling target
    of component i]) / norm_i (division only when normalize_constraints): the coupling Jacobian minus the identity on the columns of the
    coupling targets, divided row-wise by the factor."""

    targets = (CCLS + "._jac_to_wrap",)
    prop = ("C17",)
    self_schema = CCLS + "#jac2"
    numpy = "precise"
    np_c17 = True
    c17b_np = True
    frame_arrays = True
    params = {"x_vect": F1}
    returns = F2
    loops = {0: LoopSpec(anchor="self.__output_couplings", inv=_jac_outer_inv, modifies=("x_jac_2d",), local_types={"out": TStr}),
             1: LoopSpec(anchor="x_names", inv=_jac_inner_inv, modifies=("x_jac_2d",), local_types={"x_i": TStr})}

    def requires(self, c):
        j = _J(c.old.self)
        d, vs, dv = j.d, j.vs, j.dv
        x = z3.Const("k!jq", STR)
        q = z3.Int("j!jq")
        v = z3.Const("v!jq", F1.sort())
        return [("all-names-have-sizes", F.sized(j.a, vs)),
                ("design-space-sizes-consistent", forall_pat([x], z3.Implies(d.member[x], z3.And(vs.member[x], vs.vals[x] == F.vsize(d.vals[x]))), d.member[x])),
                ("sizes-positive", forall_pat([x], z3.Implies(d.member[x], F.vsize(d.vals[x]) >= 1), d.member[x])),
                # __dv_len is design_space.variable_sizes taken at construction; IDF never changes its design space
                ("stored-sizes-are-the-variable-sizes", forall_pat([x], z3.Implies(d.member[x], z3.And(dv.member[x], dv.vals[x] == vs.vals[x])), d.member[x])),
                # IDF._update_design_space raises unless every coupling is a design variable
                ("couplings-are-design-variables", z3.ForAll([q], z3.Implies(z3.And(0 <= q, q < j.m.n), z3.And(d.member[j.m.a[q]], d.pos[j.m.a[q]] >= 0)), patterns=[j.m.a[q]])),
                ("vector-has-the-full-dimension", F.ln(c.old.x_vect) == j.N),
                ("coupling-jacobian-has-one-row-per-coupling-component-and-one-column-per-design-component",
                 z3.ForAll([v], z3.And(F2.dim(coupling_j(v), 0) == j.total, F2.dim(coupling_j(v), 1) == j.N), patterns=[coupling_j(v)])),
                ("norm-factor-has-one-component-per-coupling-component", F.ln(j.nf) == j.total)]

    def axioms(self, c):
        j = _J(c.old.self)
        return F.off_axioms() + [("lemma:off-monotone(couplings)", F.off_mono(j.m, j.sz)), ("lemma:off-monotone(all)", F.off_mono(j.a, j.sz))]

    def ensures(self, c):
        j = _J(c.old.self)
        res, x = c.result, c.old.x_vect
        J = coupling_j(F._arr_term(x))
        k, i, p = z3.Int("k!je"), z3.Int("i!je"), z3.Int("p!je")
        nm = j.m.a[k]
        e = F.at(res.obj.elems, i, p)
        dy = z3.Select(F2.els(J), i, p)
        diff = dy - _ind(p == j.target_col(nm, i, j.om(k)))
        return [("shape", z3.And(F.ln(res, 0) == j.total, F.ln(res, 1) == j.N)),
                ("entries", F.fa_multi([k, i, p], z3.Implies(z3.And(0 <= k, k < j.m.n, j.om(k) <= i, i < j.om(k) + j.sz[nm], 0 <= p, p < j.N),
                                                             e == z3.If(j.normalize, diff / F.el(j.nf, i), diff)), j.m.a[k], e))]


# ---------------------------------------------------------------------------- scalar coupling: gradient (rank 1) from the coupling function
COUPLING_G = TFun("c17_coupling_gradient", [F1], F1)
coupling_g = z3.Function("c17_coupling_gradient", F1.sort(), F1.sort())
schema(FFD + "#asgrad", {"_jac": COUPLING_G})
schema(CCLS + "#jac1", {CP_ + "formulation": TObj(BF, schema_key=BF + "#idf"), CP_ + "output_couplings": NAMES,
                        CP_ + "coupl_func": TObj(FFD, schema_key=FFD + "#asgrad"), CP_ + "norm_fact": F1, CP_ + "dv_len": TDict(TStr, TInt)})


@register
class ConsistencyGradient(Contract):
    """Scalar coupling (one output coupling of size 1, the coupling function returns a gradient): entry p = (dy/dx_p - [p is the column of
    the coupling target]) / norm (a 1 x N matrix when normalised - numpy broadcasting against the factor column -, a vector otherwise)."""

    targets = (CCLS + "._jac_to_wrap",)
    variant = "gradient"
    prop = ("C17",)
    self_schema = CCLS + "#jac1"
    numpy = "precise"
    np_c17 = True
    frame_arrays = True
    params = {"x_vect": F1}

    def requires(self, c):
        j = _J(c.old.self)
        v = z3.Const("v!jg", F1.sort())
        base = [r for r in ConsistencyJacobian.requires(self, c) if not r[0].startswith(("coupling-jacobian", "stored-sizes"))]
        return base + [("one-scalar-output-coupling", z3.And(j.m.n == 1, j.sz[j.m.a[0]] == 1)),
                       ("coupling-gradient-has-one-component-per-design-component", z3.ForAll([v], F1.dim(coupling_g(v)) == j.N, patterns=[coupling_g(v)]))]

    def axioms(self, c):
        j = _J(c.old.self)
        M = F.mem_of(j.m.a, j.m.n)
        pos0 = j.d.pos[j.m.a[0]]
        e = z3.K(INT, pos0)
        return F.off_axioms() + F.offm_axioms() + F.mem_axioms(j.m) + [
            F.distinct_inj(j.a), ("lemma:off-monotone(couplings)", F.off_mono(j.m, j.sz)), ("lemma:off-monotone(all)", F.off_mono(j.a, j.sz)),
            ("lemma:offm-monotone", F.offm_mono(j.a, j.sz, M)), ("lemma:psum-bridge", F.psum_bridge(j.a, j.sz)),
            # OffsetLemmas (consumed-is-offset) for the one-element sub-list [coupling] of the design variables, embedded at its position
            # (an instance of the lemma's conclusion; its premise - [coupling] is a sub-list of the design variables, embedded at the
            # coupling's position - is the precondition couplings-are-design-variables)
            ("lemma:consumed-is-offset", F.consumed_is_offset(j.m, j.a, j.sz, e)),
            # ground instances of the axioms / lemmas above (at the single coupling and at its position among the design variables)
            ("instance:off(couplings, 1)", z3.And(F.off(j.m.a, j.sz, 0) == 0, F.off(j.m.a, j.sz, 1) == F.off(j.m.a, j.sz, 0) + j.sz[j.m.a[0]])),
            ("instance:off-monotone(all) at the coupling", z3.Implies(z3.And(F.nonneg_sizes(j.a, j.sz), 0 <= pos0, pos0 < j.a.n),
                                                                      z3.And(0 <= F.off(j.a.a, j.sz, pos0), F.off(j.a.a, j.sz, pos0) + j.sz[j.a.a[pos0]] <= j.N)))]

    def ensures(self, c):
        j = _J(c.old.self)
        res, x = c.result, c.old.x_vect
        G = coupling_g(F._arr_term(x))
        p, q = z3.Int("p!jg"), z3.Int("q!jg")
        nm = j.m.a[0]
        # (column p lies in the chunk of the q-th design variable: it is the column of the coupling target iff this variable is the coupling)
        diff = z3.Select(F1.els(G), p) - _ind(j.a.a[q] == nm)
        rank = res.obj.rank
        e = F.at(res.obj.elems, *([z3.IntVal(0)] if rank == 2 else []), p)
        rng = z3.And(0 <= q, q < j.a.n, F.off(j.a.a, j.sz, q) <= p, p < F.off(j.a.a, j.sz, q) + j.sz[j.a.a[q]])
        shape = z3.And(F.ln(res, 0) == 1, F.ln(res, 1) == j.N) if rank == 2 else F.ln(res) == j.N
        return [("shape", shape), ("matrix-iff-normalised", j.normalize == z3.BoolVal(rank == 2)),
                ("entries", F.fa_multi([q, p], z3.Implies(rng, e == z3.If(j.normalize, diff / F.el(j.nf, 0), diff)), j.a.a[q], e))]


# ============================================================================ lemmas tying the clauses / the formulations together (pure SMT)
REAL = z3.RealSort()
RARR = z3.ArraySort(INT, REAL)


@register
class FormulationLemmas(Contract):
    """Specification-level lemmas (closed formulas proved by the SMT solver):

    * jacobian-is-the-derivative-of-the-value: moving the design vector by h along coordinate p changes component i of the VALUE clause of
      ConsistencyConstraint._func_to_wrap, (y_i(x) - x[c_i]) / norm_i, by exactly h times entry (i, p) of the JACOBIAN clause of
      _jac_to_wrap, (dy_i/dx_p - [p = c_i]) / norm_i, whenever the coupling function moves by h * dy_i/dx_p (i.e. when the coupling
      Jacobian is the derivative of the coupling function; first-order part); with and without normalisation.
    * same-adapter-inputs: the adapter input vector of a FunctionFromDiscipline (clause `adapter-input-is-the-gather`) evaluated in IDF at
      the design vector (x, y) laid out along the IDF design variables equals, component by component, the input vector of the same
      discipline laid out from the physical values of its input variables - the vector the MDA feeds the discipline with when y = y*(x)
      (abstract mda_solution): both "masks" select the same physical variables; hence (adapter = a function of the content of its input
      vector) the MDF and the IDF objective / constraint functions have the same value there.
    * all-consistency-constraints-vanish-iff-fixed-point: lifting of the per-component clause `vanishes-iff-consistent` over all the
      constraints and components: every consistency constraint vanishes iff every coupling target equals the coupling computed from the
      design vector, y = Y(x, y) (the definition of the multidisciplinary solution)."""

    targets = ()
    prop = ("C17",)
    lemma = True

    def lemmas(self):
        out = []
        # ---- (1) value clause vs Jacobian clause
        y0, y1, J, h, nf = z3.Reals("y0 y1 J h nf")
        x = z3.Const("x", RARR)
        c_i, p = z3.Ints("c_i p")
        x1 = z3.Store(x, p, x[p] + h)  # the design vector moved by h along coordinate p
        ind = z3.If(p == c_i, z3.RealVal(1), z3.RealVal(0))
        first_order = y1 - y0 == h * J
        for normalised in (True, False):
            v0 = (y0 - x[c_i]) / nf if normalised else y0 - x[c_i]
            v1 = (y1 - x1[c_i]) / nf if normalised else y1 - x1[c_i]
            jac = (J - ind) / nf if normalised else J - ind
            out.append((f"jacobian-is-the-derivative-of-the-value[{'normalised' if normalised else 'plain'}]",
                        z3.Implies(z3.And(first_order, nf != 0), v1 - v0 == h * jac)))
        # ---- (2) the two layouts select the same physical variables
        a, m = F.Seq(z3.Int("nA"), z3.Const("a", F.NAMES)), F.Seq(z3.Int("nM"), z3.Const("m", F.NAMES))
        sz = z3.Const("sz", F.SIZES)
        phys = z3.Function("c17_physical_value", STR, INT, REAL)  # value of component t of a variable (x for a design variable, y*(x) for a coupling)
        z, r, w = z3.Const("z", RARR), z3.Const("r", RARR), z3.Const("w", RARR)
        i, j, t, q = z3.Ints("i j t q")
        z_is_physical = z3.ForAll([j, t], z3.Implies(z3.And(0 <= j, j < a.n, 0 <= t, t < sz[a.a[j]]), z[F.off(a.a, sz, j) + t] == phys(a.a[j], t)),
                                  patterns=[z3.MultiPattern(a.a[j], phys(a.a[j], t))])
        w_is_physical = z3.ForAll([i, t], z3.Implies(z3.And(0 <= i, i < m.n, 0 <= t, t < sz[m.a[i]]), w[F.off(m.a, sz, i) + t] == phys(m.a[i], t)),
                                  patterns=[z3.MultiPattern(m.a[i], phys(m.a[i], t))])
        pre = z3.And(F.gathered(r, z, m, a, sz), z_is_physical, w_is_physical, 0 <= i, i < m.n, 0 <= j, j < a.n, m.a[i] == a.a[j], 0 <= t, t < sz[m.a[i]],
                     phys(m.a[i], t) == phys(m.a[i], t))
        out.append(("same-adapter-inputs", z3.Implies(pre, r[F.off(m.a, sz, i) + t] == w[F.off(m.a, sz, i) + t])))
        # hence equal values, for an adapter that is a function of the content of its input vector
        f = z3.Function("c17_adapter_of_content", INT, RARR, REAL)
        n = z3.Int("n")
        u, v = z3.Const("u", RARR), z3.Const("v", RARR)
        extensional = z3.ForAll([u, v], z3.Implies(z3.ForAll([q], z3.Implies(z3.And(0 <= q, q < n), u[q] == v[q])), f(n, u) == f(n, v)), patterns=[z3.MultiPattern(f(n, u), f(n, v))])
        same = z3.ForAll([q], z3.Implies(z3.And(0 <= q, q < n), r[q] == w[q]))
        out.append(("same-adapter-inputs-give-the-same-value", z3.Implies(z3.And(extensional, same), f(n, r) == f(n, w))))
        # ---- (3) all the consistency constraints vanish iff the couplings are at the fixed point
        val = z3.Function("c17_constraint_value", INT, INT, REAL)  # component i of the consistency constraint of discipline d
        comp = z3.Function("c17_computed_coupling", INT, INT, REAL)  # Y(x, y): component i of the couplings computed by discipline d
        targ = z3.Function("c17_coupling_target", INT, INT, REAL)  # y: the corresponding component of the design vector
        dim = z3.Function("c17_coupling_dimension", INT, INT)
        nd, d = z3.Ints("nd d")
        rng = z3.And(0 <= d, d < nd, 0 <= i, i < dim(d))
        per_component = z3.ForAll([d, i], z3.Implies(rng, (val(d, i) == 0) == (comp(d, i) == targ(d, i))), patterns=[val(d, i)])
        all_vanish = z3.ForAll([d, i], z3.Implies(rng, val(d, i) == 0), patterns=[val(d, i)])
        fixed_point = z3.ForAll([d, i], z3.Implies(rng, comp(d, i) == targ(d, i)), patterns=[val(d, i)])
        out.append(("all-consistency-constraints-vanish-iff-fixed-point", z3.Implies(per_component, all_vanish == fixed_point)))
        return out
