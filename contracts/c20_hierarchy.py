"""C20 - the class hierarchy of gemseo read from the REAL source (no import of gemseo): which class provides each method of the
state protocol (``__getstate__``, ``__setstate__``, ``__reduce__``, ``__reduce_ex__``, ``__getnewargs__``, ``__getnewargs_ex__``,
``__deepcopy__``, ``__copy__``, ``_init_shared_memory_attrs_before``, ``_init_shared_memory_attrs_after``) and the value of
``_ATTR_NOT_TO_SERIALIZE`` for every class.

Pure helper module (no contract is registered here): ``contracts/c20_classes.py`` turns these facts into lemma obligations.
Every ``.py`` file below ``src/gemseo`` is parsed on each run (``pyvc.source.SRC``, so a seeded scratch copy is honoured); classes are
keyed by ``module.Class`` (nested classes ``module.Outer.Inner``); bases are resolved through the imports of the defining module
(re-exports followed); the method resolution order is the C3 linearisation (bases outside the repository are kept as leaves).
"""
from __future__ import annotations

import ast
from dataclasses import dataclass, field

from pyvc import source as S

PROTOCOL = ("__getstate__", "__setstate__", "__reduce__", "__reduce_ex__", "__getnewargs__", "__getnewargs_ex__", "__deepcopy__", "__copy__",
            "_init_shared_memory_attrs_before", "_init_shared_memory_attrs_after")
EXCLUSION = "_ATTR_NOT_TO_SERIALIZE"
SER = "gemseo.core.serializable.Serializable"


@dataclass
class Cls:
    qualname: str
    module: str
    node: ast.ClassDef
    bases: list = field(default_factory=list)  # qualified names
    defines: dict = field(default_factory=dict)  # protocol name -> ast.FunctionDef | ast expr (assignment)
    exclusion_expr: ast.AST | None = None
    slots: bool = False

    @property
    def name(self):
        return self.node.name


_cache: dict = {}


def _module_name(path):
    rel = path.relative_to(S.SRC).with_suffix("")
    parts = list(rel.parts)
    if parts[-1] == "__init__":
        parts = parts[:-1]
    return ".".join(parts)


def _imports(tree, modname, is_pkg):
    """local name -> qualified name, for every import statement of the module (any nesting level: TYPE_CHECKING blocks, try/except)."""
    out = {}
    for node in ast.walk(tree):
        if isinstance(node, ast.ImportFrom):
            if node.level:
                base = modname.split(".")
                base = base[: len(base) - node.level + (1 if is_pkg else 0)]
                mod = ".".join(base + ([node.module] if node.module else []))
            else:
                mod = node.module or ""
            for a in node.names:
                out.setdefault(a.asname or a.name, f"{mod}.{a.name}")
        elif isinstance(node, ast.Import):
            for a in node.names:
                out.setdefault(a.asname or a.name.split(".")[0], a.name if a.asname else a.name.split(".")[0])
    return out


def scan():
    """All classes of src/gemseo: {qualname: Cls}."""
    key = str(S.SRC)
    if key in _cache:
        return _cache[key]
    classes: dict = {}
    imports_of: dict = {}
    toplevel: dict = {}
    for path in sorted((S.SRC / "gemseo").rglob("*.py")):
        modname = _module_name(path)
        tree = ast.parse(path.read_text())
        imports_of[modname] = _imports(tree, modname, path.name == "__init__.py")
        toplevel[modname] = set()

        def visit(body, prefix, modname=modname):
            for node in body:
                if isinstance(node, ast.ClassDef):
                    q = f"{prefix}.{node.name}"
                    c = Cls(q, modname, node)
                    for item in node.body:
                        if isinstance(item, (ast.FunctionDef, ast.AsyncFunctionDef)) and item.name in PROTOCOL:
                            c.defines[item.name] = item
                        tgt = None
                        if isinstance(item, ast.Assign) and len(item.targets) == 1 and isinstance(item.targets[0], ast.Name):
                            tgt, val = item.targets[0].id, item.value
                        elif isinstance(item, ast.AnnAssign) and isinstance(item.target, ast.Name) and item.value is not None:
                            tgt, val = item.target.id, item.value
                        if tgt in PROTOCOL:
                            c.defines[tgt] = val
                        elif tgt == EXCLUSION:
                            c.exclusion_expr = val
                        elif tgt == "__slots__":
                            c.slots = True
                    classes[q] = c
                    if prefix == modname:
                        toplevel[modname].add(node.name)
                    visit(node.body, q)
                elif isinstance(node, (ast.If, ast.Try)):
                    visit(node.body, prefix)
                    visit(getattr(node, "orelse", []), prefix)
                elif isinstance(node, (ast.FunctionDef, ast.AsyncFunctionDef)):
                    visit(node.body, f"{prefix}.<locals:{node.name}>")

        visit(tree.body, modname)

    def resolve(modname, name, depth=0):
        """Qualified name of ``name`` seen from ``modname`` (re-exports followed)."""
        if f"{modname}.{name}" in classes:
            return f"{modname}.{name}"
        q = imports_of.get(modname, {}).get(name)
        if q is None:
            return name
        if q in classes or depth > 8:
            return q
        m, _, n = q.rpartition(".")
        if m in imports_of:
            return resolve(m, n, depth + 1)
        return q

    for c in classes.values():
        for b in c.node.bases:
            bn = b.value if isinstance(b, ast.Subscript) else b
            if isinstance(bn, ast.Name):
                # a nested class may name a sibling/outer-scope class: module scope is what gemseo uses
                c.bases.append(resolve(c.module, bn.id))
            elif isinstance(bn, ast.Attribute):
                s = ast.unparse(bn)
                head, _, rest = s.partition(".")
                q = resolve(c.module, head)
                c.bases.append(f"{q}.{rest}" if rest else q)
            else:
                c.bases.append(ast.unparse(bn))
    _cache[key] = classes
    return classes


def mro(q, classes=None, _memo=None):
    """C3 linearisation; a base outside the repository is a leaf."""
    classes = classes or scan()
    _memo = {} if _memo is None else _memo
    if q in _memo:
        return _memo[q]
    c = classes.get(q)
    if c is None:
        return [q]
    seqs = [list(mro(b, classes, _memo)) for b in c.bases] + [list(c.bases)]
    res = [q]
    while True:
        seqs = [s for s in seqs if s]
        if not seqs:
            break
        for s in seqs:
            cand = s[0]
            if not any(cand in t[1:] for t in seqs):
                break
        else:
            raise S.SourceError(f"inconsistent hierarchy for {q}")
        res.append(cand)
        for s in seqs:
            if s[0] == cand:
                del s[0]
    _memo[q] = res
    return res


def provider(q, name, classes=None):
    """The class of the MRO of ``q`` that defines ``name`` (``None``: no class of the repository does, i.e. the default of ``object`` or of
    a third-party base applies)."""
    classes = classes or scan()
    for b in mro(q, classes):
        c = classes.get(b)
        if c is not None and name in c.defines:
            return b
    return None


def external_bases(q, classes=None):
    classes = classes or scan()
    return [b for b in mro(q, classes) if b not in classes and b not in ("object", "Generic", "typing.Generic", "abc.ABC", "ABC", "typing.Protocol")]


def is_serializable(q, classes=None):
    return SER in mro(q, classes or scan())


def exclusions(q, classes=None):
    """The value of ``_ATTR_NOT_TO_SERIALIZE`` seen by instances of ``q``: a frozenset of names, or ``None`` when the declaration found along
    the MRO is none of the supported shapes (a set display / ``set()`` of string literals, ``Base._ATTR_NOT_TO_SERIALIZE.union([literals])``,
    ``Base._ATTR_NOT_TO_SERIALIZE | {literals}``)."""
    classes = classes or scan()

    def literals(e):
        if isinstance(e, (ast.Set, ast.List, ast.Tuple)) and all(isinstance(x, ast.Constant) and isinstance(x.value, str) for x in e.elts):
            return frozenset(x.value for x in e.elts)
        if isinstance(e, ast.Call) and isinstance(e.func, ast.Name) and e.func.id in ("set", "frozenset") and not e.args and not e.keywords:
            return frozenset()
        return None

    def base_value(c, e):
        # Base._ATTR_NOT_TO_SERIALIZE
        if isinstance(e, ast.Attribute) and e.attr == EXCLUSION and isinstance(e.value, ast.Name):
            for b in c.bases:
                if b.rsplit(".", 1)[-1] == e.value.id:
                    return exclusions(b, classes)
        return None

    def value(c):
        e = c.exclusion_expr
        lit = literals(e)
        if lit is not None:
            return lit
        if isinstance(e, ast.Call) and isinstance(e.func, ast.Attribute) and e.func.attr == "union" and len(e.args) == 1 and not e.keywords:
            base, extra = base_value(c, e.func.value), literals(e.args[0])
            if base is not None and extra is not None:
                return base | extra
        if isinstance(e, ast.BinOp) and isinstance(e.op, ast.BitOr):
            base, extra = base_value(c, e.left), literals(e.right)
            if base is not None and extra is not None:
                return base | extra
        return None

    for b in mro(q, classes):
        c = classes.get(b)
        if c is not None and c.exclusion_expr is not None:
            return value(c)
    return frozenset()


def exclusion_declarer(q, classes=None):
    classes = classes or scan()
    for b in mro(q, classes):
        c = classes.get(b)
        if c is not None and c.exclusion_expr is not None:
            return b
    return None


def subclasses(base, classes=None):
    classes = classes or scan()
    memo: dict = {}
    return sorted(q for q in classes if base in mro(q, classes, memo))
