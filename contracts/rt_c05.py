"""Run-time contract for C05, used to replay failed obligations on the real code.

A reference model (map from input *content* to (outputs, jacobian), which copies everything it
stores) is run next to the real cache over an enumerated family of short operation sequences,
including in-place modification of arrays the caller passed in earlier.  Deterministic; the
witness is (cache kind, sequence index).
"""
from __future__ import annotations

import itertools

import numpy as np


_SCRATCH = None


def _scratch():
    """One scratch directory per process for the cache files of the scenarios, removed at exit."""
    global _SCRATCH
    if _SCRATCH is None:
        import atexit
        import shutil
        import tempfile

        _SCRATCH = tempfile.mkdtemp(prefix="rt_c05_")
        atexit.register(shutil.rmtree, _SCRATCH, True)
    return _SCRATCH


def _mk(kind):
    if kind == "SimpleCache":
        from gemseo.caches.simple_cache import SimpleCache

        return SimpleCache()
    if kind == "HDF5Cache":
        import tempfile
        from pathlib import Path

        from gemseo.caches.hdf5_cache import HDF5Cache

        return HDF5Cache(hdf_file_path=Path(tempfile.mkdtemp(dir=_scratch())) / "cache.h5", hdf_node_path="node")
    from gemseo.caches.memory_full_cache import MemoryFullCache

    return MemoryFullCache(is_memory_shared=(kind == "MemoryFullCache[shared]"))


def _copy(d):
    out = {}
    for k, v in d.items():
        out[k] = _copy(v) if isinstance(v, dict) else np.array(v, copy=True)
    return out


def _eq(a, b):
    if a.keys() != b.keys():
        return False
    for k in a:
        if isinstance(a[k], dict) != isinstance(b[k], dict):
            return False
        if isinstance(a[k], dict):
            if not _eq(a[k], b[k]):
                return False
        elif a[k].shape != b[k].shape or not np.array_equal(a[k], b[k]):
            return False
    return True


class Ref:
    def __init__(self, full):
        self.full = full
        self.entries = []  # list of [inputs, outputs, jac]

    def _find(self, i):
        for e in self.entries:
            if _eq(e[0], i):
                return e
        return None

    def cache_outputs(self, i, o):
        e = self._find(i)
        if e is None:
            if not self.full:
                self.entries = []
            self.entries.append([_copy(i), _copy(o), {}])
        elif not e[1]:
            e[1] = _copy(o)

    def cache_jacobian(self, i, j):
        e = self._find(i)
        if e is None:
            if not self.full:
                self.entries = []
            self.entries.append([_copy(i), {}, _copy(j)])
        elif not e[2]:
            e[2] = _copy(j)

    def get(self, i):
        e = self._find(i)
        return (e[1], e[2]) if e else ({}, {})

    def clear(self):
        self.entries = []


INPUTS = [lambda: {"x": np.array([1.0]), "y": np.array([2.0, 3.0])}, lambda: {"x": np.array([1.0]), "y": np.array([2.0, 4.0])},
          lambda: {"x": np.array([5.0]), "y": np.array([2.0, 3.0])}]
OUTS = [lambda: {"f": np.array([10.0])}, lambda: {"f": np.array([20.0])}]
JACS = [lambda: {"f": {"x": np.array([[1.0]]), "y": np.array([[2.0, 3.0]])}}, lambda: {"f": {"x": np.array([[7.0]]), "y": np.array([[8.0, 9.0]])}}]

OPS = [("cache_outputs", a, b) for a in range(3) for b in range(2)] + [("cache_jacobian", a, b) for a in range(3) for b in range(2)] + \
      [("mutate_inputs", 0, 0), ("mutate_outputs", 0, 0), ("mutate_jacobian", 0, 0), ("clear", 0, 0)]


def sequences(max_len=3):
    for n in range(1, max_len + 1):
        yield from itertools.product(range(len(OPS)), repeat=n)


def run(kind, seq, enumerate_empty_hdf5=False):
    cache = _mk(kind)
    ref = Ref(kind != "SimpleCache")
    passed = {"i": [], "o": [], "j": []}
    for step, opi in enumerate(seq):
        op, a, b = OPS[opi]
        if op == "cache_outputs":
            i, o = INPUTS[a](), OUTS[b]()
            passed["i"].append(i)
            passed["o"].append(o)
            cache.cache_outputs(i, o)
            ref.cache_outputs(i, o)
        elif op == "cache_jacobian":
            i, j = INPUTS[a](), JACS[b]()
            passed["i"].append(i)
            passed["j"].append(j)
            cache.cache_jacobian(i, j)
            ref.cache_jacobian(i, j)
        elif op == "clear":
            cache.clear()
            ref.clear()
        else:
            which = {"mutate_inputs": "i", "mutate_outputs": "o", "mutate_jacobian": "j"}[op]
            for d in passed[which]:
                for k, v in d.items():
                    if isinstance(v, dict):
                        for vv in v.values():
                            vv += 100.0
                    else:
                        v += 100.0
        for p in range(3):
            probe = INPUTS[p]()
            entry = cache[probe]
            exp_o, exp_j = ref.get(probe)
            got_o = dict(entry.outputs) if entry.outputs else {}
            got_j = {k: dict(v) for k, v in entry.jacobian.items()} if entry.jacobian else {}
            if not _eq(got_o, exp_o):
                return {"step": step, "probe": p, "what": "outputs", "got": repr(got_o), "expected": repr(exp_o)}
            if not _eq(got_j, exp_j):
                return {"step": step, "probe": p, "what": "jacobian", "got": repr(got_j), "expected": repr(exp_j)}
        # enumeration: the entries in index (insertion) order, len(cache) of them
        # (also for an empty HDF5Cache: the AssertionError of keep_open was repaired by 5ec8a9c; `enumerate_empty_hdf5` is kept for old witnesses)
        got = [(dict(e.inputs), dict(e.outputs) if e.outputs else {}, {k: dict(v) for k, v in e.jacobian.items()} if e.jacobian else {}) for e in cache]
        if len(got) != len(ref.entries) or len(cache) != len(ref.entries):
            return {"step": step, "what": "number of entries", "got": (len(got), len(cache)), "expected": len(ref.entries)}
        for n, (g, e) in enumerate(zip(got, ref.entries)):
            if not (_eq(g[0], e[0]) and _eq(g[1], e[1]) and _eq(g[2], e[2])):
                return {"step": step, "what": f"entry {n + 1} of the enumeration", "got": repr(g), "expected": repr(e)}
    return None


def kinds_for(func: str):
    if "hdf5_cache" in func or "_hdf5_file_singleton" in func:
        return ["HDF5Cache"]
    if "simple_cache" in func:
        return ["SimpleCache"]
    if "full_cache" in func:
        return ["MemoryFullCache[not shared]", "MemoryFullCache[shared]"]
    if "base_discipline" in func:
        return ["SimpleCache"]  # the discipline contracts (c05_discipline.py) are stated for the default SimpleCache policy
    return ["SimpleCache", "MemoryFullCache[not shared]", "MemoryFullCache[shared]"]


def discipline_scenario():
    """Run-time contract of the discipline-level protocol with a full cache: a discipline with a str and a float output, executed four
    times at the same input with MemoryFullCache (not shared / shared), must return what an uncached twin returns, the body running once."""
    from numpy import array, ndarray

    from gemseo.core.discipline import Discipline

    class Labelled(Discipline):
        def __init__(self):
            super().__init__(name="Labelled")
            self.io.input_grammar.update_from_types({"x": ndarray})
            self.io.output_grammar.update_from_types({"y": ndarray, "label": str, "s": float})
            self.n_runs = 0

        def _run(self, input_data):
            self.n_runs += 1
            x = input_data["x"]
            return {"y": 2.0 * x, "label": f"sum={x.sum():.1f}", "s": float(x.sum())}

    def same(a, b):
        if isinstance(a, ndarray) or isinstance(b, ndarray):
            return isinstance(a, ndarray) and isinstance(b, ndarray) and a.shape == b.shape and bool((a == b).all())
        return ((isinstance(a, str) and isinstance(b, str)) or (isinstance(a, (int, float)) and isinstance(b, (int, float)))) and a == b

    for shared in (False, True):
        d, twin = Labelled(), Labelled()
        twin.set_cache(Discipline.CacheType.NONE)
        d.set_cache(Discipline.CacheType.MEMORY_FULL, is_memory_shared=shared)
        for n in range(4):
            try:
                got = dict(d.execute({"x": array([1.0, 2.0])}))
            except Exception as e:  # noqa: BLE001
                return {"shared": shared, "execution": n + 1, "exception": repr(e)}
            exp = dict(twin.execute({"x": array([1.0, 2.0])}))
            for k in exp:
                if k not in got or not same(got[k], exp[k]):
                    return {"shared": shared, "execution": n + 1, "name": k, "got": repr(got.get(k)), "expected": repr(exp[k])}
        if d.n_runs != 1:
            return {"shared": shared, "what": "number of runs of the body", "got": d.n_runs, "expected": 1}
    return None


def replay(ob, seed=0):
    if ob.func.endswith("__can_load_cache") and "@full" in ob.name:
        r = discipline_scenario()
        return {"scenario": "discipline-with-a-full-cache-vs-uncached-twin", "failure": r} if r is not None else None
    want = None
    for name in ("cache_outputs", "cache_jacobian", "clear"):
        if ob.func.endswith("." + name):
            want = name
    import os
    import time

    # wall-clock budget of one search (the enumeration is deterministic and shortest-first; a witness of the known defects is found
    # within the first sequences): without it a clause this harness cannot exercise costs minutes per violation on a loaded machine
    deadline = time.time() + float(os.environ.get("RT_C05_BUDGET", "30"))
    for kind in kinds_for(ob.func):
        for idx, seq in enumerate(sequences(2 if kind == "HDF5Cache" else 3)):  # (file-based: every operation opens the file)
            if time.time() > deadline:
                return None
            if want and not any(OPS[i][0] == want for i in seq):
                continue
            if want != "clear" and any(OPS[i][0] == "clear" for i in seq):
                continue  # (clear is only exercised for the obligations of clear, to keep the enumeration small)
            enum = ob.func.endswith((".get_all_entries", ".__iter__"))
            try:
                r = run(kind, seq, enum)
            except Exception as e:  # noqa: BLE001
                r = {"exception": repr(e)}
            if r is not None:
                return {"scenario": "cache-vs-reference-model", "kind": kind, "sequence": [list(OPS[i]) for i in seq], "sequence_ids": list(seq), "enumerate_empty_hdf5": enum,
                        "failure": r}
    return None


def rerun(w):
    if w.get("scenario") == "discipline-with-a-full-cache-vs-uncached-twin":
        r = discipline_scenario()
        return {"fails": r is not None, "failure": r}
    try:
        r = run(w["kind"], tuple(w["sequence_ids"]), w.get("enumerate_empty_hdf5", False))
    except Exception as e:  # noqa: BLE001
        r = {"exception": repr(e)}
    return {"fails": r is not None, "failure": r}
