"""C03 - driver side: BaseDriverLibrary.execute always returns a result built from the recorded history, listener protocol,
iteration observer, stop criteria, sequential DOE loop.

Builds on contracts/c01_c03_evaluation.py (budget clauses of ProblemFunction, Database.store, driver callback).
Exception classes are resolved from the real source of gemseo.algos.stop_criteria: every class deriving from
TerminationCriterion is enumerated (``TERMINATION_CLASSES``); the base class itself stands for "any other subclass".
"""
from __future__ import annotations

import z3

from contracts import c01_c03_evaluation as E
from contracts.c01_c03_evaluation import A, DATA, DRV, HNd, LOGS, OUTS, PB, db_wf, log_appended
from pyvc import contract as C
from pyvc import gmodels as G
from pyvc import source as S
from pyvc.contract import Contract, LoopSpec, register, schema
from pyvc.models import str_concat
from pyvc.plug_c03 import LARR, TExc, bound_method_term, c03_lmem, lmem_elems_are_members
from pyvc.values import (TBool, TCallable, TDict, TInt, TList, TNd, TNone, TObj, TOpt, TReal, TRec, TSet, TStr, TVal, ValS, str_lit, val_none, val_of_str)

SC = A + "stop_criteria."
TC = SC + "TerminationCriterion"
DB = A + "database.Database"
EP = A + "evaluation_problem.EvaluationProblem"
OP = A + "optimization_problem.OptimizationProblem"
ALG = A + "base_algorithm_library.BaseAlgorithmLibrary"
RES = A + "optimization_result.OptimizationResult"
OBS = "gemseo.core.mdo_functions.collections.observables.Observables"
FUNCS = "gemseo.core.mdo_functions.collections.functions.Functions"
DS = A + "design_space.DesignSpace"
TOLS = A + "constraint_tolerances.ConstraintTolerances"
CNT = A + "evaluation_counter.EvaluationCounter"


def termination_classes():
    """Qualified names of TerminationCriterion and of every class of stop_criteria.py deriving from it (real source)."""
    mi = S.load_module(A + "stop_criteria")
    return [q for q in (f"{mi.name}.{n}" for n in mi.classes) if S.is_subclass(q, TC)]


TERMINATION_CLASSES = termination_classes()
# the stop criteria the property names: budget / tolerances / time limit / NaN
NAMED_CRITERIA = ("MaxIterReachedException", "XtolReached", "FtolReached", "KKTReached", "MaxTimeReached", "FunctionIsNan", "DesvarIsNan")

# ---------------------------------------------------------------------------- schemas (fields the code under contract touches)
schema(DS + "#c03", {"dimension": TInt})
schema(TOLS, {"equality": TVal, "inequality": TVal})
schema(OBS, {"_functions": TList(TVal)})
schema(EP + "#c03", {
    "design_space": TObj(DS, schema_key=DS + "#c03"),
    "database": TObj(DB),
    "evaluation_counter": TObj(CNT),
    "_EvaluationProblem__new_iter_observables": TObj(OBS),
})
schema(OP + "#c03", {"_OptimizationProblem__tolerances": TObj(TOLS)}, bases=[EP + "#c03"])
DRV3 = DRV + "#c03"
schema(DRV3, {
    "_algo_name": TStr,
    "enable_progress_bar": TBool,
    "_normalize_ds": TBool,
    "_problem": TObj(EP, schema_key=EP + "#c03"),
    "_BaseDriverLibrary__progress_bar": TObj(PB),
    "_BaseDriverLibrary__max_time": TReal,
    "_BaseDriverLibrary__start_time": TReal,
    "_BaseDriverLibrary__log_problem": TBool,
    "_BaseDriverLibrary__one_line_progress_bar": TBool,
    "_BaseDriverLibrary__reset_iteration_counters": TBool,
    "_BaseDriverLibrary__new_iter_listeners": TSet(TCallable),
})

LISTENERS = TList(TCallable)


# ---------------------------------------------------------------------------- spec functions on listener lists
def lin(L, f):
    """f is an element of the list view L (the term the C03 plugin builds for ``f in L``; defined in ListMembershipLemmas)."""
    return c03_lmem(L.n, L.elems, f)


def dupfree(L):
    a, b = z3.Int("a!df"), z3.Int("b!df")
    return z3.ForAll([a, b], z3.Implies(z3.And(0 <= a, a < b, b < L.n), L.elems[a] != L.elems[b]))


def same_list(L0, L1):
    """Same length and same element array (the list object was not touched)."""
    return z3.And(L0.n == L1.n, L0.elems == L1.elems)


def _members_plus(L0, L1, x):
    """The elements of L1 are those of L0 and x."""
    g = z3.Const("g!mp", ValS)
    return z3.ForAll([g], lin(L1, g) == z3.Or(lin(L0, g), g == x), patterns=[lin(L1, g)])


def same_members(L0, L1):
    f = z3.Const("f!sm", ValS)
    return z3.ForAll([f], lin(L1, f) == lin(L0, f), patterns=[lin(L1, f)])


# ---------------------------------------------------------------------------- Database: listener registration
@register
class AddListener(Contract):
    """The function is appended iff it is not yet a listener (result: whether it was appended); the other listeners keep their places."""

    targets = (DB + ".__add_listener",)
    prop = ("C03",)
    c03 = True
    params = {"function": TCallable, "listeners": LISTENERS}
    returns = TBool
    modifies = ("listeners",)

    def ensures(self, c):
        L0, L1 = c.old.listeners, c.new.listeners
        f = c.old.function
        i = z3.Int("i!al")
        return [("result", c.result == z3.Not(lin(L0, f))),
                ("size", L1.n == z3.If(lin(L0, f), L0.n, L0.n + 1)),
                ("prefix-kept", z3.ForAll([i], z3.Implies(z3.And(0 <= i, i < L0.n), L1.elems[i] == L0.elems[i]))),
                ("appended-last", z3.Implies(z3.Not(lin(L0, f)), L1.elems[L0.n] == f)),
                ("members", _members_plus(L0, L1, f)),
                ("duplicate-free-preserved", z3.Implies(dupfree(L0), dupfree(L1)))]


class _AddWrapper(Contract):
    prop = ("C03",)
    c03 = True
    params = {"function": TCallable}
    returns = TBool
    modifies = ("self",)
    field = ""
    other = ""

    def ensures(self, c):
        L0, L1 = getattr(c.old.self, self.field), getattr(c.new.self, self.field)
        O0, O1 = getattr(c.old.self, self.other), getattr(c.new.self, self.other)
        f = c.old.function
        i = z3.Int("i!aw")
        return [("result", c.result == z3.Not(lin(L0, f))),
                ("size", L1.n == z3.If(lin(L0, f), L0.n, L0.n + 1)),
                ("prefix-kept", z3.ForAll([i], z3.Implies(z3.And(0 <= i, i < L0.n), L1.elems[i] == L0.elems[i]))),
                ("appended-last", z3.Implies(z3.Not(lin(L0, f)), L1.elems[L0.n] == f)),
                ("members", _members_plus(L0, L1, f)),
                ("duplicate-free-preserved", z3.Implies(dupfree(L0), dupfree(L1))),
                ("other-listeners-kept", z3.And(O1.n == O0.n, O1.elems == O0.elems)),
                ("data-kept", z3.And(c.new.self._Database__data.n == c.old.self._Database__data.n,
                                     DATA.dt.mk(*_parts(c.new.self._Database__data)) == DATA.dt.mk(*_parts(c.old.self._Database__data))))]


def _parts(D):
    return [D.member, D.vals, D.n, D.keys, D.pos]


def data_term(D):
    return DATA.dt.mk(*_parts(D))


@register
class AddNewIterListener(_AddWrapper):
    targets = (DB + ".add_new_iter_listener",)
    field = "_Database__new_iter_listeners"
    other = "_Database__store_listeners"


@register
class AddStoreListener(_AddWrapper):
    targets = (DB + ".add_store_listener",)
    field = "_Database__store_listeners"
    other = "_Database__new_iter_listeners"


# ---------------------------------------------------------------------------- Database.clear_listeners (the call pattern of the drivers)
OPT_LSET = TOpt(TSet(TCallable))


def _removed(L0, L1, S_member):
    """L1 has exactly the elements of L0 that are not in the set."""
    f = z3.Const("f!rm", ValS)
    return z3.ForAll([f], lin(L1, f) == z3.And(lin(L0, f), z3.Not(S_member[f])), patterns=[lin(L1, f)])


def _clear_inv(c, k):
    """After k removals: the listeners are those of entry minus the first k enumerated elements of the set."""
    L0 = c.pre_locals["self"]._Database__new_iter_listeners
    L = c.locals["self"]._Database__new_iter_listeners
    seq = c.seq
    smem = seq.source_set[1]
    f = z3.Const("f!ci", ValS)
    before = z3.And(smem[f], seq.pos[f] < k)  # f is one of the first k enumerated elements of the set
    return [("members", z3.ForAll([f], lin(L, f) == z3.And(lin(L0, f), z3.Not(before)), patterns=[lin(L, f)])),
            ("duplicate-free", dupfree(L)),
            ("size", L.n == L0.n - k),
            ("removed-ones-were-listeners", z3.ForAll([f], z3.Implies(before, lin(L0, f)), patterns=[seq.pos[f]]))]


@register
class ClearListeners(Contract):
    """clear_listeners(new_iter_listeners=<set or None>, store_listeners=None): None keeps everything; a non-empty set removes exactly its
    elements (ValueError if one of them is not a listener); an empty set removes every new-iteration listener.  Store listeners are kept."""

    targets = (DB + ".clear_listeners",)
    prop = ("C03",)
    c03 = True
    params = {"new_iter_listeners": OPT_LSET, "store_listeners": TNone}
    modifies = ("self",)
    loops = {1: LoopSpec(anchor="new_iter_listeners", inv=_clear_inv, modifies=("self._Database__new_iter_listeners",))}

    def _set(self, c):
        """(is None, membership array, size) of the set argument."""
        t = c.old.new_iter_listeners.term
        inner = OPT_LSET.dt.get(t)
        return OPT_LSET.dt.is_none(t), OPT_LSET.inner.dt.accessor(0, 0)(inner), OPT_LSET.inner.dt.accessor(0, 1)(inner)

    def requires(self, c):
        return [("new-iter-listeners-duplicate-free", dupfree(c.old.self._Database__new_iter_listeners))]

    @property
    def raises(self):
        def cond(c):
            none, mem, n = self._set(c)
            f = z3.Const("f!ce", ValS)
            return z3.And(z3.Not(none), n != 0, z3.Exists([f], z3.And(mem[f], z3.Not(lin(c.old.self._Database__new_iter_listeners, f)))))

        return {"ValueError": cond}

    def ensures(self, c):
        s0, s1 = c.old.self, c.new.self
        L0, L1 = s0._Database__new_iter_listeners, s1._Database__new_iter_listeners
        none, mem, n = self._set(c)
        return [("none:listeners-kept", z3.Implies(none, same_list(L0, L1))),
                ("set:exactly-its-elements-removed", z3.Implies(z3.And(z3.Not(none), n != 0), _removed(L0, L1, mem))),
                ("set:size", z3.Implies(z3.And(z3.Not(none), n != 0), L1.n == L0.n - n)),
                ("empty-set:all-removed", z3.Implies(z3.And(z3.Not(none), n == 0), L1.n == 0)),
                ("duplicate-free", dupfree(L1)),
                ("store-listeners-kept", same_list(s0._Database__store_listeners, s1._Database__store_listeners)),
                ("data-kept", data_term(s1._Database__data) == data_term(s0._Database__data))]


# ---------------------------------------------------------------------------- the facts the list model hands over, proved from the definition
@register
class ListMembershipLemmas(Contract):
    """c03_lmem(n, E, f) is DEFINED as `exists i. 0 <= i < n and E[i] = f`.  Each fact that pyvc/plug_c03.py assumes after `in`, append and
    remove on a list of opaque values is proved here from that definition (for arbitrary n, E, x, index r)."""

    targets = ()
    prop = ("C03",)
    lemma = True

    def lemmas(self):
        n, r, i, a, b = z3.Ints("n r i a b")
        E, E1 = z3.Consts("E E1", LARR)
        x, f = z3.Consts("x f", ValS)
        df = lambda m, arr: z3.ForAll([f], c03_lmem(m, arr, f) == z3.Exists([i], z3.And(0 <= i, i < m, arr[i] == f)))  # noqa: E731
        app = z3.Store(E, n, x)
        removed = z3.And(0 <= r, r < n, E[r] == x, z3.ForAll([i], z3.Implies(z3.And(0 <= i, i < r), E[i] != x)),
                         z3.ForAll([i], E1[i] == z3.If(i < r, E[i], E[i + 1])))
        dup_free = z3.ForAll([a, b], z3.Implies(z3.And(0 <= a, a < b, b < n), E[a] != E[b]))
        # the point-wise definition of E1 read at i - 1 and triggered by E[i] (an instance of `removed`, see 'shifted-instance')
        shifted = z3.ForAll([i], E1[i - 1] == z3.If(i - 1 < r, E[i - 1], E[i]), patterns=[E[i]])
        direct = z3.ForAll([i], E1[i] == z3.If(i < r, E[i], E[i + 1]), patterns=[E[i]])
        return [
            ("elements-are-members", z3.Implies(df(n, E), lmem_elems_are_members(n, E))),
            ("append:members", z3.Implies(z3.And(n >= 0, df(n, E), df(n + 1, app)), z3.ForAll([f], c03_lmem(n + 1, app, f) == z3.Or(c03_lmem(n, E, f), f == x)))),
            ("remove:value-was-a-member", z3.Implies(z3.And(df(n, E), removed), c03_lmem(n, E, x))),
            ("remove:shifted-instance", z3.Implies(removed, z3.And(E1[i - 1] == z3.If(i - 1 < r, E[i - 1], E[i]), E1[i] == z3.If(i < r, E[i], E[i + 1])))),
            ("remove:others-keep-membership:if", z3.Implies(z3.And(df(n, E), df(n - 1, E1), removed, shifted, direct, f != x, c03_lmem(n, E, f)), c03_lmem(n - 1, E1, f))),
            ("remove:others-keep-membership:only-if", z3.Implies(z3.And(df(n, E), df(n - 1, E1), removed, f != x, c03_lmem(n - 1, E1, f)), c03_lmem(n, E, f))),
            ("remove:gone-when-duplicate-free", z3.Implies(z3.And(df(n, E), df(n - 1, E1), removed, dup_free), z3.Not(c03_lmem(n - 1, E1, x)))),
        ]


# ---------------------------------------------------------------------------- BaseDriverLibrary: listeners and iteration observer
PROBLEM = TObj(EP, schema_key=EP + "#c03")
OPT_PROBLEM = TObj(OP, schema_key=OP + "#c03")


def own_listeners(s):
    return s._BaseDriverLibrary__new_iter_listeners


@register
class ProgressBarFinalize(Contract):
    targets = (PB + ".finalize_iter_observer",)
    prop = ("C03",)
    modifies = ("self",)
    trusted = True
    description = "assumed: progress bars only touch their own state (DESIGN §2.2)"


@register
class DriverClearListeners(Contract):
    """The listeners this driver instance registered (its own set) are removed from the database, nothing else is, and the set is emptied."""

    targets = (DRV + "._clear_listeners",)
    prop = ("C03",)
    c03 = True
    self_schema = DRV3
    params = {"problem": PROBLEM}
    modifies = ("self", "problem.database")

    raises = {}  # (Database.clear_listeners raises ValueError for a listener that is not registered: excluded by the second precondition)

    def requires(self, c):
        NL = c.old.problem.database._Database__new_iter_listeners
        S0 = own_listeners(c.old.self)
        f = z3.Const("f!dc", ValS)
        return [("new-iter-listeners-duplicate-free", dupfree(NL)),
                # the driver only ever puts into its own set what it has just registered (proved at the call site in execute)
                ("own-listeners-are-registered", z3.ForAll([f], z3.Implies(S0.member[f], lin(NL, f)), patterns=[S0.member[f]]))]

    def ensures(self, c):
        d0, d1 = c.old.problem.database, c.new.problem.database
        L0, L1 = d0._Database__new_iter_listeners, d1._Database__new_iter_listeners
        S0, S1 = own_listeners(c.old.self), own_listeners(c.new.self)
        return [("own-set-emptied", S1.n == 0),
                ("exactly-the-own-listeners-removed", _removed(L0, L1, S0.member)),
                ("size", L1.n == L0.n - S0.n),
                ("duplicate-free", dupfree(L1)),
                ("store-listeners-kept", same_list(d0._Database__store_listeners, d1._Database__store_listeners)),
                ("data-kept", data_term(d1._Database__data) == data_term(d0._Database__data)),
                ("driver-state-kept", z3.And(c.new.self._BaseDriverLibrary__log_problem == c.old.self._BaseDriverLibrary__log_problem,
                                             c.new.self._algo_name == c.old.self._algo_name))]


@register
class InitIterObserver(Contract):
    """The evaluation budget of the run: maximum = max_iter; the counter restarts from 0 unless reset_iteration_counters is off."""

    targets = (DRV + "._init_iter_observer",)
    prop = ("C03",)
    c03 = True
    self_schema = DRV3
    params = {"problem": PROBLEM, "max_iter": TInt, "message": TStr}
    modifies = ("self", "problem.evaluation_counter")

    def ensures(self, c):
        k0, k1 = c.old.problem.evaluation_counter, c.new.problem.evaluation_counter
        s0, s1 = c.old.self, c.new.self
        return [("maximum-is-max-iter", k1.maximum == c.old.max_iter),
                ("counter-reset-or-kept", k1.current == z3.If(s0._BaseDriverLibrary__reset_iteration_counters, 0, k0.current)),
                ("own-listeners-kept", z3.And(own_listeners(s1).n == own_listeners(s0).n, own_listeners(s1).member == own_listeners(s0).member)),
                ("settings-kept", z3.And(s1._BaseDriverLibrary__max_time == s0._BaseDriverLibrary__max_time,
                                         s1._BaseDriverLibrary__reset_iteration_counters == s0._BaseDriverLibrary__reset_iteration_counters,
                                         s1._BaseDriverLibrary__log_problem == s0._BaseDriverLibrary__log_problem,
                                         s1.enable_progress_bar == s0.enable_progress_bar, s1._normalize_ds == s0._normalize_ds, s1._algo_name == s0._algo_name))]


# ---------------------------------------------------------------------------- building the result from the recorded history
RESULT = TRec("OptimizationResultC03", {"history": DATA, "message": TVal, "status": TVal, "optimizer_name": TVal}, cls=RES)
FIELDS = TDict(TStr, TVal, ordered=True)
# C04 known finding (OptimizationHistory.optimum / from_optimization_problem): some recorded point is feasible but no feasible recorded point has an
# objective value.  An uninterpreted predicate of the database content (for the problem's constraints, tolerances and objective name).
feasible_points_lack_objective = z3.Function("c04_feasible_points_without_objective", DATA.sort(), z3.BoolSort())
STOPPED = "GEMSEO stopped the driver."


def db_of(problem_view):
    return problem_view.database._Database__data


@register
class FromOptimizationProblem(Contract):
    targets = (RES + ".from_optimization_problem",)
    prop = ("C03",)
    params = {"problem": OPT_PROBLEM, "fields_": FIELDS}
    returns = RESULT
    raises = {}
    trusted = True
    description = ("assumed (C04 covers OptimizationHistory.optimum: the reported point is a recorded point, so that database.get_iteration finds it - "
                   "since the repair b727d31 also when no feasible point has an objective value; the constructor is pydantic): returns a result object "
                   "built from the database of the problem and the given message / status / optimizer_name, reading the problem only")

    def ensures(self, c):
        r = c.result
        F = c.old.fields_
        return [("history", _history_of(c, c.result_value) == data_term(db_of(c.old.problem))),
                ("message", r.message == F.get(str_lit("message"))), ("status", r.status == F.get(str_lit("status"))),
                ("optimizer-name", r.optimizer_name == F.get(str_lit("optimizer_name")))]


def _history_of(c, result_value):
    return RESULT.accessor("history")(result_value.term)


def result_built_from(c, problem_view, message, status, algo_name):
    """The returned object is the one from_optimization_problem builds from the recorded history as it is NOW (exit state) and these fields."""
    rv = c.result_value
    return [("built-from-the-recorded-history", _history_of(c, rv) == data_term(db_of(problem_view))),
            ("message", RESULT.accessor("message")(rv.term) == message),
            ("status", RESULT.accessor("status")(rv.term) == status),
            ("optimizer-name", RESULT.accessor("optimizer_name")(rv.term) == val_of_str(algo_name))]


@register
class GetResult(Contract):
    """A result object is always returned (never None, no exception), built from the recorded history."""

    targets = (DRV + "._get_result",)
    prop = ("C03",)
    c03 = True
    self_schema = DRV3
    params = {"problem": OPT_PROBLEM, "message": TVal, "status": TVal}
    returns = RESULT
    raises = {}

    def ensures(self, c):
        if c.result_value is None:
            return [("is-a-result", z3.BoolVal(False))]
        return [("is-a-result", z3.BoolVal(True))] + result_built_from(c, c.old.problem, c.old.message, c.old.status, c.old.self._algo_name)


EXPECTED_MESSAGE = {
    "MaxIterReachedException": "Maximum number of iterations reached. ",
    "FunctionIsNan": "Function value or gradient or constraint is NaN, and problem.stop_if_nan is set to True. ",
    "DesvarIsNan": "Design variables are NaN. ",
    "XtolReached": "Successive iterates of the design variables are closer than xtol_rel or xtol_abs. ",
    "FtolReached": "Successive iterates of the objective function are closer than ftol_rel or ftol_abs. ",
    "KKTReached": "The KKT residual norm is smaller than the tolerance kkt_tol_abs or kkt_tol_rel. ",
    "TerminationCriterion": "",
}


class _EarlyStop(Contract):
    """Whatever the criterion, a result built from the recorded history is returned, with the criterion's message and no status."""

    prop = ("C03",)
    c03 = True
    self_schema = DRV3
    returns = RESULT
    raises = {}
    exc_cls = TC

    def _cls(self, c):
        ref = c.arg("termination_criterion")
        return c._old_heap[ref.id].cls.rsplit(".", 1)[-1]

    def ensures(self, c):
        rv = c.result_value
        if rv is None:
            return [("is-a-result", z3.BoolVal(False))]
        short = self._cls(c)
        msg = RESULT.accessor("message")(rv.term)
        out = [("is-a-result", z3.BoolVal(rv is not None)),
               ("built-from-the-recorded-history", _history_of(c, rv) == data_term(db_of(c.old.problem))),
               ("no-status", RESULT.accessor("status")(rv.term) == val_none),
               ("optimizer-name", RESULT.accessor("optimizer_name")(rv.term) == val_of_str(c.old.self._algo_name))]
        if short in EXPECTED_MESSAGE:
            out.append(("message-of-the-criterion", msg == val_of_str(str_lit(EXPECTED_MESSAGE[short] + STOPPED))))
        elif short == "MaxTimeReached":
            p = z3.Const("p!msg", TStr.sort())
            out.append(("message-ends-with-the-stop-notice", z3.Exists([p], msg == val_of_str(str_concat(p, str_lit(STOPPED))))))
        else:
            # a subclass the contract does not know (added to stop_criteria.py): the generic notice at least
            p = z3.Const("p!msg", TStr.sort())
            out.append(("message-ends-with-the-stop-notice", z3.Or(msg == val_of_str(str_lit(STOPPED)), z3.Exists([p], msg == val_of_str(str_concat(p, str_lit(STOPPED)))))))
        return out


def _register_early_stop():
    for q in TERMINATION_CLASSES:
        short = q.rsplit(".", 1)[-1]
        body = {"targets": (DRV + "._get_early_stopping_result",), "params": {"problem": OPT_PROBLEM, "termination_criterion": TExc(q)}, "exc_cls": q,
                "__module__": __name__}
        if q != TC:
            body["variant"] = short
        register(type(f"EarlyStop_{short}", (_EarlyStop,), body))


_register_early_stop()


# ---------------------------------------------------------------------------- BaseDriverLibrary.execute
SETTINGS = TDict(TStr, TVal, ordered=True)
EXECUTE_SETTING_KEYS = ("eq_tolerance", "ineq_tolerance", "enable_progress_bar", "max_time", "normalize_design_space", "log_problem",
                        "use_one_line_progress_bar", "reset_iteration_counters", "use_database", "round_ints", "store_jacobian")


def _settings_fields_exist():
    """Every key execute reads is a field of BaseDriverSettings in the real source (so model_dump() has it)."""
    ci = S.load_class(A + "base_driver_settings.BaseDriverSettings")
    names = {it.target.id for it in ci.node.body if hasattr(it, "target") and hasattr(it.target, "id")}
    missing = [k for k in EXECUTE_SETTING_KEYS if k not in names]
    assert not missing, missing


_settings_fields_exist()


def driver_callback(c):
    """The bound method self._new_iteration_callback as a listener value."""
    return bound_method_term(c.arg("self").id, "_new_iteration_callback")


class _Assumed(Contract):
    prop = ("C03",)
    trusted = True


@register
class CheckAlgorithm(_Assumed):
    targets = (ALG + "._check_algorithm",)
    params = {"problem": PROBLEM}
    raises = {"ValueError": None}
    raises_exact = False
    description = "assumed: only validates that the algorithm suits the problem (ValueError otherwise); touches nothing"


@register
class CheckIntegerHandling(_Assumed):
    targets = (DRV + "._check_integer_handling",)
    params = {"design_space": TObj(DS, schema_key=DS + "#c03"), "force_execution": TBool}
    raises = {"ValueError": None}
    raises_exact = False
    description = "assumed: only validates the handling of integer variables (ValueError otherwise); touches nothing"


@register
class ValidateSettings(_Assumed):
    targets = (ALG + "._validate_settings",)
    returns = SETTINGS
    raises = {"ValueError": None}
    raises_exact = False
    description = ("assumed: returns the dump of the validated pydantic settings model, which has every field of BaseDriverSettings (checked against the "
                   "real class: " + ", ".join(EXECUTE_SETTING_KEYS) + "); pydantic's ValidationError is a ValueError; touches nothing")

    def ensures(self, c):
        return [(f"has:{k}", c.result.has(str_lit(k))) for k in EXECUTE_SETTING_KEYS]


@register
class ProblemCheck(_Assumed):
    targets = (EP + ".check", OP + ".check")
    raises = {"ValueError": None}
    raises_exact = False
    description = "assumed: only validates the problem (may rewrite its differentiation step); touches no field of the driver, database, counter or listeners"


@register
class PreprocessFunctions(_Assumed):
    targets = (EP + ".preprocess_functions",)
    params = {"is_function_input_normalized": TBool, "use_database": TVal, "round_ints": TVal, "eval_obs_jac": TBool, "support_sparse_jacobian": TBool, "store_jacobian": TVal}
    description = ("assumed here (verified under C01): wraps the problem's functions into ProblemFunctions sharing the problem's database and evaluation counter; "
                   "touches only the function collections of the problem")


class _RunPhase(Contract):
    """Summary of `_pre_run` / `_run` for EVERY driver (behavioural subtyping): the algorithm evaluates the problem through ProblemFunction only,
    so it changes the database content, the counter (through the registered callback), the design space and its own state, keeps the listener
    lists, and returns or raises a TerminationCriterion.  The driver callback must be registered when it starts (checked at the call site)."""

    prop = ("C03",)
    trusted = True
    variant = "c03"
    params = {"problem": PROBLEM}
    modifies = ("self", "self._BaseDriverLibrary__progress_bar", "problem.database", "problem.database._Database__hdf_database", "problem.evaluation_counter",
                "problem.design_space", "ghost:calllog", "ghost:calllog_n")
    raises_exact = False

    def requires(self, c):
        NL = c.old.problem.database._Database__new_iter_listeners
        S0 = own_listeners(c.old.self)
        f = z3.Const("f!rp", ValS)
        return [("driver-callback-is-registered", lin(NL, driver_callback(c))),
                ("own-listeners-are-registered", z3.ForAll([f], z3.Implies(S0.member[f], lin(NL, f)), patterns=[S0.member[f]])),
                ("new-iter-listeners-duplicate-free", dupfree(NL)),
                ("the-driver-is-bound-to-the-problem", z3.BoolVal(c.old.self._problem.ref == c.arg("problem")))]

    def _kept(self, c):
        d0, d1 = c.old.problem.database, c.new.problem.database
        s0, s1 = c.old.self, c.new.self
        return [("new-iter-listeners-kept", same_list(d0._Database__new_iter_listeners, d1._Database__new_iter_listeners)),
                ("own-listeners-kept", z3.And(own_listeners(s1).n == own_listeners(s0).n, own_listeners(s1).member == own_listeners(s0).member)),
                ("driver-settings-kept", z3.And(s1._BaseDriverLibrary__log_problem == s0._BaseDriverLibrary__log_problem, s1._algo_name == s0._algo_name,
                                                s1._BaseDriverLibrary__one_line_progress_bar == s0._BaseDriverLibrary__one_line_progress_bar))]

    def ensures(self, c):
        return self._kept(c)

    def raise_ensures(self, c, exc):
        return self._kept(c)


@register
class PreRun(_RunPhase):
    targets = (ALG + "._pre_run",)
    raises = {TC: None, "ValueError": None}
    description = ("assumed summary of every _pre_run override (see _RunPhase); raises ValueError (validation) or a TerminationCriterion - represented by the "
                   "base class, i.e. an instance that is an instance of NO named subclass; that every named subclass is caught by the same handler is the "
                   "lemma contract TerminationHandlerCoversEveryCriterion")


@register
class Run(_RunPhase):
    targets = (DRV + "._run",)
    raises = {TC: None, SC + "MaxIterReachedException": None}
    c03_returns_optional_pair = True
    description = ("assumed summary of the abstract _run (see _RunPhase); returns None or a (message, status) pair, or raises a TerminationCriterion - "
                   "represented by MaxIterReachedException and by the base class (= a subclass unknown to the code); every named class of stop_criteria.py is "
                   "covered by TerminationHandlerCoversEveryCriterion (handler) and by the per-class variants of _get_early_stopping_result (message)")


@register
class PostRun(_Assumed):
    targets = (DRV + "._post_run",)
    variant = "c03"
    params = {"problem": OPT_PROBLEM, "result": RESULT, "max_design_space_dimension_to_log": TInt}
    modifies = ("problem.design_space",)
    description = ("assumed: stores the result as problem.solution, sets the design space to the optimum, logs; touches neither the database, the counter, the "
                   "listeners nor the driver (the result object only receives its objective_name / design_space fields)")


@register
class TerminationHandlerCoversEveryCriterion(Contract):
    """Read on the REAL source of execute: `_pre_run` and `_run` are called inside one `try` whose handler catches every class of stop_criteria.py
    deriving from TerminationCriterion (class hierarchy resolved from the source), and that handler builds the result with _get_early_stopping_result."""

    targets = ()
    prop = ("C03",)
    lemma = True

    def lemmas(self):
        import ast

        from pyvc.engine import exc_is_subclass

        fi = S.load_function(DRV + ".execute")
        calls = lambda node, name: any(isinstance(x, ast.Call) and isinstance(x.func, ast.Attribute) and x.func.attr == name for b in node for x in ast.walk(b))  # noqa: E731
        tries = [t for t in ast.walk(fi.node) if isinstance(t, ast.Try) and calls(t.body, "_run")]
        out = [("run-is-guarded-by-one-try", z3.BoolVal(len(tries) == 1))]
        if len(tries) != 1:
            return out
        t = tries[0]
        out.append(("pre-run-is-guarded-by-the-same-try", z3.BoolVal(calls(t.body, "_pre_run"))))
        mi = fi.module

        def handler_names(h):
            ts = h.type.elts if isinstance(h.type, ast.Tuple) else [h.type]
            return [S.resolve_name_in_module(mi, x.id) if isinstance(x, ast.Name) else ast.unparse(x) for x in ts] if h.type is not None else ["BaseException"]

        for short in NAMED_CRITERIA:
            out.append((f"{short}-is-a-termination-criterion", z3.BoolVal(SC + short in TERMINATION_CLASSES)))
        for q, crit in CRITERION_OF.items():
            out.append((f"{q.rsplit('.', 1)[-1]}-raises-{crit.rsplit('.', 1)[-1]}", z3.BoolVal(_criterion_default(q) == crit)))
        for q in sorted(set(TERMINATION_CLASSES) | {SC + n for n in NAMED_CRITERIA}):
            catching = [h for h in t.handlers if any(exc_is_subclass(q, n) for n in handler_names(h))]
            short = q.rsplit(".", 1)[-1]
            out.append((f"{short}-is-caught", z3.BoolVal(bool(catching))))
            if catching:
                out.append((f"{short}-handler-builds-the-early-stopping-result", z3.BoolVal(calls(catching[0].body, "_get_early_stopping_result"))))
        return out


class _Execute(Contract):
    prop = ("C03",)
    c03 = True
    self_schema = DRV3
    raises = {"ValueError": None}  # validation of the algorithm / settings / problem before the run (assumed helpers), never from the run itself
    raises_exact = False
    modifies = ("self", "self._BaseDriverLibrary__progress_bar", "problem.database", "problem.database._Database__hdf_database", "problem.evaluation_counter",
                "problem.design_space", "problem._OptimizationProblem__tolerances", "ghost:calllog", "ghost:calllog_n")
    is_opt = True

    def requires(self, c):
        NL = c.old.problem.database._Database__new_iter_listeners
        return [("own-listener-set-is-empty", own_listeners(c.old.self).n == 0),  # class invariant: __init__, re-established by every execute (proved below)
                ("new-iter-listeners-duplicate-free", dupfree(NL))]  # class invariant of Database (add / clear preserve it)

    def _listeners(self, c):
        d0, d1 = c.old.problem.database, c.new.problem.database
        L0, L1 = d0._Database__new_iter_listeners, d1._Database__new_iter_listeners
        return [("listeners:own-set-emptied", own_listeners(c.new.self).n == 0),
                ("listeners:database-has-the-listeners-it-had", same_members(L0, L1)),
                ("listeners:same-number", L1.n == L0.n),
                ("listeners:duplicate-free", dupfree(L1))]

    def ensures(self, c):
        out = [("problem-reference-reset", z3.BoolVal(c.new.self._problem is None))] + self._listeners(c)
        if self.is_opt:
            rv = c.result_value
            out.append(("result-is-not-None", z3.BoolVal(rv is not None)))
            if rv is not None:
                out.append(("result-built-from-the-recorded-history", _history_of(c, rv) == data_term(db_of(c.new.problem))))
                out.append(("result-names-the-algorithm", RESULT.accessor("optimizer_name")(rv.term) == val_of_str(c.new.self._algo_name)))
        else:
            out.append(("no-result-for-a-plain-evaluation-problem", z3.BoolVal(c.result_value is None)))
        return out


@register
class ExecuteOptimizationProblem(_Execute):
    """For an OptimizationProblem: whatever happens in _pre_run / _run (normal return or ANY TerminationCriterion), execute returns a result object
    built from the recorded history, the listeners it registered are removed again, and the driver is unbound from the problem."""

    targets = (DRV + ".execute",)
    params = {"problem": OPT_PROBLEM, "eval_obs_jac": TBool, "skip_int_check": TBool, "max_design_space_dimension_to_log": TInt}
    returns = None


@register
class ExecuteEvaluationProblem(_Execute):
    targets = (DRV + ".execute",)
    variant = "evaluation-problem"
    params = {"problem": PROBLEM, "eval_obs_jac": TBool, "skip_int_check": TBool, "max_design_space_dimension_to_log": TInt}
    is_opt = False
    modifies = tuple(m for m in _Execute.modifies if "tolerances" not in m)


# ---------------------------------------------------------------------------- sequential DOE loop
from pyvc.values import TTuple, declare_ghost  # noqa: E402

DOE = A + "doe.base_doe_library.BaseDOELibrary"
EVLOG = z3.ArraySort(z3.IntSort(), ValS)
declare_ghost("evallog", EVLOG)  # the design vectors handed to EvaluationProblem.evaluate_functions, in call order
declare_ghost("evallog_n", z3.IntSort())
DOE3 = DOE + "#c03"
schema(DOE3, {"samples": TList(TNd), "unit_samples": TList(TNd), "_BaseDOELibrary__compute_jacobians": TBool, "_BaseDOELibrary__output_functions": TVal,
              "_BaseDOELibrary__jacobian_functions": TVal}, bases=[DRV3])
EVAL = TTuple(TVal, TVal)
_RUN_MODIFIES = ("self._problem.database", "self._problem.database._Database__hdf_database", "self._problem.evaluation_counter", "self._problem.design_space",
                 "self._BaseDriverLibrary__progress_bar", "ghost:calllog", "ghost:calllog_n", "ghost:evallog", "ghost:evallog_n")


def evals_appended(c, n_expected, value_at):
    """The ghost log of evaluated design vectors grew by exactly n_expected entries value_at(j), earlier entries kept."""
    l0, l1 = c.old_ghost("evallog", EVLOG), c.new_ghost("evallog", EVLOG)
    n0, n1 = c.old_ghost("evallog_n", z3.IntSort()), c.new_ghost("evallog_n", z3.IntSort())
    j = z3.Int("j!ev")
    return [("evaluations-count", n1 == n0 + n_expected),
            ("earlier-evaluations-kept", z3.ForAll([j], z3.Implies(j < n0, l1[j] == l0[j]), patterns=[l1[j]])),
            ("evaluated-points-in-order", z3.ForAll([j], z3.Implies(z3.And(n0 <= j, j < n0 + n_expected), l1[j] == value_at(j - n0)), patterns=[l1[j]]))]


class _EvaluateAt(Contract):
    """One evaluation of the problem's functions at the given point (logged), through the ProblemFunctions: it may raise any termination
    criterion (budget, NaN, time, tolerances - from the functions or from the listeners) or ValueError (failed sample)."""

    prop = ("C03",)
    returns = EVAL
    raises_exact = False
    point = ""

    @property
    def raises(self):
        return {**{q: None for q in TERMINATION_CLASSES}, "ValueError": None}

    def ensures(self, c):
        return evals_appended(c, 1, lambda j: getattr(c.old, self.point))

    def raise_ensures(self, c, exc):
        return evals_appended(c, 1, lambda j: getattr(c.old, self.point))


@register
class EvaluateFunctions(_EvaluateAt):
    targets = (EP + ".evaluate_functions",)
    params = {"design_vector": TNd, "design_vector_is_normalized": TBool, "preprocess_design_vector": TBool, "output_functions": TVal, "jacobian_functions": TVal}
    modifies = tuple(m.replace("self._problem.", "self.").replace("self._BaseDriverLibrary__progress_bar", "ghost:evallog") for m in _RUN_MODIFIES)
    point = "design_vector"
    trusted = True
    description = ("assumed: evaluates the given (preprocessed) functions at the design vector, i.e. calls ProblemFunctions (verified: budget, database protocol); "
                   "ghost: appends the design vector to `evallog`; may raise a TerminationCriterion or ValueError; returns (outputs, jacobians)")


@register
class GetFunctions(_Assumed):
    targets = (EP + ".get_functions",)
    params = {"no_db_no_norm": TBool, "observable_names": TVal, "jacobian_names": TVal}
    returns = EVAL
    description = "assumed: selects the functions to evaluate (two lists, opaque here); reads the problem only"


@register
class DoeEvaluateFunctions(_EvaluateAt):
    """_evaluate_functions(x) evaluates the problem exactly once, at x itself (no preprocessing, not normalized)."""

    targets = (DOE + "._evaluate_functions",)
    c03 = True
    self_schema = DOE3
    params = {"input_value": TNd}
    modifies = _RUN_MODIFIES
    point = "input_value"


def _doe_inv(c, k):
    S_ = c.old.self.samples
    return evals_appended(c, k, lambda j: S_.elems[j]) + [("samples-kept", same_list(S_, c.new.self.samples))]


@register
class DoeRunSequential(Contract):
    """Sequential DOE: every generated sample is handed to the problem exactly once, in generation order (loop invariant: samples 0..k-1 have been
    evaluated, in order); a failed sample (ValueError) is skipped; a termination criterion propagates to execute; nothing else is raised."""

    targets = (DOE + "._run",)
    variant = "sequential"
    prop = ("C03",)
    c03 = True
    self_schema = DOE3
    params = {"problem": PROBLEM, "eval_jac": TBool, "n_processes": TInt, "wait_time_between_samples": TReal, "use_database": TBool}
    modifies = ("self",) + _RUN_MODIFIES
    raises = {q: None for q in TERMINATION_CLASSES}
    raises_exact = False
    loops = {1: LoopSpec(anchor="enumerate(self.samples)", inv=_doe_inv, modifies=_RUN_MODIFIES, local_types={"output_value": TVal, "jacobian_value": TVal, "index": TInt, "input_value": TNd})}

    def requires(self, c):
        return [("sequential", c.old.n_processes <= 1)]

    def ensures(self, c):
        S_ = c.old.self.samples
        return evals_appended(c, S_.n, lambda j: S_.elems[j]) + [("samples-kept", same_list(S_, c.new.self.samples))]


@register
class DoeOrderLemmas(Contract):
    """Generation order in the database, as an induction over the storing steps of a run (no deletion happens in the sequential branch).
    Step m stores the key x(m) with Database.store's verified postconditions (order-kept, appended-last, size, keys) or leaves the database as it is;
    created(m) = the key was new.  Claim P(m): the keys created by the steps before m are members, and pos(x(i)) < pos(x(j)) for created steps i < j < m."""

    targets = ()
    prop = ("C03",)
    lemma = True

    def lemmas(self):
        K = HNd.sort()
        x = z3.Function("doe_x", z3.IntSort(), K)
        created = z3.Function("doe_created", z3.IntSort(), z3.BoolSort())
        mem = z3.Function("doe_mem", z3.IntSort(), K, z3.BoolSort())
        pos = z3.Function("doe_pos", z3.IntSort(), K, z3.IntSort())
        n = z3.Function("doe_n", z3.IntSort(), z3.IntSort())
        m, i, j = z3.Ints("m i j")
        p = z3.Const("p", K)
        step = z3.And(
            z3.ForAll([p], z3.Implies(mem(m, p), z3.And(mem(m + 1, p), pos(m + 1, p) == pos(m, p), 0 <= pos(m, p), pos(m, p) < n(m))), patterns=[mem(m, p)]),  # order-kept, wf
            z3.Implies(created(m), z3.And(z3.Not(mem(m, x(m))), mem(m + 1, x(m)), pos(m + 1, x(m)) == n(m))),  # appended-last
            z3.ForAll([p], z3.Implies(mem(m + 1, p), z3.Or(mem(m, p), z3.And(created(m), p == x(m)))), patterns=[mem(m + 1, p)]))  # keys
        P = lambda t: z3.And(  # noqa: E731
            z3.ForAll([i], z3.Implies(z3.And(0 <= i, i < t, created(i)), mem(t, x(i))), patterns=[created(i)]),
            z3.ForAll([i, j], z3.Implies(z3.And(0 <= i, i < j, j < t, created(i), created(j)), pos(t, x(i)) < pos(t, x(j))), patterns=[z3.MultiPattern(created(i), created(j))]))
        return [("generation-order:base", P(z3.IntVal(0))),
                ("generation-order:step", z3.Implies(z3.And(m >= 0, step, P(m)), P(m + 1)))]


# ---------------------------------------------------------------------------- tolerance criteria (stop_criteria.py) and the optimizers' callback
from pyvc.values import ClassV  # noqa: E402

BTT = SC + "BaseToleranceTester"
OTT, DTT = SC + "ObjectiveToleranceTester", SC + "DesignToleranceTester"
OPTLIB = A + "opt.base_optimization_library.BaseOptimizationLibrary"
TESTER_FIELDS = {"absolute": TReal, "relative": TReal, "n_last_iterations": TInt}
for _q in (BTT, OTT, DTT):
    schema(_q, TESTER_FIELDS)
CRITERION_OF = {OTT: SC + "FtolReached", DTT: SC + "XtolReached"}
for _q, _crit in CRITERION_OF.items():
    # the dataclass field `termination_criterion = field(default=<class>, init=False)`: checked against the real class body below
    G.CLASS_CONSTANTS[(_q, "termination_criterion")] = (lambda crit: (lambda ex: ClassV(crit)))(_crit)


def _criterion_default(q):
    """The class named by `termination_criterion = field(default=<class>, init=False)` in the real class body (None if it has another shape)."""
    import ast

    ci = S.load_class(q)
    expr = ci.class_attrs.get("termination_criterion") if ci is not None else None
    kw = {k.arg: k.value for k in expr.keywords} if isinstance(expr, ast.Call) else {}
    return S.resolve_name_in_module(ci.module, kw["default"].id) if isinstance(kw.get("default"), ast.Name) else None


# whether the last n points of the history are within the tolerances (numpy average / allclose over the database: not interpreted)
tolerance_reached = z3.Function("c03_tolerance_reached", TStr.sort(), z3.RealSort(), z3.RealSort(), z3.IntSort(), DATA.sort(), z3.BoolSort())


def reached(c, tester_view, problem_view, heap_cls):
    kind = str_lit(heap_cls.rsplit(".", 1)[-1])
    return tolerance_reached(kind, tester_view.absolute, tester_view.relative, tester_view.n_last_iterations, data_term(db_of(problem_view)))


def _tester_cls(c):
    return c._old_heap[c.arg("self").id].cls


class _InnerCheck(_Assumed):
    params = {"problem": PROBLEM}
    returns = TBool
    description = ("assumed: the numerical test on the last n recorded points (numpy average / allclose, feasibility of one of them) is a deterministic function "
                   "c03_tolerance_reached(kind, absolute, relative, n, database content); reads only")

    def ensures(self, c):
        return [("value", c.result == reached(c, c.old.self, c.old.problem, _tester_cls(c)))]


@register
class ObjectiveInnerCheck(_InnerCheck):
    targets = (OTT + "._check",)


@register
class DesignInnerCheck(_InnerCheck):
    targets = (DTT + "._check",)


class _TesterCheck(Contract):
    """check(problem, raise_exception): returns whether the criterion is met; raises the tester's criterion exactly when it is met and
    raise_exception is set; changes nothing."""

    prop = ("C03",)
    c03 = True
    params = {"problem": PROBLEM, "raise_exception": TBool}
    returns = TBool

    @property
    def raises(self):
        def cond(q):
            return lambda c: z3.And(z3.BoolVal(CRITERION_OF.get(_tester_cls(c)) == q), c.old.raise_exception, reached(c, c.old.self, c.old.problem, _tester_cls(c)))

        return {q: cond(q) for q in CRITERION_OF.values()}

    def ensures(self, c):
        return [("value", c.result == reached(c, c.old.self, c.old.problem, _tester_cls(c)))]


@register
class ObjectiveTesterCheck(_TesterCheck):
    targets = (BTT + ".check",)
    self_class = OTT


@register
class DesignTesterCheck(_TesterCheck):
    targets = (BTT + ".check",)
    variant = "design"
    self_class = DTT


class _IsTolReached(Contract):
    prop = ("C03",)
    c03 = True
    returns = TBool
    tester = ""
    names = ()

    def ensures(self, c):
        rel, ab, n = (getattr(c.old, a) for a in self.names)
        kind = str_lit(self.tester.rsplit(".", 1)[-1])
        return [("value", c.result == tolerance_reached(kind, ab, rel, n, data_term(db_of(c.old.opt_problem))))]


@register
class IsXTolReached(_IsTolReached):
    """is_x_tol_reached never raises and answers the design-tolerance test with the given tolerances (relative / absolute not swapped)."""

    targets = (SC + "is_x_tol_reached",)
    params = {"opt_problem": PROBLEM, "x_tol_rel": TReal, "x_tol_abs": TReal, "n_x": TInt}
    tester = DTT
    names = ("x_tol_rel", "x_tol_abs", "n_x")


@register
class IsFTolReached(_IsTolReached):
    targets = (SC + "is_f_tol_reached",)
    params = {"opt_problem": PROBLEM, "f_tol_rel": TReal, "f_tol_abs": TReal, "n_x": TInt}
    tester = OTT
    names = ("f_tol_rel", "f_tol_abs", "n_x")


OPT3 = OPTLIB + "#c03"
schema(OPT3, {"_f_tol_tester": TObj(OTT), "_x_tol_tester": TObj(DTT)}, bases=[DRV3])


@register
class OptimizerNewIterationCallback(Contract):
    """The optimizers' listener: counts exactly one evaluation per notification - also when it stops the run - and stops it with MaxTimeReached,
    FtolReached when the objective criterion is met, else XtolReached when the design criterion is met; nothing else is touched."""

    targets = (OPTLIB + "._new_iteration_callback",)
    prop = ("C03",)
    c03 = True
    self_schema = OPT3
    params = {"x_vect": TNd}
    modifies = ("self._problem.evaluation_counter", "self._BaseDriverLibrary__progress_bar")
    raises_exact = False  # MaxTimeReached depends on the wall clock

    @property
    def raises(self):
        f_met = lambda c: reached(c, c.old.self._f_tol_tester, c.old.self._problem, OTT)  # noqa: E731
        x_met = lambda c: reached(c, c.old.self._x_tol_tester, c.old.self._problem, DTT)  # noqa: E731
        return {SC + "MaxTimeReached": lambda c: c.old.self._BaseDriverLibrary__max_time > 0,
                SC + "FtolReached": f_met,
                SC + "XtolReached": lambda c: z3.And(z3.Not(f_met(c)), x_met(c))}

    def _count(self, c):
        k0, k1 = c.old.self._problem.evaluation_counter, c.new.self._problem.evaluation_counter
        return [("counted-once", k1.current == k0.current + 1), ("maximum-kept", k1.maximum == k0.maximum)]

    def ensures(self, c):
        f_met = reached(c, c.old.self._f_tol_tester, c.old.self._problem, OTT)
        x_met = reached(c, c.old.self._x_tol_tester, c.old.self._problem, DTT)
        return self._count(c) + [("returns-only-when-no-tolerance-criterion-is-met", z3.And(z3.Not(f_met), z3.Not(x_met)))]

    def raise_ensures(self, c, exc):
        return self._count(c)


# ---------------------------------------------------------------------------- KNOWN FINDING (a): the counter is reset in the middle of a run
LAG = A + "lagrange_multipliers.LagrangeMultipliers"
MDOF = "gemseo.core.mdo_functions.mdo_function.MDOFunction"
schema(MDOF + "#c03", {"_MDOFunction__expects_normalized_inputs": TBool})
schema(OP + "#lagrange", {"evaluation_counter": TObj(CNT), "database": TObj(DB), "_objective": TObj(MDOF, schema_key=MDOF + "#c03")})
schema(LAG, {
    "optimization_problem": TObj(OP, schema_key=OP + "#lagrange"),
    "active_lb_names": TList(TStr), "active_ub_names": TList(TStr), "active_ineq_names": TList(TStr), "active_eq_names": TList(TStr),
    "lagrange_multipliers": TVal, "_LagrangeMultipliers__normalized": TBool, "kkt_residual": TVal, "constraint_violation": TVal,
})


@register
class ProblemReset(_Assumed):
    targets = (EP + ".reset", OP + ".reset")
    params = {"database": TBool, "current_iter": TBool, "design_space": TBool, "function_calls": TBool, "preprocessing": TBool}
    modifies = ("self.evaluation_counter", "self.database")
    description = ("assumed thin summary (the bodies loop over lists of function objects): reset(current_iter) sets evaluation_counter.current to 0 iff current_iter "
                   "(maximum kept); reset(database) clears the database content iff database (listeners kept); the other flags touch the design space value, the "
                   "call counters and the preprocessing state only.  The counter clause is tied to the real source by the lemma contract ResetCounterClauseMatchesSource")

    def ensures(self, c):
        k0, k1 = c.old.self.evaluation_counter, c.new.self.evaluation_counter
        d0, d1 = c.old.self.database, c.new.self.database
        return [("counter", k1.current == z3.If(c.old.current_iter, 0, k0.current)), ("maximum-kept", k1.maximum == k0.maximum),
                ("database", z3.If(c.old.database, d1._Database__data.n == 0, data_term(d1._Database__data) == data_term(d0._Database__data))),
                ("listeners-kept", z3.And(same_list(d0._Database__new_iter_listeners, d1._Database__new_iter_listeners),
                                          same_list(d0._Database__store_listeners, d1._Database__store_listeners))),
                ("database-name-kept", d1.name == d0.name)]


@register
class ResetCounterClauseMatchesSource(Contract):
    """Read on the REAL source: EvaluationProblem.reset assigns evaluation_counter.current exactly once, `= 0` under `if current_iter:`;
    OptimizationProblem.reset never assigns it and forwards current_iter=current_iter to super().reset."""

    targets = ()
    prop = ("C03",)
    lemma = True

    def lemmas(self):
        import ast

        def counter_stores(fn):
            return [x for x in ast.walk(fn) if isinstance(x, (ast.Assign, ast.AugAssign)) and "evaluation_counter" in ast.unparse(x.targets[0] if isinstance(x, ast.Assign) else x.target)]

        ep, op = S.load_function(EP + ".reset").node, S.load_function(OP + ".reset").node
        guarded = [s for s in ep.body if isinstance(s, ast.If) and ast.unparse(s.test) == "current_iter" and not s.orelse
                   and [ast.unparse(b) for b in s.body] == ["self.evaluation_counter.current = 0"]]
        forwards = [x for x in ast.walk(op) if isinstance(x, ast.Call) and ast.unparse(x.func) == "super().reset"
                    and any(k.arg == "current_iter" and ast.unparse(k.value) == "current_iter" for k in x.keywords)]
        return [("evaluation-problem-reset:counter-zeroed-iff-current_iter", z3.BoolVal(len(guarded) == 1 and len(counter_stores(ep)) == 1)),
                ("optimization-problem-reset:forwards-current_iter", z3.BoolVal(len(forwards) == 1 and not counter_stores(op)))]


@register
class LagrangeMultipliersInit(Contract):
    """Budget invariant of a running driver: between _init_iter_observer and the end of the run the evaluation counter is only ever incremented
    (by the driver callback).  LagrangeMultipliers objects are created DURING runs (kkt_residual_computation <- _KKTChecker store listener /
    KKTConditionsTester, augmented Lagrangian): their constructor must leave the counter of the problem as it is."""

    targets = (LAG + ".__init__",)
    prop = ("C03",)
    c03 = True
    params = {"opt_problem": TObj(OP, schema_key=OP + "#lagrange")}
    modifies = ("self", "opt_problem.evaluation_counter")

    def finding_regions(self, c):
        return {"counter-is-nonzero": c.old.opt_problem.evaluation_counter.current != 0}

    def ensures(self, c):
        k0, k1 = c.old.opt_problem.evaluation_counter, c.new.opt_problem.evaluation_counter
        return [("budget:evaluation-counter-unchanged", k1.current == k0.current), ("budget:maximum-unchanged", k1.maximum == k0.maximum)]


# ---------------------------------------------------------------------------- KNOWN FINDING (b): no budget without a database
PF = A + "problem_function.ProblemFunction"
schema(PF + "#nodb", {**C.class_schema(PF), "_database": TNone})


class _NoDatabaseEntryPoint:
    """ProblemFunction.__init__ makes `_compute_output` / `_compute_jacobian` THE evaluation entry points when no database is used
    (use_database=False).  Budget clause of the property: once the maximum is reached, the original function is not evaluated any more
    (the database-assisted entry points raise MaxIterReachedException before any call - verified in c01_c03_evaluation.py)."""

    variant = "no-database"
    prop = ("C03",)
    self_schema = PF + "#nodb"

    def finding_regions(self, c):
        return {"database-not-used": z3.BoolVal(c.old.self._database is None)}

    def ensures(self, c):
        cnt = c.old.self._evaluation_counter
        exhausted = z3.And(cnt.maximum != 0, cnt.current >= cnt.maximum)
        n0, n1 = c.old_ghost("calllog_n", z3.IntSort()), c.new_ghost("calllog_n", z3.IntSort())
        return super().ensures(c) + [("budget:no-evaluation-once-the-maximum-is-reached", z3.Implies(exhausted, n1 == n0))]


@register
class ComputeOutputNoDatabase(_NoDatabaseEntryPoint, E.ComputeOutput):
    pass


@register
class ComputeJacobianNoDatabase(_NoDatabaseEntryPoint, E.ComputeJacobian):
    pass


# ---------------------------------------------------------------------------- parallel DOE branch: generation order frozen before the workers run
import ast as _ast  # noqa: E402

from pyvc import plug_c03 as _P3  # noqa: E402
from pyvc.contract import View  # noqa: E402
from pyvc.plug_c03 import TFieldOfSelf  # noqa: E402

first_index = z3.Function("c03_first_index", HNd.sort(), z3.IntSort())  # index of the first sample with this key (definitional axiom below)
task_ok = z3.Function("c03_task_ok", z3.IntSort(), z3.BoolSort())  # the worker evaluated sample i without raising
task_data = z3.Function("c03_task_data", z3.IntSort(), OUTS.sort())  # its outputs ...
task_jac = z3.Function("c03_task_jac", z3.IntSort(), OUTS.sort())  # ... and Jacobians (dictionaries name -> value)


def skey(S_, j):
    """Database key of sample j (content of the physical sample)."""
    return E.key_of(S_.elems[j])


def first_index_axiom(S_):
    l = z3.Int("l!fi")
    return z3.ForAll([l], z3.Implies(z3.And(0 <= l, l < S_.n), z3.And(0 <= first_index(skey(S_, l)), first_index(skey(S_, l)) <= l,
                                                                     skey(S_, first_index(skey(S_, l))) == skey(S_, l))), patterns=[first_index(skey(S_, l))])


def grad_name(nm):
    return str_concat(str_lit("@"), nm)


def generation_order(D0, D, S_, k):
    """Among the first k samples: the keys that were not in the database before the run stand in the order of their first occurrences."""
    i, j = z3.Int("i!go"), z3.Int("j!go")
    return z3.ForAll([i, j], z3.Implies(z3.And(0 <= i, i < j, j < k, z3.Not(D0.has(skey(S_, i))), z3.Not(D0.has(skey(S_, j))), first_index(skey(S_, j)) == j,
                                               D.has(skey(S_, i)), D.has(skey(S_, j))),
                                        D.pos[skey(S_, i)] < D.pos[skey(S_, j)]), patterns=[z3.MultiPattern(D.pos[skey(S_, i)], D.pos[skey(S_, j)])])


def registered(D0, D, S_, k):
    j = z3.Int("j!rg")
    p = z3.Const("p!rg", HNd.sort())
    return [("every-sample-so-far-has-an-entry", z3.ForAll([j], z3.Implies(z3.And(0 <= j, j < k), D.has(skey(S_, j))), patterns=[D.member[skey(S_, j)]])),
            ("new-keys-are-sample-keys", z3.ForAll([p], z3.Implies(z3.And(D.has(p), z3.Not(D0.has(p))),
                                                                   z3.And(0 <= first_index(p), first_index(p) < k, skey(S_, first_index(p)) == p)), patterns=[D.member[p]])),
            ("new-keys-in-generation-order", generation_order(D0, D, S_, k)),
            ("existing-keys-keep-their-position", z3.ForAll([p], z3.Implies(D0.has(p), z3.And(D.has(p), D.pos[p] == D0.pos[p])), patterns=[D.pos[p], D0.pos[p]])),
            ("db-wf", db_wf(D))]


def _prereg_anchor():
    """Iterable of the pre-registration loop, read from the REAL source: the first `for` of _run whose body is `database.store(<target>, {})`.
    (The invariant below is stated over `self.samples` whatever is iterated: iterating something else breaks the invariant, not the anchor.)"""
    fn = S.load_function(DOE + "._run").node
    loops = sorted((x for x in _ast.walk(fn) if isinstance(x, (_ast.For, _ast.While))), key=lambda x: (x.lineno, x.col_offset))
    for k, lp in enumerate(loops):
        if isinstance(lp, _ast.For) and len(lp.body) == 1 and isinstance(lp.body[0], _ast.Expr) and isinstance(lp.body[0].value, _ast.Call) \
                and _ast.unparse(lp.body[0].value.func).endswith(".store") and len(lp.body[0].value.args) == 2 and _ast.unparse(lp.body[0].value.args[1]) == "{}":
            return k, _ast.unparse(lp.iter)
    return 99, "self.samples"  # no such loop: no invariant is attached (the precondition of the parallel execution then fails)


def _prereg_inv(c, k):
    D0, D = db_of(c.old.problem), db_of(c.new.problem)
    d0, d1 = c.old.problem.database, c.new.problem.database
    return registered(D0, D, c.old.self.samples, k) + [
        ("samples-kept", same_list(c.old.self.samples, c.new.self.samples)),
        ("new-iter-listeners-kept", same_list(d0._Database__new_iter_listeners, d1._Database__new_iter_listeners)),
        ("store-listeners-kept", same_list(d0._Database__store_listeners, d1._Database__store_listeners))]


_DB_MODIFIES = ("self._problem.database", "self._problem.database._Database__hdf_database", "ghost:calllog", "ghost:calllog_n")


def _store_inv(c, k):
    """After k Jacobians: `data` still has the outputs it had, the gradient names of the first k Jacobians, and did not shrink."""
    d_in = c.pre_locals["data"]
    d = c.locals["data"]
    jac = c.pre_locals["jacobian_data"]
    nm = z3.Const("nm!si", TStr.sort())
    j = z3.Int("j!si")
    return [("outputs-kept", z3.ForAll([nm], z3.Implies(d_in.has(nm), d.has(nm)), patterns=[d.member[nm]])),
            ("output-values-kept", z3.ForAll([nm], z3.Implies(z3.And(d_in.has(nm), z3.ForAll([j], z3.Implies(z3.And(0 <= j, j < jac.n), grad_name(jac.keys[j]) != nm))),
                                                              d.vals[nm] == d_in.vals[nm]), patterns=[d.vals[nm]])),
            ("gradients-added", z3.ForAll([j], z3.Implies(z3.And(0 <= j, j < k), d.has(grad_name(jac.keys[j]))), patterns=[jac.keys[j]])),
            ("not-smaller", d.n >= d_in.n)]


@register
class DoeStoreInDatabase(Contract):
    """The parent-side callback of the parallel DOE: the outputs of sample `index` (and its Jacobians under the gradient names) are stored under
    the key of the PHYSICAL sample self.samples[index]; nothing else changes in the database (order kept, a new key would go last)."""

    targets = (DOE + ".__store_in_database",)
    prop = ("C03",)
    c03 = True
    self_schema = DOE3
    params = {"index": TInt, "output_and_jacobian_data": TTuple(OUTS, OUTS)}
    modifies = _DB_MODIFIES + ("output_and_jacobian_data#0",)  # (the caller's outputs dictionary receives the gradient entries in place)
    loops = {0: LoopSpec(anchor="jacobian_data.items()", inv=_store_inv, modifies=("data",), local_types={"output_name": TStr, "jacobian": TVal})}

    def requires(self, c):
        return [("index-of-a-sample", z3.And(0 <= c.old.index, c.old.index < c.old.self.samples.n)), ("db-wf", db_wf(db_of(c.old.self._problem)))]

    def ensures(self, c):
        D0, D1 = db_of(c.old.self._problem), db_of(c.new.self._problem)
        S_ = c.old.self.samples
        x = skey(S_, c.old.index)
        dv, jv = (View(c._old_heap, r, c.st) for r in c.arg("output_and_jacobian_data"))  # the two dictionaries as they were at entry
        return stored_effect(D0, D1, x, OUTS.dt.mk(dv.member, dv.vals, dv.n), OUTS.dt.mk(jv.member, jv.vals, jv.n))


def stored_effect(D0, D1, x, data, jac):
    """Effect of one callback call on the database content (data / jac: embedded dictionaries)."""
    p = z3.Const("p!se", HNd.sort())
    nm = z3.Const("nm!se", TStr.sort())
    dm, dv, jm = OUTS.acc(0)(data), OUTS.acc(1)(data), OUTS.acc(0)(jac)
    e0, e1 = D0.get(x), D1.get(x)
    is_grad = z3.Const("g!se", TStr.sort())
    return [("keys", z3.ForAll([p], D1.has(p) == z3.Or(D0.has(p), p == x), patterns=[D1.member[p]])),
            ("others-unchanged", z3.ForAll([p], z3.Implies(z3.And(D0.has(p), p != x), D1.get(p) == D0.get(p)), patterns=[D1.vals[p]])),
            ("order-kept", z3.ForAll([p], z3.Implies(D0.has(p), D1.pos[p] == D0.pos[p]), patterns=[D1.pos[p]])),
            ("appended-last", z3.Implies(z3.Not(D0.has(x)), D1.pos[x] == D0.n)),
            ("size", D1.n == z3.If(D0.has(x), D0.n, D0.n + 1)),
            ("outputs-recorded", z3.ForAll([nm], z3.Implies(dm[nm], E.o_member(e1)[nm]), patterns=[dm[nm]])),
            ("output-values-recorded", z3.ForAll([nm], z3.Implies(z3.And(dm[nm], z3.ForAll([is_grad], z3.Implies(jm[is_grad], grad_name(is_grad) != nm))),
                                                                  E.o_vals(e1)[nm] == dv[nm]), patterns=[E.o_vals(e1)[nm]])),
            ("jacobians-recorded-under-gradient-names", z3.ForAll([nm], z3.Implies(jm[nm], E.o_member(e1)[grad_name(nm)]), patterns=[jm[nm]])),
            ("earlier-outputs-kept", z3.ForAll([nm], z3.Implies(z3.And(D0.has(x), E.o_member(e0)[nm]), E.o_member(e1)[nm]), patterns=[E.o_member(e0)[nm]])),
            ("db-wf", db_wf(D1))]


@register
class RemoveEmptyEntries(_Assumed):
    targets = (DB + ".remove_empty_entries",)
    modifies = ("self",)
    description = ("assumed (loop deleting from the dictionary it snapshots): exactly the entries without any output are removed; the others keep their outputs and "
                   "their relative order; listeners kept")

    def ensures(self, c):
        D0, D1 = c.old.self._Database__data, c.new.self._Database__data
        p, q = z3.Consts("p!re q!re", HNd.sort())
        return [("keys", z3.ForAll([p], D1.has(p) == z3.And(D0.has(p), E.o_n(D0.get(p)) != 0), patterns=[D1.member[p]])),
                ("outputs-kept", z3.ForAll([p], z3.Implies(D1.has(p), D1.get(p) == D0.get(p)), patterns=[D1.vals[p]])),
                ("relative-order-kept", z3.ForAll([p, q], z3.Implies(z3.And(D1.has(p), D1.has(q)), (D1.pos[p] < D1.pos[q]) == (D0.pos[p] < D0.pos[q])),
                                                  patterns=[z3.MultiPattern(D1.pos[p], D1.pos[q])])),
                ("listeners-kept", z3.And(same_list(c.old.self._Database__new_iter_listeners, c.new.self._Database__new_iter_listeners),
                                          same_list(c.old.self._Database__store_listeners, c.new.self._Database__store_listeners))),
                ("name-kept", c.new.self.name == c.old.self.name), ("db-wf", db_wf(D1))]


@register
class RemoveEmptyEntriesMatchesSource(Contract):
    """Read on the REAL source: remove_empty_entries is `for x, outputs in tuple(self.items()): if not outputs: del self.__data[x]`."""

    targets = ()
    prop = ("C03",)
    lemma = True

    def lemmas(self):
        body = [b for b in S.load_function(DB + ".remove_empty_entries").node.body if not (isinstance(b, _ast.Expr) and isinstance(b.value, _ast.Constant))]
        ok = len(body) == 1 and isinstance(body[0], _ast.For) and _ast.unparse(body[0].target) == "(x, outputs)" and _ast.unparse(body[0].iter) == "tuple(self.items())" \
            and len(body[0].body) == 1 and isinstance(body[0].body[0], _ast.If) and _ast.unparse(body[0].body[0].test) == "not outputs" \
            and [_ast.unparse(b) for b in body[0].body[0].body] == ["del self.__data[x]"] and not body[0].body[0].orelse and not body[0].orelse
        return [("removes-exactly-the-entries-without-output", z3.BoolVal(bool(ok)))]


def executed_effect(D0, D1, S_):
    """Database after parallel.execute(self.samples, exec_callback=[self.__store_in_database]) when every sample key is registered beforehand:
    what n callback calls, one per successful task and in ANY order, leave behind (each clause is preserved by one call: ParallelStoreLemmas)."""
    p = z3.Const("p!ee", HNd.sort())
    nm = z3.Const("nm!ee", TStr.sort())
    i = z3.Int("i!ee")
    rng = z3.And(0 <= i, i < S_.n, task_ok(i))
    entry = D1.get(skey(S_, i))
    return [("keys-kept", z3.ForAll([p], D1.has(p) == D0.has(p), patterns=[D1.member[p]])),
            ("order-kept", z3.ForAll([p], z3.Implies(D0.has(p), D1.pos[p] == D0.pos[p]), patterns=[D1.pos[p]])),
            ("size-kept", D1.n == D0.n),
            ("outputs-of-successful-samples-recorded", z3.ForAll([i, nm], z3.Implies(z3.And(rng, OUTS.acc(0)(task_data(i))[nm]), E.o_member(entry)[nm]),
                                                                 patterns=[z3.MultiPattern(task_ok(i), OUTS.acc(0)(task_data(i))[nm])])),
            ("jacobians-of-successful-samples-recorded", z3.ForAll([i, nm], z3.Implies(z3.And(rng, OUTS.acc(0)(task_jac(i))[nm]), E.o_member(entry)[grad_name(nm)]),
                                                                   patterns=[z3.MultiPattern(task_ok(i), OUTS.acc(0)(task_jac(i))[nm])])),
            ("recorded-outputs-only-grow", z3.ForAll([p, nm], z3.Implies(z3.And(D0.has(p), E.o_member(D0.get(p))[nm]), E.o_member(D1.get(p))[nm]), patterns=[E.o_member(D0.get(p))[nm]])),
            ("db-wf", db_wf(D1))]


def _parallel_execute_summary(ex, parexec, args, kwargs, lineno):
    """Thin summary of CallableParallelExecution.execute (contract verified under C13: positional results, every callback called exactly once per
    successful task with (index, output), in an arbitrary order) composed with the verified contract of the one callback __store_in_database."""
    from pyvc.values import BoundMethod, ListObj, Ref, Unsupported

    st = ex.st
    me = ex.frame.env.get("self")
    workers = parexec.workers
    wl = st.heap.get(workers.id) if isinstance(workers, Ref) else None
    inputs = args[0] if args else kwargs.get("inputs")
    cbs = kwargs.get("exec_callback")
    cbl = st.heap.get(cbs.id) if isinstance(cbs, Ref) else None
    mev = View(st.heap, me, st)
    if not (isinstance(inputs, Ref) and inputs.id == mev.samples.ref.id):
        # (the tasks are the physical samples: the callback stores task i under self.samples[i])
        ex.check(z3.BoolVal(False), "pre", "parallel-execute:the-tasks-are-the-samples", lineno, aux=True)
        return TList(TVal).fresh(st, "parallel_outputs")  # (no summary applies: nothing is known about the database afterwards)
    store_cb = bound_method_term(me.id, "__store_in_database")
    one_cb = isinstance(cbl, ListObj) and not cbl.is_empty_literal and z3.is_int_value(z3.simplify(cbl.n)) and z3.simplify(cbl.n).as_long() == 1 \
        and z3.simplify(cbl.elems[0]).eq(store_cb)
    worker_ok = (isinstance(wl, ListObj) and z3.is_int_value(z3.simplify(wl.n)) and z3.simplify(wl.n).as_long() == 1
                 and z3.simplify(wl.elems[0]).eq(bound_method_term(me.id, "_worker"))) or \
        (isinstance(workers, tuple) and len(workers) == 1 and isinstance(workers[0], BoundMethod) and workers[0].recv == me
         and workers[0].finfo is not None and workers[0].finfo.node.name == "_worker")
    if not one_cb:
        # use_database: the results must be stored by the callback (user callbacks - default none - are not covered)
        ex.check(z3.BoolVal(False), "pre", "parallel-execute:the-callbacks-are-exactly-the-store-callback", lineno, aux=True)
        for path in _DB_MODIFIES:
            ex.havoc_path(path, {"self": me})
        return TList(TVal).fresh(st, "parallel_outputs")
    if not worker_ok:
        raise Unsupported("parallel.execute: only the pattern workers=[self._worker] is summarised")
    S_ = mev.samples
    D0v = db_of(mev._problem)
    j = z3.Int("j!pe")
    ex.check(z3.ForAll([j], z3.Implies(z3.And(0 <= j, j < S_.n), D0v.has(skey(S_, j))), patterns=[D0v.member[skey(S_, j)]]), "pre",
             "parallel-execute:every-sample-has-a-registered-entry", lineno, aux=True)
    ex.check(db_wf(D0v), "pre", "parallel-execute:db-wf", lineno, aux=True)
    old = st.snapshot()
    d_old = View(old, me, st)._problem.database
    for path in _DB_MODIFIES:
        ex.havoc_path(path, {"self": me})
    d_new = View(st.heap, me, st)._problem.database
    for _, f in executed_effect(d_old._Database__data, d_new._Database__data, View(old, me, st).samples):
        st.assume(f)
    st.assume(same_list(d_old._Database__new_iter_listeners, d_new._Database__new_iter_listeners))
    st.assume(same_list(d_old._Database__store_listeners, d_new._Database__store_listeners))
    st.assume(d_new.name == d_old.name)
    ex.assumed.add("CallableParallelExecution.execute(self.samples, exec_callback=[self.__store_in_database]): summary of its C13 contract (each callback exactly once per "
                   "successful task with the matching (index, output), arbitrary order; c03_task_ok / c03_task_data / c03_task_jac name the outcome of task i) "
                   "composed with the verified contract of __store_in_database; the resulting clauses are those preserved by every single call (ParallelStoreLemmas); "
                   "listeners notified by the stores are not tracked in this branch")
    ex.callee_contracts.add(_P3.CPE + ".execute (summary)")
    return TList(TVal).fresh(st, "parallel_outputs")


_P3.PAREXEC_SUMMARY["execute"] = _parallel_execute_summary
_PREREG_ORDINAL, _PREREG_ANCHOR = _prereg_anchor()


@register
class DoeRunParallel(Contract):
    """Parallel DOE (n_processes > 1, use_database): the samples are registered in generation order BEFORE the workers run (loop invariant), the
    callback only fills existing entries, and removing the empty ones keeps the relative order: the recorded samples stand in generation order,
    each with the outputs of its own evaluation."""

    targets = (DOE + "._run",)
    variant = "parallel"
    prop = ("C03",)
    c03 = True
    c03_parallel = True
    self_schema = DOE3
    params = {"problem": TFieldOfSelf(DOE, "_problem"), "eval_jac": TBool, "n_processes": TInt, "wait_time_between_samples": TReal, "use_database": TBool}
    modifies = ("self",) + _DB_MODIFIES
    loops = {_PREREG_ORDINAL: LoopSpec(anchor=_PREREG_ANCHOR, inv=_prereg_inv, modifies=_DB_MODIFIES, local_types={"sample": TNd})}

    def axioms(self, c):
        return [("first-index-definition", first_index_axiom(c.old.self.samples))]

    def requires(self, c):
        return [("parallel", c.old.n_processes > 1), ("database-used", c.old.use_database), ("db-wf", db_wf(db_of(c.old.problem)))]

    def ensures(self, c):
        D0, D1 = db_of(c.old.problem), db_of(c.new.problem)
        S_ = c.old.self.samples
        i = z3.Int("i!rp")
        nm = z3.Const("nm!rp", TStr.sort())
        rng = z3.And(0 <= i, i < S_.n, task_ok(i))
        e = D1.get(skey(S_, i))
        return [("evaluated-samples-are-recorded-with-their-outputs", z3.ForAll([i, nm], z3.Implies(z3.And(rng, OUTS.acc(0)(task_data(i))[nm]),
                                                                                                    z3.And(D1.has(skey(S_, i)), E.o_member(e)[nm])),
                                                                                patterns=[z3.MultiPattern(task_ok(i), OUTS.acc(0)(task_data(i))[nm])])),
                ("evaluated-samples-are-recorded-with-their-jacobians", z3.ForAll([i, nm], z3.Implies(z3.And(rng, OUTS.acc(0)(task_jac(i))[nm]),
                                                                                                      z3.And(D1.has(skey(S_, i)), E.o_member(e)[grad_name(nm)])),
                                                                                  patterns=[z3.MultiPattern(task_ok(i), OUTS.acc(0)(task_jac(i))[nm])])),
                ("recorded-samples-in-generation-order", generation_order(D0, D1, S_, S_.n)),
                ("only-sample-keys-are-added", _only_sample_keys(D0, D1, S_)),
                ("no-empty-placeholder-is-left", _no_empty_new_entry(D0, D1)),
                ("samples-kept", same_list(S_, c.new.self.samples)),
                ("db-wf", db_wf(D1))]


def _no_empty_new_entry(D0, D1):
    p = z3.Const("p!ne", HNd.sort())
    return z3.ForAll([p], z3.Implies(z3.And(D1.has(p), z3.Not(D0.has(p))), E.o_n(D1.get(p)) != 0), patterns=[D1.member[p]])


def _only_sample_keys(D0, D1, S_):
    p = z3.Const("p!os", HNd.sort())
    return z3.ForAll([p], z3.Implies(z3.And(D1.has(p), z3.Not(D0.has(p))), z3.And(0 <= first_index(p), first_index(p) < S_.n, skey(S_, first_index(p)) == p)), patterns=[D1.member[p]])


@register
class ParallelStoreLemmas(Contract):
    """Why the clauses of `executed_effect` hold for EVERY completion order: induction over the receptions.  Reception m handles task perm(m); if
    the task succeeded, __store_in_database is called once with (perm(m), its outputs) and changes the database as its verified contract says
    (`stored_effect`), otherwise nothing changes.  All sample keys are registered at reception 0.  Inv(m) = the clauses of executed_effect for the
    tasks received so far; Inv(0) holds, Inv(m) => Inv(m+1), and with perm a bijection of [0, N) Inv(N) covers every task."""

    targets = ()
    prop = ("C03",)
    lemma = True

    def lemmas(self):
        K, N_ = HNd.sort(), TStr.sort()
        I = z3.IntSort()
        mem = z3.Function("ps_mem", I, K, z3.BoolSort())
        pos = z3.Function("ps_pos", I, K, I)
        size = z3.Function("ps_n", I, I)
        names = z3.Function("ps_names", I, K, N_, z3.BoolSort())  # recorded output names of an entry at reception m
        key = z3.Function("ps_key", I, K)
        perm, inv = z3.Function("ps_perm", I, I), z3.Function("ps_inv", I, I)
        ok = z3.Function("ps_ok", I, z3.BoolSort())
        dn, jn = z3.Function("ps_data_names", I, N_, z3.BoolSort()), z3.Function("ps_jac_names", I, N_, z3.BoolSort())
        m, r, i, N = z3.Ints("m r i N")
        p = z3.Const("p", K)
        nm = z3.Const("nm", N_)
        t = perm(m)
        x = key(t)
        registered0 = z3.ForAll([i], z3.Implies(z3.And(0 <= i, i < N), mem(0, key(i))), patterns=[key(i)])
        call = z3.And(  # stored_effect(D_m, D_m+1, x, data(t), jac(t)), name by name
            z3.ForAll([p], mem(m + 1, p) == z3.Or(mem(m, p), p == x), patterns=[mem(m + 1, p)]),
            z3.ForAll([p, nm], z3.Implies(z3.And(mem(m, p), p != x), names(m + 1, p, nm) == names(m, p, nm)), patterns=[names(m + 1, p, nm)]),
            z3.ForAll([p], z3.Implies(mem(m, p), pos(m + 1, p) == pos(m, p)), patterns=[pos(m + 1, p)]),
            size(m + 1) == z3.If(mem(m, x), size(m), size(m) + 1),
            z3.ForAll([nm], z3.Implies(dn(t, nm), names(m + 1, x, nm)), patterns=[dn(t, nm)]),
            z3.ForAll([nm], z3.Implies(jn(t, nm), names(m + 1, x, grad_name(nm))), patterns=[jn(t, nm)]),
            z3.ForAll([nm], z3.Implies(z3.And(mem(m, x), names(m, x, nm)), names(m + 1, x, nm)), patterns=[names(m, x, nm)]))
        skip = z3.And(z3.ForAll([p], mem(m + 1, p) == mem(m, p), patterns=[mem(m + 1, p)]), z3.ForAll([p], pos(m + 1, p) == pos(m, p), patterns=[pos(m + 1, p)]),
                      size(m + 1) == size(m), z3.ForAll([p, nm], names(m + 1, p, nm) == names(m, p, nm), patterns=[names(m + 1, p, nm)]))
        perm_range = z3.ForAll([r], z3.Implies(z3.And(0 <= r, r < N), z3.And(0 <= perm(r), perm(r) < N)), patterns=[perm(r)])  # receptions name tasks
        step = z3.And(0 <= m, m < N, perm_range, z3.If(ok(t), call, skip))

        def Inv(q):
            return z3.And(
                z3.ForAll([p], mem(q, p) == mem(0, p), patterns=[mem(q, p)]),
                z3.ForAll([p], z3.Implies(mem(0, p), pos(q, p) == pos(0, p)), patterns=[pos(q, p)]),
                size(q) == size(0),
                z3.ForAll([p, nm], z3.Implies(z3.And(mem(0, p), names(0, p, nm)), names(q, p, nm)), patterns=[names(0, p, nm)]),
                z3.ForAll([r, nm], z3.Implies(z3.And(0 <= r, r < q, ok(perm(r)), dn(perm(r), nm)), names(q, key(perm(r)), nm)), patterns=[dn(perm(r), nm)]),
                z3.ForAll([r, nm], z3.Implies(z3.And(0 <= r, r < q, ok(perm(r)), jn(perm(r), nm)), names(q, key(perm(r)), grad_name(nm))), patterns=[jn(perm(r), nm)]))

        bijection = z3.ForAll([i], z3.Implies(z3.And(0 <= i, i < N), z3.And(0 <= inv(i), inv(i) < N, perm(inv(i)) == i)), patterns=[inv(i)])
        every_task = z3.And(
            z3.ForAll([i, nm], z3.Implies(z3.And(0 <= i, i < N, ok(i), dn(i, nm)), names(N, key(i), nm)), patterns=[z3.MultiPattern(inv(i), dn(i, nm))]),
            z3.ForAll([i, nm], z3.Implies(z3.And(0 <= i, i < N, ok(i), jn(i, nm)), names(N, key(i), grad_name(nm))), patterns=[z3.MultiPattern(inv(i), jn(i, nm))]))
        # the inductive step needs one more invariant: the keys of the tasks stay registered (a consequence of the first clause of Inv and registered0)
        return [("any-completion-order:base", Inv(z3.IntVal(0))),
                ("any-completion-order:step", z3.Implies(z3.And(registered0, step, Inv(m)), Inv(m + 1))),
                ("any-completion-order:every-task-is-covered", z3.Implies(z3.And(Inv(N), bijection), every_task))]
