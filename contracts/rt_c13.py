"""Run-time contract for C13 (consequences for disciplines), used to replay failed obligations on the real code.

Scenario: the REAL DiscParallelExecution / DiscParallelLinearization over three disciplines y = k_i * x (k = 1, 2, 3), every subset of them
failing, threads then processes; afterwards discipline i of the ORIGINAL list must hold what a sequential execution of a twin of discipline i on
the same input leaves in the twin (local data and Jacobian).  A failed discipline is compared with its (failed) sequential twin in thread mode
(shared objects) and skipped in process mode (the parent's object is untouched).  Deterministic; the witness names (kind, threads, failing subset).
"""
from __future__ import annotations

import itertools
import logging

import numpy as np

KS = (1.0, 2.0, 3.0)


def _disc(k, fail):
    from gemseo.core.discipline import Discipline

    class _D(Discipline):
        def __init__(self):
            super().__init__(f"d{int(k)}")
            self.io.input_grammar.update_from_names(["x"])
            self.io.output_grammar.update_from_names(["y"])
            self.add_differentiated_inputs(["x"])
            self.add_differentiated_outputs(["y"])

        def _run(self, input_data):
            if fail:
                msg = "rt_c13: this discipline fails"
                raise RuntimeError(msg)
            return {"y": k * input_data["x"]}

        def _compute_jacobian(self, input_names=(), output_names=()):
            self.jac = {"y": {"x": np.array([[k]])}}

    return _D()


def _data(d):
    return {n: np.array(v).tolist() for n, v in d.io.data.items()}


def _jac(d):
    j = getattr(d, "jac", None) or {}
    return {o: {i: np.array(b).tolist() for i, b in r.items()} for o, r in j.items()}


def run(kind, threads, failing):
    """None if the parallel run leaves every discipline as its sequential twin, a description of the first difference otherwise."""
    import contextlib
    import io

    logging.disable(logging.CRITICAL)
    _err = io.StringIO()  # (the workers print the traceback of a failing task)
    try:
        with contextlib.redirect_stderr(_err):
            return _run(kind, threads, failing)
    finally:
        logging.disable(logging.NOTSET)


def _run(kind, threads, failing):
    from gemseo.core.parallel_execution.disc_parallel_execution import DiscParallelExecution
    from gemseo.core.parallel_execution.disc_parallel_linearization import DiscParallelLinearization

    discs = [_disc(k, i in failing) for i, k in enumerate(KS)]
    twins = [_disc(k, i in failing) for i, k in enumerate(KS)]
    inputs = [{"x": np.array([10.0 + i])} for i in range(len(KS))]
    cls = DiscParallelExecution if kind == "execute" else DiscParallelLinearization
    out = cls(discs, n_processes=2, use_threading=threads).execute(inputs)
    for i, (d, t, x) in enumerate(zip(discs, twins, inputs)):
        try:
            t.execute(x) if kind == "execute" else t.linearize(x)
        except RuntimeError:
            pass
        if i in failing and not threads:
            continue
        if _data(d) != _data(t):
            return {"discipline": i, "local_data": _data(d), "sequential": _data(t), "returned_slots": [o is not None for o in out]}
        if kind == "linearize" and _jac(d) != _jac(t):
            return {"discipline": i, "jacobian": _jac(d), "sequential": _jac(t)}
    return None


def scenarios(func):
    kinds = ("linearize",) if "Linearization" in func or "_Functor" in func else ("execute",) if "DiscParallelExecution" in func else ()
    for kind in kinds:
        for threads in (True, False):
            for r in range(len(KS)):
                for failing in itertools.combinations(range(len(KS)), r):
                    yield kind, threads, failing


def replay(ob, seed=0):
    if not any(t in ob.label for t in ("write-back", "lastw", "distinct", "single-discipline", "no-write-back")):
        return None
    for kind, threads, failing in scenarios(ob.func):
        try:
            r = run(kind, threads, set(failing))
        except Exception as e:  # noqa: BLE001
            r = {"exception": repr(e)}
        if r is not None:
            return {"scenario": "parallel-vs-sequential-twins", "kind": kind, "threads": threads, "failing": list(failing), "failure": r}
    return None


def rerun(w):
    try:
        r = run(w["kind"], w["threads"], set(w["failing"]))
    except Exception as e:  # noqa: BLE001
        r = {"exception": repr(e)}
    return {"fails": r is not None, "failure": r}
