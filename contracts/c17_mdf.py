"""C17 - MDF removes every coupling variable from the design space ("couplings removed for MDF").

``MDF._remove_couplings_from_ds`` runs over ``self.mda.coupling_structure.all_couplings`` and removes each coupling that is a design
variable with ``DesignSpace.remove_variable`` (contract of C02).  Postcondition, from the property statement: afterwards NO coupling of
the MDA - weak or strong - is a design variable, every other variable is kept with its definition, and the design space is still
well-formed (one variable order in all its views).

The coupling structure is read as a record: ``all_couplings`` / ``strong_couplings`` / ``weak_couplings`` are lazily computed properties
returning lists of names (the functions that compute them are verified under C08); here they are three unrelated lists of names - no
relation between them is assumed, so that iterating over another one of them does not establish the postcondition.
"""
from __future__ import annotations

import z3

from contracts import c02_design_space as D2
from pyvc.contract import Contract, LoopSpec, register, schema
from pyvc.values import TList, TObj, TRec, TStr

MDFC = "gemseo.formulations.mdf.MDF"
OP = "gemseo.algos.optimization_problem.OptimizationProblem"
MDA = "gemseo.mda.base_mda.BaseMDA"
CSREC = TRec("CouplingStructureNames", {"all_couplings": TList(TStr), "strong_couplings": TList(TStr), "weak_couplings": TList(TStr)},
             cls="gemseo.core.coupling_structure.CouplingStructure")
schema(MDA + "#c17", {"coupling_structure": CSREC})
schema(OP + "#c17mdf", {"design_space": TObj(D2.DS)})
schema(MDFC + "#couplings", {"mda": TObj(MDA, schema_key=MDA + "#c17"), "optimization_problem": TObj(OP, schema_key=OP + "#c17mdf")})

STR = TStr.sort()


def _ds(v):
    return v.self.optimization_problem.design_space


def _couplings(c):
    return c.old.self.mda.coupling_structure.all_couplings


def _among(cp, x, upto):
    j = z3.Int("j!am")
    return z3.Exists([j], z3.And(0 <= j, j < upto, cp.elems[j] == x))


def _state(c, s1, upto):
    """The design space s1 after the first `upto` couplings were handled, relative to the entry state."""
    s0, cp = _ds(c.old), _couplings(c)
    v0, v1 = D2.V(s0), D2.V(s1)
    j = z3.Int("j!rm")
    x = z3.Const("x!rm", STR)
    return [
        ("handled-couplings-are-no-design-variables", z3.ForAll([j], z3.Implies(z3.And(0 <= j, j < upto), z3.Not(v1.has(cp.elems[j]))), patterns=[cp.elems[j]])),
        ("only-entry-variables", z3.ForAll([x], z3.Implies(v1.has(x), z3.And(v0.has(x), v1.vals[x] == v0.vals[x])), patterns=[v1.has(x)])),
        ("other-variables-kept", z3.ForAll([x], z3.Implies(z3.And(v0.has(x), z3.Not(_among(cp, x, upto))), v1.has(x)), patterns=[v0.has(x)])),
    ]


def _inv(c, k):
    s = _ds(c.new)
    return D2.wf(s) + _state(c, s, k)


@register
class MdfRemoveCouplingsFromDs(Contract):
    targets = (MDFC + "._remove_couplings_from_ds",)
    prop = ("C17",)
    self_schema = MDFC + "#couplings"
    modifies = ("self.optimization_problem.design_space",)
    # no anchor: the invariant is stated over the couplings of the specification (all_couplings), whatever sequence the loop runs over -
    # a loop over another list of names has to establish the same facts
    loops = {0: LoopSpec(anchor=None, modifies=("self.optimization_problem.design_space",), inv=_inv,
                         local_types={"coupling": TStr})}

    def requires(self, c):
        return D2.wf(_ds(c.old))

    def ensures(self, c):
        s1 = _ds(c.new)
        return D2.wf(s1) + _state(c, s1, _couplings(c).n)
