"""Run-time contract for C10: concrete inputs on the real code for a failed obligation.

* function algebra: (f op g), its Jacobian and the scalings are compared with the textbook rule evaluated index-wise on small
  polynomial operands (m outputs, n inputs, including m == n and m != n);
* aggregations: value / Jacobian against the defining formulas written with Python loops, and the frame clause (the arrays passed in
  are compared with copies taken before the call).
Deterministic enumeration; the witness is self-contained (scenario name + parameters)."""
from __future__ import annotations

import itertools

import numpy as np

TOL = 1e-9


# ---------------------------------------------------------------------------- operands
def _operand(seed, m, n):
    """f(x)_i = sum_j a_ij x_j + b_i x_0^2, exact Jacobian; number-valued (float, (n,) gradient) when m == 0."""
    rng = np.random.RandomState(seed)
    mm = max(m, 1)
    a, b = rng.randint(1, 4, size=(mm, n)).astype(float), rng.randint(1, 3, size=mm).astype(float)

    def val(x):
        v = a @ x + b * x[0] ** 2
        return float(v[0]) if m == 0 else v

    def jac(x):
        j = a.copy()
        j[:, 0] += 2 * b * x[0]
        return j[0] if m == 0 else j

    return val, jac


def _algebra(op, m, n, second, seed=0):
    from gemseo.core.mdo_functions.mdo_function import MDOFunction

    x = np.arange(1.0, n + 1.0)
    fv, fj = _operand(seed + 1, m, n)
    gv, gj = _operand(seed + 2, m, n)
    f = MDOFunction(fv, "f", jac=fj)
    if second == "function":
        other = MDOFunction(gv, "g", jac=gj)
    elif second == "number":
        other = 3.0
    else:
        other = np.arange(2.0, 2.0 + max(m, 1))
    h = {"add": f.__add__, "sub": f.__sub__, "mul": f.__mul__, "div": f.__truediv__}[op](other)
    fx, dfx = np.atleast_1d(fv(x)), np.atleast_2d(fj(x))
    if second == "function":
        gx, dgx = np.atleast_1d(gv(x)), np.atleast_2d(gj(x))
    else:
        gx, dgx = np.atleast_1d(other) * np.ones(max(m, 1)), np.zeros_like(dfx)
    mm = max(m, 1)
    val = np.array([{"add": fx[i] + gx[i], "sub": fx[i] - gx[i], "mul": fx[i] * gx[i], "div": fx[i] / gx[i]}[op] for i in range(mm)])
    jac = np.array([[{"add": dfx[i, j] + dgx[i, j], "sub": dfx[i, j] - dgx[i, j], "mul": dfx[i, j] * gx[i] + dgx[i, j] * fx[i],
                      "div": (dfx[i, j] * gx[i] - dgx[i, j] * fx[i]) / gx[i] ** 2}[op] for j in range(n)] for i in range(mm)])
    try:
        got_v = np.atleast_1d(h.evaluate(x))
        if got_v.shape != val.shape or not np.allclose(got_v, val, atol=TOL):
            return {"what": "value of the combination differs from the index-wise rule", "got": got_v.tolist(), "expected": val.tolist()}
        got_j = np.atleast_2d(h.jac(x))
    except Exception as e:  # noqa: BLE001
        return {"what": "exception", "exception": repr(e)}
    if got_j.shape != jac.shape or not np.allclose(got_j, jac, atol=TOL):
        return {"what": "Jacobian differs from the exact derivative (index-wise rule)", "got": got_j.tolist(), "expected": jac.tolist()}
    return None


def algebra_scenarios():
    for op, second in itertools.product(("mul", "div", "add", "sub"), ("function", "number", "vector")):
        for m, n in ((2, 2), (2, 3), (3, 2), (1, 2), (0, 2)):
            if second == "vector" and m == 0:
                continue
            yield {"scenario": "algebra", "op": op, "m": m, "n": n, "second": second}


# ---------------------------------------------------------------------------- aggregations
def _agg_expected(name, v, J, idx, rho, s):
    sel = list(range(len(v))) if idx is None else list(idx)
    sv = [s * v[k] for k in sel]
    M = max(sv)
    e = [np.exp(rho * (t + 1 - M)) for t in sv]
    D = sum(e)
    N = sum(t * w for t, w in zip(sv, e))
    pos = lambda t: 1.0 if t > 0 else 0.0  # noqa: E731
    n = J.shape[1]

    def row(entries):
        r = np.zeros((1, len(v)))
        for k, val in zip(sel, entries):
            r[0, k] = val
        return r

    return {
        "compute_sum_square_agg": lambda: sum(s * v[k] ** 2 for k in sel),
        "compute_sum_positive_square_agg": lambda: sum(s * v[k] ** 2 * pos(v[k]) for k in sel),
        "compute_total_sum_square_agg_jac": lambda: np.array([sum(2 * s * v[k] * J[k, j] for k in sel) for j in range(n)]),
        "compute_total_sum_square_positive_agg_jac": lambda: np.array([sum(2 * s * v[k] * pos(v[k]) * J[k, j] for k in sel) for j in range(n)]),
        "compute_partial_sum_square_agg_jac": lambda: row([2 * s * v[k] for k in sel]),
        "compute_partial_sum_positive_square_agg_jac": lambda: row([2 * s * v[k] * pos(v[k]) for k in sel]),
        "compute_max_agg": lambda: np.array([M]),
        "compute_max_agg_jac": lambda: s * J[sel[int(np.argmax(sv))], :],
        "compute_upper_bound_ks_agg": lambda: M + np.log(D) / rho - 1,
        "compute_lower_bound_ks_agg": lambda: M + np.log(D) / rho - 1 - np.log(len(v)) / rho,
        "compute_total_ks_agg_jac": lambda: np.array([sum(w / D * s * J[k, j] for k, w in zip(sel, e)) for j in range(n)]),
        "compute_partial_ks_agg_jac": lambda: row([w / D * s for w in e]),
        "compute_iks_agg": lambda: N / D,
        "compute_total_iks_agg_jac": lambda: np.array([
            (-sum(w * rho * s * J[k, j] for k, w in zip(sel, e)) / D**2) * N
            + sum((w + rho * w * t) * s * J[k, j] for k, w, t in zip(sel, e, sv)) / D for j in range(n)]),
        "compute_partial_iks_agg_jac": lambda: row([s * ((-rho * w / D**2) * N + (w + rho * w * t) / D) for w, t in zip(e, sv)]),
    }[name]()


def _aggregation(name, idx, scale, rho=2.0):
    from gemseo.algos.aggregation import core

    v = np.array([1.0, -2.0, 3.0])
    J = np.array([[1.0, 2.0], [3.0, 4.0], [5.0, 6.0]])
    v0, J0 = v.copy(), J.copy()
    fn = getattr(core, name)
    kwargs = {"indices": idx, "scale": scale}
    if "ks" in name:
        kwargs["rho"] = rho
    args = (v, J) if name in ("compute_total_sum_square_agg_jac", "compute_total_sum_square_positive_agg_jac", "compute_max_agg_jac",
                              "compute_total_ks_agg_jac", "compute_total_iks_agg_jac") else (v,)
    try:
        got = fn(*args, **kwargs)
    except Exception as e:  # noqa: BLE001
        return {"what": "exception", "exception": repr(e)}
    exp = _agg_expected(name, v0, J0, idx, rho, scale)
    if np.shape(got) != np.shape(exp) or not np.allclose(got, exp, atol=TOL):
        return {"what": "result differs from the defining formula", "got": np.asarray(got).tolist(), "expected": np.asarray(exp).tolist()}
    if not np.array_equal(v, v0):
        return {"what": "the caller's array of constraint values was modified in place", "before": v0.tolist(), "after": v.tolist()}
    if not np.array_equal(J, J0):
        return {"what": "the caller's Jacobian array was modified in place", "before": J0.tolist(), "after": J.tolist()}
    return None


AGG_NAMES = ["compute_sum_square_agg", "compute_sum_positive_square_agg", "compute_total_sum_square_agg_jac", "compute_total_sum_square_positive_agg_jac",
             "compute_partial_sum_square_agg_jac", "compute_partial_sum_positive_square_agg_jac", "compute_max_agg", "compute_max_agg_jac",
             "compute_upper_bound_ks_agg", "compute_lower_bound_ks_agg", "compute_total_ks_agg_jac", "compute_partial_ks_agg_jac", "compute_iks_agg",
             "compute_total_iks_agg_jac", "compute_partial_iks_agg_jac"]


def aggregation_scenarios(name=None):
    for nm in ([name] if name else AGG_NAMES):
        for idx, scale in itertools.product((None, [0, 2], [1]), (2.0, 1.0, 0.5)):
            yield {"scenario": "aggregation", "function": nm, "indices": idx, "scale": scale}


# ---------------------------------------------------------------------------- normalization of a linear function
def _normalize(sparse, policies):
    """g = f.normalize(space): g(xn) = f(unnormalize(xn)), Dg = Df diag(ub - lb on normalised components), and f itself is untouched."""
    from gemseo.algos.design_space import DesignSpace
    from gemseo.core.mdo_functions.mdo_linear_function import MDOLinearFunction
    from scipy.sparse import csr_array

    a = np.array([[1.0, 0.0, 2.0], [0.0, 3.0, 4.0]])
    b = np.array([0.5, -1.0])
    lb, ub = np.array([-1.0, 0.0, 2.0]), np.array([3.0, 2.0, 7.0])
    space = DesignSpace()
    for i, pol in enumerate(policies):
        space.add_variable(f"x{i}", lower_bound=lb[i], upper_bound=ub[i], value=(lb[i] + ub[i]) / 2)
        space.normalize[f"x{i}"] = np.array([bool(pol)])
    f = MDOLinearFunction(csr_array(a) if sparse else a.copy(), "f", value_at_zero=b.copy())
    try:
        g = f.normalize(space)
    except Exception as e:  # noqa: BLE001
        return {"what": "exception", "exception": repr(e)}
    dense = lambda m: m.toarray() if hasattr(m, "toarray") else np.asarray(m)  # noqa: E731
    scale = np.where(policies, ub - lb, 1.0)
    shift = np.where(policies, lb, 0.0)
    if not np.allclose(dense(f.coefficients), a, atol=TOL) or not np.allclose(f.value_at_zero, b, atol=TOL):
        return {"what": "normalize modified the coefficients / offset of the function it was applied to", "coefficients-after": dense(f.coefficients).tolist(),
                "coefficients-before": a.tolist()}
    if not np.allclose(dense(g.coefficients), a * scale, atol=TOL) or not np.allclose(g.value_at_zero, a @ shift + b, atol=TOL):
        return {"what": "normalized function differs from A diag(s), A shift + b", "got": dense(g.coefficients).tolist(), "expected": (a * scale).tolist()}
    return None


def normalize_scenarios():
    for sparse, policies in itertools.product((True, False), ([True, True, True], [True, False, True], [False, False, False])):
        yield {"scenario": "normalize", "sparse": sparse, "policies": policies}


# ---------------------------------------------------------------------------- convex linearisation
def _convex_lin(m, mask, stored):
    """Value and Jacobian of ConvexLinearApprox against the formulas of the contract; the operand's Jacobian array is not modified."""
    from gemseo.core.mdo_functions.convex_linear_approx import ConvexLinearApprox
    from gemseo.core.mdo_functions.mdo_function import MDOFunction

    n = len(mask)
    fv0, fj0 = _operand(7, m, n)
    sg = np.array([1.0, -1.0, -1.0][:n])  # derivatives of both signs
    bb = np.array([2.0, -3.0][:max(m, 1)])  # cross term b_i x_0 x_1: the exact-input columns of Df depend on the approximated inputs

    def fv(x):
        v = np.atleast_1d(fv0(x * sg)) + bb * x[0] * x[1]
        return float(v[0]) if m == 0 else v

    def fj(x):
        j = np.atleast_2d(fj0(x * sg) * sg).astype(float).copy()
        j[:, 0] += bb * x[1]
        j[:, 1] += bb * x[0]
        return j[0] if m == 0 else j

    store = {}

    def jac(x):  # a function that keeps the Jacobian it returns (as MDOLinearFunction or a caching user function does)
        j = fj(x)
        if stored:
            store["last"], store["copy"] = j, j.copy()
        return j

    f = MDOFunction(fv, "f", jac=jac, dim=max(m, 1))
    x0 = np.arange(1.0, n + 1.0)
    x0[1] = -2.0
    x = x0 + np.array([0.5, -0.25, 1.5][:n])
    a = np.array(mask)
    thr = 1e-9
    try:
        g = ConvexLinearApprox(x0, f, approx_indexes=a, sign_threshold=thr)
        val, jg = np.atleast_1d(g.evaluate(x)), np.atleast_2d(g.jac(x))
    except Exception as e:  # noqa: BLE001
        return {"what": "exception", "exception": repr(e)}
    merged = np.where(a, x0, x)
    j0, jm = np.atleast_2d(fj(x0)), np.atleast_2d(fj(merged))
    idx = np.nonzero(a)[0]
    exp_v = np.atleast_1d(fv(merged)).astype(float).copy()
    exp_j = jm.astype(float).copy()
    for i in range(max(m, 1)):
        for k, col in enumerate(idx):
            c = j0[i, col]
            d = c if c > thr else 0.0
            r = -(c if -c > thr else 0.0) * x0[col] ** 2
            step = x[col] - x0[col]
            inv = 1.0 / step if abs(step) > thr else 0.0
            exp_v[i] += d * step + r * inv
            exp_j[i, col] = d - r * inv**2
    if not np.allclose(val, exp_v, atol=TOL):
        return {"what": "value differs from f(merged) + direct and reciprocal terms", "got": val.tolist(), "expected": exp_v.tolist()}
    if jg.shape != exp_j.shape or not np.allclose(jg, exp_j, atol=TOL):
        return {"what": "Jacobian is not the derivative of the evaluated expression (exact columns = Df(merged), approximated columns = D - R inv^2)",
                "got": jg.tolist(), "expected": exp_j.tolist()}
    if stored and not np.array_equal(store["last"], store["copy"]):
        return {"what": "the array returned by the Jacobian of the approximated function was modified in place", "before": store["copy"].tolist(),
                "after": store["last"].tolist()}
    return None


def convex_lin_scenarios(stored=(False, True)):
    for st in stored:
        for m, mask in itertools.product((2, 0), ([True, False, True], [False, True, False], [True, True, True], [False, False, False])):
            yield {"scenario": "convex-linearisation", "m": m, "mask": mask, "stored": st}


def run(w):
    if w["scenario"] == "convex-linearisation":
        return _convex_lin(w["m"], w["mask"], w["stored"])
    if w["scenario"] == "algebra":
        return _algebra(w["op"], w["m"], w["n"], w["second"])
    if w["scenario"] == "normalize":
        return _normalize(w["sparse"], w["policies"])
    return _aggregation(w["function"], w["indices"], w["scale"])


def replay(ob, seed=0):
    func, name = ob.func, ob.name
    if "aggregation.core" in func:
        scen = aggregation_scenarios(func.rsplit(".", 1)[-1])
        if "all-components" in name:
            scen = [w for w in scen if w["indices"] is None]
        elif "subset-of-components" in name:
            scen = [w for w in scen if w["indices"] is not None]
    elif "_operations" in func:
        ops = [op for op in ("mul", "div", "add", "sub") if f"@{op}:" in name] or ["mul", "div", "add", "sub"]
        scen = [w for w in algebra_scenarios() if w["op"] in ops]
        if "unexpected-ValueError" in name:
            scen = [w for w in scen if w["m"] != w["n"]] + scen
    elif "ConvexLinearApprox" in func:
        scen = list(convex_lin_scenarios((True,) if "not-modified" in name else (False, True)))
    elif func.endswith("MDOLinearFunction.normalize"):
        scen = [w for w in normalize_scenarios() if w["sparse"] == ("@sparse" in name)]
    else:
        return None
    for w in scen:
        r = run(w)
        if r is not None:
            return dict(w, failure=r)
    return None


def rerun(w):
    r = run(w)
    return {"fails": r is not None, "failure": r}
