"""C13 - parallel execution is order preserving and equivalent to sequential execution.

Functions under contract (gemseo.core.parallel_execution.callable_parallel_execution):
``_TaskCallables.__call__``, ``_execute_workers`` (worker loop), ``CallableParallelExecution.execute``
(worker creation, task submission loop, collection loop, termination).

The OS scheduler is outside of the logic; the contracts quantify over everything it can do
to the one sequential place where order matters, the collection loop of ``execute``:
``queue_out.get()`` reads the next element of ``RECV``, a *free* sequence about which only the
queue contract (exactly-once delivery in an arbitrary order: ``PERM`` is any bijection) composed
with the verified contract of the worker loop is assumed (see pyvc/plug_parallel.py).
"""
from __future__ import annotations

import z3

from pyvc import plug_parallel as P
from pyvc.contract import Contract, LoopSpec, register, schema
from pyvc.values import UNBOUND, TBool, TInt, TList, TObj, TOpt, TReal, TVal, val_none

M = P.MOD
CPE = M + ".CallableParallelExecution"
TC = M + "._TaskCallables"

schema(TC, {"callables": TList(P.TWorker)})
schema(CPE, {
    "workers": TList(P.TWorker),
    "n_processes": TInt,
    "use_threading": TBool,
    "wait_time_between_fork": TReal,
    "_CallableParallelExecution__exceptions_to_re_raise": P.TExcClasses,
})

Int = z3.IntSort()


def _clean(t):
    """A term usable as a trigger: selects / uninterpreted applications over variables and constants only."""
    stack = [t]
    while stack:
        x = stack.pop()
        if z3.is_quantifier(x) or not z3.is_app(x):
            if not z3.is_var(x):
                return False
            continue
        if x.decl().kind() in (z3.Z3_OP_ITE, z3.Z3_OP_AND, z3.Z3_OP_OR, z3.Z3_OP_NOT, z3.Z3_OP_EQ):
            return False
        stack.extend(x.children())
    return True


def FA(vs, body, patterns=()):
    ok = [p_ for p_ in patterns if _clean(p_)]
    if ok and len(ok) == len(patterns):
        try:
            return z3.ForAll(vs, body, patterns=ok)
        except z3.Z3Exception:
            pass
    return z3.ForAll(vs, body)


def G0(c, name):
    return c.old_ghost(name, P.GHOSTS[name])


def G1(c, name):
    return c.new_ghost(name, P.GHOSTS[name])


# ============================================================================ _TaskCallables.__call__
@register
class TaskCallablesCall(Contract):
    """One shared callable, or the task_index-th one; the outcome is the outcome of that callable."""

    targets = (TC + ".__call__",)
    prop = ("C13",)
    params = {"task_index": TInt, "input_": TVal}
    returns = P.TResult
    raises = {
        "IndexError": lambda c: P.bad_index(c.old.self.callables.n, c.old.task_index),
        "BaseException": lambda c: z3.And(z3.Not(P.bad_index(c.old.self.callables.n, c.old.task_index)),
                                          P.task_raises(P.chosen(c.old.self.callables.n, c.old.self.callables.elems, c.old.task_index), c.old.input_)),
    }

    def ensures(self, c):
        cl = c.old.self.callables
        return [("value", c.result == P.task_value(P.chosen(cl.n, cl.elems, c.old.task_index), c.old.input_))]


# ============================================================================ _execute_workers
def _worker_log(c, k):
    """After k task items taken: exactly k result items appended to the out-queue, the j-th one being
    the result of the j-th item taken (value, or an exception instance if the task failed); one task_done per item."""
    cl = c.old.task_callables.callables
    p0, n0 = G0(c, "qout_puts"), G0(c, "qout_n")
    p1, n1 = G1(c, "qout_puts"), G1(c, "qout_n")
    j = z3.Int("j!wl")
    return [
        ("one-result-per-task", n1 == n0 + k),
        ("earlier-results-kept", FA([j], z3.Implies(j < n0, p1[j] == p0[j]))),
        ("results-match-tasks", FA([j], z3.Implies(z3.And(n0 <= j, j < n0 + k), P.res_rel(cl.n, cl.elems, P.TAKEN[j - n0], p1[j])))),
        ("one-task_done-per-task", G1(c, "qin_done") == G0(c, "qin_done") + k),
    ]


@register
class ExecuteWorkers(Contract):
    targets = (M + "._execute_workers",)
    prop = ("C13",)
    params = {"task_callables": TObj(TC), "queue_in": P.TQueue("in"), "queue_out": P.TQueue("out")}
    modifies = ("ghost:qout_puts", "ghost:qout_n", "ghost:qin_done")
    loops = {0: LoopSpec(anchor="iter(queue_in.get, None)", inv=_worker_log, modifies=("ghost:qout_puts", "ghost:qout_n", "ghost:qin_done"))}

    def ensures(self, c):
        return _worker_log(c, P.TAKEN_N)


# ============================================================================ CallableParallelExecution.execute
class _TCallbacks(TList):
    """``exec_callback: CallbackType | Iterable[CallbackType]``: both variants are verified (fork at function entry)."""

    def fresh(self, st, hint):
        if st.choose(2) == 0:
            return super().fresh(st, hint)
        return P.TCallback.fresh(st, hint)


CBS = _TCallbacks(P.TCallback)


class _One:
    """The list view of the single-callable variant (execute wraps it: ``exec_callback = [exec_callback]``)."""

    def __init__(self, term):
        self.n, self.elems = z3.IntVal(1), z3.K(Int, term)


def CB(c):
    v = c.old.exec_callback
    return _One(v) if z3.is_expr(v) else v


def n_tasks(c):
    return c.old.inputs.n


def n_procs(c):
    n, p = n_tasks(c), c.old.self.n_processes
    return z3.If(n < p, n, p)


def sub_path(c):
    """The call happens inside a gemseo worker *process* (not thread mode)."""
    return z3.And(P.CUR_PROC_NAME == P.str_lit(P_SUBPROCESS), z3.Not(c.old.self.use_threading))


P_SUBPROCESS = "subprocess"


def W(c):
    return c.old.self.workers


def fails(c, i):
    """Task i fails: its callable raises (or does not exist)."""
    w = W(c)
    return P.task_fails(w.n, w.elems, i, c.old.inputs.elems[i])


def value(c, i):
    w = W(c)
    return P.task_value(P.chosen(w.n, w.elems, i), c.old.inputs.elems[i])


def is_success(v):
    return z3.Not(P.is_exc(v))


def succeeds(c, i):
    """Task i is a success: its callable returned, and what it returned is not an exception instance (gemseo cannot tell a returned
    exception instance from a raised one: both travel as the output in the out-queue)."""
    return z3.And(z3.Not(fails(c, i)), is_success(value(c, i)))


def reraise(c, v):
    return P.inst_of(v, c.old.self._CallableParallelExecution__exceptions_to_re_raise)


def submitted(c, puts, k):
    """The first k items of the in-queue log are the tasks 0..k-1 with their own input."""
    j = z3.Int("j!sub")
    return FA([j], z3.Implies(z3.And(0 <= j, j < k), puts[j] == P.OptInItem.dt.some(P.InItem.dt.mk(j, c.old.inputs.elems[j]))))


def delivery(c):
    """What the queue contract gives once the n tasks are submitted, restated over the inputs (a consequence of
    plug_parallel.delivery_facts and `submitted`; proved as part of the collection invariant)."""
    j = z3.Int("j!dl")
    n = n_tasks(c)
    i = P.out_index(P.RECV[j])
    o = P.out_output(P.RECV[j])
    t = z3.Int("i!dl")
    return z3.And(
        FA([j], z3.Implies(z3.And(0 <= j, j < n), z3.And(i == P.PERM[j], 0 <= i, i < n, P.INV[i] == j, z3.If(fails(c, i), P.is_exc(o), o == value(c, i)))), patterns=[P.RECV[j]]),
        # every task is delivered: reception rank INV[t] of task t
        FA([t], z3.Implies(z3.And(0 <= t, t < n), z3.And(0 <= P.INV[t], P.INV[t] < n, P.out_index(P.RECV[P.INV[t]]) == t)), patterns=[P.INV[t]]))


def callbacks_done(c, cbn, cblog, k, cbs):
    """Callback log after k complete receptions: for the j-th received item, every callback of the list has been called
    exactly once, in list order, with (index, output) of that item if it is a success, none otherwise; nothing is logged
    for receptions that did not happen yet."""
    j, m = z3.Int("j!cb"), z3.Int("m!cb")
    item = P.RECV[j]
    return [
        ("callbacks:count-per-reception", FA([j], z3.Implies(z3.And(0 <= j, j < k), cbn[j] == z3.If(is_success(P.out_output(item)), cbs.n, 0)), patterns=[cbn[j]])),
        ("callbacks:arguments", FA([j, m], z3.Implies(z3.And(0 <= j, j < k, is_success(P.out_output(item)), 0 <= m, m < cbs.n),
                                                           cblog[j][m] == P.CbRec.dt.mk(cbs.elems[m], P.out_index(item), P.out_output(item))), patterns=[cblog[j][m]])),
    ]


def callbacks_none_after(cbn, k):
    j = z3.Int("j!cbn")
    return ("callbacks:none-for-future-receptions", FA([j], z3.Implies(j >= k, cbn[j] == 0), patterns=[cbn[j]]))


def outputs_after(c, lst, k):
    """ordered_outputs after k receptions: slot i holds the output of task i iff task i has been received and is a success."""
    i = z3.Int("i!oo")
    n = n_tasks(c)
    o = P.out_output(P.RECV[P.INV[i]])
    return [
        ("outputs:length", lst.n == n),
        ("outputs:positional", FA([i], z3.Implies(z3.And(0 <= i, i < n),
                                                        lst.elems[i] == z3.If(z3.And(0 <= P.INV[i], P.INV[i] < k, is_success(o)), o, val_none)), patterns=[lst.elems[i]])),
    ]


def no_reraise_before(c, k):
    j = z3.Int("j!nr")
    return FA([j], z3.Implies(z3.And(0 <= j, j < k), z3.Not(reraise(c, P.out_output(P.RECV[j])))), patterns=[P.RECV[j]])


def procs_created(c, k, lst=None):
    """k workers created and started, ranks p0..p0+k-1, all wired to the workers of ``self``."""
    p0, p1 = G0(c, "proc_n"), G1(c, "proc_n")
    p = z3.Int("p!pc")
    out = [
        ("workers:count", z3.And(p1 == p0 + k, G1(c, "proc_live") == k)),
        ("workers:started", FA([p], z3.Implies(z3.And(p0 <= p, p < p0 + k), z3.And(G1(c, "proc_started")[p], G1(c, "proc_daemon")[p])), patterns=[G1(c, "proc_started")[p]])),
        ("workers:run-the-workers-of-self", z3.Implies(k >= 1, z3.And(G1(c, "wk_n") == W(c).n, G1(c, "wk_elems") == W(c).elems))),
    ]
    if lst is not None:
        i = z3.Int("i!pl")
        out.append(("workers:list", z3.And(lst.n == k, FA([i], z3.Implies(z3.And(0 <= i, i < k), lst.elems[i] == p0 + i), patterns=[lst.elems[i]]))))
    return out


def queues_empty(c):
    return ("queues:fresh", z3.And(G1(c, "qin_n") == 0, G1(c, "qin_nones") == 0, G1(c, "qout_got") == 0, G1(c, "cbn") == z3.K(Int, z3.IntVal(0))))


# ---- loop invariants
def inv_create(c, k):
    return procs_created(c, k, c.locals["processes"]) + [queues_empty(c),
                                                         ("workers:startable", z3.Implies(k >= 1, z3.Or(c.old.self.use_threading, z3.Not(P.CUR_DAEMONIC))))]


def inv_submit(c, k):
    t = c.locals["tasks"]
    n = n_tasks(c)
    i = z3.Int("i!ts")
    return [
        ("tasks:remaining", z3.And(t.n == n - k, FA([i], z3.Implies(z3.And(0 <= i, i < n - k), t.elems[i] == n - 1 - i), patterns=[t.elems[i]]))),
        ("tasks:submitted-in-order", z3.And(G1(c, "qin_n") == k, G1(c, "qin_nones") == 0, submitted(c, G1(c, "qin_puts"), k))),
    ]


def _cbs(c):
    return c.locals["exec_callback"]


def inv_collect(c, k):
    n = n_tasks(c)
    stop = c.locals["stop"]
    out = [
        ("received:count", z3.And(c.locals["n_outputs"] == k, k <= n, G1(c, "qout_got") == k)),
        ("delivery", z3.Implies(k >= 1, delivery(c))),
        ("stop:iff-last-received-is-to-be-re-raised", stop == z3.And(k >= 1, reraise(c, P.out_output(P.RECV[k - 1])))),
        ("stop:none-to-re-raise-before", no_reraise_before(c, k - 1)),
    ]
    o = c.locals.get("output", UNBOUND)
    if o is not UNBOUND:
        out.append(("last-output", z3.Implies(k >= 1, o == P.out_output(P.RECV[k - 1]))))
        ix = c.locals.get("index", UNBOUND)
        if ix is not UNBOUND:
            out.append(("last-index", z3.Implies(k >= 1, ix == P.out_index(P.RECV[k - 1]))))
    out += outputs_after(c, c.locals["ordered_outputs"], k)
    out += callbacks_done(c, G1(c, "cbn"), G1(c, "cblog"), k, _cbs(c))
    out.append(callbacks_none_after(G1(c, "cbn"), k))
    return out


def inv_callbacks(c, m):
    """Inner loop, while handling the successful reception number got-1: the first m callbacks have been called."""
    got = G1(c, "qout_got")
    j = got - 1
    cbs = _cbs(c)
    cbn, cblog = G1(c, "cbn"), G1(c, "cblog")
    x = z3.Int("m!ic")
    idx, o = c.locals["index"], c.locals["output"]
    return [
        ("row:count", cbn[j] == m),
        ("row:arguments", FA([x], z3.Implies(z3.And(0 <= x, x < m), cblog[j][x] == P.CbRec.dt.mk(cbs.elems[x], idx, o)), patterns=[cblog[j][x]])),
    ] + callbacks_done(c, cbn, cblog, j, cbs) + [callbacks_none_after(cbn, got)]


def inv_sentinels(c, k):
    n = n_tasks(c)
    j = z3.Int("j!sn")
    puts = G1(c, "qin_puts")
    return [
        ("sentinels:count", z3.And(G1(c, "qin_n") == n + k, G1(c, "qin_nones") == k)),
        ("sentinels:after-the-tasks", z3.And(submitted(c, puts, n), FA([j], z3.Implies(z3.And(n <= j, j < n + k), puts[j] == P.OptInItem.dt.none)))),
    ]


def inv_join(c, k):
    p0 = G0(c, "proc_n")
    p = z3.Int("p!jn")
    return [("joined", FA([p], z3.Implies(z3.And(p0 <= p, p < p0 + k), G1(c, "proc_joined")[p]), patterns=[G1(c, "proc_joined")[p]]))]


EXEC_GHOSTS = tuple("ghost:" + n for n in ("qin_puts", "qin_n", "qin_nones", "qin_done", "qout_n", "qout_got", "cbn", "cblog", "tsc_n", "tsc_qin_n", "tsc_got",
                                           "proc_n", "proc_live", "proc_started", "proc_joined", "proc_is_thread", "proc_daemon", "wk_n", "wk_elems", "raised"))


@register
class Execute(Contract):
    targets = (CPE + ".execute",)
    prop = ("C13",)
    params = {"inputs": TList(TVal), "exec_callback": CBS, "task_submitted_callback": TOpt(P.TSubmitCb)}
    returns = TList(TVal)
    modifies = EXEC_GHOSTS
    loops = {
        0: LoopSpec(anchor="range(min(n_tasks, self.n_processes))", inv=inv_create, modifies=("processes",) + tuple(
            "ghost:" + n for n in ("proc_n", "proc_live", "proc_started", "proc_joined", "proc_is_thread", "proc_daemon", "wk_n", "wk_elems")),
                    local_types={"processes": TList(P.TProc)}),
        1: LoopSpec(anchor="tasks", inv=inv_submit, modifies=("tasks", "ghost:qin_puts", "ghost:qin_n")),
        2: LoopSpec(anchor="n_outputs != n_tasks and (not stop)", inv=inv_collect, modifies=("ordered_outputs", "ghost:qout_got", "ghost:cbn", "ghost:cblog"),
                    local_types={"index": TInt, "output": P.TResult}),
        3: LoopSpec(anchor="exec_callback", inv=inv_callbacks, modifies=("ghost:cbn", "ghost:cblog")),
        4: LoopSpec(anchor="processes", inv=inv_sentinels, modifies=("ghost:qin_puts", "ghost:qin_n", "ghost:qin_nones")),
        5: LoopSpec(anchor="processes", inv=inv_join, modifies=("ghost:proc_joined",)),
    }
    raises = {
        # an exception of a class listed in exceptions_to_re_raise is among the results of the tasks
        "WorkerException": lambda c: z3.Not(no_reraise_before(c, n_tasks(c))),
        # CPython: daemonic processes (gemseo's workers) are not allowed to have children
        "AssertionError": lambda c: z3.And(P.CUR_DAEMONIC, z3.Not(c.old.self.use_threading), n_tasks(c) >= 1),
    }

    def requires(self, c):
        v = z3.Const("v!rq", P.ValS)
        return [
            # settings validate n_processes as a PositiveInt; with n_processes <= 0 no worker is started and queue_out.get() blocks for ever
            ("at-least-one-process", c.old.self.n_processes >= 1),
            # type of exceptions_to_re_raise: tuple[type[Exception], ...]
            ("re-raised-classes-are-exception-classes", FA([v], z3.Implies(reraise(c, v), P.is_exc(v)), patterns=[reraise(c, v)])),
            # a process named SUBPROCESS_NAME is one of gemseo's worker processes, which are daemonic
            ("subprocess-name-only-in-workers", z3.Implies(P.CUR_PROC_NAME == P.str_lit(P_SUBPROCESS), P.CUR_DAEMONIC)),
        ]

    def finding_regions(self, c):
        return {"zero-tasks": n_tasks(c) == 0}

    def _termination(self, c):
        """All workers get their sentinel after the tasks and are joined."""
        np_ = n_procs(c)
        out = [(l, f) for l, f in inv_sentinels(c, np_)] + inv_join(c, np_)
        out += [(l, f) for l, f in procs_created(c, np_) if l != "workers:count"]
        out.append(("workers:count", G1(c, "proc_n") == G0(c, "proc_n") + np_))
        return out

    def _submit_callback(self, c):
        cb = c.old.task_submitted_callback
        called = z3.And(z3.Not(cb.is_none()), z3.Not(sub_path(c)))
        return [
            ("submitted-callback:called-once-iff-given", G1(c, "tsc_n") == G0(c, "tsc_n") + z3.If(called, 1, 0)),
            ("submitted-callback:after-all-submissions-before-any-collection", z3.Implies(called, z3.And(G1(c, "tsc_qin_n") == n_tasks(c), G1(c, "tsc_got") == 0))),
        ]

    def ensures(self, c):
        n = n_tasks(c)
        r = c.result
        i = z3.Int("i!post")
        m = z3.Int("m!post")
        cbs = CB(c)
        cbn, cblog = G1(c, "cbn"), G1(c, "cblog")
        j = P.INV[i]
        in_sub = sub_path(c)
        out = [
            ("result:length", r.n == n),
            # positional match: slot i = output of task i if it succeeded (did not raise, did not return an exception instance), None otherwise
            ("result:positional", FA([i], z3.Implies(z3.And(0 <= i, i < n), r.elems[i] == z3.If(succeeds(c, i), value(c, i), val_none)),
                                            patterns=[r.elems[i]])),
            # task-indexed form of the callback clause: for task i there is exactly one reception (rank INV[i], PERM being a bijection) and the
            # callbacks were called for it exactly once each, in list order, with (i, output_i), iff the task succeeded
            ("callbacks:exactly-once-per-successful-task", z3.Implies(z3.Not(in_sub), FA([i], z3.Implies(
                z3.And(0 <= i, i < n), z3.And(0 <= j, j < n, P.PERM[j] == i, cbn[j] == z3.If(succeeds(c, i), cbs.n, 0))), patterns=[P.INV[i]]))),
            ("callbacks:matching-index-and-output", z3.Implies(z3.Not(in_sub), FA([i, m], z3.Implies(
                z3.And(0 <= i, i < n, succeeds(c, i), 0 <= m, m < cbs.n), cblog[j][m] == P.CbRec.dt.mk(cbs.elems[m], i, value(c, i))), patterns=[cblog[P.INV[i]][m]]))),
            ("callbacks:no-other-call", z3.Implies(z3.Not(in_sub), callbacks_none_after(cbn, n)[1])),
        ]
        out += [(l, z3.Implies(z3.Not(in_sub), f)) for l, f in self._termination(c)]
        out += self._submit_callback(c)
        return out

    def raise_ensures(self, c, exc):
        if exc != "WorkerException":
            return []
        # the exception raised is the first (in reception order) result that is an instance of a listed class; the workers are terminated anyway
        k = G1(c, "qout_got")
        n = n_tasks(c)
        last = P.out_output(P.RECV[k - 1])
        cbs = CB(c)
        return [
            ("re-raised:is-the-first-listed-exception-received", z3.And(1 <= k, k <= n, G1(c, "raised") == last, reraise(c, last), no_reraise_before(c, k - 1))),
            ("re-raised:comes-from-an-unsuccessful-task", z3.And(z3.Not(succeeds(c, P.out_index(P.RECV[k - 1]))), 0 <= P.out_index(P.RECV[k - 1]), P.out_index(P.RECV[k - 1]) < n)),
        ] + callbacks_done(c, G1(c, "cbn"), G1(c, "cblog"), k, cbs) + [callbacks_none_after(G1(c, "cbn"), k)] + self._termination(c) + self._submit_callback(c)
