"""C17 - IDF._get_normalization_factor: the factors handed to the consistency constraints are finite and non-zero.

(This is the precondition `norm-factor-is-finite-and-non-zero` of ConsistencyConstraint._func_to_wrap in c17_formulations.py;
it holds since the repair of the degenerate normalisation recorded in known_findings.json.)
"""
from __future__ import annotations

import z3

from pyvc.contract import Contract, LoopSpec, register, schema
from pyvc.npmodel import TArr, is_inf, is_nan_r, is_ninf
from pyvc.values import TDict, TList, TObj, TRec, TStr

F1 = TArr("f", 1)
IDFC = "gemseo.formulations.idf.IDF"
OP = "gemseo.algos.optimization_problem.OptimizationProblem"
DS = "gemseo.algos.design_space.DesignSpace"
VARB = TRec("VariableBounds", {"lower_bound": F1, "upper_bound": F1}, cls="gemseo.algos._variable.Variable")
schema(DS + "#bounds", {"_variables": TDict(TStr, VARB, ordered=True)})
schema(OP + "#bounds", {"design_space": TObj(DS, schema_key=DS + "#bounds")})
schema(IDFC + "#norm", {"optimization_problem": TObj(OP, schema_key=OP + "#bounds")})


def _good(t):
    return z3.And(t != 0, z3.Not(is_inf(t)), z3.Not(is_ninf(t)), z3.Not(is_nan_r(t)))


def _inv(c, k):
    L = c.locals["norm_fact"]
    j, t = z3.Int("j!nf"), z3.Int("t!nf")
    return [("count", L.n == k),
            ("factors-finite-non-zero", z3.ForAll([j, t], z3.Implies(z3.And(0 <= j, j < L.n, 0 <= t, t < F1.dim(L.elems[j])), _good(F1.els(L.elems[j])[t]))))]


@register
class GetNormalizationFactor(Contract):
    targets = (IDFC + "._get_normalization_factor",)
    prop = ("C17",)
    numpy = "precise"
    self_schema = IDFC + "#norm"
    params = {"output_couplings": TList(TStr)}
    returns = F1
    loops = {0: LoopSpec(anchor="output_couplings", modifies=("norm_fact",), inv=_inv, local_types={"norm_fact": TList(F1), "output": TStr, "u_b": F1, "l_b": F1, "factor": F1})}

    def requires(self, c):
        V = c.old.self.optimization_problem.design_space._variables
        oc = c.old.output_couplings
        j = z3.Int("j!gnf")
        v = lambda t: V.vals[oc.elems[t]]  # noqa: E731
        return [("couplings-are-design-variables", z3.ForAll([j], z3.Implies(z3.And(0 <= j, j < oc.n), V.has(oc.elems[j])), patterns=[oc.elems[j]])),
                ("bounds-have-the-same-size", z3.ForAll([j], z3.Implies(z3.And(0 <= j, j < oc.n), F1.dim(VARB.accessor("lower_bound")(v(j))) == F1.dim(VARB.accessor("upper_bound")(v(j)))),
                                                        patterns=[oc.elems[j]]))]

    def ensures(self, c):
        r = c.result
        i = z3.Int("i!gnf")
        return [("every-factor-is-finite-and-non-zero", z3.ForAll([i], z3.Implies(z3.And(0 <= i, i < r.obj.shape[0]), _good(r.obj.elems[i]))))]
